(* C19 round 3 — proofs about the repairs 175caff (flat-directory name collisions keep the sources) and
   f7ae77e (only 'y' / 'Y' answers a prompt with yes), on the model of ZV.Cli.FioModel. *)
From Coq Require Import NArith List Bool Lia.
From ZV.Cli Require Import FsModel FioModel FioSpec FioProofs.
Import ListNotations.
Local Open Scope N_scope.

(* ------------------------------------------------------------------ has_dup *)

Lemma existsb_path_eqb : forall x l, existsb (path_eqb x) l = true <-> In x l.
Proof.
  intros x l. rewrite existsb_exists. split.
  - intros [y [Hy E]]. apply path_eqb_eq in E. subst y. exact Hy.
  - intros H. exists x. split; [exact H|apply path_eqb_refl].
Qed.

Lemma has_dup_false_NoDup : forall l, has_dup l = false <-> NoDup l.
Proof.
  induction l as [|x tl IH]; cbn [has_dup].
  - split; [constructor|reflexivity].
  - rewrite orb_false_iff. split.
    + intros [A B]. constructor; [|apply IH; exact B].
      intros X. apply existsb_path_eqb in X. congruence.
    + intros H. inversion H as [|? ? H1 H2]; subst. split; [|apply IH; exact H2].
      destruct (existsb (path_eqb x) tl) eqn:E; [|reflexivity].
      apply existsb_path_eqb in E. contradiction.
Qed.

Lemma NoDup_map_inj : forall (f : path -> path) l a b,
  NoDup (map f l) -> In a l -> In b l -> f a = f b -> a = b.
Proof.
  induction l as [|x tl IH]; intros a b Hnd Ha Hb E; [contradiction|].
  cbn [map] in Hnd. inversion Hnd as [|? ? H1 H2]; subst.
  destruct Ha as [Ha|Ha]; destruct Hb as [Hb|Hb]; subst.
  - reflexivity.
  - exfalso. apply H1. rewrite E. apply in_map. exact Hb.
  - exfalso. apply H1. rewrite <- E. apply in_map. exact Ha.
  - apply IH; assumption.
Qed.

(* ------------------------------------------------------------------ T1: a flat collision keeps every source *)

Theorem flat_collision_keeps_sources_thm : forall i ls s vs,
  flat_collision i (eff_srcs i ls s) = true ->
  Forall (fun o => is_unlink_src o = false) (fio_ops i ls s vs).
Proof.
  intros i ls s vs H. apply Forall_forall. intros o Ho.
  destruct o; try reflexivity. exfalso.
  destruct (src_removed_only_if_thm i ls s vs p Ho) as [_ [Erm _]].
  unfold eff_rm in Erm. rewrite H in Erm. cbn [negb] in Erm. rewrite andb_false_r in Erm. discriminate.
Qed.

(* ------------------------------------------------------------------ removeSrcFile off: every source stays where it is *)

Theorem rm_off_safe_main : forall rel i names s0 vs,
  wf_shared_dst i names s0 -> eff_rm i names = false -> is_concat i names = false ->
  forall src f0, In src names -> look s0 src = Reg f0 ->
  all_pref (safe2 rel (target s0 src) (f_bytes f0) (dst_of i names src)) (fio_main i names s0 vs) s0 None.
Proof.
  intros rel i names s0 vs [Hnd [Hw2 [Hw4 Hw5]]] Hrm Ec src f0 Hin Hlook.
  set (org := target s0 src).
  assert (Horg : s0 org = Reg f0) by (unfold org; rewrite <- look_target; exact Hlook).
  assert (Hhold : holds org (f_bytes f0) s0) by (exists f0; split; [exact Horg|reflexivity]).
  assert (Hnodst : forall b d p, In b names -> dsel_of i names b = Some d -> dsel_path d = Some p -> org <> p).
  { intros b d p Hb Ed Ep. unfold org, target. destruct (s0 src) eqn:Es; try (apply (Hw2 src b d p Hin Hb Ed Ep)).
    apply (proj2 (Hw5 src t Hin Es) b d p Hb Ed Ep). }
  assert (Hslots : forall b d s' q, In b names -> dsel_of i names b = Some d -> lsub s0 s' -> dslots s' d q -> org <> q).
  { intros b d s' q Hb Ed HL Hq. destruct d as [|c|p|p]; cbn [dslots] in Hq; try contradiction.
    - subst q. apply (Hnodst b (DShared p) p Hb Ed eq_refl).
    - assert (q = p) by (apply (dslots_plain s0 s' p q HL (Hw4 b (DOwn p) p Hb Ed eq_refl) Hq)). subst q.
      apply (Hnodst b (DOwn p) p Hb Ed eq_refl). }
  unfold fio_main.
  destruct (dict_check i s0 vs) as [n|].
  { apply nomod_tail_safe; [exact Hhold|exact I|repeat constructor]. }
  rewrite Ec, Hrm.
  destruct (loop i false (dsel_of i names) vs [] names s0 false) as [ops e] eqn:El.
  assert (Hsegs : forall src' d', In src' names -> dsel_of i names src' = Some d' ->
            forall i' s' ops r, sim i i' -> lsub s0 s' -> file_ops i' false s' src' d' (vs src') = (ops, r) ->
                             Forall (avoids (eq org)) ops).
  { intros src' d' Hin' Ed' i' s' ops' r' _ HL Ef.
    apply (seg_avoid_from_mod _ _ _ _ _ _ _ _ _ Ef).
    - intros X. discriminate X.
    - intros q Hq X. subst q. apply (Hslots src' d' s' org Hin' Ed' HL Hq). reflexivity. }
  destruct (loop_untouched rel i false (dsel_of i names) vs s0 org (f_bytes f0) (dst_of i names src) names _ _ _ _ _
              Hsegs Hhold (lsub_refl s0) El) as [Q1 [Q2 Q3]].
  apply all_pref_app. split; [exact Q1|].
  apply (untouched_safe rel org (f_bytes f0) _); [exact Q2|exact Q3|apply nomod_avoids; apply exit_of_nomod].
Qed.

(* ------------------------------------------------------------------ compression into a flat directory *)

Lemma in_dir_inj : forall d x y, in_dir d x = in_dir d y -> x = y.
Proof.
  intros d x y H. unfold in_dir in H. destruct (rev d) as [|c r].
  - inversion H. reflexivity.
  - destruct (c =? slash).
    + apply app_inv_head in H. exact H.
    + apply app_inv_head in H. inversion H. reflexivity.
Qed.

Lemma flat_compress_dst : forall i names d a p,
  i_mode i = Compress -> eff_out i names = OutDir d -> dst_of i names a = Some p ->
  p = in_dir d (basename a) ++ sfx_zst.
Proof.
  intros i names d a p Hm Eo H. unfold dst_of, dsel_of in H. rewrite Hm, Eo in H.
  destruct (is_stdin a); [discriminate H|].
  unfold dstname in H. rewrite Hm in H. cbn [dstname_c option_map] in H. inversion H. reflexivity.
Qed.

Lemma flat_compress_dst_distinct : forall i names d,
  i_mode i = Compress -> eff_out i names = OutDir d -> flat_collision i names = false ->
  forall a b p, In a names -> In b names -> a <> b -> dst_of i names a = Some p -> dst_of i names b <> Some p.
Proof.
  intros i names d Hm Eo Hfc a b p Ha Hb Hne Da Db.
  unfold flat_collision in Hfc. rewrite Eo in Hfc. apply has_dup_false_NoDup in Hfc.
  pose proof (flat_compress_dst i names d a p Hm Eo Da) as E1.
  pose proof (flat_compress_dst i names d b p Hm Eo Db) as E2.
  rewrite E1 in E2. apply app_inv_tail in E2. apply in_dir_inj in E2.
  apply Hne. apply (NoDup_map_inj basename names a b Hfc Ha Hb E2).
Qed.

Theorem flat_compress_safe_main : forall rel i names s0 vs d,
  i_mode i = Compress -> eff_out i names = OutDir d -> wf_shared_dst i names s0 ->
  forall src f0, In src names -> look s0 src = Reg f0 -> verdict_sound rel i (f_bytes f0) (vs src) ->
  all_pref (safe2 rel (target s0 src) (f_bytes f0) (dst_of i names src)) (fio_main i names s0 vs) s0 None.
Proof.
  intros rel i names s0 vs d Hm Eo Hwf src f0 Hin Hlook Hsound.
  destruct (flat_collision i names) eqn:Efc.
  - apply rm_off_safe_main; try assumption.
    + unfold eff_rm. rewrite Efc. cbn [negb]. apply andb_false_r.
    + unfold is_concat. rewrite Eo. apply andb_false_r.
  - apply all_states_safe_main; try assumption.
    destruct Hwf as [H1 [H2 [H4 H5]]]. split; [exact H1|]. split; [exact H2|]. split; [|split; [exact H4|exact H5]].
    apply (flat_compress_dst_distinct i names d Hm Eo Efc).
Qed.

Theorem flat_compress_all_states_safe : forall rel i ls s0 vs d,
  i_mode i = Compress -> eff_out i (eff_srcs i ls s0) = OutDir d -> wf_shared_dst i (eff_srcs i ls s0) s0 ->
  forall src f0, In src (eff_srcs i ls s0) -> look s0 src = Reg f0 -> verdict_sound rel i (f_bytes f0) (vs src) ->
  all_pref (safe2 rel (target s0 src) (f_bytes f0) (dst_of i (eff_srcs i ls s0) src)) (fio_ops i ls s0 vs) s0 None.
Proof.
  intros rel i ls s0 vs d Hm Eo Hwf src f0 Hin Hl Hsound. unfold fio_ops. rewrite (pre_names i ls s0 src Hin).
  apply (flat_compress_safe_main rel i _ s0 vs d); assumption.
Qed.

Theorem crash_safe_flat_compress_thm : forall rel i ls s0 vs d,
  i_mode i = Compress -> eff_out i (eff_srcs i ls s0) = OutDir d -> wf_shared_dst i (eff_srcs i ls s0) s0 ->
  forall src f0, In src (eff_srcs i ls s0) -> look s0 src = Reg f0 -> verdict_sound rel i (f_bytes f0) (vs src) ->
  forall k, safe rel (target s0 src) (f_bytes f0) (dst_of i (eff_srcs i ls s0) src) (run (firstn k (fio_ops i ls s0 vs)) s0) /\
            safe rel (target s0 src) (f_bytes f0) (dst_of i (eff_srcs i ls s0) src) (run (sigint_ops k (fio_ops i ls s0 vs)) s0).
Proof.
  intros rel i ls s0 vs d Hm Eo Hwf src f0 Hin Hs Hsound k.
  pose proof (flat_compress_all_states_safe rel i ls s0 vs d Hm Eo Hwf src f0 Hin Hs Hsound) as H.
  apply (all_pref_firstn _ _ _ _ k) in H. split; [apply H|].
  unfold sigint_ops. rewrite run_app, run_handler_ops. apply H.
Qed.

(* removeSrcFile off (flat collision in either mode, --keep, ...), destinations may collide: every regular source
   keeps its bytes under its key in every state, also after SIGINT *)
Theorem rm_off_sources_intact_thm : forall rel i ls s0 vs,
  wf_shared_dst i (eff_srcs i ls s0) s0 -> eff_rm i (eff_srcs i ls s0) = false -> is_concat i (eff_srcs i ls s0) = false ->
  forall src f0, In src (eff_srcs i ls s0) -> look s0 src = Reg f0 ->
  forall k, safe rel (target s0 src) (f_bytes f0) (dst_of i (eff_srcs i ls s0) src) (run (firstn k (fio_ops i ls s0 vs)) s0) /\
            safe rel (target s0 src) (f_bytes f0) (dst_of i (eff_srcs i ls s0) src) (run (sigint_ops k (fio_ops i ls s0 vs)) s0).
Proof.
  intros rel i ls s0 vs Hwf Hrm Ec src f0 Hin Hs k.
  assert (H : all_pref (safe2 rel (target s0 src) (f_bytes f0) (dst_of i (eff_srcs i ls s0) src)) (fio_ops i ls s0 vs) s0 None).
  { unfold fio_ops. rewrite (pre_names i ls s0 src Hin). apply rm_off_safe_main; assumption. }
  apply (all_pref_firstn _ _ _ _ k) in H. split; [apply H|].
  unfold sigint_ops. rewrite run_app, run_handler_ops. apply H.
Qed.

(* ------------------------------------------------------------------ a937acd: the output written for another input is never replaced *)

(* a destination that is (UTIL_isSameFile) an output this command has completed for another input: the segment creates,
   removes and writes nothing -- with -f and with a "y" too -- and reports a failure *)
Theorem own_output_not_replaced_thm : forall i rm own s src p v ops r,
  own_refused own s src p = true ->
  file_ops (inv_for i own s src (DOwn p)) rm s src (DOwn p) v = (ops, r) ->
  Forall nomod ops /\ r <> FThrow 0 /\ (r = FOk -> i_excl i = true).
Proof.
  intros i rm own s src p v ops r Hr Ef. cbn [inv_for] in Ef. rewrite Hr in Ef.
  unfold own_refused in Hr. apply andb_true_iff in Hr. destruct Hr as [Hreg _].
  destruct (look s p) as [|f| |t] eqn:El; try discriminate Hreg.
  pose proof (file_ops_refused (no_ovw i) rm s src p v f ops r El eq_refl Ef) as Hn.
  split; [exact Hn|].
  unfold file_ops in Ef. destruct (src_gate (no_ovw i) s src v) eqn:Eg.
  - inversion Ef. split; [discriminate|discriminate].
  - inversion Ef. split; [discriminate|]. intros _. exact (gate_skip_excl _ _ _ _ Eg).
  - destruct (codec (no_ovw i) (DOwn p) v) as [chunks out].
    assert (E : open_dst (ovw (no_ovw i)) s v (Some src) p (negb (is_stdin src)) = ([], None)).
    { unfold open_dst. destruct (same_file s src p); [reflexivity|]. rewrite El. reflexivity. }
    rewrite E in Ef. inversion Ef. split; discriminate.
Qed.

(* the list of completed outputs only records a destination that was created, written and closed without error *)
Lemma completes_own : forall i s src d v, completes i s src d v = true -> exists p, d = DOwn p.
Proof. intros i s src d v H. destruct d; try discriminate H. eexists. reflexivity. Qed.

(* ------------------------------------------------------------------ the prompt *)

Lemma confirm_iff : forall i, confirm i = true <-> (i_answer i = Some 121 \/ i_answer i = Some 89).
Proof.
  intros i. unfold confirm, yes_byte. destruct (i_answer i) as [b|].
  - rewrite orb_true_iff, !N.eqb_eq. split; intros [H|H]; [left|right|left|right]; congruence.
  - split; [discriminate|intros [H|H]; discriminate].
Qed.

(* whatever is typed at the prompt, unless it starts with 'y' or 'Y' (a NUL byte, end of input, any other byte),
   and whatever the faults: a pre-existing regular file is never unlinked, truncated or written *)
Theorem no_clobber_unless_y_thm : forall i ls s0 vs p f,
  i_force i = false -> i_answer i <> Some 121 -> i_answer i <> Some 89 -> s0 p = Reg f ->
  (~ In p (eff_srcs i ls s0) \/ eff_rm i (eff_srcs i ls s0) = false) ->
  all_pref (fun s h => s p = Reg f /\ unlinked h s p = Reg f) (fio_ops i ls s0 vs) s0 None.
Proof.
  intros i ls s0 vs p f Hf H1 H2 Hs Hsrc. apply no_clobber_thm; try assumption.
  destruct (confirm i) eqn:E; [|reflexivity]. apply confirm_iff in E. destruct E; contradiction.
Qed.

(* several sources into one -o file: the concatenation prompt answered with anything but y / Y: the run is [exit 1] *)
Theorem concat_prompt_unless_y_thm : forall i names s vs p,
  i_force i = false -> i_answer i <> Some 121 -> i_answer i <> Some 89 ->
  is_concat i names = true -> eff_out i names = OutFile p -> dict_check i s vs = None ->
  fio_main i names s vs = [OExit 1].
Proof.
  intros i names s vs p Hf H1 H2 Ec Eo Ed. unfold fio_main. rewrite Ed, Ec, Eo.
  assert (E : ovw i = false).
  { unfold ovw. rewrite Hf. cbn [orb]. destruct (confirm i) eqn:E; [|reflexivity]. apply confirm_iff in E. destruct E; contradiction. }
  rewrite E. reflexivity.
Qed.

(* satisfiability: zstd -f --rm --output-dir-flat out d1/a d2/a  (d1/a, d2/a regular files, out a directory) *)
Definition p_d1a : path := [100; 49; 47; 97].
Definition p_d2a : path := [100; 50; 47; 97].
Definition p_out : path := [111; 117; 116].
Definition ex3_inv : inv := mkInv Compress [p_d1a; p_d2a] (OutDir p_out) true [true] None false false None None.
Definition ex3_fs : fs := upd (upd (upd (fun _ => Absent) p_d1a (Reg (mkFile [1] true))) p_d2a (Reg (mkFile [2] true))) p_out Dir.

Example ex3_collision : flat_collision ex3_inv [p_d1a; p_d2a] = true /\ eff_rm ex3_inv [p_d1a; p_d2a] = false.
Proof. split; reflexivity. Qed.

Example ex3_wf : wf_shared_dst ex3_inv (eff_srcs ex3_inv no_ls ex3_fs) ex3_fs.
Proof.
  assert (En : eff_srcs ex3_inv no_ls ex3_fs = [p_d1a; p_d2a]) by reflexivity. rewrite En.
  assert (Hd : forall b d p, In b [p_d1a; p_d2a] -> dsel_of ex3_inv [p_d1a; p_d2a] b = Some d -> dsel_path d = Some p ->
                             p = [111; 117; 116; 47; 97; 46; 122; 115; 116]).
  { intros b d p [Hb|[Hb|[]]] Ed Ep; subst b; vm_compute in Ed; inversion Ed; subst d; cbn [dsel_path] in Ep; inversion Ep; reflexivity. }
  split; [|split; [|split]].
  - constructor; [intros [X|[]]; discriminate X|]. constructor; [intros []|constructor].
  - intros a b d p Ha Hb Ed Ep. rewrite (Hd b d p Hb Ed Ep). destruct Ha as [Ha|[Ha|[]]]; subst a; discriminate.
  - intros b d p Hb Ed Ep. rewrite (Hd b d p Hb Ed Ep). reflexivity.
  - intros a t [Ha|[Ha|[]]] Es; subst a; vm_compute in Es; discriminate Es.
Qed.

(* the collision: --rm is off (175caff), the first output is completed, the second source is refused because its
   destination is the output written for the first one (a937acd): exit 1, both sources stay, out/a.zst is d1/a's output *)
Example ex3_ops :
  let ops := fio_ops ex3_inv no_ls ex3_fs (fun p => ok_verdict [p]) in
  run ops ex3_fs p_d1a = ex3_fs p_d1a /\ run ops ex3_fs p_d2a = ex3_fs p_d2a /\ exit_code ops = Some 1 /\
  run ops ex3_fs [111; 117; 116; 47; 97; 46; 122; 115; 116] = Reg (mkFile p_d1a true).
Proof. vm_compute. repeat split; reflexivity. Qed.

(* zstd -d -f --rm a.zst a.zstd (both -> a): the second source is refused and kept, the first output stays *)
Definition p_azst : path := [97; 46; 122; 115; 116].
Definition p_azstd : path := [97; 46; 122; 115; 116; 100].
Definition ex4_inv : inv := mkInv Decompress [p_azst; p_azstd] OutDefault true [true] None false false None None.
Definition ex4_fs : fs := upd (upd (fun _ => Absent) p_azst (Reg (mkFile [1] true))) p_azstd (Reg (mkFile [2] true)).
Example ex4_ops :
  let ops := fio_ops ex4_inv no_ls ex4_fs (fun p => mkVerdict [] Ret0 [FrOk [p]] None true true true true true true true) in
  run ops ex4_fs p_azst = Absent /\ run ops ex4_fs p_azstd = ex4_fs p_azstd /\ exit_code ops = Some 1 /\
  run ops ex4_fs [97] = Reg (mkFile p_azst true).
Proof. vm_compute. repeat split; reflexivity. Qed.

Example ex_nul_answer : confirm (mkInv Compress [[97]] OutDefault false [] (Some 0) false false None None) = false /\
                        confirm (mkInv Compress [[97]] OutDefault false [] (Some 256) false false None None) = false /\
                        confirm (mkInv Compress [[97]] OutDefault false [] (Some 89) false false None None) = true.
Proof. repeat split; reflexivity. Qed.
