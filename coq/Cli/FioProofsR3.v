(* C19 round 3 — proofs about the repairs 175caff (flat-directory name collisions keep the sources) and
   f7ae77e (only 'y' / 'Y' answers a prompt with yes), on the model of ZV.Cli.FioModel. *)
From Coq Require Import NArith List Bool Lia.
From ZV.Cli Require Import FsModel FioModel FioSpec FioProofs.
Import ListNotations.
Local Open Scope N_scope.

(* ------------------------------------------------------------------ has_dup *)

Lemma existsb_path_eqb : forall x l, existsb (path_eqb x) l = true <-> In x l.
Proof.
  intros x l. rewrite existsb_exists. split.
  - intros [y [Hy E]]. apply path_eqb_eq in E. subst y. exact Hy.
  - intros H. exists x. split; [exact H|apply path_eqb_refl].
Qed.

Lemma has_dup_false_NoDup : forall l, has_dup l = false <-> NoDup l.
Proof.
  induction l as [|x tl IH]; cbn [has_dup].
  - split; [constructor|reflexivity].
  - rewrite orb_false_iff. split.
    + intros [A B]. constructor; [|apply IH; exact B].
      intros X. apply existsb_path_eqb in X. congruence.
    + intros H. inversion H as [|? ? H1 H2]; subst. split; [|apply IH; exact H2].
      destruct (existsb (path_eqb x) tl) eqn:E; [|reflexivity].
      apply existsb_path_eqb in E. contradiction.
Qed.

Lemma NoDup_map_inj : forall (f : path -> path) l a b,
  NoDup (map f l) -> In a l -> In b l -> f a = f b -> a = b.
Proof.
  induction l as [|x tl IH]; intros a b Hnd Ha Hb E; [contradiction|].
  cbn [map] in Hnd. inversion Hnd as [|? ? H1 H2]; subst.
  destruct Ha as [Ha|Ha]; destruct Hb as [Hb|Hb]; subst.
  - reflexivity.
  - exfalso. apply H1. rewrite E. apply in_map. exact Hb.
  - exfalso. apply H1. rewrite <- E. apply in_map. exact Ha.
  - apply IH; assumption.
Qed.

(* ------------------------------------------------------------------ T1: a flat collision keeps every source *)

Theorem flat_collision_keeps_sources_thm : forall i ls s vs,
  flat_collision i (eff_srcs i ls s) = true ->
  Forall (fun o => is_unlink_src o = false) (fio_ops i ls s vs).
Proof.
  intros i ls s vs H. apply Forall_forall. intros o Ho.
  destruct o; try reflexivity. exfalso.
  destruct (src_removed_only_if_thm i ls s vs p Ho) as [_ [Erm _]].
  unfold eff_rm in Erm. rewrite H in Erm. cbn [negb] in Erm. rewrite andb_false_r in Erm. discriminate.
Qed.

(* ------------------------------------------------------------------ removeSrcFile off: every source stays where it is *)

Theorem rm_off_safe_main : forall rel i names s0 vs,
  wf_shared_dst i names s0 -> eff_rm i names = false -> is_concat i names = false ->
  forall src f0, In src names -> look s0 src = Reg f0 ->
  all_pref (safe2 rel (target s0 src) (f_bytes f0) (dst_of i names src)) (fio_main i names s0 vs) s0 None.
Proof.
  intros rel i names s0 vs [Hnd [Hw2 [Hw4 Hw5]]] Hrm Ec src f0 Hin Hlook.
  set (org := target s0 src).
  assert (Horg : s0 org = Reg f0) by (unfold org; rewrite <- look_target; exact Hlook).
  assert (Hhold : holds org (f_bytes f0) s0) by (exists f0; split; [exact Horg|reflexivity]).
  assert (Hnodst : forall b d p, In b names -> dsel_of i names b = Some d -> dsel_path d = Some p -> org <> p).
  { intros b d p Hb Ed Ep. unfold org, target. destruct (s0 src) eqn:Es; try (apply (Hw2 src b d p Hin Hb Ed Ep)).
    apply (proj2 (Hw5 src t Hin Es) b d p Hb Ed Ep). }
  assert (Hslots : forall b d s' q, In b names -> dsel_of i names b = Some d -> lsub s0 s' -> dslots s' d q -> org <> q).
  { intros b d s' q Hb Ed HL Hq. destruct d as [|c|p|p]; cbn [dslots] in Hq; try contradiction.
    - subst q. apply (Hnodst b (DShared p) p Hb Ed eq_refl).
    - assert (q = p) by (apply (dslots_plain s0 s' p q HL (Hw4 b (DOwn p) p Hb Ed eq_refl) Hq)). subst q.
      apply (Hnodst b (DOwn p) p Hb Ed eq_refl). }
  unfold fio_main.
  destruct (dict_check i s0 vs) as [n|].
  { apply nomod_tail_safe; [exact Hhold|exact I|repeat constructor]. }
  rewrite Ec, Hrm.
  destruct (loop i false (dsel_of i names) vs [] names s0 false) as [ops e] eqn:El.
  assert (Hsegs : forall src' d', In src' names -> dsel_of i names src' = Some d' ->
            forall i' s' ops r, sim i i' -> lsub s0 s' -> file_ops i' false s' src' d' (vs src') = (ops, r) ->
                             Forall (avoids (eq org)) ops).
  { intros src' d' Hin' Ed' i' s' ops' r' _ HL Ef.
    apply (seg_avoid_from_mod _ _ _ _ _ _ _ _ _ Ef).
    - intros X. discriminate X.
    - intros q Hq X. subst q. apply (Hslots src' d' s' org Hin' Ed' HL Hq). reflexivity. }
  destruct (loop_untouched rel i false (dsel_of i names) vs s0 org (f_bytes f0) (dst_of i names src) names _ _ _ _ _
              Hsegs Hhold (lsub_refl s0) El) as [Q1 [Q2 Q3]].
  apply all_pref_app. split; [exact Q1|].
  apply (untouched_safe rel org (f_bytes f0) _); [exact Q2|exact Q3|apply nomod_avoids; apply exit_of_nomod].
Qed.

(* ------------------------------------------------------------------ compression into a flat directory *)

Lemma in_dir_inj : forall d x y, in_dir d x = in_dir d y -> x = y.
Proof.
  intros d x y H. unfold in_dir in H. destruct (rev d) as [|c r].
  - inversion H. reflexivity.
  - destruct (c =? slash).
    + apply app_inv_head in H. exact H.
    + apply app_inv_head in H. inversion H. reflexivity.
Qed.

Lemma flat_compress_dst : forall i names d a p,
  i_mode i = Compress -> eff_out i names = OutDir d -> dst_of i names a = Some p ->
  p = in_dir d (basename a) ++ sfx_zst.
Proof.
  intros i names d a p Hm Eo H. unfold dst_of, dsel_of in H. rewrite Hm, Eo in H.
  destruct (is_stdin a); [discriminate H|].
  unfold dstname in H. rewrite Hm in H. cbn [dstname_c option_map] in H. inversion H. reflexivity.
Qed.

Lemma flat_compress_dst_distinct : forall i names d,
  i_mode i = Compress -> eff_out i names = OutDir d -> flat_collision i names = false ->
  forall a b p, In a names -> In b names -> a <> b -> dst_of i names a = Some p -> dst_of i names b <> Some p.
Proof.
  intros i names d Hm Eo Hfc a b p Ha Hb Hne Da Db.
  unfold flat_collision in Hfc. rewrite Eo in Hfc. apply has_dup_false_NoDup in Hfc.
  pose proof (flat_compress_dst i names d a p Hm Eo Da) as E1.
  pose proof (flat_compress_dst i names d b p Hm Eo Db) as E2.
  rewrite E1 in E2. apply app_inv_tail in E2. apply in_dir_inj in E2.
  apply Hne. apply (NoDup_map_inj basename names a b Hfc Ha Hb E2).
Qed.

Theorem flat_compress_safe_main : forall rel i names s0 vs d,
  i_mode i = Compress -> eff_out i names = OutDir d -> wf_shared_dst i names s0 ->
  forall src f0, In src names -> look s0 src = Reg f0 -> verdict_sound rel i (f_bytes f0) (vs src) ->
  all_pref (safe2 rel (target s0 src) (f_bytes f0) (dst_of i names src)) (fio_main i names s0 vs) s0 None.
Proof.
  intros rel i names s0 vs d Hm Eo Hwf src f0 Hin Hlook Hsound.
  destruct (flat_collision i names) eqn:Efc.
  - apply rm_off_safe_main; try assumption.
    + unfold eff_rm. rewrite Efc. cbn [negb]. apply andb_false_r.
    + unfold is_concat. rewrite Eo. apply andb_false_r.
  - apply all_states_safe_main; try assumption.
    destruct Hwf as [H1 [H2 [H4 H5]]]. split; [exact H1|]. split; [exact H2|]. split; [|split; [exact H4|exact H5]].
    apply (flat_compress_dst_distinct i names d Hm Eo Efc).
Qed.

Theorem flat_compress_all_states_safe : forall rel i ls s0 vs d,
  i_mode i = Compress -> eff_out i (eff_srcs i ls s0) = OutDir d -> wf_shared_dst i (eff_srcs i ls s0) s0 ->
  forall src f0, In src (eff_srcs i ls s0) -> look s0 src = Reg f0 -> verdict_sound rel i (f_bytes f0) (vs src) ->
  all_pref (safe2 rel (target s0 src) (f_bytes f0) (dst_of i (eff_srcs i ls s0) src)) (fio_ops i ls s0 vs) s0 None.
Proof.
  intros rel i ls s0 vs d Hm Eo Hwf src f0 Hin Hl Hsound. unfold fio_ops. rewrite (pre_names i ls s0 src Hin).
  apply (flat_compress_safe_main rel i _ s0 vs d); assumption.
Qed.

Theorem crash_safe_flat_compress_thm : forall rel i ls s0 vs d,
  i_mode i = Compress -> eff_out i (eff_srcs i ls s0) = OutDir d -> wf_shared_dst i (eff_srcs i ls s0) s0 ->
  forall src f0, In src (eff_srcs i ls s0) -> look s0 src = Reg f0 -> verdict_sound rel i (f_bytes f0) (vs src) ->
  forall k, safe rel (target s0 src) (f_bytes f0) (dst_of i (eff_srcs i ls s0) src) (run (firstn k (fio_ops i ls s0 vs)) s0) /\
            safe rel (target s0 src) (f_bytes f0) (dst_of i (eff_srcs i ls s0) src) (run (sigint_ops k (fio_ops i ls s0 vs)) s0).
Proof.
  intros rel i ls s0 vs d Hm Eo Hwf src f0 Hin Hs Hsound k.
  pose proof (flat_compress_all_states_safe rel i ls s0 vs d Hm Eo Hwf src f0 Hin Hs Hsound) as H.
  apply (all_pref_firstn _ _ _ _ k) in H. split; [apply H|].
  unfold sigint_ops. rewrite run_app, run_handler_ops. apply H.
Qed.

(* removeSrcFile off (flat collision in either mode, --keep, ...), destinations may collide: every regular source
   keeps its bytes under its key in every state, also after SIGINT *)
Theorem rm_off_sources_intact_thm : forall rel i ls s0 vs,
  wf_shared_dst i (eff_srcs i ls s0) s0 -> eff_rm i (eff_srcs i ls s0) = false -> is_concat i (eff_srcs i ls s0) = false ->
  forall src f0, In src (eff_srcs i ls s0) -> look s0 src = Reg f0 ->
  forall k, safe rel (target s0 src) (f_bytes f0) (dst_of i (eff_srcs i ls s0) src) (run (firstn k (fio_ops i ls s0 vs)) s0) /\
            safe rel (target s0 src) (f_bytes f0) (dst_of i (eff_srcs i ls s0) src) (run (sigint_ops k (fio_ops i ls s0 vs)) s0).
Proof.
  intros rel i ls s0 vs Hwf Hrm Ec src f0 Hin Hs k.
  assert (H : all_pref (safe2 rel (target s0 src) (f_bytes f0) (dst_of i (eff_srcs i ls s0) src)) (fio_ops i ls s0 vs) s0 None).
  { unfold fio_ops. rewrite (pre_names i ls s0 src Hin). apply rm_off_safe_main; assumption. }
  apply (all_pref_firstn _ _ _ _ k) in H. split; [apply H|].
  unfold sigint_ops. rewrite run_app, run_handler_ops. apply H.
Qed.

(* ------------------------------------------------------------------ a937acd: the output written for another input is never replaced *)

(* a destination that is (UTIL_isSameFile) an output this command has completed for another input: the segment creates,
   removes and writes nothing -- with -f and with a "y" too -- and reports a failure *)
Theorem own_output_not_replaced_thm : forall i rm own s src p v ops r,
  own_refused own s src p = true ->
  file_ops (inv_for i own s src (DOwn p)) rm s src (DOwn p) v = (ops, r) ->
  Forall nomod ops /\ r <> FThrow 0 /\ (r = FOk -> i_excl i = true).
Proof.
  intros i rm own s src p v ops r Hr Ef. cbn [inv_for] in Ef. rewrite Hr in Ef.
  unfold own_refused in Hr. apply andb_true_iff in Hr. destruct Hr as [Hreg _].
  destruct (look s p) as [|f| |t] eqn:El; try discriminate Hreg.
  pose proof (file_ops_refused (no_ovw i) rm s src p v f ops r El eq_refl Ef) as Hn.
  split; [exact Hn|].
  unfold file_ops in Ef. destruct (src_gate (no_ovw i) s src v) eqn:Eg.
  - inversion Ef. split; [discriminate|discriminate].
  - inversion Ef. split; [discriminate|]. intros _. exact (gate_skip_excl _ _ _ _ Eg).
  - destruct (codec (no_ovw i) (DOwn p) v) as [chunks out].
    assert (E : open_dst (ovw (no_ovw i)) s v (Some src) p (negb (is_stdin src)) = ([], None)).
    { unfold open_dst. destruct (same_file s src p); [reflexivity|]. rewrite El. reflexivity. }
    rewrite E in Ef. inversion Ef. split; discriminate.
Qed.

(* the list of completed outputs only records a destination that was created, written and closed without error *)
Lemma completes_own : forall i s src d v, completes i s src d v = true -> exists p, d = DOwn p.
Proof. intros i s src d v H. destruct d; try discriminate H. eexists. reflexivity. Qed.

(* ------------------------------------------------------------------ the prompt *)

Lemma confirm_iff : forall i, confirm i = true <-> (i_answer i = Some 121 \/ i_answer i = Some 89).
Proof.
  intros i. unfold confirm, yes_byte. destruct (i_answer i) as [b|].
  - rewrite orb_true_iff, !N.eqb_eq. split; intros [H|H]; [left|right|left|right]; congruence.
  - split; [discriminate|intros [H|H]; discriminate].
Qed.

(* whatever is typed at the prompt, unless it starts with 'y' or 'Y' (a NUL byte, end of input, any other byte),
   and whatever the faults: a pre-existing regular file is never unlinked, truncated or written *)
Theorem no_clobber_unless_y_thm : forall i ls s0 vs p f,
  i_force i = false -> i_answer i <> Some 121 -> i_answer i <> Some 89 -> s0 p = Reg f ->
  (~ In p (eff_srcs i ls s0) \/ eff_rm i (eff_srcs i ls s0) = false) ->
  all_pref (fun s h => s p = Reg f /\ unlinked h s p = Reg f) (fio_ops i ls s0 vs) s0 None.
Proof.
  intros i ls s0 vs p f Hf H1 H2 Hs Hsrc. apply no_clobber_thm; try assumption.
  destruct (confirm i) eqn:E; [|reflexivity]. apply confirm_iff in E. destruct E; contradiction.
Qed.

(* several sources into one -o file: the concatenation prompt answered with anything but y / Y: the run is [exit 1] *)
Theorem concat_prompt_unless_y_thm : forall i names s vs p,
  i_force i = false -> i_answer i <> Some 121 -> i_answer i <> Some 89 ->
  is_concat i names = true -> eff_out i names = OutFile p -> dict_check i s vs = None ->
  fio_main i names s vs = [OExit 1].
Proof.
  intros i names s vs p Hf H1 H2 Ec Eo Ed. unfold fio_main. rewrite Ed, Ec, Eo.
  assert (E : ovw i = false).
  { unfold ovw. rewrite Hf. cbn [orb]. destruct (confirm i) eqn:E; [|reflexivity]. apply confirm_iff in E. destruct E; contradiction. }
  rewrite E. reflexivity.
Qed.

(* satisfiability: zstd -f --rm --output-dir-flat out d1/a d2/a  (d1/a, d2/a regular files, out a directory) *)
Definition p_d1a : path := [100; 49; 47; 97].
Definition p_d2a : path := [100; 50; 47; 97].
Definition p_out : path := [111; 117; 116].
Definition ex3_inv : inv := mkInv Compress [p_d1a; p_d2a] (OutDir p_out) true [true] None false false None None.
Definition ex3_fs : fs := upd (upd (upd (fun _ => Absent) p_d1a (Reg (mkFile [1] true))) p_d2a (Reg (mkFile [2] true))) p_out Dir.

Example ex3_collision : flat_collision ex3_inv [p_d1a; p_d2a] = true /\ eff_rm ex3_inv [p_d1a; p_d2a] = false.
Proof. split; reflexivity. Qed.

Example ex3_wf : wf_shared_dst ex3_inv (eff_srcs ex3_inv no_ls ex3_fs) ex3_fs.
Proof.
  assert (En : eff_srcs ex3_inv no_ls ex3_fs = [p_d1a; p_d2a]) by reflexivity. rewrite En.
  assert (Hd : forall b d p, In b [p_d1a; p_d2a] -> dsel_of ex3_inv [p_d1a; p_d2a] b = Some d -> dsel_path d = Some p ->
                             p = [111; 117; 116; 47; 97; 46; 122; 115; 116]).
  { intros b d p [Hb|[Hb|[]]] Ed Ep; subst b; vm_compute in Ed; inversion Ed; subst d; cbn [dsel_path] in Ep; inversion Ep; reflexivity. }
  split; [|split; [|split]].
  - constructor; [intros [X|[]]; discriminate X|]. constructor; [intros []|constructor].
  - intros a b d p Ha Hb Ed Ep. rewrite (Hd b d p Hb Ed Ep). destruct Ha as [Ha|[Ha|[]]]; subst a; discriminate.
  - intros b d p Hb Ed Ep. rewrite (Hd b d p Hb Ed Ep). reflexivity.
  - intros a t [Ha|[Ha|[]]] Es; subst a; vm_compute in Es; discriminate Es.
Qed.

(* the collision: --rm is off (175caff), the first output is completed, the second source is refused because its
   destination is the output written for the first one (a937acd): exit 1, both sources stay, out/a.zst is d1/a's output *)
Example ex3_ops :
  let ops := fio_ops ex3_inv no_ls ex3_fs (fun p => ok_verdict [p]) in
  run ops ex3_fs p_d1a = ex3_fs p_d1a /\ run ops ex3_fs p_d2a = ex3_fs p_d2a /\ exit_code ops = Some 1 /\
  run ops ex3_fs [111; 117; 116; 47; 97; 46; 122; 115; 116] = Reg (mkFile p_d1a true).
Proof. vm_compute. repeat split; reflexivity. Qed.

(* zstd -d -f --rm a.zst a.zstd (both -> a): the second source is refused and kept, the first output stays *)
Definition p_azst : path := [97; 46; 122; 115; 116].
Definition p_azstd : path := [97; 46; 122; 115; 116; 100].
Definition ex4_inv : inv := mkInv Decompress [p_azst; p_azstd] OutDefault true [true] None false false None None.
Definition ex4_fs : fs := upd (upd (fun _ => Absent) p_azst (Reg (mkFile [1] true))) p_azstd (Reg (mkFile [2] true)).
Example ex4_ops :
  let ops := fio_ops ex4_inv no_ls ex4_fs (fun p => mkVerdict [] Ret0 [FrOk [p]] None true true true true true true true) in
  run ops ex4_fs p_azst = Absent /\ run ops ex4_fs p_azstd = ex4_fs p_azstd /\ exit_code ops = Some 1 /\
  run ops ex4_fs [97] = Reg (mkFile p_azst true).
Proof. vm_compute. repeat split; reflexivity. Qed.

Example ex_nul_answer : confirm (mkInv Compress [[97]] OutDefault false [] (Some 0) false false None None) = false /\
                        confirm (mkInv Compress [[97]] OutDefault false [] (Some 256) false false None None) = false /\
                        confirm (mkInv Compress [[97]] OutDefault false [] (Some 89) false false None None) = true.
Proof. repeat split; reflexivity. Qed.

(* ================================================================== a937acd at the level of the whole run:
   crash safety WITHOUT the hypothesis that the destinations of distinct sources are distinct *)

Lemma file_ops_ok_completes : forall i rm s src p v ops,
  file_ops i rm s src (DOwn p) v = (ops, FOk) -> ops = [] \/ completes i s src (DOwn p) v = true.
Proof.
  intros i rm s src p v ops H. unfold file_ops in H. unfold completes.
  destruct (src_gate i s src v).
  - inversion H.
  - inversion H. left. reflexivity.
  - destruct (codec i (DOwn p) v) as [chunks out] eqn:Ec. cbn [snd].
    destruct (open_dst (ovw i) s v (Some src) p (negb (is_stdin src))) as [oo [t|]] eqn:Eo; cbn [snd].
    2:{ inversion H. }
    destruct out as [| |n].
    3:{ inversion H. }
    + destruct (tail_src i rm src v (is_ret0 Ret0 && v_close_ok v)) as [tl r'] eqn:Et. inversion H; subst r'.
      right. destruct (tail_src_cases _ _ _ _ _ _ _ Et) as [[_ [_ [X _]]]|[_ [X _]]]; [exact X|exact (X eq_refl)].
    + destruct (tail_src i rm src v (is_ret0 Ret1 && v_close_ok v)) as [tl r'] eqn:Et. inversion H; subst r'.
      right. destruct (tail_src_cases _ _ _ _ _ _ _ Et) as [[_ [_ [X _]]]|[_ [X _]]]; [exact X|exact (X eq_refl)].
Qed.

Lemma own_next_incl : forall i own s src d v x, In x own -> In x (own_next i own s src d v).
Proof.
  intros i own s src d v x H. unfold own_next. destruct d; try exact H.
  destruct (completes i s src (DOwn p) v); [right; exact H|exact H].
Qed.

Section Shared.
Variables (rel : data -> data -> Prop) (i : inv) (rm : bool) (dof : path -> option dsel) (vs : path -> verdict) (s0 : fs).
Variables (src0 : path) (f0 : file) (p0 : path).
Hypothesis Hne : src0 <> p0.
Hypothesis Hd0 : dof src0 = Some (DOwn p0).
Hypothesis Hpl : is_lnk (s0 p0) = false.
Hypothesis Hsound : verdict_sound rel i (f_bytes f0) (vs src0).

(* the source is where it was, or it is gone and its destination is complete (and recorded as this command's output) *)
Definition Jst (s : fs) : Prop :=
  s src0 = Reg f0 \/ (s src0 = Absent /\ exists b, s p0 = Reg (mkFile b true) /\ rel b (f_bytes f0)).
Definition J (s : fs) (own : list (path * path)) : Prop :=
  s src0 = Reg f0 \/ (s src0 = Absent /\ In (p0, src0) own /\ exists b, s p0 = Reg (mkFile b true) /\ rel b (f_bytes f0)).

Lemma Jst_local : local_to (prot0 src0 (Some p0)) Jst.
Proof.
  intros s s' H [X|[X [b [Y Z]]]].
  - left. rewrite (H src0); [exact X|left; reflexivity].
  - right. split; [rewrite (H src0); [exact X|left; reflexivity]|].
    exists b. split; [|exact Z]. rewrite (H p0); [exact Y|right; reflexivity].
Qed.

Lemma Jst_safe : forall s, Jst s -> safe rel src0 (f_bytes f0) (Some p0) s.
Proof.
  intros s [X|[_ [b [Y Z]]]].
  - left. exists f0. split; [exact X|reflexivity].
  - right. exists p0, b. split; [reflexivity|]. split; assumption.
Qed.

Lemma J_Jst : forall s own, J s own -> Jst s.
Proof. intros s own [X|[X [_ Y]]]; [left; exact X|right; split; assumption]. Qed.

Lemma src0_local : local_to (eq src0) (fun s : fs => s src0 = Reg f0).
Proof. intros s s' H H1. rewrite (H src0 eq_refl). exact H1. Qed.

(* a segment that leaves src0 alone, started while src0 is in place *)
Lemma seg_keeps_src0 : forall ops1 s,
  s src0 = Reg f0 -> Forall (avoids (eq src0)) ops1 ->
  all_pref (safe2 rel src0 (f_bytes f0) (Some p0)) ops1 s None /\ run ops1 s src0 = Reg f0.
Proof.
  intros ops1 s Hs Hav.
  destruct (avoid_all_pref (eq src0) (fun s => s src0 = Reg f0) src0_local ops1 s None Hs I Hav) as [A1 [A2 _]].
  split.
  - eapply all_pref_impl; [|exact A1]. intros s1 h1 [X Y]. split; left; exists f0; split; auto.
  - rewrite (A2 src0 eq_refl). exact Hs.
Qed.

(* the segment of another source, started in a state where J holds *)
Lemma other_segment : forall src' d' own s ops1 r,
  (d' <> DOwn p0 -> forall i' ops r, sim i i' -> file_ops i' rm s src' d' (vs src') = (ops, r) ->
                    Forall (avoids (prot0 src0 (Some p0))) ops) ->
  (forall i' ops r, sim i i' -> file_ops i' rm s src' d' (vs src') = (ops, r) -> Forall (avoids (eq src0)) ops) ->
  J s own -> lsub s0 s ->
  file_ops (inv_for i own s src' d') rm s src' d' (vs src') = (ops1, r) ->
  all_pref (safe2 rel src0 (f_bytes f0) (Some p0)) ops1 s None /\
  J (run ops1 s) (own_next (inv_for i own s src' d') own s src' d' (vs src')).
Proof.
  intros src' d' own s ops1 r Hav HavS HJ HL Ef.
  pose proof (inv_for_sim i own s src' d') as Hsim.
  assert (Split : Forall (avoids (prot0 src0 (Some p0))) ops1 \/ (s src0 = Reg f0 /\ Forall (avoids (eq src0)) ops1)).
  { assert (Dec : d' = DOwn p0 \/ d' <> DOwn p0).
    { destruct d' as [|c|q|q]; try (right; discriminate).
      destruct (path_eq_dec q p0) as [E|E]; [left; subst; reflexivity|right; intro X; inversion X; contradiction]. }
    destruct Dec as [E|E]; [|left; exact (Hav E _ _ _ Hsim Ef)].
    subst d'. destruct HJ as [X|[X [Hin [b [Y Z]]]]]; [right; split; [exact X|exact (HavS _ _ _ Hsim Ef)]|].
    left. apply nomod_avoids.
    assert (Hr : own_refused own s src' p0 = true).
    { unfold own_refused. assert (L : look s p0 = Reg (mkFile b true)) by (unfold look; rewrite Y; reflexivity).
      rewrite L. cbn [is_reg andb]. apply existsb_exists. exists (p0, src0). split; [exact Hin|]. cbn [fst snd].
      assert (S1 : same_file s p0 p0 = true) by (unfold same_file; rewrite L; apply path_eqb_refl).
      assert (S2 : same_file s src0 src' = false) by (unfold same_file, look; rewrite X; reflexivity).
      rewrite S1, S2. reflexivity. }
    exact (proj1 (own_output_not_replaced_thm i rm own s src' p0 (vs src') ops1 r Hr Ef)). }
  destruct Split as [Hp|[Hs Hp]].
  - destruct (avoid_all_pref _ _ Jst_local ops1 s None (J_Jst _ _ HJ) I Hp) as [A1 [A2 _]].
    split.
    + eapply all_pref_impl; [|exact A1]. intros s1 h1 [X Y]. split; apply Jst_safe; assumption.
    + assert (E1 : run ops1 s src0 = s src0) by (apply A2; left; reflexivity).
      assert (E2 : run ops1 s p0 = s p0) by (apply A2; right; reflexivity).
      destruct HJ as [X|[X [Hin [b [Y Z]]]]].
      * left. rewrite E1. exact X.
      * right. split; [rewrite E1; exact X|]. split; [apply own_next_incl; exact Hin|].
        exists b. split; [rewrite E2; exact Y|exact Z].
  - destruct (seg_keeps_src0 ops1 s Hs Hp) as [A1 A2]. split; [exact A1|left; exact A2].
Qed.

Lemma loop_after : forall srcs own s err ops e,
  ~ In src0 srcs ->
  (forall src' d', In src' srcs -> dof src' = Some d' -> d' <> DOwn p0 ->
     forall i' s' ops r, sim i i' -> lsub s0 s' -> file_ops i' rm s' src' d' (vs src') = (ops, r) ->
                         Forall (avoids (prot0 src0 (Some p0))) ops) ->
  (forall src' d', In src' srcs -> dof src' = Some d' ->
     forall i' s' ops r, sim i i' -> lsub s0 s' -> file_ops i' rm s' src' d' (vs src') = (ops, r) ->
                         Forall (avoids (eq src0)) ops) ->
  J s own -> lsub s0 s ->
  loop i rm dof vs own srcs s err = (ops, e) ->
  all_pref (safe2 rel src0 (f_bytes f0) (Some p0)) ops s None.
Proof.
  induction srcs as [|src tl IH]; intros own s err ops e Hnotin Hav HavS HJ HL H; cbn [loop] in H.
  - inv_pair H. cbn [all_pref unlinked]. split; [|exact I]. split; apply Jst_safe; exact (J_Jst _ _ HJ).
  - assert (Hnotin' : ~ In src0 tl) by (intro X; apply Hnotin; right; exact X).
    destruct (dof src) as [d|] eqn:Ed.
    2:{ eapply IH; [exact Hnotin'| | |exact HJ|exact HL|exact H].
        - intros a b Ha. apply Hav. right. exact Ha.
        - intros a b Ha. apply HavS. right. exact Ha. }
    destruct (file_ops (inv_for i own s src d) rm s src d (vs src)) as [ops1 r] eqn:Ef.
    destruct (other_segment src d own s ops1 r
                (fun E i' o r' Hs' Ef' => Hav src d (or_introl eq_refl) Ed E i' s o r' Hs' HL Ef')
                (fun i' o r' Hs' Ef' => HavS src d (or_introl eq_refl) Ed i' s o r' Hs' HL Ef')
                HJ HL Ef) as [A1 A2].
    destruct r as [| |n].
    3:{ inv_pair H. exact A1. }
    + destruct (loop i rm dof vs _ tl (run ops1 s) (err || is_fail FOk)) as [ops2 e2] eqn:El.
      pose proof (IH _ _ _ _ _ Hnotin' (fun a b Ha => Hav a b (or_intror Ha)) (fun a b Ha => HavS a b (or_intror Ha))
                     A2 (lsub_run _ _ _ HL) El) as B1.
      inv_pair H. apply all_pref_app. split; [exact A1|].
      rewrite (file_ops_h_none _ _ _ _ _ _ _ _ Ef) by (intros n; discriminate). exact B1.
    + destruct (loop i rm dof vs _ tl (run ops1 s) (err || is_fail FFail)) as [ops2 e2] eqn:El.
      pose proof (IH _ _ _ _ _ Hnotin' (fun a b Ha => Hav a b (or_intror Ha)) (fun a b Ha => HavS a b (or_intror Ha))
                     A2 (lsub_run _ _ _ HL) El) as B1.
      inv_pair H. apply all_pref_app. split; [exact A1|].
      rewrite (file_ops_h_none _ _ _ _ _ _ _ _ Ef) by (intros n; discriminate). exact B1.
Qed.

(* the state after the tracked source's own segment *)
Lemma own_segment_end : forall i' own s ops1 r,
  sim i i' -> s src0 = Reg f0 -> is_lnk (s p0) = false ->
  file_ops i' rm s src0 (DOwn p0) (vs src0) = (ops1, r) ->
  all_pref (safe2 rel src0 (f_bytes f0) (Some p0)) ops1 s None ->
  J (run ops1 s) (own_next i' own s src0 (DOwn p0) (vs src0)).
Proof.
  intros i' own s ops1 r Hsim Hs Hpl' Ef A1.
  destruct (file_ops_src_state _ _ _ _ _ _ _ _ Hne Hpl' Ef) as [X|X]; [left; rewrite X; exact Hs|].
  right. split; [exact X|].
  pose proof (all_pref_end _ _ _ _ A1) as [Hsafe _].
  destruct Hsafe as [[f [Y _]]|[d [b [Ed [Y Z]]]]]; [rewrite X in Y; discriminate Y|].
  inversion Ed; subst d. split; [|exists b; split; assumption].
  destruct r as [| |n].
  - destruct (file_ops_ok_completes _ _ _ _ _ _ _ Ef) as [E|E].
    + subst ops1. unfold run in X. cbn [fold_left] in X. rewrite Hs in X. discriminate X.
    + unfold own_next. rewrite E. left. reflexivity.
  - exfalso. rewrite (file_ops_src_kept _ _ _ _ _ _ _ _ Hne Hpl' Ef) in X by discriminate. rewrite Hs in X. discriminate X.
  - exfalso. rewrite (file_ops_src_kept _ _ _ _ _ _ _ _ Hne Hpl' Ef) in X by discriminate. rewrite Hs in X. discriminate X.
Qed.

Lemma loop_shared : forall srcs own s err ops e,
  NoDup srcs ->
  (forall src' d', In src' srcs -> src' <> src0 -> dof src' = Some d' -> d' <> DOwn p0 ->
     forall i' s' ops r, sim i i' -> lsub s0 s' -> file_ops i' rm s' src' d' (vs src') = (ops, r) ->
                         Forall (avoids (prot0 src0 (Some p0))) ops) ->
  (forall src' d', In src' srcs -> src' <> src0 -> dof src' = Some d' ->
     forall i' s' ops r, sim i i' -> lsub s0 s' -> file_ops i' rm s' src' d' (vs src') = (ops, r) ->
                         Forall (avoids (eq src0)) ops) ->
  s src0 = Reg f0 -> lsub s0 s ->
  loop i rm dof vs own srcs s err = (ops, e) ->
  all_pref (safe2 rel src0 (f_bytes f0) (Some p0)) ops s None.
Proof.
  induction srcs as [|src tl IH]; intros own s err ops e Hnd Hav HavS Hs HL H; cbn [loop] in H.
  - inv_pair H. cbn [all_pref unlinked]. split; [|exact I]. split; left; exists f0; split; auto.
  - inversion Hnd as [|? ? Hnotin Hnd']; subst.
    destruct (dof src) as [d|] eqn:Ed.
    2:{ eapply IH; [exact Hnd'| | |exact Hs|exact HL|exact H].
        - intros a b Ha. apply Hav. right. exact Ha.
        - intros a b Ha. apply HavS. right. exact Ha. }
    destruct (file_ops (inv_for i own s src d) rm s src d (vs src)) as [ops1 r] eqn:Ef.
    pose proof (inv_for_sim i own s src d) as Hsim.
    destruct (path_eq_dec src src0) as [E|E].
    + (* the tracked source itself *)
      subst src. rewrite Hd0 in Ed. inversion Ed; subst d.
      assert (Hpl' : is_lnk (s p0) = false).
      { destruct (s p0) eqn:X; try reflexivity. apply HL in X. rewrite X in Hpl. discriminate Hpl. }
      destruct (own_file_safe rel _ rm s src0 p0 (vs src0) f0 ops1 r Hs Hne Hpl' (sim_sound _ _ _ _ _ Hsim Hsound) Ef) as [A1 A2].
      pose proof (own_segment_end _ own s ops1 r Hsim Hs Hpl' Ef A1) as HJ.
      assert (Hav' : forall src' d', In src' tl -> dof src' = Some d' -> d' <> DOwn p0 ->
                forall i' s' ops r, sim i i' -> lsub s0 s' -> file_ops i' rm s' src' d' (vs src') = (ops, r) ->
                                    Forall (avoids (prot0 src0 (Some p0))) ops).
      { intros a b Ha Hb Hd. assert (Na : a <> src0) by (intro X; subst; contradiction).
        exact (Hav a b (or_intror Ha) Na Hb Hd). }
      assert (HavS' : forall src' d', In src' tl -> dof src' = Some d' ->
                forall i' s' ops r, sim i i' -> lsub s0 s' -> file_ops i' rm s' src' d' (vs src') = (ops, r) ->
                                    Forall (avoids (eq src0)) ops).
      { intros a b Ha Hb. assert (Na : a <> src0) by (intro X; subst; contradiction).
        exact (HavS a b (or_intror Ha) Na Hb). }
      destruct r as [| |n].
      3:{ inv_pair H. exact A1. }
      * destruct (loop i rm dof vs _ tl (run ops1 s) (err || is_fail FOk)) as [ops2 e2] eqn:El.
        pose proof (loop_after tl _ _ _ _ _ Hnotin Hav' HavS' HJ (lsub_run _ _ _ HL) El) as B1.
        inv_pair H. apply all_pref_app. split; [exact A1|].
        rewrite A2 by (intros n; discriminate). exact B1.
      * destruct (loop i rm dof vs _ tl (run ops1 s) (err || is_fail FFail)) as [ops2 e2] eqn:El.
        pose proof (loop_after tl _ _ _ _ _ Hnotin Hav' HavS' HJ (lsub_run _ _ _ HL) El) as B1.
        inv_pair H. apply all_pref_app. split; [exact A1|].
        rewrite A2 by (intros n; discriminate). exact B1.
    + (* another source first: it leaves src0 alone *)
      pose proof (HavS src d (or_introl eq_refl) E Ed _ s ops1 r Hsim HL Ef) as Hav1.
      destruct (seg_keeps_src0 ops1 s Hs Hav1) as [A1 A2].
      destruct r as [| |n].
      3:{ inv_pair H. exact A1. }
      * destruct (loop i rm dof vs _ tl (run ops1 s) (err || is_fail FOk)) as [ops2 e2] eqn:El.
        pose proof (IH _ _ _ _ _ Hnd' (fun a b Ha => Hav a b (or_intror Ha)) (fun a b Ha => HavS a b (or_intror Ha))
                       A2 (lsub_run _ _ _ HL) El) as B1.
        inv_pair H. apply all_pref_app. split; [exact A1|].
        rewrite (file_ops_h_none _ _ _ _ _ _ _ _ Ef) by (intros n; discriminate). exact B1.
      * destruct (loop i rm dof vs _ tl (run ops1 s) (err || is_fail FFail)) as [ops2 e2] eqn:El.
        pose proof (IH _ _ _ _ _ Hnd' (fun a b Ha => Hav a b (or_intror Ha)) (fun a b Ha => HavS a b (or_intror Ha))
                       A2 (lsub_run _ _ _ HL) El) as B1.
        inv_pair H. apply all_pref_app. split; [exact A1|].
        rewrite (file_ops_h_none _ _ _ _ _ _ _ _ Ef) by (intros n; discriminate). exact B1.
Qed.

End Shared.

(* crash safety of the whole run without "destinations of distinct sources are distinct" *)
Theorem shared_dst_safe_main : forall rel i names s0 vs, wf_shared_dst i names s0 ->
  forall src f0, In src names -> look s0 src = Reg f0 -> verdict_sound rel i (f_bytes f0) (vs src) ->
  all_pref (safe2 rel (target s0 src) (f_bytes f0) (dst_of i names src)) (fio_main i names s0 vs) s0 None.
Proof.
  intros rel i names s0 vs [Hnd [Hw2 [Hw4 Hw5]]] src f0 Hin Hlook Hsound.
  set (org := target s0 src).
  assert (Horg : s0 org = Reg f0) by (unfold org; rewrite <- look_target; exact Hlook).
  assert (Hhold : holds org (f_bytes f0) s0) by (exists f0; split; [exact Horg|reflexivity]).
  (* org is no destination key, whatever the state *)
  assert (Hnodst : forall b d p, In b names -> dsel_of i names b = Some d -> dsel_path d = Some p -> org <> p).
  { intros b d p Hb Ed Ep. unfold org, target. destruct (s0 src) eqn:Es; try (apply (Hw2 src b d p Hin Hb Ed Ep)).
    apply (proj2 (Hw5 src t Hin Es) b d p Hb Ed Ep). }
  assert (Hslots : forall b d s' q, In b names -> dsel_of i names b = Some d -> lsub s0 s' -> dslots s' d q -> org <> q).
  { intros b d s' q Hb Ed HL Hq. destruct d as [|c|p|p]; cbn [dslots] in Hq; try contradiction.
    - subst q. apply (Hnodst b (DShared p) p Hb Ed eq_refl).
    - assert (q = p) by (apply (dslots_plain s0 s' p q HL (Hw4 b (DOwn p) p Hb Ed eq_refl) Hq)). subst q.
      apply (Hnodst b (DOwn p) p Hb Ed eq_refl). }
  unfold fio_main.
  destruct (dict_check i s0 vs) as [n|].
  { apply nomod_tail_safe; [exact Hhold|exact I|repeat constructor]. }
  destruct (is_concat i names) eqn:Ec.
  - (* several sources into one destination: no source is ever removed *)
    assert (Hd : dst_of i names src = None).
    { unfold dst_of. destruct (concat_shared i names Ec) as [[p [_ Hsh]]|[_ Hsh]]; rewrite Hsh; reflexivity. }
    rewrite Hd.
    assert (Hsegs : forall dof, (forall b, dof b = dsel_of i names b) \/ (exists t, (forall b, dof b = Some (DShared t)) /\ org <> t) ->
              forall src' d', In src' names -> dof src' = Some d' ->
              forall i' s' ops r, sim i i' -> lsub s0 s' -> file_ops i' false s' src' d' (vs src') = (ops, r) -> Forall (avoids (eq org)) ops).
    { intros dof Hdof src' d' Hin' Ed' i' s' ops r _ HL Ef.
      apply (seg_avoid_from_mod _ _ _ _ _ _ _ _ (eq org) Ef); [intros X; discriminate X|].
      intros q Hq X. subst q. destruct Hdof as [Hdof|[t [Hdof Ht]]].
      - rewrite Hdof in Ed'. apply (Hslots src' d' s' org Hin' Ed' HL Hq). reflexivity.
      - rewrite Hdof in Ed'. inversion Ed'; subst d'. cbn [dslots] in Hq. apply Ht. exact Hq. }
    destruct (concat_shared i names Ec) as [[p [Eo Hsh]]|[Eo Hsh]]; rewrite Eo.
    + assert (Hp : org <> p) by (apply (Hnodst src (DShared p) p Hin (Hsh src) eq_refl)).
      assert (Hpl : is_lnk (s0 p) = false) by (apply (Hw4 src (DShared p) p Hin (Hsh src) eq_refl)).
      destruct (ovw i).
      2:{ apply nomod_tail_safe; [exact Hhold|exact I|repeat constructor]. }
      destruct (open_dst true s0 (vs p) None p false) as [oo ot] eqn:Eop.
      destruct (open_dst_mod _ _ _ _ _ _ _ _ Eop) as [Hoo0 Hot].
      assert (Hoo : Forall (avoids (eq org)) oo).
      { eapply Forall_impl; [|exact Hoo0]. intros o Ho q E X. apply Hp. rewrite X.
        apply (in_slot_plain s0 p q Hpl). apply Ho. exact E. }
      destruct (untouched_safe rel org (f_bytes f0) None oo s0 None Hhold I Hoo) as [P1 [P2 _]].
      destruct ot as [t|].
      2:{ apply all_pref_app. split; [exact P1|].
          rewrite (run_h_open_dst _ _ _ _ _ _ _ _ None Eop).
          apply nomod_tail_safe; [exact P2|exact I|repeat constructor]. }
      assert (Et : t = p) by (apply (in_slot_plain s0 p t Hpl); apply Hot; reflexivity). subst t.
      destruct (loop i false (fun _ => Some (DShared p)) vs [] names (run oo s0) false) as [ops e] eqn:El.
      destruct (loop_untouched rel i false (fun _ => Some (DShared p)) vs s0 org (f_bytes f0) None names _ _ _ _ _
                  (Hsegs _ (or_intror (ex_intro _ p (conj (fun _ => eq_refl) Hp)))) P2 (lsub_run _ _ _ (lsub_refl s0)) El) as [Q1 [Q2 Q3]].
      apply all_pref_app. split; [exact P1|].
      rewrite (run_h_open_dst _ _ _ _ _ _ _ _ None Eop).
      apply all_pref_app. split; [exact Q1|].
      destruct e as [b|n].
      * apply (untouched_safe rel org (f_bytes f0) None); [exact Q2|exact Q3|].
        apply Forall_cons.
        -- intros q E X. cbn [modifies] in E. inversion E. apply Hp. congruence.
        -- apply nomod_avoids. destruct (v_close_ok (vs p)); [apply exit_of_nomod|repeat constructor].
      * apply (untouched_safe rel org (f_bytes f0) None); [exact Q2|exact Q3|constructor].
    + destruct (loop i false (dsel_of i names) vs [] names s0 false) as [ops e] eqn:El.
      destruct (loop_untouched rel i false (dsel_of i names) vs s0 org (f_bytes f0) None names _ _ _ _ _
                  (Hsegs _ (or_introl (fun _ => eq_refl))) Hhold (lsub_refl s0) El) as [Q1 [Q2 Q3]].
      assert (G : forall tl, Forall nomod tl -> all_pref (safe2 rel org (f_bytes f0) None) (ops ++ tl) s0 None).
      { intros tl Htl. apply all_pref_app. split; [exact Q1|].
        apply (untouched_safe rel org (f_bytes f0) None); [exact Q2|exact Q3|apply nomod_avoids; exact Htl]. }
      destruct (eff_out i names); apply G; destruct e as [b|n]; try constructor;
        destruct (v_close_ok (vs stdoutmark)); try apply exit_of_nomod; repeat constructor.
  - (* one destination per source, stdout, or test *)
    destruct (loop i (eff_rm i names) (dsel_of i names) vs [] names s0 false) as [ops e] eqn:El.
    destruct (s0 src) as [|fsrc| |t] eqn:Es;
      try (unfold look in Hlook; rewrite Es in Hlook; discriminate Hlook).
    + (* the source is a regular file *)
      assert (Eorg : org = src) by (unfold org, target; rewrite Es; reflexivity).
      assert (Ef0 : fsrc = f0) by (unfold look in Hlook; rewrite Es in Hlook; inversion Hlook; reflexivity). subst fsrc.
      destruct (dst_of i names src) as [p0|] eqn:Hd.
      * (* own destination p0 *)
        assert (Ed0 : dsel_of i names src = Some (DOwn p0)) by (apply dst_of_own; exact Hd).
        assert (Hp : src <> p0) by (apply (Hw2 src src (DOwn p0) p0 Hin Hin Ed0); reflexivity).
        assert (Hpl : is_lnk (s0 p0) = false) by (apply (Hw4 src (DOwn p0) p0 Hin Ed0 eq_refl)).
        assert (Hav : forall src' d', In src' names -> src' <> src -> dsel_of i names src' = Some d' -> d' <> DOwn p0 ->
                  forall i' s' ops r, sim i i' -> lsub s0 s' -> file_ops i' (eff_rm i names) s' src' d' (vs src') = (ops, r) ->
                                   Forall (avoids (prot0 src (Some p0))) ops).
        { intros src' d' Hin' Hne' Ed' Hnd' i' s' ops' r' _ HL Ef.
          apply (seg_avoid_from_mod _ _ _ _ _ _ _ _ _ Ef).
          - intros _ _ [X|X]; [exact (Hne' X)|]. inversion X; subst p0.
            exact (Hw2 src' src (DOwn src') src' Hin' Hin Ed0 eq_refl eq_refl).
          - intros q Hq [X|X].
            + subst q. rewrite <- Eorg in Hq. apply (Hslots src' d' s' org Hin' Ed' HL Hq). reflexivity.
            + inversion X; subst q. destruct d' as [|c|p|p]; cbn [dslots] in Hq; try contradiction.
              * exact (not_concat_not_shared i names src' p Ec Ed').
              * assert (p0 = p) by (apply (dslots_plain s0 s' p p0 HL (Hw4 src' (DOwn p) p Hin' Ed' eq_refl) Hq)). subst p.
                apply Hnd'. reflexivity. }
        assert (HavS : forall src' d', In src' names -> src' <> src -> dsel_of i names src' = Some d' ->
                  forall i' s' ops r, sim i i' -> lsub s0 s' -> file_ops i' (eff_rm i names) s' src' d' (vs src') = (ops, r) ->
                                   Forall (avoids (eq src)) ops).
        { intros src' d' Hin' Hne' Ed' i' s' ops' r' _ HL Ef.
          apply (seg_avoid_from_mod _ _ _ _ _ _ _ _ _ Ef).
          - intros _ _ X. exact (Hne' (eq_sym X)).
          - intros q Hq X. subst q. rewrite <- Eorg in Hq. apply (Hslots src' d' s' org Hin' Ed' HL Hq). reflexivity. }
        rewrite Eorg.
        pose proof (loop_shared rel i (eff_rm i names) (dsel_of i names) vs s0 src f0 p0 Hp Ed0 Hpl Hsound
                             names [] s0 false ops e Hnd Hav HavS Es (lsub_refl s0) El) as Q1.
        apply all_pref_app. split; [exact Q1|].
        pose proof (all_pref_end _ _ _ _ Q1) as Hend.
        destruct e as [[|]|n]; cbn [exit_of all_pref apply_op apply_h]; tauto.
      * (* no destination of its own: nothing modifies src *)
        assert (Hsegs : forall src' d', In src' names -> dsel_of i names src' = Some d' ->
                  forall i' s' ops r, sim i i' -> lsub s0 s' -> file_ops i' (eff_rm i names) s' src' d' (vs src') = (ops, r) ->
                                   Forall (avoids (eq org)) ops).
        { intros src' d' Hin' Ed' i' s' ops' r' _ HL Ef.
          apply (seg_avoid_from_mod _ _ _ _ _ _ _ _ _ Ef).
          - intros Erm Est X. rewrite Eorg in X. subst src'.
            destruct d' as [|c|p|p].
            + rewrite (test_no_rm i names src Ed') in Erm. discriminate.
            + destruct (stdout_no_rm i names src c Ed') as [Y|Y]; congruence.
            + exact (not_concat_not_shared i names src p Ec Ed').
            + unfold dst_of in Hd. rewrite Ed' in Hd. discriminate.
          - intros q Hq X. subst q. apply (Hslots src' d' s' org Hin' Ed' HL Hq). reflexivity. }
        destruct (loop_untouched rel i (eff_rm i names) (dsel_of i names) vs s0 org (f_bytes f0) None names _ _ _ _ _
                    Hsegs Hhold (lsub_refl s0) El) as [Q1 [Q2 Q3]].
        apply all_pref_app. split; [exact Q1|].
        apply (untouched_safe rel org (f_bytes f0) None); [exact Q2|exact Q3|apply nomod_avoids; apply exit_of_nomod].
    + (* the source is reached through a symbolic link: its data is under a key nothing modifies *)
      assert (Eorg : org = t) by (unfold org, target; rewrite Es; reflexivity).
      destruct (Hw5 src t Hin Es) as [Hnotsrc _].
      assert (Hsegs : forall src' d', In src' names -> dsel_of i names src' = Some d' ->
                forall i' s' ops r, sim i i' -> lsub s0 s' -> file_ops i' (eff_rm i names) s' src' d' (vs src') = (ops, r) ->
                                 Forall (avoids (eq org)) ops).
      { intros src' d' Hin' Ed' i' s' ops' r' _ HL Ef.
        apply (seg_avoid_from_mod _ _ _ _ _ _ _ _ _ Ef).
        - intros _ _ X. apply Hnotsrc. rewrite <- Eorg, X. exact Hin'.
        - intros q Hq X. subst q. apply (Hslots src' d' s' org Hin' Ed' HL Hq). reflexivity. }
      destruct (loop_untouched rel i (eff_rm i names) (dsel_of i names) vs s0 org (f_bytes f0) (dst_of i names src) names _ _ _ _ _
                  Hsegs Hhold (lsub_refl s0) El) as [Q1 [Q2 Q3]].
      apply all_pref_app. split; [exact Q1|].
      apply (untouched_safe rel org (f_bytes f0) _); [exact Q2|exact Q3|apply nomod_avoids; apply exit_of_nomod].
Qed.


Theorem shared_dst_all_states_safe : forall rel i ls s0 vs, wf_shared_dst i (eff_srcs i ls s0) s0 ->
  forall src f0, In src (eff_srcs i ls s0) -> look s0 src = Reg f0 -> verdict_sound rel i (f_bytes f0) (vs src) ->
  all_pref (safe2 rel (target s0 src) (f_bytes f0) (dst_of i (eff_srcs i ls s0) src)) (fio_ops i ls s0 vs) s0 None.
Proof.
  intros rel i ls s0 vs Hwf src f0 Hin Hl Hsound. unfold fio_ops. rewrite (pre_names i ls s0 src Hin).
  apply shared_dst_safe_main; assumption.
Qed.

Theorem crash_safe_shared_dst_thm : forall rel i ls s0 vs, wf_shared_dst i (eff_srcs i ls s0) s0 ->
  forall src f0, In src (eff_srcs i ls s0) -> look s0 src = Reg f0 -> verdict_sound rel i (f_bytes f0) (vs src) ->
  forall k, safe rel (target s0 src) (f_bytes f0) (dst_of i (eff_srcs i ls s0) src) (run (firstn k (fio_ops i ls s0 vs)) s0) /\
            safe rel (target s0 src) (f_bytes f0) (dst_of i (eff_srcs i ls s0) src) (run (sigint_ops k (fio_ops i ls s0 vs)) s0).
Proof.
  intros rel i ls s0 vs Hwf src f0 Hin Hs Hsound k.
  pose proof (shared_dst_all_states_safe rel i ls s0 vs Hwf src f0 Hin Hs Hsound) as H.
  apply (all_pref_firstn _ _ _ _ k) in H. split; [apply H|].
  unfold sigint_ops. rewrite run_app, run_handler_ops. apply H.
Qed.

(* satisfiability: zstd -d -f --rm a.zst a.zstd (both destinations are `a`) *)
Example ex4_wf : wf_shared_dst ex4_inv (eff_srcs ex4_inv no_ls ex4_fs) ex4_fs.
Proof.
  assert (En : eff_srcs ex4_inv no_ls ex4_fs = [p_azst; p_azstd]) by reflexivity. rewrite En.
  assert (Hd : forall b d p, In b [p_azst; p_azstd] -> dsel_of ex4_inv [p_azst; p_azstd] b = Some d -> dsel_path d = Some p -> p = [97]).
  { intros b d p [Hb|[Hb|[]]] Ed Ep; subst b; vm_compute in Ed; inversion Ed; subst d; cbn [dsel_path] in Ep; inversion Ep; reflexivity. }
  split; [|split; [|split]].
  - constructor; [intros [X|[]]; discriminate X|]. constructor; [intros []|constructor].
  - intros a b d p Ha Hb Ed Ep. rewrite (Hd b d p Hb Ed Ep). destruct Ha as [Ha|[Ha|[]]]; subst a; discriminate.
  - intros b d p Hb Ed Ep. rewrite (Hd b d p Hb Ed Ep). reflexivity.
  - intros a t [Ha|[Ha|[]]] Es; subst a; vm_compute in Es; discriminate Es.
Qed.

(* known finding C19-output-replaces-unprocessed-input (the repair 3ec6354 was withdrawn: the pinned suite runs
   `zstd -f tmp*` over tmp and tmp.zst on purpose): zstd -f --rm a a.zst with a pre-existing a.zst: the output of a
   replaces the input a.zst before it is read; exit 0 and the original a.zst (bytes [9]) exists nowhere.  This is why
   wf_shared_dst keeps "no destination is also a source". *)
Definition ex5_inv : inv := mkInv Compress [[97]; p_azst] OutDefault true [true] None false false None None.
Definition ex5_fs : fs := upd (upd (fun _ => Absent) [97] (Reg (mkFile [1] true))) p_azst (Reg (mkFile [9] true)).
Example ex5_ops :
  let ops := fio_ops ex5_inv no_ls ex5_fs (fun p => ok_verdict [p]) in
  run ops ex5_fs [97] = Absent /\ run ops ex5_fs p_azst = Absent /\ exit_code ops = Some 0 /\
  run ops ex5_fs (p_azst ++ sfx_zst) = Reg (mkFile p_azst true).
Proof. vm_compute. repeat split; reflexivity. Qed.
