(* C19 — the sparse writer produces the same file as the plain writer. *)
From Coq Require Import NArith List Bool Lia Arith.
From ZV.Cli Require Import SparseModel.
Import ListNotations.
Local Open Scope N_scope.

(* ------------------------------------------------------------------ lists *)

Lemma zeros_add : forall a b, zeros (a + b) = zeros a ++ zeros b.
Proof. intros. unfold zeros. rewrite N2Nat.inj_add. apply repeat_app. Qed.

Lemma zeros_of_nat : forall n, zeros (N.of_nat n) = repeat 0 n.
Proof. intros. unfold zeros. rewrite Nat2N.id. reflexivity. Qed.

Lemma zeros_0 : zeros 0 = [].
Proof. reflexivity. Qed.

Lemma len_app : forall a b, len (a ++ b) = len a + len b.
Proof. intros. unfold len. rewrite app_length. lia. Qed.

Lemma len_zeros : forall n, len (zeros n) = n.
Proof. intros. unfold len, zeros. rewrite repeat_length. lia. Qed.

Lemma firstn_len_firstn : forall (k : nat) (l : list N), firstn (length (firstn k l)) l = firstn k l.
Proof.
  induction k as [|k IH]; intros l; [reflexivity|].
  destruct l as [|x l]; [reflexivity|]. cbn [firstn length]. rewrite IH. reflexivity.
Qed.

Lemma skipn_len_firstn : forall (k : nat) (l : list N), skipn (length (firstn k l)) l = skipn k l.
Proof.
  induction k as [|k IH]; intros l; [reflexivity|].
  destruct l as [|x l]; [reflexivity|]. cbn [firstn length skipn]. apply IH.
Qed.

Lemma firstn_add : forall (a b : nat) (l : list N), firstn (a + b) l = firstn a l ++ firstn b (skipn a l).
Proof.
  induction a as [|a IH]; intros b l; [reflexivity|].
  destruct l as [|x l]; cbn [Nat.add firstn skipn app].
  - rewrite firstn_nil. reflexivity.
  - rewrite IH. reflexivity.
Qed.

Lemma all_zero_repeat : forall l, all_zero l = true -> l = repeat 0 (length l).
Proof.
  induction l as [|x l IH]; intros H; [reflexivity|].
  cbn [all_zero] in H. apply andb_true_iff in H. destruct H as [H1 H2]. apply N.eqb_eq in H1. subst x.
  cbn [length repeat]. rewrite <- IH by assumption. reflexivity.
Qed.

(* ------------------------------------------------------------------ zero counting *)

Lemma lead0_words_spec : forall fuel seg,
  (lead0_words fuel seg <= length seg)%nat /\
  firstn (lead0_words fuel seg) seg = repeat 0 (lead0_words fuel seg).
Proof.
  induction fuel as [|fuel IH]; intros seg; cbn [lead0_words].
  - split; [lia|reflexivity].
  - destruct seg as [|x tl] eqn:Es; [split; [lia|reflexivity]|]. rewrite <- Es. clear Es x tl.
    destruct (all_zero (firstn WORD seg)) eqn:Ez; [|split; [lia|reflexivity]].
    destruct (IH (skipn WORD seg)) as [I1 I2].
    pose proof (firstn_skipn WORD seg) as Hfs.
    assert (Hlen : length seg = (length (firstn WORD seg) + length (skipn WORD seg))%nat).
    { rewrite <- app_length. rewrite Hfs. reflexivity. }
    split; [lia|].
    rewrite firstn_add. rewrite firstn_len_firstn. rewrite skipn_len_firstn. rewrite I2.
    rewrite repeat_app. f_equal. apply all_zero_repeat. exact Ez.
Qed.

Lemma lead0_bytes_spec : forall l,
  (lead0_bytes l <= length l)%nat /\ firstn (lead0_bytes l) l = repeat 0 (lead0_bytes l).
Proof.
  induction l as [|x l [I1 I2]]; cbn [lead0_bytes]; [split; [lia|reflexivity]|].
  destruct (x =? 0) eqn:E; [|split; [lia|reflexivity]].
  apply N.eqb_eq in E. subst x. cbn [length firstn repeat]. split; [lia|]. rewrite I2. reflexivity.
Qed.

Lemma split_lead : forall (n : nat) (l : list N), (n <= length l)%nat -> firstn n l = repeat 0 n ->
  l = repeat 0 n ++ skipn n l.
Proof. intros n l _ H. rewrite <- H. symmetry. apply firstn_skipn. Qed.

Lemma skipn_nonempty : forall (n : nat) (l : list N), (n < length l)%nat -> skipn n l <> [].
Proof.
  intros n l H E. pose proof (skipn_length n l) as X. rewrite E in X. cbn [length] in X. lia.
Qed.

(* ------------------------------------------------------------------ the file invariant *)

(* c = the content written so far by the plain writer; the sparse writer's file has the
   same bytes once the pending hole and the stored skips are counted as zeros *)
Definition Inv (f : sfile) (sk : N) (c : list N) : Prop :=
  len (s_data f) <= s_pos f /\
  c = s_data f ++ zeros (s_pos f - len (s_data f) + sk) /\
  (sk = 0 -> s_pos f = len (s_data f)).

Lemma s_run_app : forall a b f, s_run (a ++ b) f = s_run b (s_run a f).
Proof. intros. unfold s_run. apply fold_left_app. Qed.

Lemma step_zero : forall f sk c (n : nat), Inv f sk c -> Inv f (sk + N.of_nat n) (c ++ repeat 0 n).
Proof.
  intros f sk c n [H1 [H2 H3]]. split; [exact H1|]. split.
  - rewrite H2. rewrite <- app_assoc. f_equal. rewrite N.add_assoc.
    rewrite (zeros_add (s_pos f - len (s_data f) + sk) (N.of_nat n)). rewrite zeros_of_nat. reflexivity.
  - intros E. apply H3. lia.
Qed.

Lemma step_write : forall f sk c (n : nat) w, Inv f sk c -> w <> [] ->
  Inv (s_run [SSeek (sk + N.of_nat n); SWrite w] f) 0 (c ++ repeat 0 n ++ w).
Proof.
  intros f sk c n w [H1 [H2 H3]] Hw. unfold s_run. cbn [fold_left].
  destruct w as [|x w]; [contradiction|]. cbn [s_apply s_data s_pos].
  set (w' := x :: w).
  unfold Inv. cbn [s_data s_pos].
  split; [|split].
  - rewrite !len_app, len_zeros. lia.
  - rewrite !len_app, len_zeros.
    replace (s_pos f + (sk + N.of_nat n) + len w' - (len (s_data f) + (s_pos f + (sk + N.of_nat n) - len (s_data f) + len w')) + 0) with 0 by lia.
    rewrite zeros_0, app_nil_r. rewrite H2. rewrite <- !app_assoc. f_equal.
    replace (s_pos f + (sk + N.of_nat n) - len (s_data f)) with ((s_pos f - len (s_data f) + sk) + N.of_nat n) by lia.
    rewrite (zeros_add (s_pos f - len (s_data f) + sk) (N.of_nat n)), zeros_of_nat. rewrite <- app_assoc. reflexivity.
  - intros _. rewrite !len_app, len_zeros. lia.
Qed.

Lemma step_flush : forall f sk c, Inv f sk c -> GB1 < sk -> Inv (s_apply f (SSeek GB1)) (sk - GB1) c.
Proof.
  intros f sk c [H1 [H2 H3]] Hlt. cbn [s_apply]. split; [|split]; cbn [s_data s_pos].
  - lia.
  - rewrite H2. f_equal. f_equal. lia.
  - intros E. lia.
Qed.

Lemma step_end : forall f sk c, Inv f sk c ->
  s_data (s_run (fwrite_sparse_end sk) f) = c /\
  s_pos (s_run (fwrite_sparse_end sk) f) = len c.
Proof.
  intros f sk c [H1 [H2 H3]]. unfold fwrite_sparse_end.
  destruct (0 <? sk) eqn:E.
  - apply N.ltb_lt in E. unfold s_run. cbn [fold_left s_apply s_data s_pos].
    assert (Ec : c = s_data f ++ zeros (s_pos f + (sk - 1) - len (s_data f)) ++ [0]).
    { rewrite H2. f_equal.
      replace (s_pos f - len (s_data f) + sk) with ((s_pos f + (sk - 1) - len (s_data f)) + 1) by lia.
      rewrite zeros_add. reflexivity. }
    split; [symmetry; exact Ec|].
    rewrite Ec. rewrite !len_app, len_zeros. change (len [0]) with 1. lia.
  - apply N.ltb_ge in E. assert (sk = 0) by lia. subst sk. unfold s_run. cbn [fold_left].
    rewrite H3 in H2 by reflexivity. rewrite N.sub_diag in H2. cbn in H2. rewrite app_nil_r in H2.
    split; [congruence|]. rewrite H3 by reflexivity. congruence.
Qed.

(* ------------------------------------------------------------------ one write job *)

Lemma seg_loop_spec : forall sz, (0 < sz)%nat -> forall fuel body f sk c,
  (length body <= fuel)%nat -> Inv f sk c -> sk + len body < M32 ->
  Inv (s_run (fst (seg_loop sz fuel body sk)) f) (snd (seg_loop sz fuel body sk)) (c ++ body) /\
  snd (seg_loop sz fuel body sk) <= sk + len body.
Proof.
  intros sz Hsz. induction fuel as [|fuel IH]; intros body f sk c Hfuel HI Hb.
  - destruct body; [|cbn [length] in Hfuel; lia]. cbn [seg_loop fst snd]. unfold s_run. cbn [fold_left].
    rewrite app_nil_r. split; [exact HI|lia].
  - cbn [seg_loop]. destruct body as [|x tl] eqn:Eb.
    { cbn [fst snd]. unfold s_run. cbn [fold_left]. rewrite app_nil_r. split; [exact HI|lia]. }
    rewrite <- Eb in *. assert (Hbl : (0 < length body)%nat) by (rewrite Eb; cbn [length]; lia).
    clear Eb x tl.
    set (seg := firstn sz body). set (rest := skipn sz body).
    assert (Hsplit : body = seg ++ rest) by (symmetry; apply firstn_skipn).
    assert (Hseglen : (0 < length seg)%nat).
    { unfold seg. rewrite firstn_length. lia. }
    assert (Hlen : length body = (length seg + length rest)%nat) by (rewrite Hsplit at 1; apply app_length).
    destruct (lead0_words_spec (length seg) seg) as [L1 L2].
    set (nb0 := lead0_words (length seg) seg) in *.
    assert (Hlenb : len body = N.of_nat (length seg) + len rest) by (unfold len; lia).
    assert (Hmod : (sk + N.of_nat nb0) mod M32 = sk + N.of_nat nb0).
    { apply N.mod_small. unfold len in Hb. lia. }
    rewrite Hmod.
    destruct (Nat.eqb nb0 (length seg)) eqn:Eq.
    + apply Nat.eqb_eq in Eq.
      assert (Hseg : seg = repeat 0 nb0).
      { rewrite <- L2. rewrite Eq. symmetry. apply firstn_all. }
      pose proof (step_zero f sk c nb0 HI) as HI1.
      destruct (IH rest f (sk + N.of_nat nb0) (c ++ repeat 0 nb0)) as [J1 J2]; try assumption; try lia;
        try (unfold len in *; lia).
      assert (Hcb : c ++ body = (c ++ repeat 0 nb0) ++ rest).
      { rewrite <- app_assoc. f_equal. transitivity (seg ++ rest); [exact Hsplit|f_equal; exact Hseg]. }
      rewrite Hcb. split; [exact J1|]. lia.
    + apply Nat.eqb_neq in Eq.
      destruct (seg_loop sz fuel rest 0) as [ops sk'] eqn:El. cbn [fst snd].
      assert (Hw : skipn nb0 seg <> []) by (apply skipn_nonempty; lia).
      pose proof (step_write f sk c nb0 (skipn nb0 seg) HI Hw) as HI1.
      assert (Hseg : seg = repeat 0 nb0 ++ skipn nb0 seg) by (apply split_lead; assumption).
      destruct (IH rest (s_run [SSeek (sk + N.of_nat nb0); SWrite (skipn nb0 seg)] f) 0
                   (c ++ repeat 0 nb0 ++ skipn nb0 seg)) as [J1 J2]; try assumption; try lia;
        try (unfold len in *; lia).
      rewrite El in J1, J2. cbn [fst snd] in J1, J2.
      change (SSeek (sk + N.of_nat nb0) :: SWrite (skipn nb0 seg) :: ops)
        with ([SSeek (sk + N.of_nat nb0); SWrite (skipn nb0 seg)] ++ ops).
      rewrite s_run_app.
      assert (Hcb : c ++ body = (c ++ repeat 0 nb0 ++ skipn nb0 seg) ++ rest).
      { rewrite <- app_assoc. f_equal. transitivity (seg ++ rest); [exact Hsplit|].
        rewrite <- app_assoc. rewrite app_assoc. f_equal. exact Hseg. }
      rewrite Hcb. split; [exact J1|lia].
Qed.

Lemma rest_part_spec : forall r f sk c,
  Inv f sk c -> sk + len r < M32 ->
  Inv (s_run (fst (rest_part r sk)) f) (snd (rest_part r sk)) (c ++ r) /\
  snd (rest_part r sk) <= sk + len r.
Proof.
  intros r f sk c HI Hb. unfold rest_part.
  destruct r as [|x tl] eqn:Er.
  { cbn [fst snd]. unfold s_run. cbn [fold_left]. rewrite app_nil_r. split; [exact HI|lia]. }
  rewrite <- Er in *. assert (Hrl : (0 < length r)%nat) by (rewrite Er; cbn [length]; lia). clear Er x tl.
  destruct (lead0_bytes_spec r) as [L1 L2]. set (k := lead0_bytes r) in *.
  assert (Hmod : (sk + N.of_nat k) mod M32 = sk + N.of_nat k).
  { apply N.mod_small. unfold len in Hb. lia. }
  rewrite Hmod.
  destruct (Nat.eqb k (length r)) eqn:Eq.
  - apply Nat.eqb_eq in Eq. cbn [fst snd]. unfold s_run. cbn [fold_left].
    assert (Hr : r = repeat 0 k). { rewrite <- L2. rewrite Eq. symmetry. apply firstn_all. }
    split; [|unfold len; lia]. replace (c ++ r) with (c ++ repeat 0 k) by (f_equal; symmetry; exact Hr).
    apply step_zero. exact HI.
  - apply Nat.eqb_neq in Eq. cbn [fst snd].
    assert (Hw : skipn k r <> []) by (apply skipn_nonempty; lia).
    assert (Hr : r = repeat 0 k ++ skipn k r) by (apply split_lead; assumption).
    split; [|lia]. replace (c ++ r) with (c ++ repeat 0 k ++ skipn k r) by (f_equal; symmetry; exact Hr).
    apply step_write; assumption.
Qed.

Definition SK_MAX : N := 3 * GB1.

Lemma fwrite_sparse_spec : forall chunk f sk c,
  Inv f sk c -> sk <= SK_MAX -> len chunk <= GB1 ->
  Inv (s_run (fst (fwrite_sparse chunk sk)) f) (snd (fwrite_sparse chunk sk)) (c ++ chunk) /\
  snd (fwrite_sparse chunk sk) <= SK_MAX.
Proof.
  intros chunk f sk c HI Hsk Hlen. unfold fwrite_sparse.
  assert (HSEG : (0 < SEGB)%nat) by (unfold SEGB; lia).
  set (nbody := Nat.mul (Nat.div (length chunk) WORD) WORD).
  assert (Hchunk : chunk = firstn nbody chunk ++ skipn nbody chunk) by (symmetry; apply firstn_skipn).
  assert (Hl : length chunk = (length (firstn nbody chunk) + length (skipn nbody chunk))%nat).
  { rewrite Hchunk at 1. apply app_length. }
  assert (Hfl : (length (firstn nbody chunk) <= length chunk)%nat) by (rewrite firstn_length; lia).
  unfold SK_MAX, GB1, M32 in *.
  destruct (1073741824 <? sk) eqn:Efl.
  - apply N.ltb_lt in Efl.
    pose proof (step_flush f sk c HI Efl) as HI0. unfold GB1 in HI0.
    destruct (seg_loop_spec SEGB HSEG (length chunk) (firstn nbody chunk)
                (s_apply f (SSeek 1073741824)) (sk - 1073741824) c Hfl HI0) as [J1 J2].
    { unfold M32, len in *. lia. }
    destruct (seg_loop SEGB (length chunk) (firstn nbody chunk) (sk - 1073741824)) as [o1 sk1] eqn:E1.
    cbn [fst snd] in J1, J2.
    destruct (rest_part_spec (skipn nbody chunk) (s_run o1 (s_apply f (SSeek 1073741824))) sk1
                (c ++ firstn nbody chunk) J1) as [K1 K2].
    { unfold M32, len in *. lia. }
    destruct (rest_part (skipn nbody chunk) sk1) as [o2 sk2] eqn:E2.
    cbn [fst snd] in K1, K2 |- *.
    split.
    + change ([SSeek 1073741824] ++ o1 ++ o2) with (SSeek 1073741824 :: (o1 ++ o2)).
      unfold s_run at 1. cbn [fold_left]. fold (s_run (o1 ++ o2) (s_apply f (SSeek 1073741824))).
      rewrite s_run_app.
      replace (c ++ chunk) with ((c ++ firstn nbody chunk) ++ skipn nbody chunk)
        by (rewrite <- app_assoc; f_equal; apply firstn_skipn).
      exact K1.
    + unfold len in *. lia.
  - apply N.ltb_ge in Efl.
    destruct (seg_loop_spec SEGB HSEG (length chunk) (firstn nbody chunk) f sk c Hfl HI) as [J1 J2].
    { unfold M32, len in *. lia. }
    destruct (seg_loop SEGB (length chunk) (firstn nbody chunk) sk) as [o1 sk1] eqn:E1.
    cbn [fst snd] in J1, J2.
    destruct (rest_part_spec (skipn nbody chunk) (s_run o1 f) sk1 (c ++ firstn nbody chunk) J1) as [K1 K2].
    { unfold M32, len in *. lia. }
    destruct (rest_part (skipn nbody chunk) sk1) as [o2 sk2] eqn:E2.
    cbn [fst snd app] in K1, K2 |- *.
    split.
    + rewrite s_run_app.
      replace (c ++ chunk) with ((c ++ firstn nbody chunk) ++ skipn nbody chunk)
        by (rewrite <- app_assoc; f_equal; apply firstn_skipn).
      exact K1.
    + unfold len in *. lia.
Qed.

(* ------------------------------------------------------------------ a whole frame, a whole file *)

Lemma sparse_ops_spec : forall chunks f sk c,
  Inv f sk c -> sk <= SK_MAX -> (forall ch, In ch chunks -> len ch <= GB1) ->
  s_data (s_run (sparse_ops chunks sk) f) = c ++ concat chunks /\
  s_pos (s_run (sparse_ops chunks sk) f) = len (c ++ concat chunks).
Proof.
  induction chunks as [|ch tl IH]; intros f sk c HI Hsk Hall; cbn [sparse_ops concat].
  - rewrite app_nil_r. apply step_end. exact HI.
  - destruct (fwrite_sparse_spec ch f sk c HI Hsk (Hall ch (or_introl eq_refl))) as [J1 J2].
    destruct (fwrite_sparse ch sk) as [o sk1] eqn:E. cbn [fst snd] in J1, J2.
    rewrite s_run_app. rewrite app_assoc. apply IH; [exact J1|exact J2|].
    intros x Hx. apply Hall. right. exact Hx.
Qed.

Lemma Inv_clean : forall f, s_pos f = len (s_data f) -> Inv f 0 (s_data f).
Proof.
  intros f H. split; [lia|]. split; [|intros _; exact H].
  rewrite H. rewrite N.sub_diag. cbn. rewrite app_nil_r. reflexivity.
Qed.

Lemma plain_run : forall chunks f, s_pos f = len (s_data f) ->
  s_data (s_run (plain_ops chunks) f) = s_data f ++ concat chunks /\
  s_pos (s_run (plain_ops chunks) f) = len (s_data f ++ concat chunks).
Proof.
  unfold plain_ops. induction chunks as [|ch tl IH]; intros f H; cbn [map concat].
  - unfold s_run. cbn [fold_left]. rewrite app_nil_r. split; [reflexivity|exact H].
  - unfold s_run. cbn [fold_left]. fold (s_run (map SWrite tl) (s_apply f (SWrite ch))).
    destruct ch as [|x ch].
    + cbn [s_apply app]. apply IH. exact H.
    + set (w := x :: ch).
      assert (E : s_apply f (SWrite w) = mkS (s_data f ++ w) (s_pos f + len w)).
      { unfold w. cbn [s_apply]. rewrite H. rewrite N.sub_diag. cbn [zeros N.to_nat repeat app]. reflexivity. }
      rewrite E. destruct (IH (mkS (s_data f ++ w) (s_pos f + len w))) as [I1 I2].
      { cbn [s_data s_pos]. rewrite len_app. lia. }
      cbn [s_data] in I1, I2. rewrite <- app_assoc in I1, I2. split; assumption.
Qed.

(* one frame written through the sparse writer, from a clean file state *)
Theorem sparse_frame_equiv : forall chunks f,
  s_pos f = len (s_data f) -> (forall ch, In ch chunks -> len ch <= GB1) ->
  s_data (s_run (sparse_ops chunks 0) f) = s_data (s_run (plain_ops chunks) f) /\
  s_pos (s_run (sparse_ops chunks 0) f) = s_pos (s_run (plain_ops chunks) f).
Proof.
  intros chunks f H Hall.
  destruct (sparse_ops_spec chunks f 0 (s_data f) (Inv_clean f H)) as [A1 A2]; [unfold SK_MAX, GB1; lia|exact Hall|].
  destruct (plain_run chunks f H) as [B1 B2].
  split; congruence.
Qed.

(* a whole destination file: any number of frames, any segmentation into write jobs *)
Theorem sparse_equiv_thm : forall frames,
  (forall fr ch, In fr frames -> In ch fr -> len ch <= GB1) ->
  s_data (s_run (sparse_frames_ops frames) empty_file) = concat (map (@concat N) frames) /\
  s_data (s_run (sparse_frames_ops frames) empty_file)
    = s_data (s_run (concat (map plain_ops frames)) empty_file).
Proof.
  assert (G : forall frames f, s_pos f = len (s_data f) ->
              (forall fr ch, In fr frames -> In ch fr -> len ch <= GB1) ->
              s_data (s_run (sparse_frames_ops frames) f) = s_data f ++ concat (map (@concat N) frames) /\
              s_data (s_run (concat (map plain_ops frames)) f) = s_data f ++ concat (map (@concat N) frames)).
  { induction frames as [|fr tl IH]; intros f H Hall; cbn [sparse_frames_ops map concat].
    - unfold s_run. cbn [fold_left]. rewrite app_nil_r. split; reflexivity.
    - rewrite !s_run_app.
      destruct (sparse_ops_spec fr f 0 (s_data f) (Inv_clean f H)) as [A1 A2];
        [unfold SK_MAX, GB1; lia|intros ch Hc; apply (Hall fr ch (or_introl eq_refl) Hc)|].
      destruct (plain_run fr f H) as [B1 B2].
      destruct (IH (s_run (sparse_ops fr 0) f)) as [C1 _]; [congruence|intros a b Ha Hb; apply (Hall a b (or_intror Ha) Hb)|].
      destruct (IH (s_run (plain_ops fr) f)) as [_ C2]; [congruence|intros a b Ha Hb; apply (Hall a b (or_intror Ha) Hb)|].
      rewrite C1, C2, A1, B1. rewrite <- !app_assoc. split; reflexivity. }
  intros frames Hall. destruct (G frames empty_file eq_refl Hall) as [G1 G2].
  cbn [empty_file s_data app] in G1, G2. split; congruence.
Qed.

(* the hypothesis is satisfiable and the sparse writer does skip: a file ending in a zero run *)
Example sparse_example :
  sparse_frames_ops [[[0; 0; 0; 0; 0; 0; 0; 0; 7; 0; 0; 0; 0; 0; 0; 0; 0; 0; 0]]] =
  [SSeek 8; SWrite [7; 0; 0; 0; 0; 0; 0; 0]; SSeek 2; SWrite [0]].
Proof. vm_compute. reflexivity. Qed.

(* ------------------------------------------------------------------ storedSkips never wraps; runs longer than 2^32 *)

(* the values storedSkips takes between the write jobs of a frame *)
Fixpoint skips_trace (chunks : list (list N)) (skips : N) : list N :=
  match chunks with
  | [] => []
  | c :: tl => let sk := snd (fwrite_sparse c skips) in sk :: skips_trace tl sk
  end.

(* with write jobs of at most 1 GB, the `unsigned storedSkips` stays below 3 GB < 2^32: the arithmetic mod 2^32 of the
   model (and of the C code) never wraps, however long the zero run is *)
Theorem sparse_skips_bounded_thm : forall chunks sk f c,
  Inv f sk c -> sk <= SK_MAX -> (forall ch, In ch chunks -> len ch <= GB1) ->
  Forall (fun x => x <= SK_MAX /\ x < M32) (skips_trace chunks sk).
Proof.
  induction chunks as [|ch tl IH]; intros sk f c HI Hsk Hall; cbn [skips_trace]; [constructor|].
  destruct (fwrite_sparse_spec ch f sk c HI Hsk (Hall ch (or_introl eq_refl))) as [J1 J2].
  constructor.
  - split; [exact J2|]. unfold SK_MAX, GB1, M32 in *. lia.
  - apply (IH _ _ _ J1 J2). intros x Hx. apply Hall. right. exact Hx.
Qed.

Lemma In_repeat_eq : forall (A : Type) (x y : A) n, In y (repeat x n) -> y = x.
Proof. intros A x y n H. apply repeat_spec in H. exact H. Qed.

Lemma concat_repeat_zeros : forall a n, concat (repeat (zeros a) n) = zeros (N.of_nat n * a).
Proof.
  intros a. induction n as [|n IH]; [reflexivity|].
  cbn [repeat concat]. rewrite IH. rewrite <- zeros_add. f_equal. lia.
Qed.

(* a zero run of n GB (n arbitrary: beyond 4 GiB, i.e. beyond the range of storedSkips), written in 1 GB jobs,
   followed by a last job: the file is n GB of zeros followed by that job's bytes *)
Theorem sparse_equiv_over_4GiB_thm : forall (n : nat) tail,
  len tail <= GB1 ->
  s_data (s_run (sparse_frames_ops [repeat (zeros GB1) n ++ [tail]]) empty_file) = zeros (N.of_nat n * GB1) ++ tail.
Proof.
  intros n tail Ht.
  destruct (sparse_equiv_thm [repeat (zeros GB1) n ++ [tail]]) as [E _].
  - intros fr ch [Hfr|[]] Hch. subst fr. apply in_app_or in Hch. destruct Hch as [Hch|[Hch|[]]].
    + apply In_repeat_eq in Hch. subst ch. rewrite len_zeros. lia.
    + subst ch. exact Ht.
  - rewrite E. cbn [map concat]. rewrite app_nil_r. rewrite concat_app. cbn [concat]. rewrite app_nil_r.
    rewrite concat_repeat_zeros. reflexivity.
Qed.

(* ------------------------------------------------------------------ the sparse setting does not change the bytes *)

Theorem sparse_setting_irrelevant_thm : forall v frames,
  (forall fr ch, In fr frames -> In ch fr -> len ch <= GB1) ->
  s_data (s_run (dst_writer_ops v frames) empty_file) = concat (map (@concat N) frames).
Proof.
  intros v frames H. destruct (sparse_equiv_thm frames H) as [E1 E2]. unfold dst_writer_ops.
  destruct (v =? 0); [rewrite <- E2|]; exact E1.
Qed.

(* --no-sparse and compression never seek; --sparse always uses the sparse writer, also on stdout; the automatic
   setting is used for a file only if the destination pre-existed as a regular file, and is lost once it was not *)
Theorem sparse_setting_thm :
  (forall a, sparse_init true a = 0) /\
  (forall so r, sparse_open 0 so r = 0) /\ (forall so r, sparse_open 2 so r = 2) /\
  (forall r, sparse_open 1 true r = 0) /\ sparse_open 1 false true = 1 /\ sparse_open 1 false false = 0.
Proof. repeat split; intros; reflexivity. Qed.
