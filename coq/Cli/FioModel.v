(* C19 — model of the file protocol of programs/fileio.c + the relevant part of
   programs/zstdcli.c (no proofs here).

   fio_ops i s vs : the sequence of file-system operations of one `zstd` run for
   invocation i, started in file system s, when the codec (libzstd) behaves on each
   source as the verdict vs says.

   Code anchors (programs/):
     zstdcli.c  main: test mode => outFileName=nulmark, removeSrcFile=0;
                hasStdout => removeSrcFile=0; one file + outFileName => FIO_*Filename,
                otherwise FIO_*MultipleFilenames
     fileio.c   FIO_compressFilename_srcFile / _dstFile, FIO_decompressSrcFile / DstFile,
                FIO_openDstFile, FIO_removeFile, FIO_multiFilesConcatWarning,
                FIO_compressMultipleFilenames, FIO_decompressMultipleFilenames,
                FIO_determineCompressedName, FIO_determineDstName, FIO_decompressFrames,
                addHandler / clearHandler / INThandler *)
From Coq Require Import NArith List Bool.
From ZV.Cli Require Import FsModel.
Import ListNotations.
Local Open Scope N_scope.

Inductive cmode := Compress | Decompress | Test.
Inductive outsel :=
| OutDefault                 (* one destination per source, derived from its name *)
| OutStdout                  (* -c *)
| OutFile (p : path).        (* -o p *)

Record inv := mkInv {
  i_mode : cmode;
  i_srcs : list path;
  i_out : outsel;
  i_force : bool;            (* -f *)
  i_rm : bool;               (* --rm *)
  i_confirm : bool           (* interactive run (display level > 1) whose user answers y to every prompt *)
}.

(* ---- what the codec does on one source (parameter of the model) ---- *)

Inductive outcome := Ret0 | Ret1 | Throw (n : N).     (* Throw n = EXM_THROW(n): exit(n) on the spot *)

Inductive fitem :=
| FrOk (chunks : list data)      (* a frame that decodes; its output in write-job chunks *)
| FrBad (chunks : list data)     (* a frame whose decoding fails after having produced chunks *)
| Junk (rest : data).            (* bytes at a frame boundary that are no known frame start *)

Record verdict := mkVerdict {
  v_chunks : list data;      (* compression: output chunks *)
  v_out : outcome;           (* compression: result of FIO_compressFilename_internal *)
  v_items : list fitem;      (* decompression: the frames of the source *)
  v_close_ok : bool          (* fclose(dst) succeeds *)
}.

(* FIO_decompressFrames *)
Fixpoint frames_loop (pass : bool) (items : list fitem) (first : bool) : list data * outcome :=
  match items with
  | [] => ([], if first then Ret1 else Ret0)
  | FrOk cs :: tl => let '(w, o) := frames_loop pass tl false in (cs ++ w, o)
  | FrBad cs :: _ => (cs, Ret1)
  | Junk rest :: _ => if pass then ([rest], Ret0) else ([], Ret1)
  end.

Inductive dsel :=
| DTest                      (* test mode: nothing is opened or written *)
| DStdout
| DShared (p : path)         (* several sources into one already opened destination *)
| DOwn (p : path).           (* destination opened and closed for this source *)

Definition is_stdout (d : dsel) : bool := match d with DStdout => true | _ => false end.

Definition codec (i : inv) (d : dsel) (v : verdict) : list data * outcome :=
  match i_mode i with
  | Compress => (v_chunks v, v_out v)
  | _ => frames_loop (i_force i && is_stdout d) (v_items v) true
  end.

Definition is_ret0 (o : outcome) : bool := match o with Ret0 => true | _ => false end.

(* ---- destination names ---- *)
Definition dot : N := 46.
Definition sfx_zst : path := [46; 122; 115; 116].          (* ".zst" *)
Definition sfx_tzst : path := [46; 116; 122; 115; 116].    (* ".tzst" *)
Definition sfx_zstd : path := [46; 122; 115; 116; 100].    (* ".zstd" *)
Definition sfx_tar : path := [46; 116; 97; 114].           (* ".tar" *)

(* scan the reversed name up to the last '.', returns (suffix incl. dot, reversed base) *)
Fixpoint split_at_dot (r : list N) (acc : list N) : option (list N * list N) :=
  match r with
  | [] => None
  | c :: tl => if c =? dot then Some (c :: acc, tl) else split_at_dot tl (c :: acc)
  end.

(* FIO_determineDstName (no output directory) *)
Definition dstname_d (src : path) : option path :=
  match split_at_dot (rev src) [] with
  | None => None
  | Some (sfx, rbase) =>
      match rbase with
      | [] => None
      | _ => if path_eqb sfx sfx_zst || path_eqb sfx sfx_zstd then Some (rev rbase)
             else if path_eqb sfx sfx_tzst then Some (rev rbase ++ sfx_tar)
             else None
      end
  end.

(* FIO_determineCompressedName *)
Definition dstname_c (src : path) : option path := Some (src ++ sfx_zst).

(* ---- FIO_openDstFile for a file name ---- *)
Definition open_dst (ovw : bool) (s : fs) (src : option path) (dst : path) (m600 : bool) : list op * bool :=
  if match src with Some sp => path_eqb sp dst | None => false end
  then ([], false)                                  (* UTIL_isSameFile: refused *)
  else match s dst with
       | Reg _ => if ovw then ([OUnlinkDst dst; OCreat dst m600], true) else ([], false)
       | Absent => ([OCreat dst m600], true)
       | Dir => ([], false)                         (* open() fails *)
       end.

Inductive fres := FOk | FFail | FThrow (n : N).

Definition writes (d : dsel) (chunks : list data) : list op :=
  match d with
  | DTest => []
  | DStdout => map OStdout chunks
  | DShared p => map (OWrite p) chunks
  | DOwn p => map (OWrite p) chunks
  end.

Definition tail_src (rm : bool) (src : path) (ok : bool) : list op :=
  OCloseSrc src :: (if rm && ok then [OClr; OUnlinkSrc src] else []).

Definition ovw (i : inv) : bool := i_force i || i_confirm i.

(* FIO_compressFilename_srcFile + _dstFile  /  FIO_decompressSrcFile + DstFile *)
Definition file_ops (i : inv) (rm : bool) (s : fs) (src : path) (d : dsel) (v : verdict) : list op * fres :=
  match s src with
  | Absent => ([], FFail)
  | Dir => ([], FFail)
  | Reg _ =>
      let '(chunks, out) := codec i d v in
      match d with
      | DOwn p =>
          let '(oo, opened) := open_dst (ovw i) s (Some src) p true in
          if opened then
            let pre := OOpenRead src :: oo ++ OReg p :: map (OWrite p) chunks in
            match out with
            | Throw n => (pre ++ [OExit n], FThrow n)
            | _ =>
                let ok := is_ret0 out && v_close_ok v in
                (pre ++ [OClr; OSetStat p; OClose p; OUtime p]
                     ++ (if ok then [] else [OUnlinkDst p]) ++ tail_src rm src ok,
                 if ok then FOk else FFail)
            end
          else (OOpenRead src :: oo ++ [OCloseSrc src], FFail)
      | _ =>
          let pre := OOpenRead src :: writes d chunks in
          match out with
          | Throw n => (pre ++ [OExit n], FThrow n)
          | _ => let ok := is_ret0 out in (pre ++ tail_src rm src ok, if ok then FOk else FFail)
          end
      end
  end.

Definition is_fail (r : fres) : bool := match r with FOk => false | _ => true end.

(* the loop over the sources; result: inl err (all files processed) | inr n (exit(n) in the middle) *)
Fixpoint loop (i : inv) (rm : bool) (dof : path -> option dsel) (vs : path -> verdict)
         (srcs : list path) (s : fs) (err : bool) : list op * (bool + N) :=
  match srcs with
  | [] => ([], inl err)
  | src :: tl =>
      match dof src with
      | None => loop i rm dof vs tl s true
      | Some d =>
          let '(ops, r) := file_ops i rm s src d (vs src) in
          match r with
          | FThrow n => (ops, inr n)
          | _ => let '(ops', e) := loop i rm dof vs tl (run ops s) (err || is_fail r) in
                 (ops ++ ops', e)
          end
      end
  end.

Definition exit_of (e : bool + N) : list op :=
  match e with
  | inl false => [OExit 0]
  | inl true => [OExit 1]
  | inr _ => []                 (* the OExit n is already in the list *)
  end.

Definition is_test (i : inv) : bool := match i_mode i with Test => true | _ => false end.
Definition out_stdout (i : inv) : bool := match i_out i with OutStdout => true | _ => false end.

(* zstdcli.c: removeSrcFile is cleared in test mode and when the output is stdout *)
Definition eff_rm (i : inv) : bool := i_rm i && negb (is_test i) && negb (out_stdout i).

Definition dstname (i : inv) (src : path) : option path :=
  match i_mode i with
  | Compress => dstname_c src
  | _ => dstname_d src
  end.

(* which destination a source gets *)
Definition dsel_of (i : inv) (src : path) : option dsel :=
  match i_mode i with
  | Test => Some DTest
  | _ => match i_out i with
         | OutStdout => Some DStdout
         | OutFile p => match i_srcs i with
                        | [_] => Some (DOwn p)
                        | _ => Some (DShared p)
                        end
         | OutDefault => option_map DOwn (dstname i src)
         end
  end.

Definition is_concat (i : inv) : bool :=
  negb (is_test i) &&
  match i_out i, i_srcs i with
  | OutFile _, [_] => false
  | OutFile _, _ => true
  | _, _ => false
  end.

Definition fio_ops (i : inv) (s : fs) (vs : path -> verdict) : list op :=
  if is_concat i then
    match i_out i with
    | OutFile p =>
        (* FIO_multiFilesConcatWarning: --rm disabled; without -f: abort (quiet) or prompt *)
        if ovw i then
          let '(oo, opened) := open_dst (ovw i) s None p false in
          if opened then
            let '(ops, e) := loop i false (dsel_of i) vs (i_srcs i) (run oo s) false in
            oo ++ ops ++ match e with
                         | inl _ => OClose p :: exit_of e
                         | inr _ => []
                         end
          else match i_mode i with
               | Compress => [OExit 1]
               | _ => [OExit 19]
               end
        else [OExit 1]
    | _ => [OExit 1]
    end
  else
    let '(ops, e) := loop i (eff_rm i) (dsel_of i) vs (i_srcs i) s false in
    ops ++ exit_of e.

(* destination path standing for a source, if any *)
Definition dst_of (i : inv) (src : path) : option path :=
  match dsel_of i src with
  | Some (DOwn p) => Some p
  | _ => None
  end.
