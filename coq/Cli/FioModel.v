(* C19 — model of the file protocol of programs/fileio.c + the relevant part of
   programs/zstdcli.c (no proofs here).

   fio_ops i ls s vs : the sequence of file-system operations of one `zstd` run for
   invocation i, started in file system s (ls = what readdir returns, for -r), when the
   environment (libzstd on each source, and the system calls on each file) behaves as vs says.

   Code anchors (programs/):
     zstdcli.c  main: symbolic links among the file arguments are dropped unless -f (all dropped => exit 1);
                -r expands directories (UTIL_expandFNT / UTIL_prepareFileList; nothing left => exit 0);
                no file => stdin; one stdin source and no output given => stdout;
                -D together with --patch-from, --patch-from with several files => exit 1;
                test mode => outFileName=nulmark, removeSrcFile=0; hasStdout => removeSrcFile=0;
                --rm / --keep: the last one on the command line wins;
                one file + outFileName => FIO_*Filename, otherwise FIO_*MultipleFilenames
     fileio.c   FIO_createCResources / FIO_createDResources (dictionary loaded before anything else:
                FIO_getDictFileStat EXM_THROW(31/32), fopen EXM_THROW(33)),
                FIO_compressFilename_srcFile / _dstFile, FIO_decompressSrcFile / DstFile,
                FIO_openSrcFile, FIO_openDstFile, FIO_removeFile, FIO_multiFilesConcatWarning,
                FIO_compressMultipleFilenames, FIO_decompressMultipleFilenames,
                FIO_determineCompressedName, FIO_determineDstName, FIO_createFilename_fromOutDir,
                FIO_decompressFrames, addHandler / clearHandler / INThandler,
                EXM_THROW (fileio_common.h) = FIO_removeArtefact(); exit(n)
     util.c     UTIL_isCompressedFile (--exclude-compressed), UTIL_isSameFile, UTIL_isLink *)
From Coq Require Import NArith List Bool.
From ZV.Cli Require Import FsModel.
Import ListNotations.
Local Open Scope N_scope.

Inductive cmode := Compress | Decompress | Test.
Inductive outsel :=
| OutDefault                 (* one destination per source, derived from its name *)
| OutStdout                  (* -c *)
| OutFile (p : path)         (* -o p *)
| OutDir (d : path).         (* --output-dir-flat d (-O d): one destination per source, inside d *)

Record inv := mkInv {
  i_mode : cmode;
  i_srcs : list path;        (* the file arguments; "-" is given as stdinmark *)
  i_out : outsel;
  i_force : bool;            (* -f *)
  i_rmk : list bool;         (* the --rm (true) and -k / --keep (false) flags, in command-line order *)
  i_answer : option N;       (* None: no interaction possible (display level <= 1). Some b: interactive run whose user
                                types an answer starting with byte b at every prompt (b >= 256 stands for end of input) *)
  i_rec : bool;              (* -r *)
  i_excl : bool;             (* --exclude-compressed *)
  i_dict : option path;      (* -D file *)
  i_patch : option path      (* --patch-from=file *)
}.

(* ---- how the environment behaves on one file (parameter of the model) ---- *)

Inductive outcome := Ret0 | Ret1 | Throw (n : N).     (* Throw n = EXM_THROW(n): clean-up of the artefact, exit(n) *)

Inductive fitem :=
| FrOk (chunks : list data)      (* a frame that decodes; its output in write-job chunks *)
| FrBad (chunks : list data)     (* a frame whose decoding fails after having produced chunks *)
| Junk (rest : data).            (* bytes at a frame boundary that are no known frame start *)

Record verdict := mkVerdict {
  v_chunks : list data;      (* compression: output chunks *)
  v_out : outcome;           (* compression: result of FIO_compressFilename_internal *)
  v_items : list fitem;      (* decompression: the frames of the source *)
  (* I/O faults: which library / system calls made on behalf of this file fail *)
  v_wfail : option nat;      (* Some n: fwrite / fseek of the write pool fails after n complete write jobs: EXM_THROW(70/92/93) *)
  v_open_ok : bool;          (* fopen(file, "rb") succeeds (source, dictionary) *)
  v_ovw_unlink_ok : bool;    (* remove(dst) before the destination is re-created succeeds (the code ignores the result) *)
  v_creat_ok : bool;         (* open(dst, O_WRONLY|O_CREAT|O_TRUNC) succeeds *)
  v_close_ok : bool;         (* fclose(dst) succeeds *)
  v_art_unlink_ok : bool;    (* remove(dst) of the artefact succeeds *)
  v_close_src_ok : bool;     (* fclose(src) succeeds *)
  v_rm_ok : bool             (* remove(src) succeeds *)
}.

(* FIO_decompressFrames *)
Fixpoint frames_loop (pass : bool) (items : list fitem) (first : bool) : list data * outcome :=
  match items with
  | [] => ([], if first then Ret1 else Ret0)
  | FrOk cs :: tl => let '(w, o) := frames_loop pass tl false in (cs ++ w, o)
  | FrBad cs :: _ => (cs, Ret1)
  | Junk rest :: _ => if pass then ([rest], Ret0) else ([], Ret1)
  end.

Inductive dsel :=
| DTest                      (* test mode: nothing is opened or written *)
| DStdout (close_here : bool)  (* stdout; close_here: fclose(stdout) is part of this source's processing *)
| DShared (p : path)         (* several sources into one already opened destination (p = the key it was opened on) *)
| DOwn (p : path).           (* destination opened and closed for this source *)

Definition is_stdout (d : dsel) : bool := match d with DStdout _ => true | _ => false end.

(* the write pool stops at the first failing fwrite *)
Definition cut_w (w : option nat) (r : list data * outcome) : list data * outcome :=
  match w with
  | Some n => if Nat.ltb n (length (fst r)) then (firstn n (fst r), Throw 70) else r
  | None => r
  end.

Definition codec (i : inv) (d : dsel) (v : verdict) : list data * outcome :=
  let raw := match i_mode i with
             | Compress => (v_chunks v, v_out v)
             | _ => frames_loop (i_force i && is_stdout d) (v_items v) true
             end in
  match d with
  | DTest => raw                   (* test mode: AIO_fwriteSparse returns before writing *)
  | _ => cut_w (v_wfail v) raw
  end.

Definition is_ret0 (o : outcome) : bool := match o with Ret0 => true | _ => false end.

(* ---- names ---- *)
Definition dot : N := 46.
Definition slash : N := 47.
Definition stdinmark : path := [47; 42; 115; 116; 100; 105; 110; 42; 92].          (* "/*stdin*\" *)
Definition stdoutmark : path := [47; 42; 115; 116; 100; 111; 117; 116; 42; 92].    (* "/*stdout*\" *)
Definition is_stdin (p : path) : bool := path_eqb p stdinmark.

Definition sfx_zst : path := [46; 122; 115; 116].          (* ".zst" *)
Definition sfx_tzst : path := [46; 116; 122; 115; 116].    (* ".tzst" *)
Definition sfx_zstd : path := [46; 122; 115; 116; 100].    (* ".zstd" *)
Definition sfx_tar : path := [46; 116; 97; 114].           (* ".tar" *)
Definition sfx_gz : path := [46; 103; 122].                (* ".gz" *)
Definition sfx_tgz : path := [46; 116; 103; 122].          (* ".tgz" *)
Definition sfx_lzma : path := [46; 108; 122; 109; 97].     (* ".lzma" *)
Definition sfx_xz : path := [46; 120; 122].                (* ".xz" *)
Definition sfx_txz : path := [46; 116; 120; 122].          (* ".txz" *)
Definition sfx_lz4 : path := [46; 108; 122; 52].           (* ".lz4" *)
Definition sfx_tlz4 : path := [46; 116; 108; 122; 52].     (* ".tlz4" *)

(* scan the reversed name up to the last '.', returns (suffix incl. dot, reversed base) *)
Fixpoint split_at_dot (r : list N) (acc : list N) : option (list N * list N) :=
  match r with
  | [] => None
  | c :: tl => if c =? dot then Some (c :: acc, tl) else split_at_dot tl (c :: acc)
  end.

(* the part after the last '/' (the whole name when there is none) *)
Fixpoint until_slash (r : path) : path :=
  match r with
  | [] => []
  | c :: tl => if c =? slash then [] else c :: until_slash tl
  end.
Definition basename (p : path) : path := rev (until_slash (rev p)).

(* the part before the last '/', None when there is none *)
Fixpoint after_slash (r : path) : option path :=
  match r with
  | [] => None
  | c :: tl => if c =? slash then Some tl else after_slash tl
  end.
Definition parent (p : path) : option path := option_map (@rev N) (after_slash (rev p)).

(* FIO_createFilename_fromOutDir *)
Definition in_dir (d : path) (name : path) : path :=
  match rev d with
  | c :: _ => if c =? slash then d ++ name else d ++ slash :: name
  | [] => slash :: name
  end.

(* FIO_determineDstName *)
Definition dstname_d (od : option path) (src : path) : option path :=
  match split_at_dot (rev src) [] with
  | None => None
  | Some (sfx, rbase) =>
      match rbase with
      | [] => None
      | _ => let base := match od with
                         | None => rev rbase
                         | Some d => in_dir d (basename (rev rbase))
                         end in
             if path_eqb sfx sfx_zst || path_eqb sfx sfx_zstd then Some base
             else if path_eqb sfx sfx_tzst then Some (base ++ sfx_tar)
             else None
      end
  end.

(* FIO_determineCompressedName *)
Definition dstname_c (od : option path) (src : path) : option path :=
  Some (match od with None => src | Some d => in_dir d (basename src) end ++ sfx_zst).

(* UTIL_isCompressedFile over the compressor extensions of compressedFileExtensions[]
   (the media / archive extensions of that table are not modelled) *)
Definition compressed_exts : list path :=
  [sfx_zst; sfx_tzst; sfx_gz; sfx_tgz; sfx_lzma; sfx_xz; sfx_txz; sfx_lz4; sfx_tlz4].
Definition is_compressed_name (src : path) : bool :=
  match split_at_dot (rev src) [] with
  | Some (sfx, _ :: _) => existsb (path_eqb sfx) compressed_exts
  | _ => false
  end.

(* ---- FIO_openDstFile for a file name ---- *)

(* UTIL_isSameFile: both exist and resolve to the same key *)
Definition same_file (s : fs) (a b : path) : bool :=
  match look s a, look s b with
  | Absent, _ => false
  | _, Absent => false
  | _, _ => path_eqb (target s a) (target s b)
  end.

Definition parent_ok (s : fs) (p : path) : bool :=
  match parent p with
  | None => true
  | Some [] => true
  | Some q => is_dir (look s q)
  end.

(* open(dst, O_WRONLY|O_CREAT|O_TRUNC, mode): follows a link, fails on a directory *)
Definition creat_ops (s : fs) (v : verdict) (dst : path) (m600 : bool) : list op * option path :=
  if v_creat_ok v && parent_ok s dst then
    match look s dst with
    | Dir => ([], None)
    | Lnk _ => ([], None)
    | _ => ([OCreat (target s dst) m600], Some (target s dst))
    end
  else ([], None).

(* result: the operations, and the key the data is written to when the destination could be opened *)
Definition open_dst (ovw : bool) (s : fs) (v : verdict) (src : option path) (dst : path) (m600 : bool)
  : list op * option path :=
  if match src with Some sp => same_file s sp dst | None => false end
  then ([], None)                                   (* refused *)
  else match look s dst with
       | Reg _ =>
           if ovw then
             let u := if v_ovw_unlink_ok v then [OUnlinkDst dst] else [] in
             let '(c, t) := creat_ops (run u s) v dst m600 in (u ++ c, t)
           else ([], None)
       | _ => creat_ops s v dst m600
       end.

Inductive fres := FOk | FFail | FThrow (n : N).

Definition writes (d : dsel) (chunks : list data) : list op :=
  match d with
  | DTest => []
  | DStdout _ => map OStdout chunks
  | DShared p => map (OWrite p) chunks
  | DOwn p => map (OWrite p) chunks
  end.

(* UTIL_requireUserConfirmation(prompt, abort, "yY", hasStdinInput) as repaired in f7ae77e: ch = getchar();
   refused when ch == EOF || ch == 0 || strchr("yY", ch) == NULL.  (Before the repair strchr() found the
   terminating NUL of "yY": an answer starting with byte 0 was a yes.) *)
Definition yes_byte (b : N) : bool := (b =? 121) || (b =? 89).        (* 'y' 'Y' *)
Definition confirm (i : inv) : bool :=
  match i_answer i with
  | Some b => yes_byte b
  | None => false
  end.

Definition ovw (i : inv) : bool := i_force i || confirm i.

Definition dict_of (i : inv) : option path :=
  match i_patch i with
  | Some p => Some p
  | None => i_dict i
  end.

(* the checks made on a source before anything is opened *)
Inductive gate := GFail | GSkip | GGo.

Definition src_gate (i : inv) (s : fs) (src : path) (v : verdict) : gate :=
  if is_stdin src then GGo else
  match i_mode i with
  | Compress =>
      match look s src with
      | Dir => GFail
      | n => if match dict_of i with Some d => same_file s src d | None => false end then GFail
             else if i_excl i && is_compressed_name src then GSkip
             else match n with
                  | Reg _ => if v_open_ok v then GGo else GFail
                  | _ => GFail
                  end
      end
  | _ => match look s src with
         | Reg _ => if v_open_ok v then GGo else GFail
         | _ => GFail
         end
  end.

(* closing the source and --rm *)
Definition tail_src (i : inv) (rm : bool) (src : path) (v : verdict) (ok : bool) : list op * fres :=
  let res := if ok then FOk else FFail in
  let dorm := rm && ok && negb (is_stdin src) in
  match i_mode i with
  | Compress =>
      if dorm then
        if v_rm_ok v then ([OCloseSrc src; OClr; OUnlinkSrc src], FOk)
        else ([OCloseSrc src; OClr; OExit 1], FThrow 1)
      else ([OCloseSrc src], res)
  | _ =>
      if negb (v_close_src_ok v) then ([OCloseSrc src], FFail)
      else if dorm then
        if v_rm_ok v then ([OCloseSrc src; OClr; OUnlinkSrc src], FOk)
        else ([OCloseSrc src; OClr], FFail)
      else ([OCloseSrc src], res)
  end.

(* EXM_THROW: FIO_removeArtefact(); exit(n) *)
Definition throw_ops (art : option path) (v : verdict) (n : N) : list op :=
  match art with
  | Some p => (if v_art_unlink_ok v then [OUnlinkDst p] else []) ++ [OExit n]
  | None => [OExit n]
  end.

(* FIO_compressFilename_srcFile + _dstFile  /  FIO_decompressSrcFile + DstFile *)
Definition file_ops (i : inv) (rm : bool) (s : fs) (src : path) (d : dsel) (v : verdict) : list op * fres :=
  match src_gate i s src v with
  | GFail => ([], FFail)
  | GSkip => ([], FOk)
  | GGo =>
      let stdin := is_stdin src in
      let rd := if stdin then [] else [OOpenRead src] in
      let '(chunks, out) := codec i d v in
      match d with
      | DOwn p =>
          let '(oo, ot) := open_dst (ovw i) s v (Some src) p (negb stdin) in
          match ot with
          | None => (rd ++ oo ++ [OCloseSrc src], FFail)
          | Some t =>
              let pre := rd ++ oo ++ OReg p :: map (OWrite t) chunks in
              match out with
              | Throw n => (pre ++ throw_ops (Some p) v n, FThrow n)
              | _ =>
                  let ok := is_ret0 out && v_close_ok v in
                  let '(tl, r) := tail_src i rm src v ok in
                  (pre ++ OClr :: (if stdin then [] else [OSetStat t]) ++ OClose t :: (if stdin then [] else [OUtime p])
                       ++ (if ok then [] else if v_art_unlink_ok v then [OUnlinkDst p] else []) ++ tl, r)
              end
          end
      | _ =>
          let pre := rd ++ writes d chunks in
          match out with
          | Throw n => (pre ++ [OExit n], FThrow n)
          | _ =>
              let ok := is_ret0 out && match d with DStdout true => v_close_ok v | _ => true end in
              let '(tl, r) := tail_src i rm src v ok in
              (pre ++ tl, r)
          end
      end
  end.

Definition is_fail (r : fres) : bool := match r with FOk => false | _ => true end.

(* ---- the outputs this command has completed (a937acd) ----
   FIO_rememberOutput(fCtx, srcFileName, dstFileName): after a destination opened for one source has been written and
   closed with result == 0, the pair (output name, input name) is remembered in the FIO context.
   FIO_openDstFile / FIO_isOutputOfAnotherInput: a destination name that denotes a regular file which is
   (UTIL_isSameFile) one of the remembered outputs, written for an input that is NOT (UTIL_isSameFile) the current one,
   is refused -- before the -f / prompt test, nothing is touched.  (With one name nothing is remembered; the list is
   then never consulted either.  stdout "closed here" is remembered too in the code, under a name that never stats.) *)
Definition own_refused (own : list (path * path)) (s : fs) (src dst : path) : bool :=
  is_reg (look s dst) &&
  existsb (fun e => same_file s (fst e) dst && negb (same_file s (snd e) src)) own.

(* the refusal, for a destination that is a regular file, is what FIO_openDstFile does when neither -f nor a "y" is
   given: the segment of a refused source is file_ops of the invocation without -f and without interaction *)
Definition no_ovw (i : inv) : inv :=
  mkInv (i_mode i) (i_srcs i) (i_out i) false (i_rmk i) None (i_rec i) (i_excl i) (i_dict i) (i_patch i).

Definition inv_for (i : inv) (own : list (path * path)) (s : fs) (src : path) (d : dsel) : inv :=
  match d with
  | DOwn p => if own_refused own s src p then no_ovw i else i
  | _ => i
  end.

(* result == 0 in FIO_compressFilename_dstFile / FIO_decompressDstFile for a destination opened for this source *)
Definition completes (i : inv) (s : fs) (src : path) (d : dsel) (v : verdict) : bool :=
  match d with
  | DOwn p =>
      match src_gate i s src v with
      | GGo => match snd (open_dst (ovw i) s v (Some src) p (negb (is_stdin src))) with
               | Some _ => is_ret0 (snd (codec i d v)) && v_close_ok v
               | None => false
               end
      | _ => false
      end
  | _ => false
  end.

Definition own_next (i : inv) (own : list (path * path)) (s : fs) (src : path) (d : dsel) (v : verdict) : list (path * path) :=
  match d with
  | DOwn p => if completes i s src d v then (p, src) :: own else own
  | _ => own
  end.

(* the loop over the sources; result: inl err (all files processed) | inr n (exit(n) in the middle) *)
Fixpoint loop (i : inv) (rm : bool) (dof : path -> option dsel) (vs : path -> verdict) (own : list (path * path))
         (srcs : list path) (s : fs) (err : bool) : list op * (bool + N) :=
  match srcs with
  | [] => ([], inl err)
  | src :: tl =>
      match dof src with
      | None => loop i rm dof vs own tl s true
      | Some d =>
          let '(ops, r) := file_ops (inv_for i own s src d) rm s src d (vs src) in
          match r with
          | FThrow n => (ops, inr n)
          | _ => let '(ops', e) := loop i rm dof vs (own_next (inv_for i own s src d) own s src d (vs src)) tl (run ops s) (err || is_fail r) in
                 (ops ++ ops', e)
          end
      end
  end.

Definition exit_of (e : bool + N) : list op :=
  match e with
  | inl false => [OExit 0]
  | inl true => [OExit 1]
  | inr _ => []                 (* the OExit n is already in the list *)
  end.

(* ---- zstdcli.c: from the command line to the list of names ---- *)

Definition is_nil {A} (l : list A) : bool := match l with [] => true | _ => false end.
Definition is_some {A} (o : option A) : bool := match o with Some _ => true | None => false end.

(* UTIL_prepareFileList; ls d = the entries of directory d (as paths d/name) in readdir order *)
Fixpoint expand_dir (fuel : nat) (ls : path -> list path) (s : fs) (follow : bool) (d : path) : list path :=
  match fuel with
  | O => []
  | S f => flat_map (fun p => if negb follow && is_lnk (s p) then []
                              else if is_dir (look s p) then expand_dir f ls s follow p
                              else [p]) (ls d)
  end.

(* UTIL_createExpandedFNT *)
Definition expand (ls : path -> list path) (s : fs) (follow : bool) (names : list path) : list path :=
  flat_map (fun p => if is_dir (look s p) then expand_dir 16 ls s follow p else [p]) names.

(* inl n: main returns n before any file is processed; inr names: the names handed to fileio.c *)
Definition pre (i : inv) (ls : path -> list path) (s : fs) : N + list path :=
  let given := i_srcs i in
  let l1 := if i_force i then given else filter (fun p => negb (is_lnk (s p))) given in
  if negb (is_nil given) && is_nil l1 then inl 1 else
  let l2 := if i_rec i then expand ls s (i_force i) l1 else l1 in
  match (if is_nil l2 then (if is_nil given then Some [stdinmark] else None) else Some l2) with
  | None => inl 0
  | Some l3 =>
      if is_some (i_dict i) && is_some (i_patch i) then inl 1
      else if is_some (i_patch i) && negb (Nat.leb (length l3) 1) then inl 1
      else inr l3
  end.

Definition eff_srcs (i : inv) (ls : path -> list path) (s : fs) : list path :=
  match pre i ls s with
  | inr names => names
  | inl _ => []
  end.

Definition is_test (i : inv) : bool := match i_mode i with Test => true | _ => false end.

Definition one_name (names : list path) : bool := match names with [_] => true | _ => false end.

(* outFileName after "when input is stdin, default output is stdout" *)
Definition eff_out (i : inv) (names : list path) : outsel :=
  match i_out i with
  | OutStdout => OutStdout
  | OutFile p => OutFile p
  | o => match names with
         | [p] => if is_stdin p then OutStdout else o
         | _ => o
         end
  end.

Definition out_stdout (i : inv) (names : list path) : bool :=
  match eff_out i names with OutStdout => true | _ => false end.

(* the last of --rm / --keep wins *)
Definition last_flag (l : list bool) : bool := match rev l with b :: _ => b | [] => false end.

(* FIO_checkFilenameCollisions (fileio.c, as repaired in 175caff): with --output-dir-flat, two names whose parts after
   the last '/' are equal end up under one destination name *)
Fixpoint has_dup (l : list path) : bool :=
  match l with
  | [] => false
  | x :: tl => existsb (path_eqb x) tl || has_dup tl
  end.

Definition flat_collision (i : inv) (names : list path) : bool :=
  match eff_out i names with
  | OutDir _ => has_dup (map basename names)
  | _ => false
  end.

(* prefs->removeSrcFile while the sources are processed.
   zstdcli.c: cleared in test mode and when the output is stdout;
   FIO_keepSourcesOnCollision (175caff, called by FIO_*MultipleFilenames before the first source is opened):
   cleared when two sources share one name in the flat output directory *)
Definition eff_rm (i : inv) (names : list path) : bool :=
  last_flag (i_rmk i) && negb (is_test i) && negb (out_stdout i names) && negb (flat_collision i names).

Definition dstname (i : inv) (od : option path) (src : path) : option path :=
  match i_mode i with
  | Compress => dstname_c od src
  | _ => dstname_d od src
  end.

(* one file and an output name: FIO_compressFilename / FIO_decompressFilename *)
Definition single (i : inv) (names : list path) : bool :=
  one_name names && match eff_out i names with OutStdout => true | OutFile _ => true | _ => false end.

(* which destination a source gets *)
Definition dsel_of (i : inv) (names : list path) (src : path) : option dsel :=
  match i_mode i with
  | Test => Some DTest
  | _ => match eff_out i names with
         | OutStdout => Some (DStdout (single i names))
         | OutFile p => if single i names then Some (DOwn p) else Some (DShared p)
         | OutDefault => if is_stdin src then Some (DStdout true) else option_map DOwn (dstname i None src)
         | OutDir d => if is_stdin src then Some (DStdout true) else option_map DOwn (dstname i (Some d) src)
         end
  end.

(* several sources into one output (file or stdout) *)
Definition is_concat (i : inv) (names : list path) : bool :=
  negb (is_test i) && negb (one_name names) &&
  match eff_out i names with
  | OutFile _ => true
  | OutStdout => true
  | _ => false
  end.

(* FIO_create*Resources: the dictionary is loaded before any source or destination is touched *)
Definition dict_check (i : inv) (s : fs) (vs : path -> verdict) : option N :=
  match dict_of i with
  | None => None
  | Some d => match look s d with
              | Absent => Some 31
              | Reg _ => if v_open_ok (vs d) then None else Some 33
              | _ => Some 32
              end
  end.

(* EXM_THROW code when the shared destination cannot be closed *)
Definition close_code (i : inv) : N := match i_mode i with Compress => 29 | _ => 72 end.

Definition fio_main (i : inv) (names : list path) (s : fs) (vs : path -> verdict) : list op :=
  match dict_check i s vs with
  | Some n => [OExit n]
  | None =>
      if is_concat i names then
        match eff_out i names with
        | OutFile p =>
            (* FIO_multiFilesConcatWarning: --rm disabled; without -f: abort (quiet) or prompt *)
            if ovw i then
              let '(oo, ot) := open_dst true s (vs p) None p false in
              match ot with
              | Some t =>
                  let '(ops, e) := loop i false (fun _ => Some (DShared t)) vs [] names (run oo s) false in
                  oo ++ ops ++ match e with
                               | inl _ => OClose t :: (if v_close_ok (vs p) then exit_of e else [OExit (close_code i)])
                               | inr _ => []
                               end
              | None => oo ++ [OExit (match i_mode i with Compress => 1 | _ => 19 end)]
              end
            else [OExit 1]
        | _ =>
            (* stdout: no prompt; fclose(stdout) at the end *)
            let '(ops, e) := loop i false (dsel_of i names) vs [] names s false in
            ops ++ match e with
                   | inl _ => if v_close_ok (vs stdoutmark) then exit_of e else [OExit (close_code i)]
                   | inr _ => []
                   end
        end
      else
        let '(ops, e) := loop i (eff_rm i names) (dsel_of i names) vs [] names s false in
        ops ++ exit_of e
  end.

Definition fio_ops (i : inv) (ls : path -> list path) (s : fs) (vs : path -> verdict) : list op :=
  match pre i ls s with
  | inl n => [OExit n]
  | inr names => fio_main i names s vs
  end.

(* destination path standing for a source, if any *)
Definition dst_of (i : inv) (names : list path) (src : path) : option path :=
  match dsel_of i names src with
  | Some (DOwn p) => Some p
  | _ => None
  end.
