(* C19 — file-system model for the zstd command-line tool.
   Model only (no proofs here).  A file system maps path names to nodes; the
   operations are the file-system relevant actions of programs/fileio.c.

   paths : byte strings (list N), one name space keyed by the whole path string
           (a directory is a node of its own; "d/x" and "d" are different keys).
   links : a symbolic link is a node Lnk t; t is the path (relative to the working
           directory) the link denotes.  stat()/open() follow ONE level (look / target):
           a link whose target is again a link is outside the model (such a name is
           treated as "neither regular nor directory").  Hard links are not modelled
           (UTIL_isSameFile compares st_dev/st_ino: here two names denote the same
           file iff they resolve to the same key).
   data  : list N.  The model is parametric in what an element stands for: the
           correspondence driver uses one element per blob ("token"), the theorems
           hold for any element type content (bytes included). *)
From Coq Require Import NArith List Bool.
Import ListNotations.
Local Open Scope N_scope.

Definition path := list N.
Definition data := list N.

Record file := mkFile { f_bytes : data; f_closed : bool }.

Inductive node :=
| Absent
| Reg (f : file)
| Dir                        (* directory / anything that is neither a regular file nor a link *)
| Lnk (t : path).            (* symbolic link to t *)

Definition fs := path -> node.

Fixpoint path_eqb (a b : path) : bool :=
  match a, b with
  | [], [] => true
  | x :: a', y :: b' => (x =? y) && path_eqb a' b'
  | _, _ => false
  end.

Definition upd (s : fs) (p : path) (n : node) : fs :=
  fun q => if path_eqb q p then n else s q.

(* stat(p): what p denotes after following one link *)
Definition look (s : fs) (p : path) : node :=
  match s p with
  | Lnk t => s t
  | n => n
  end.

(* the key an open(p) / stat(p) lands on *)
Definition target (s : fs) (p : path) : path :=
  match s p with
  | Lnk t => t
  | _ => p
  end.

Definition is_lnk (n : node) : bool := match n with Lnk _ => true | _ => false end.
Definition is_dir (n : node) : bool := match n with Dir => true | _ => false end.
Definition is_reg (n : node) : bool := match n with Reg _ => true | _ => false end.

(* Operations, tagged with the code site they come from.  Every operation names the KEY it acts on
   (the protocol model resolves links when it generates the operation).
   OReg / OClr are ghost operations: the SIGINT handler's g_artefact register
   (addHandler / clearHandler in fileio.c); they do not change the file system. *)
Inductive op :=
| OOpenRead (p : path)                 (* FIO_openSrcFile: fopen(src, "rb") *)
| OCreat (p : path) (m600 : bool)      (* FIO_openDstFile: open(dst, O_WRONLY|O_CREAT|O_TRUNC, mode) *)
| OWrite (p : path) (d : data)         (* write pool -> fwrite on dst *)
| OSetStat (p : path)                  (* UTIL_setFDStat: fchmod/fchown on the open dst *)
| OClose (p : path)                    (* AIO_WritePool_closeFile: fclose(dst) *)
| OUtime (p : path)                    (* UTIL_utime(dst) *)
| OUnlinkDst (p : path)                (* remove(dst): -f overwrite, artefact removal, EXM_THROW / SIGINT clean-up *)
| OCloseSrc (p : path)                 (* fclose(src) *)
| OUnlinkSrc (p : path)                (* FIO_removeFile(src): --rm *)
| OStdout (d : data)                   (* write to stdout *)
| OReg (p : path)                      (* addHandler(dst) *)
| OClr                                 (* clearHandler() *)
| OExit (n : N).

Definition append_bytes (n : node) (d : data) : node :=
  match n with
  | Reg f => Reg (mkFile (f_bytes f ++ d) (f_closed f))
  | other => other
  end.

Definition close_node (n : node) : node :=
  match n with
  | Reg f => Reg (mkFile (f_bytes f) true)
  | other => other
  end.

Definition apply_op (s : fs) (o : op) : fs :=
  match o with
  | OCreat p _ => upd s p (Reg (mkFile [] false))
  | OWrite p d => upd s p (append_bytes (s p) d)
  | OClose p => upd s p (close_node (s p))
  | OUnlinkDst p => upd s p Absent
  | OUnlinkSrc p => upd s p Absent
  | _ => s
  end.

Definition run (ops : list op) (s : fs) : fs := fold_left apply_op ops s.

(* the SIGINT handler register *)
Definition apply_h (h : option path) (o : op) : option path :=
  match o with
  | OReg p => Some p
  | OClr => None
  | _ => h
  end.

Definition run_h (ops : list op) (h : option path) : option path := fold_left apply_h ops h.

(* what SIGINT does: INThandler is installed exactly while g_artefact is set
   (addHandler installs it, clearHandler restores SIG_DFL): remove(g_artefact); exit(2).
   Otherwise the default action kills the process: nothing more happens. *)
Definition handler_ops (h : option path) : list op :=
  match h with
  | Some p => [OUnlinkDst p; OExit 2]
  | None => []
  end.

(* the run interrupted by SIGINT after k operations *)
Definition sigint_ops (k : nat) (ops : list op) : list op :=
  firstn k ops ++ handler_ops (run_h (firstn k ops) None).
