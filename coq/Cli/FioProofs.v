(* C19 — proofs about the CLI file-protocol model. *)
From Coq Require Import NArith List Bool Lia.
From ZV.Cli Require Import FsModel FioModel FioSpec.
Import ListNotations.
Local Open Scope N_scope.

(* ------------------------------------------------------------------ basics *)

Lemma path_eqb_eq : forall a b, path_eqb a b = true <-> a = b.
Proof.
  induction a as [|x a IH]; destruct b as [|y b]; cbn [path_eqb]; split; intro H; try congruence; try reflexivity.
  - apply andb_true_iff in H. destruct H as [H1 H2]. apply N.eqb_eq in H1. apply IH in H2. congruence.
  - inversion H; subst. apply andb_true_iff. split. apply N.eqb_refl. apply IH. reflexivity.
Qed.

Lemma path_eqb_refl : forall a, path_eqb a a = true.
Proof. intro a. apply path_eqb_eq. reflexivity. Qed.

Lemma path_eqb_neq : forall a b, a <> b -> path_eqb a b = false.
Proof.
  intros a b H. destruct (path_eqb a b) eqn:E; [|reflexivity].
  apply path_eqb_eq in E. contradiction.
Qed.

Lemma path_eq_dec : forall a b : path, {a = b} + {a <> b}.
Proof.
  intros a b. destruct (path_eqb a b) eqn:E.
  - left. apply path_eqb_eq. exact E.
  - right. intro H. apply path_eqb_eq in H. congruence.
Qed.

Lemma upd_same : forall s p n, upd s p n p = n.
Proof. intros. unfold upd. rewrite path_eqb_refl. reflexivity. Qed.

Lemma upd_other : forall s p n q, q <> p -> upd s p n q = s q.
Proof. intros. unfold upd. rewrite path_eqb_neq by assumption. reflexivity. Qed.

Lemma run_app : forall a b s, run (a ++ b) s = run b (run a s).
Proof. intros. unfold run. apply fold_left_app. Qed.

Lemma run_h_app : forall a b h, run_h (a ++ b) h = run_h b (run_h a h).
Proof. intros. unfold run_h. apply fold_left_app. Qed.

Lemma run_cons : forall o a s, run (o :: a) s = run a (apply_op s o).
Proof. reflexivity. Qed.

Lemma run_h_cons : forall o a h, run_h (o :: a) h = run_h a (apply_h h o).
Proof. reflexivity. Qed.

Lemma apply_op_other : forall s o q, modifies o <> Some q -> apply_op s o q = s q.
Proof.
  intros s o q H. destruct o; cbn [apply_op modifies] in *; try reflexivity;
    apply upd_other; intro E; apply H; congruence.
Qed.

(* ------------------------------------------------------------------ all_pref *)

Lemma all_pref_app : forall P a b s h,
  all_pref P (a ++ b) s h <-> all_pref P a s h /\ all_pref P b (run a s) (run_h a h).
Proof.
  induction a as [|o a IH]; intros b s h; cbn [app all_pref].
  - unfold run, run_h; cbn [fold_left]. split.
    + intro H. split; [split; [|exact I]|exact H]. destruct b; cbn [all_pref] in H; tauto.
    + tauto.
  - rewrite IH. rewrite run_cons, run_h_cons. tauto.
Qed.

Lemma all_pref_here : forall P ops s h, all_pref P ops s h -> P s h.
Proof. intros P ops s h H. destruct ops; cbn [all_pref] in H; tauto. Qed.

Lemma all_pref_end : forall P ops s h, all_pref P ops s h -> P (run ops s) (run_h ops h).
Proof.
  induction ops as [|o a IH]; intros s h H; cbn [all_pref] in H.
  - apply H.
  - rewrite run_cons, run_h_cons. apply IH. apply H.
Qed.

Lemma all_pref_impl : forall (P Q : fs -> option path -> Prop) ops s h,
  (forall s h, P s h -> Q s h) -> all_pref P ops s h -> all_pref Q ops s h.
Proof.
  induction ops as [|o a IH]; intros s h HPQ H; cbn [all_pref] in *.
  - split; [apply HPQ; apply H|exact I].
  - split; [apply HPQ; apply H|]. apply IH; [exact HPQ|apply H].
Qed.

Lemma all_pref_firstn : forall P ops s h k,
  all_pref P ops s h -> P (run (firstn k ops) s) (run_h (firstn k ops) h).
Proof.
  intros P ops s h k H.
  rewrite <- (firstn_skipn k ops) in H. apply all_pref_app in H. destruct H as [H _].
  apply all_pref_end in H. exact H.
Qed.

(* ------------------------------------------------------------------ frame lemma *)

Definition avoids (prot : path -> Prop) (o : op) : Prop :=
  forall p, modifies o = Some p -> ~ prot p.

Definition h_unprot (prot : path -> Prop) (h : option path) : Prop :=
  match h with Some p => ~ prot p | None => True end.

Lemma apply_h_unprot : forall prot h o, h_unprot prot h -> avoids prot o -> h_unprot prot (apply_h h o).
Proof.
  intros prot h o Hh Ho. destruct o; cbn [apply_h]; try exact Hh.
  - cbn [h_unprot]. apply Ho. reflexivity.
  - exact I.
Qed.

Lemma apply_op_prot : forall (prot : path -> Prop) s o q, avoids prot o -> prot q -> apply_op s o q = s q.
Proof.
  intros prot s o q Ho Hq. apply apply_op_other. intro E. apply (Ho q E Hq).
Qed.

Lemma unlinked_prot : forall (prot : path -> Prop) h s q, h_unprot prot h -> prot q -> unlinked h s q = s q.
Proof.
  intros prot h s q Hh Hq. destruct h as [p|]; cbn [unlinked h_unprot] in *; [|reflexivity].
  apply upd_other. intro E. subst. contradiction.
Qed.

(* Q depends only on the protected paths *)
Definition local_to (prot : path -> Prop) (Q : fs -> Prop) : Prop :=
  forall s s', (forall q, prot q -> s' q = s q) -> Q s -> Q s'.

Lemma avoid_all_pref : forall (prot : path -> Prop) (Q : fs -> Prop),
  local_to prot Q ->
  forall ops s h,
    Q s -> h_unprot prot h -> Forall (avoids prot) ops ->
    all_pref (fun s h => Q s /\ Q (unlinked h s)) ops s h /\
    (forall q, prot q -> run ops s q = s q) /\
    h_unprot prot (run_h ops h).
Proof.
  intros prot Q Hloc. induction ops as [|o a IH]; intros s h HQ Hh Hav.
  - cbn [all_pref]. unfold run, run_h; cbn [fold_left]. repeat split; try assumption.
    apply (Hloc s); [|exact HQ]. intros q Hq. apply (unlinked_prot prot); assumption.
  - inversion Hav as [|? ? Ho Ha]; subst.
    assert (HQ' : Q (apply_op s o)).
    { apply (Hloc s); [|exact HQ]. intros q Hq. apply (apply_op_prot prot); assumption. }
    assert (Hh' : h_unprot prot (apply_h h o)) by (apply apply_h_unprot; assumption).
    destruct (IH (apply_op s o) (apply_h h o) HQ' Hh' Ha) as [I1 [I2 I3]].
    cbn [all_pref]. rewrite run_cons, run_h_cons. repeat split; try assumption.
    + apply (Hloc s); [|exact HQ]. intros q Hq. apply (unlinked_prot prot); assumption.
    + intros q Hq. rewrite I2 by assumption. apply (apply_op_prot prot); assumption.
Qed.

(* ------------------------------------------------------------------ symbolic links only ever disappear *)

Definition lsub (s0 s : fs) : Prop := forall p q, s p = Lnk q -> s0 p = Lnk q.

Lemma lsub_refl : forall s, lsub s s.
Proof. intros s p q H. exact H. Qed.

Lemma lsub_apply : forall s0 s o, lsub s0 s -> lsub s0 (apply_op s o).
Proof.
  intros s0 s o H. destruct o; cbn [apply_op]; try exact H; intros a q E; unfold upd in E;
    destruct (path_eqb a p) eqn:X; try (apply H; exact E); try discriminate E.
  - apply path_eqb_eq in X. subst a. destruct (s p) eqn:Y; cbn [append_bytes] in E; try discriminate E.
    apply H. rewrite Y. exact E.
  - apply path_eqb_eq in X. subst a. destruct (s p) eqn:Y; cbn [close_node] in E; try discriminate E.
    apply H. rewrite Y. exact E.
Qed.

Lemma lsub_run : forall s0 ops s, lsub s0 s -> lsub s0 (run ops s).
Proof.
  intros s0. induction ops as [|o tl IH]; intros s H; [exact H|].
  rewrite run_cons. apply IH. apply lsub_apply. exact H.
Qed.

Lemma target_cases : forall s p, target s p = p \/ s p = Lnk (target s p).
Proof. intros s p. unfold target. destruct (s p); auto. Qed.

Lemma not_lnk_target : forall s p, is_lnk (s p) = false -> target s p = p.
Proof. intros s p H. unfold target. destruct (s p); try reflexivity. discriminate H. Qed.

Lemma not_lnk_look : forall s p, is_lnk (s p) = false -> look s p = s p.
Proof. intros s p H. unfold look. destruct (s p); try reflexivity. discriminate H. Qed.

(* ------------------------------------------------------------------ opening the destination *)

Lemma creat_ops_spec : forall s v dst m c t,
  creat_ops s v dst m = (c, t) ->
  (c = [] /\ t = None) \/ (c = [OCreat (target s dst) m] /\ t = Some (target s dst)).
Proof.
  intros s v dst m c t H. unfold creat_ops in H.
  destruct (v_creat_ok v && parent_ok s dst); [|inversion H; auto].
  destruct (look s dst); inversion H; auto.
Qed.

Lemma open_dst_spec : forall ovw s v osrc p m oo ot,
  open_dst ovw s v osrc p m = (oo, ot) ->
  exists u c, oo = u ++ c /\ (u = [] \/ u = [OUnlinkDst p]) /\
              ((c = [] /\ ot = None) \/
               exists t, c = [OCreat t m] /\ ot = Some t /\ (t = p \/ s p = Lnk t)).
Proof.
  intros ovw s v osrc p m oo ot H. unfold open_dst in H.
  destruct (match osrc with Some sp => same_file s sp p | None => false end).
  { inversion H; subst. exists [], []. split; [reflexivity|]. split; [left; reflexivity|]. left. split; reflexivity. }
  assert (Plain : forall c t, creat_ops s v p m = (c, t) ->
            exists u c0, c = u ++ c0 /\ (u = [] \/ u = [OUnlinkDst p]) /\
              ((c0 = [] /\ t = None) \/ exists t0, c0 = [OCreat t0 m] /\ t = Some t0 /\ (t0 = p \/ s p = Lnk t0))).
  { intros c t Hc. exists [], c. split; [reflexivity|]. split; [left; reflexivity|].
    destruct (creat_ops_spec _ _ _ _ _ _ Hc) as [[A B]|[A B]]; [left; split; assumption|].
    right. exists (target s p). split; [exact A|]. split; [exact B|]. apply target_cases. }
  destruct (look s p) eqn:El; try (apply Plain; exact H).
  destruct ovw; [|inversion H; subst; exists [], []; split; [reflexivity|]; split; [left; reflexivity|]; left; split; reflexivity].
  destruct (v_ovw_unlink_ok v).
  - destruct (creat_ops (run [OUnlinkDst p] s) v p m) as [c t] eqn:Hc. inversion H; subst.
    exists [OUnlinkDst p], c. split; [reflexivity|]. split; [right; reflexivity|].
    destruct (creat_ops_spec _ _ _ _ _ _ Hc) as [[A B]|[A B]]; [left; split; assumption|].
    right. assert (T : target (run [OUnlinkDst p] s) p = p).
    { unfold target, run. cbn [fold_left apply_op]. rewrite upd_same. reflexivity. }
    rewrite T in A, B. exists p. split; [exact A|]. split; [exact B|]. left. reflexivity.
  - destruct (creat_ops (run [] s) v p m) as [c t] eqn:Hc. inversion H; subst.
    unfold run in Hc. cbn [fold_left] in Hc. cbn [app]. apply Plain. exact Hc.
Qed.

Definition in_slot (s : fs) (p q : path) : Prop := q = p \/ s p = Lnk q.

Lemma open_dst_mod : forall ovw s v osrc p m oo ot,
  open_dst ovw s v osrc p m = (oo, ot) ->
  Forall (fun o => forall q, modifies o = Some q -> in_slot s p q) oo /\
  (forall t, ot = Some t -> in_slot s p t).
Proof.
  intros ovw s v osrc p m oo ot H.
  destruct (open_dst_spec _ _ _ _ _ _ _ _ H) as [u [c [E [Hu Hc]]]]. subst oo. split.
  - apply Forall_app. split.
    + destruct Hu as [Hu|Hu]; subst u; [constructor|]. constructor; [|constructor].
      intros q X. cbn [modifies] in X. inversion X. left. reflexivity.
    + destruct Hc as [[Hc _]|[t [Hc [_ Ht]]]]; subst c; [constructor|]. constructor; [|constructor].
      intros q X. cbn [modifies] in X. inversion X; subst q. exact Ht.
  - intros t Et. destruct Hc as [[_ Hc]|[t0 [_ [Hc Ht]]]]; [congruence|].
    rewrite Hc in Et. inversion Et; subst. exact Ht.
Qed.

Lemma open_dst_opened : forall ovw s v osrc p m oo t s',
  open_dst ovw s v osrc p m = (oo, Some t) -> run oo s' t = Reg (mkFile [] false).
Proof.
  intros ovw s v osrc p m oo t s' H.
  destruct (open_dst_spec _ _ _ _ _ _ _ _ H) as [u [c [E [Hu Hc]]]]. subst oo.
  destruct Hc as [[_ Hc]|[t0 [Hc [Et _]]]]; [discriminate Hc|]. inversion Et; subst t0 c.
  rewrite run_app. unfold run at 1. cbn [fold_left apply_op]. apply upd_same.
Qed.

Lemma open_dst_not_opened : forall ovw s v osrc p m oo,
  open_dst ovw s v osrc p m = (oo, None) -> oo = [] \/ oo = [OUnlinkDst p].
Proof.
  intros ovw s v osrc p m oo H.
  destruct (open_dst_spec _ _ _ _ _ _ _ _ H) as [u [c [E [Hu Hc]]]]. subst oo.
  destruct Hc as [[Hc _]|[t0 [_ [Et _]]]]; [|discriminate Et]. subst c. rewrite app_nil_r. exact Hu.
Qed.

Lemma run_h_open_dst : forall ovw s v osrc p m oo ot h,
  open_dst ovw s v osrc p m = (oo, ot) -> run_h oo h = h.
Proof.
  intros ovw s v osrc p m oo ot h H.
  destruct (open_dst_spec _ _ _ _ _ _ _ _ H) as [u [c [E [Hu Hc]]]]. subst oo.
  rewrite run_h_app.
  assert (A : run_h u h = h) by (destruct Hu; subst u; reflexivity). rewrite A.
  destruct Hc as [[Hc _]|[t0 [Hc _]]]; subst c; reflexivity.
Qed.

(* ------------------------------------------------------------------ what a segment may modify *)

Definition dslots (s : fs) (d : dsel) (q : path) : Prop :=
  match d with
  | DShared p => q = p
  | DOwn p => in_slot s p q
  | _ => False
  end.

Definition seg_mod (rm : bool) (s : fs) (src : path) (d : dsel) (o : op) : Prop :=
  forall p, modifies o = Some p -> (o = OUnlinkSrc src /\ rm = true /\ is_stdin src = false) \/ dslots s d p.

Definition nomod (o : op) : Prop := modifies o = None.

Lemma nomod_seg : forall rm s src d l, Forall nomod l -> Forall (seg_mod rm s src d) l.
Proof.
  intros rm s src d l H. eapply Forall_impl; [|exact H]. intros o Ho p E. unfold nomod in Ho. congruence.
Qed.

Lemma Forall_map_write : forall (P : op -> Prop) p chunks,
  (forall c, P (OWrite p c)) -> Forall P (map (OWrite p) chunks).
Proof. intros. apply Forall_forall. intros x Hx. apply in_map_iff in Hx. destruct Hx as [c [E _]]. subst. auto. Qed.

Lemma Forall_map_stdout : forall (P : op -> Prop) chunks,
  (forall c, P (OStdout c)) -> Forall P (map OStdout chunks).
Proof. intros. apply Forall_forall. intros x Hx. apply in_map_iff in Hx. destruct Hx as [c [E _]]. subst. auto. Qed.

(* the two shapes of the end of a segment *)
Lemma tail_src_cases : forall i rm src v ok tl r,
  tail_src i rm src v ok = (tl, r) ->
  (tl = [OCloseSrc src; OClr; OUnlinkSrc src] /\ r = FOk /\ ok = true /\ rm = true /\ is_stdin src = false) \/
  (Forall nomod tl /\ (r = FOk -> ok = true) /\ (forall h, run_h tl h = h \/ run_h tl h = None)).
Proof.
  intros i rm src v ok tl r H. unfold tail_src in H.
  destruct (i_mode i); destruct rm; destruct ok; destruct (is_stdin src); cbn [andb negb] in H;
    try destruct (v_close_src_ok v); cbn [negb] in H; try destruct (v_rm_ok v);
    inversion H; subst;
    first [ left; repeat split; reflexivity
          | right; split; [repeat constructor|split; [first [reflexivity | discriminate | (intros _; reflexivity)]|intros h; first [left; reflexivity | right; reflexivity]]] ].
Qed.

Lemma throw_ops_mod : forall p v n (P : op -> Prop),
  P (OUnlinkDst p) -> P (OExit n) -> Forall P (throw_ops (Some p) v n).
Proof.
  intros p v n P H1 H2. unfold throw_ops. destruct (v_art_unlink_ok v); repeat constructor; assumption.
Qed.

Ltac inv_pair H := apply pair_equal_spec in H; destruct H as [? ?]; subst.

Lemma slot_seg : forall rm s src d o q, modifies o = Some q -> dslots s d q -> seg_mod rm s src d o.
Proof. intros rm s src d o q E H p E'. rewrite E in E'. inversion E'; subst. right. exact H. Qed.

Lemma nomod1_seg : forall rm s src d o, modifies o = None -> seg_mod rm s src d o.
Proof. intros rm s src d o E p E'. congruence. Qed.

Ltac fsplit := repeat first [apply Forall_app; split | apply Forall_cons | apply Forall_nil].

Ltac segfin :=
  first [ apply nomod1_seg; reflexivity
        | eapply slot_seg; [reflexivity|first [assumption | cbn [dslots]; reflexivity]] ].

Lemma file_ops_mod : forall i rm s src d v ops r,
  file_ops i rm s src d v = (ops, r) -> Forall (seg_mod rm s src d) ops.
Proof.
  intros i rm s src d v ops r H. unfold file_ops in H.
  destruct (src_gate i s src v); try (inv_pair H; apply Forall_nil).
  destruct (codec i d v) as [chunks out].
  assert (Hrd : Forall (seg_mod rm s src d) (if is_stdin src then [] else [OOpenRead src])).
  { destruct (is_stdin src); fsplit. segfin. }
  assert (Htl : forall ok tl r', tail_src i rm src v ok = (tl, r') -> Forall (seg_mod rm s src d) tl).
  { intros ok tl r' Ht. destruct (tail_src_cases _ _ _ _ _ _ _ Ht) as [[E [_ [_ [Erm Est]]]]|[Hn _]].
    - subst tl. fsplit; try segfin. intros p _. left. repeat split; assumption.
    - apply nomod_seg. exact Hn. }
  destruct d as [|cl|p|p].
  - (* test *)
    destruct out as [| |n]; try (destruct (tail_src i rm src v _) as [tl r'] eqn:Ht; inv_pair H);
      try inv_pair H; cbn [writes]; fsplit; try exact Hrd; try (eapply Htl; exact Ht); try segfin.
  - destruct out as [| |n]; try (destruct (tail_src i rm src v _) as [tl r'] eqn:Ht; inv_pair H);
      try inv_pair H; cbn [writes]; fsplit; try exact Hrd; try (eapply Htl; exact Ht);
      try (apply Forall_map_stdout; intros; segfin); try segfin.
  - destruct out as [| |n]; try (destruct (tail_src i rm src v _) as [tl r'] eqn:Ht; inv_pair H);
      try inv_pair H; cbn [writes]; fsplit; try exact Hrd; try (eapply Htl; exact Ht);
      try (apply Forall_map_write; intros; segfin); try segfin.
  - destruct (open_dst (ovw i) s v (Some src) p (negb (is_stdin src))) as [oo ot] eqn:Eo.
    destruct (open_dst_mod _ _ _ _ _ _ _ _ Eo) as [Hoo Hot].
    assert (Hoo' : Forall (seg_mod rm s src (DOwn p)) oo).
    { eapply Forall_impl; [|exact Hoo]. intros o Ho q E. right. cbn [dslots]. apply Ho. exact E. }
    assert (Hp : dslots s (DOwn p) p) by (cbn [dslots]; left; reflexivity).
    destruct ot as [t|].
    2:{ inv_pair H. fsplit; try exact Hrd; try exact Hoo'. segfin. }
    assert (Ht : dslots s (DOwn p) t) by (cbn [dslots]; apply Hot; reflexivity).
    assert (Hst : forall l : list op, Forall nomod l -> Forall (seg_mod rm s src (DOwn p)) l)
      by (intros l Hl; apply nomod_seg; exact Hl).
    destruct out as [| |n].
    3:{ inv_pair H. fsplit; try exact Hrd; try exact Hoo'; try segfin.
        - apply Forall_map_write. intros c. segfin.
        - destruct (v_art_unlink_ok v); fsplit; segfin. }
    + destruct (tail_src i rm src v (is_ret0 Ret0 && v_close_ok v)) as [tl r'] eqn:Htl'. inv_pair H.
      fsplit; try exact Hrd; try exact Hoo'; try (eapply Htl; exact Htl'); try segfin.
      * apply Forall_map_write. intros c. segfin.
      * destruct (is_stdin src); fsplit; segfin.
      * destruct (is_stdin src); fsplit; segfin.
      * destruct (is_ret0 Ret0 && v_close_ok v); [apply Forall_nil|].
        destruct (v_art_unlink_ok v); fsplit. segfin.
    + destruct (tail_src i rm src v (is_ret0 Ret1 && v_close_ok v)) as [tl r'] eqn:Htl'. inv_pair H.
      fsplit; try exact Hrd; try exact Hoo'; try (eapply Htl; exact Htl'); try segfin.
      * apply Forall_map_write. intros c. segfin.
      * destruct (is_stdin src); fsplit; segfin.
      * destruct (is_stdin src); fsplit; segfin.
      * destruct (is_ret0 Ret1 && v_close_ok v); [apply Forall_nil|].
        destruct (v_art_unlink_ok v); fsplit. segfin.
Qed.

(* ------------------------------------------------------------------ one source with its own destination *)

Lemma run_writes : forall p chunks s b c,
  s p = Reg (mkFile b c) ->
  run (map (OWrite p) chunks) s p = Reg (mkFile (b ++ concat chunks) c).
Proof.
  induction chunks as [|x tl IH]; intros s b c H; cbn [map concat].
  - unfold run; cbn [fold_left]. rewrite app_nil_r. exact H.
  - rewrite run_cons. rewrite (IH _ (b ++ x) c).
    + rewrite app_assoc. reflexivity.
    + cbn [apply_op]. rewrite upd_same. rewrite H. reflexivity.
Qed.

Definition safe2 rel org b0 od : fs -> option path -> Prop :=
  fun s h => safe rel org b0 od s /\ safe rel org b0 od (unlinked h s).

Definition holds (org : path) (b0 : data) (s : fs) : Prop := exists f, s org = Reg f /\ f_bytes f = b0.

Lemma holds_local : forall org b0, local_to (eq org) (holds org b0).
Proof.
  intros org b0 s s' H [f [H1 H2]]. exists f. split; [|exact H2]. rewrite (H org eq_refl). exact H1.
Qed.

Lemma holds_safe : forall rel org b0 od s, holds org b0 s -> safe rel org b0 od s.
Proof. intros. left. exact H. Qed.

(* a list of operations none of which modifies org keeps its data in place *)
Lemma untouched_safe : forall rel org b0 od ops s h,
  holds org b0 s -> h_unprot (eq org) h -> Forall (avoids (eq org)) ops ->
  all_pref (safe2 rel org b0 od) ops s h /\ holds org b0 (run ops s) /\ h_unprot (eq org) (run_h ops h).
Proof.
  intros rel org b0 od ops s h H Hh Hav.
  destruct (avoid_all_pref (eq org) (holds org b0) (holds_local org b0) ops s h H Hh Hav) as [A [B C]].
  split; [|split].
  - eapply all_pref_impl; [|exact A]. intros s1 h1 [X Y]. split; apply holds_safe; assumption.
  - destruct H as [f [H1 H2]]. exists f. split; [|exact H2]. rewrite (B org eq_refl). exact H1.
  - exact C.
Qed.

Ltac solve_av Hne :=
  repeat first
    [ apply Forall_app; split
    | apply Forall_cons
    | apply Forall_nil
    | apply Forall_map_write; intros ? ? E; cbn [modifies] in E; inversion E; subst; intro; apply Hne; congruence
    | apply Forall_map_stdout; intros ? ? E; discriminate E
    | assumption
    | match goal with |- Forall _ (if ?c then _ else _) => destruct c end
    | (intros ? E; cbn [modifies] in E; first [discriminate E | inversion E; subst; intro; apply Hne; congruence]) ].

Lemma run_h_writes : forall p chunks h, run_h (map (OWrite p) chunks) h = h.
Proof. induction chunks; intros; cbn [map]; [reflexivity|]. rewrite run_h_cons. cbn [apply_h]. apply IHchunks. Qed.

Lemma run_h_stdout : forall chunks h, run_h (map OStdout chunks) h = h.
Proof. induction chunks; intros; cbn [map]; [reflexivity|]. rewrite run_h_cons. cbn [apply_h]. apply IHchunks. Qed.

Lemma run_h_nil : forall h, run_h [] h = h.
Proof. reflexivity. Qed.

Lemma nomod_avoids : forall (prot : path -> Prop) l, Forall nomod l -> Forall (avoids prot) l.
Proof. intros prot l H. eapply Forall_impl; [|exact H]. intros o Ho q E. unfold nomod in Ho. congruence. Qed.

(* operations that change neither the file system nor the handler register *)
Definition quiet (o : op) : Prop := modifies o = None /\ o <> OClr.

Lemma quiet_run : forall l s h, Forall quiet l -> run l s = s /\ run_h l h = h.
Proof.
  induction l as [|o tl IH]; intros s h H; [split; reflexivity|].
  inversion H as [|? ? [Ho1 Ho2] Ht]; subst. rewrite run_cons, run_h_cons.
  assert (A : apply_op s o = s) by (destruct o; cbn [modifies] in Ho1; try discriminate Ho1; reflexivity).
  assert (B : apply_h h o = h) by (destruct o; cbn [modifies] in Ho1; try discriminate Ho1; try reflexivity; exfalso; apply Ho2; reflexivity).
  rewrite A, B. apply IH. exact Ht.
Qed.

Lemma quiet_rd : forall src, Forall quiet (if is_stdin src then [] else [OOpenRead src]).
Proof. intros src. destruct (is_stdin src); repeat constructor. discriminate. Qed.

Lemma in_slot_plain : forall s p q, is_lnk (s p) = false -> in_slot s p q -> q = p.
Proof. intros s p q H [E|E]; [exact E|]. rewrite E in H. discriminate H. Qed.

Lemma throw_ops_h : forall p v n h, run_h (throw_ops (Some p) v n) h = h.
Proof. intros. unfold throw_ops. destruct (v_art_unlink_ok v); reflexivity. Qed.

Lemma run_h_if_quiet : forall (c : bool) o h, quiet o -> run_h (if c then [] else [o]) h = h.
Proof.
  intros c o h [H1 H2]. destruct c; [reflexivity|]. rewrite run_h_cons.
  destruct o; cbn [modifies] in H1; try discriminate H1; try reflexivity. exfalso. apply H2. reflexivity.
Qed.

Lemma run_h_art : forall (c c2 : bool) p h,
  run_h (if c then [] else if c2 then [OUnlinkDst p] else []) h = h.
Proof. intros c c2 p h. destruct c; [reflexivity|]. destruct c2; reflexivity. Qed.

Ltac simp_h Eo :=
  repeat first
    [ rewrite run_h_app
    | rewrite run_h_cons
    | rewrite run_h_writes
    | rewrite run_h_stdout
    | rewrite (run_h_open_dst _ _ _ _ _ _ _ _ _ Eo)
    | rewrite run_h_nil
    | rewrite run_h_art
    | rewrite run_h_if_quiet by (split; [reflexivity|discriminate])
    | rewrite throw_ops_h
    | progress cbn [apply_h] ].

Lemma own_file_safe : forall rel i rm s src p v f ops r,
  s src = Reg f -> src <> p -> is_lnk (s p) = false -> verdict_sound rel i (f_bytes f) v ->
  file_ops i rm s src (DOwn p) v = (ops, r) ->
  all_pref (safe2 rel src (f_bytes f) (Some p)) ops s None /\
  ((forall n, r <> FThrow n) -> run_h ops None = None).
Proof.
  intros rel i rm s src p v f ops r Hs Hne Hpl Hsound H.
  assert (Hhold : holds src (f_bytes f) s) by (exists f; split; [exact Hs|reflexivity]).
  unfold file_ops in H.
  destruct (src_gate i s src v).
  1,2: inv_pair H; split; [|intros _; reflexivity];
       apply (untouched_safe rel src (f_bytes f) (Some p)); [exact Hhold|exact I|apply Forall_nil].
  destruct (codec i (DOwn p) v) as [chunks out] eqn:Ec.
  destruct (open_dst (ovw i) s v (Some src) p (negb (is_stdin src))) as [oo ot] eqn:Eo.
  destruct (open_dst_mod _ _ _ _ _ _ _ _ Eo) as [Hoo0 Hot].
  assert (Hoo : Forall (avoids (eq src)) oo).
  { eapply Forall_impl; [|exact Hoo0]. intros o Ho q E X. apply Hne. rewrite X.
    apply (in_slot_plain s p q Hpl). apply Ho. exact E. }
  pose proof (quiet_rd src) as Hrdq.
  assert (Hrd : Forall (avoids (eq src)) (if is_stdin src then [] else [OOpenRead src])).
  { destruct (is_stdin src); repeat constructor. intros q E. discriminate E. }
  destruct ot as [t|].
  2:{ inv_pair H. split.
      - apply (untouched_safe rel src (f_bytes f) (Some p)); [exact Hhold|exact I|]. solve_av Hne.
      - intros _. simp_h Eo. reflexivity. }
  assert (Et : t = p) by (apply (in_slot_plain s p t Hpl); apply Hot; reflexivity). subst t.
  destruct out as [| |n].
  3:{ inv_pair H. split.
      - apply (untouched_safe rel src (f_bytes f) (Some p)); [exact Hhold|exact I|].
        unfold throw_ops. solve_av Hne.
      - intros X. exfalso. apply (X n). reflexivity. }
  - (* the codec reports success *)
    destruct (tail_src i rm src v (is_ret0 Ret0 && v_close_ok v)) as [tl r'] eqn:Etl. inv_pair H.
    destruct (tail_src_cases _ _ _ _ _ _ _ Etl) as [[E1 [E2 [E3 [E4 E5]]]]|[Hn [_ Hh]]].
    + (* success with --rm: everything up to the final unlink leaves src alone *)
      subst tl r. cbn [is_ret0 andb] in E3. rewrite E3. rewrite E5. cbn [is_ret0 andb]. cbv iota.
      set (A := ([OOpenRead src] ++ oo ++ OReg p :: map (OWrite p) chunks) ++
                OClr :: [OSetStat p] ++ OClose p :: [OUtime p] ++ [] ++ [OCloseSrc src; OClr]).
      assert (EA : ([OOpenRead src] ++ oo ++ OReg p :: map (OWrite p) chunks) ++
                   OClr :: [OSetStat p] ++ OClose p :: [OUtime p] ++ [] ++ [OCloseSrc src; OClr; OUnlinkSrc src]
                   = A ++ [OUnlinkSrc src]).
      { unfold A. cbn [app]. rewrite <- !app_assoc. cbn [app]. reflexivity. }
      rewrite EA. clear EA.
      assert (HA : Forall (avoids (eq src)) A).
      { unfold A. solve_av Hne. }
      destruct (untouched_safe rel src (f_bytes f) (Some p) A s None Hhold I HA) as [P1 [P2 P3]].
      assert (HhA : run_h A None = None).
      { unfold A. rewrite !run_h_app. cbn [app]. rewrite !run_h_cons. cbn [apply_h]. reflexivity. }
      assert (HpA : run A s p = Reg (mkFile (concat chunks) true)).
      { unfold A. rewrite run_app.
        assert (X1 : run ([OOpenRead src] ++ oo ++ OReg p :: map (OWrite p) chunks) s p
                     = Reg (mkFile ([] ++ concat chunks) false)).
        { cbn [app]. rewrite run_cons. cbn [apply_op]. rewrite run_app. rewrite run_cons. cbn [apply_op].
          apply (run_writes p chunks _ [] false). apply (open_dst_opened _ _ _ _ _ _ _ _ _ Eo). }
        revert X1. generalize (run ([OOpenRead src] ++ oo ++ OReg p :: map (OWrite p) chunks) s). intros s1 X1.
        unfold run. cbn [app fold_left apply_op]. rewrite upd_same. rewrite X1. reflexivity. }
      split.
      * apply all_pref_app. split; [exact P1|].
        rewrite HhA. cbn [all_pref]. split; [|split; [|exact I]].
        -- pose proof (all_pref_end _ _ _ _ P1) as X. rewrite HhA in X. exact X.
        -- cbn [apply_op apply_h unlinked].
           assert (S1 : safe rel src (f_bytes f) (Some p) (upd (run A s) src Absent)).
           { right. exists p, (concat chunks). split; [reflexivity|]. split.
             - rewrite upd_other by (intro X; apply Hne; congruence). exact HpA.
             - apply (Hsound p chunks). exact Ec. }
           split; exact S1.
      * intros _. rewrite run_h_app, HhA. reflexivity.
    + split.
      * apply (untouched_safe rel src (f_bytes f) (Some p)); [exact Hhold|exact I|].
        pose proof (nomod_avoids (eq src) tl Hn) as Htl. solve_av Hne.
      * intros _. simp_h Eo. destruct (Hh None) as [X|X]; exact X.
  - (* the codec reports failure *)
    destruct (tail_src i rm src v (is_ret0 Ret1 && v_close_ok v)) as [tl r'] eqn:Etl. inv_pair H.
    destruct (tail_src_cases _ _ _ _ _ _ _ Etl) as [[E1 [E2 [E3 [E4 E5]]]]|[Hn [_ Hh]]].
    + cbn [is_ret0 andb] in E3. discriminate E3.
    + split.
      * apply (untouched_safe rel src (f_bytes f) (Some p)); [exact Hhold|exact I|].
        pose proof (nomod_avoids (eq src) tl Hn) as Htl. solve_av Hne.
      * intros _. simp_h Eo. destruct (Hh None) as [X|X]; exact X.
Qed.

(* ------------------------------------------------------------------ the handler register is clear between sources *)

Lemma file_ops_h_none : forall i rm s src d v ops r,
  file_ops i rm s src d v = (ops, r) -> (forall n, r <> FThrow n) -> run_h ops None = None.
Proof.
  intros i rm s src d v ops r H Hr. unfold file_ops in H.
  destruct (src_gate i s src v); try (inv_pair H; reflexivity).
  destruct (codec i d v) as [chunks out].
  assert (Ht : forall ok tl r', tail_src i rm src v ok = (tl, r') -> run_h tl None = None).
  { intros ok tl r' E. destruct (tail_src_cases _ _ _ _ _ _ _ E) as [[E1 _]|[_ [_ Hh]]].
    - subst tl. reflexivity.
    - destruct (Hh None) as [X|X]; exact X. }
  destruct d as [|cl|p|p].
  - destruct out as [| |n]; try (destruct (tail_src i rm src v _) as [tl r'] eqn:E; inv_pair H);
      try (inv_pair H; exfalso; eapply Hr; reflexivity);
      cbn [writes]; simp_h E; eapply Ht; exact E.
  - destruct out as [| |n]; try (destruct (tail_src i rm src v _) as [tl r'] eqn:E; inv_pair H);
      try (inv_pair H; exfalso; eapply Hr; reflexivity);
      cbn [writes]; simp_h E; eapply Ht; exact E.
  - destruct out as [| |n]; try (destruct (tail_src i rm src v _) as [tl r'] eqn:E; inv_pair H);
      try (inv_pair H; exfalso; eapply Hr; reflexivity);
      cbn [writes]; simp_h E; eapply Ht; exact E.
  - destruct (open_dst (ovw i) s v (Some src) p (negb (is_stdin src))) as [oo ot] eqn:Eo.
    destruct ot as [t|].
    + destruct out as [| |n]; try (destruct (tail_src i rm src v _) as [tl r'] eqn:E; inv_pair H);
        try (inv_pair H; exfalso; eapply Hr; reflexivity);
        simp_h Eo; eapply Ht; exact E.
    + inv_pair H. simp_h Eo. reflexivity.
Qed.

(* ------------------------------------------------------------------ the loop over the sources *)

Definition prot0 (org : path) (od : option path) : path -> Prop :=
  fun q => q = org \/ od = Some q.

Lemma safe_local : forall rel org b0 od, local_to (prot0 org od) (safe rel org b0 od).
Proof.
  intros rel org b0 od s s' H [[f [H1 H2]]|[d [b [H1 [H2 H3]]]]].
  - left. exists f. split; [|exact H2]. rewrite (H org); [exact H1|left; reflexivity].
  - right. exists d, b. split; [exact H1|]. split; [|exact H3]. rewrite (H d); [exact H2|right; exact H1].
Qed.

(* the invocation a segment runs under: i, or i without -f / interaction when its destination is an output this
   command wrote for another input (a937acd) *)
Definition sim (i i' : inv) : Prop := i' = i \/ i' = no_ovw i.

Lemma sim_refl : forall i, sim i i.
Proof. intros i. left. reflexivity. Qed.

Lemma inv_for_sim : forall i own s src d, sim i (inv_for i own s src d).
Proof.
  intros i own s src d. unfold inv_for. destruct d; try apply sim_refl.
  destruct (own_refused own s src p); [right; reflexivity|apply sim_refl].
Qed.

Lemma inv_for_nil : forall i s src d, inv_for i [] s src d = i.
Proof.
  intros i s src d. unfold inv_for, own_refused. destruct d; try reflexivity.
  cbn [existsb]. rewrite andb_false_r. reflexivity.
Qed.

Lemma sim_mode : forall i i', sim i i' -> i_mode i' = i_mode i.
Proof. intros i i' [H|H]; subst; reflexivity. Qed.

Lemma sim_codec_own : forall i i' d v, sim i i' -> codec i' (DOwn d) v = codec i (DOwn d) v.
Proof.
  intros i i' d v [H|H]; subst; [reflexivity|]. unfold codec. cbn [no_ovw i_mode i_force is_stdout andb].
  destruct (i_mode i); try reflexivity; rewrite andb_false_r; reflexivity.
Qed.

Lemma sim_excl : forall i i', sim i i' -> i_excl i' = i_excl i.
Proof. intros i i' [H|H]; subst; reflexivity. Qed.

(* every segment avoids prot as long as Q holds at its start (s0: the state links are compared with) *)
Lemma loop_avoid_if : forall i rm dof vs s0 (prot : path -> Prop) (Q : fs -> Prop),
  local_to prot Q ->
  forall srcs own s err ops e,
  (forall src' d', In src' srcs -> dof src' = Some d' ->
     forall i' s' ops r, sim i i' -> Q s' -> lsub s0 s' -> file_ops i' rm s' src' d' (vs src') = (ops, r) -> Forall (avoids prot) ops) ->
  Q s -> lsub s0 s ->
  loop i rm dof vs own srcs s err = (ops, e) ->
  all_pref (fun s h => Q s /\ Q (unlinked h s)) ops s None /\
  (forall q, prot q -> run ops s q = s q) /\
  h_unprot prot (run_h ops None).
Proof.
  intros i rm dof vs s0 prot Q Hloc. induction srcs as [|src tl IH]; intros own s err ops e Hav HQ HL H; cbn [loop] in H.
  - inv_pair H. cbn [all_pref]. split; [|split; [reflexivity|exact I]]. repeat split; assumption.
  - destruct (dof src) as [d|] eqn:Ed.
    2:{ eapply IH; [|exact HQ|exact HL|exact H]. intros a b Ha Hb. apply Hav; [right; exact Ha|exact Hb]. }
    destruct (file_ops (inv_for i own s src d) rm s src d (vs src)) as [ops1 r] eqn:Ef.
    pose proof (Hav src d (or_introl eq_refl) Ed _ s ops1 r (inv_for_sim i own s src d) HQ HL Ef) as Hav1.
    destruct (avoid_all_pref prot Q Hloc ops1 s None HQ I Hav1) as [A1 [A2 A3]].
    destruct r as [| |n].
    3:{ inv_pair H. split; [|split]; assumption. }
    + destruct (loop i rm dof vs _ tl (run ops1 s) (err || is_fail FOk)) as [ops2 e2] eqn:El.
      assert (HQ1 : Q (run ops1 s)) by (apply (all_pref_end _ _ _ _ A1)).
      destruct (IH _ (run ops1 s) _ ops2 e2 (fun a b Ha => Hav a b (or_intror Ha)) HQ1 (lsub_run _ _ _ HL) El) as [B1 [B2 B3]].
      inv_pair H.
      split; [|split].
      * apply all_pref_app. split; [exact A1|].
        rewrite (file_ops_h_none _ _ _ _ _ _ _ _ Ef) by (intros n; discriminate). exact B1.
      * intros q Hq. rewrite run_app. rewrite B2 by exact Hq. apply A2. exact Hq.
      * rewrite run_h_app. rewrite (file_ops_h_none _ _ _ _ _ _ _ _ Ef) by (intros n; discriminate). exact B3.
    + destruct (loop i rm dof vs _ tl (run ops1 s) (err || is_fail FFail)) as [ops2 e2] eqn:El.
      assert (HQ1 : Q (run ops1 s)) by (apply (all_pref_end _ _ _ _ A1)).
      destruct (IH _ (run ops1 s) _ ops2 e2 (fun a b Ha => Hav a b (or_intror Ha)) HQ1 (lsub_run _ _ _ HL) El) as [B1 [B2 B3]].
      inv_pair H.
      split; [|split].
      * apply all_pref_app. split; [exact A1|].
        rewrite (file_ops_h_none _ _ _ _ _ _ _ _ Ef) by (intros n; discriminate). exact B1.
      * intros q Hq. rewrite run_app. rewrite B2 by exact Hq. apply A2. exact Hq.
      * rewrite run_h_app. rewrite (file_ops_h_none _ _ _ _ _ _ _ _ Ef) by (intros n; discriminate). exact B3.
Qed.

(* what a segment must satisfy to leave a set of keys alone *)
Lemma seg_avoid_from_mod : forall i rm s' src' d' v ops r (prot : path -> Prop),
  file_ops i rm s' src' d' v = (ops, r) ->
  (rm = true -> is_stdin src' = false -> ~ prot src') ->
  (forall q, dslots s' d' q -> ~ prot q) ->
  Forall (avoids prot) ops.
Proof.
  intros i rm s' src' d' v ops r prot Ef H1 H2.
  eapply Forall_impl; [|exact (file_ops_mod _ _ _ _ _ _ _ _ Ef)].
  intros o Ho q E. destruct (Ho q E) as [[Eo [Erm Est]]|Hs].
  - subst o. cbn [modifies] in E. inversion E; subst q. apply H1; assumption.
  - apply H2. exact Hs.
Qed.

Lemma dslots_plain : forall s0 s' p q,
  lsub s0 s' -> is_lnk (s0 p) = false -> dslots s' (DOwn p) q -> q = p.
Proof.
  intros s0 s' p q HL Hp [E|E]; [exact E|]. apply HL in E. rewrite E in Hp. discriminate Hp.
Qed.

Lemma keeps_local : forall org od (f0 : file), local_to (prot0 org od) (fun s => s org = Reg f0).
Proof. intros org od f0 s s' H H1. rewrite (H org); [exact H1|left; reflexivity]. Qed.

(* the tracked source src0 (a regular file, not a link) with its own destination p0 (not a link) *)
Lemma sim_sound : forall rel i i' b v, sim i i' -> verdict_sound rel i b v -> verdict_sound rel i' b v.
Proof.
  intros rel i i' b v Hsim H d chunks E. rewrite (sim_codec_own i i' d v Hsim) in E. exact (H d chunks E).
Qed.

Lemma loop_own : forall rel i rm dof vs s0 src0 f0 p0,
  src0 <> p0 -> dof src0 = Some (DOwn p0) -> is_lnk (s0 p0) = false -> verdict_sound rel i (f_bytes f0) (vs src0) ->
  forall srcs own s err ops e,
  NoDup srcs ->
  (forall src' d', In src' srcs -> src' <> src0 -> dof src' = Some d' ->
     forall i' s' ops r, sim i i' -> lsub s0 s' -> file_ops i' rm s' src' d' (vs src') = (ops, r) ->
                      Forall (avoids (prot0 src0 (Some p0))) ops) ->
  s src0 = Reg f0 -> lsub s0 s ->
  loop i rm dof vs own srcs s err = (ops, e) ->
  all_pref (safe2 rel src0 (f_bytes f0) (Some p0)) ops s None.
Proof.
  intros rel i rm dof vs s0 src0 f0 p0 Hne Hd0 Hpl Hsound.
  induction srcs as [|src tl IH]; intros own s err ops e Hnd Hav Hs HL H; cbn [loop] in H.
  - inv_pair H. cbn [all_pref unlinked]. split; [|exact I].
    split; left; exists f0; split; auto.
  - inversion Hnd as [|? ? Hnotin Hnd']; subst.
    destruct (dof src) as [d|] eqn:Ed.
    2:{ eapply IH; [exact Hnd'| |exact Hs|exact HL|exact H]. intros a b Ha. apply Hav. right. exact Ha. }
    destruct (file_ops (inv_for i own s src d) rm s src d (vs src)) as [ops1 r] eqn:Ef.
    pose proof (inv_for_sim i own s src d) as Hsim.
    destruct (path_eq_dec src src0) as [E|E].
    + (* the tracked source itself *)
      subst src. rewrite Hd0 in Ed. inversion Ed; subst d.
      assert (Hpl' : is_lnk (s p0) = false).
      { destruct (s p0) eqn:X; try reflexivity. apply HL in X. rewrite X in Hpl. discriminate Hpl. }
      destruct (own_file_safe rel _ rm s src0 p0 (vs src0) f0 ops1 r Hs Hne Hpl' (sim_sound _ _ _ _ _ Hsim Hsound) Ef) as [A1 A2].
      assert (Htl : forall src' d', In src' tl -> dof src' = Some d' ->
                forall i' s' ops r, sim i i' -> safe rel src0 (f_bytes f0) (Some p0) s' -> lsub s0 s' ->
                                 file_ops i' rm s' src' d' (vs src') = (ops, r) ->
                                 Forall (avoids (prot0 src0 (Some p0))) ops).
      { intros a b Ha Hb i' s' ops' r' Hsim' _ HL' Ef'.
        assert (Na : a <> src0) by (intro X; subst; contradiction).
        exact (Hav a b (or_intror Ha) Na Hb i' s' ops' r' Hsim' HL' Ef'). }
      destruct r as [| |n].
      3:{ inv_pair H. exact A1. }
      * destruct (loop i rm dof vs _ tl (run ops1 s) (err || is_fail FOk)) as [ops2 e2] eqn:El.
        assert (HQ1 : safe rel src0 (f_bytes f0) (Some p0) (run ops1 s)) by (apply (all_pref_end _ _ _ _ A1)).
        destruct (loop_avoid_if i rm dof vs s0 _ _ (safe_local rel src0 (f_bytes f0) (Some p0)) tl _ _ _ _ _ Htl HQ1
                                (lsub_run _ _ _ HL) El) as [B1 _].
        inv_pair H. apply all_pref_app. split; [exact A1|].
        rewrite A2 by (intros n; discriminate). exact B1.
      * destruct (loop i rm dof vs _ tl (run ops1 s) (err || is_fail FFail)) as [ops2 e2] eqn:El.
        assert (HQ1 : safe rel src0 (f_bytes f0) (Some p0) (run ops1 s)) by (apply (all_pref_end _ _ _ _ A1)).
        destruct (loop_avoid_if i rm dof vs s0 _ _ (safe_local rel src0 (f_bytes f0) (Some p0)) tl _ _ _ _ _ Htl HQ1
                                (lsub_run _ _ _ HL) El) as [B1 _].
        inv_pair H. apply all_pref_app. split; [exact A1|].
        rewrite A2 by (intros n; discriminate). exact B1.
    + (* another source: it leaves src0 and p0 alone *)
      pose proof (Hav src d (or_introl eq_refl) E Ed _ s ops1 r Hsim HL Ef) as Hav1.
      destruct (avoid_all_pref _ _ (keeps_local src0 (Some p0) f0) ops1 s None Hs I Hav1) as [A1 [A2 A3]].
      assert (A1' : all_pref (safe2 rel src0 (f_bytes f0) (Some p0)) ops1 s None).
      { eapply all_pref_impl; [|exact A1]. intros s1 h1 [X Y]. split; left; exists f0; split; auto. }
      assert (Hs1 : run ops1 s src0 = Reg f0).
      { rewrite A2; [exact Hs|left; reflexivity]. }
      destruct r as [| |n].
      3:{ inv_pair H. exact A1'. }
      * destruct (loop i rm dof vs _ tl (run ops1 s) (err || is_fail FOk)) as [ops2 e2] eqn:El.
        pose proof (IH _ _ _ _ _ Hnd' (fun a b Ha => Hav a b (or_intror Ha)) Hs1 (lsub_run _ _ _ HL) El) as B1.
        inv_pair H. apply all_pref_app. split; [exact A1'|].
        rewrite (file_ops_h_none _ _ _ _ _ _ _ _ Ef) by (intros n; discriminate). exact B1.
      * destruct (loop i rm dof vs _ tl (run ops1 s) (err || is_fail FFail)) as [ops2 e2] eqn:El.
        pose proof (IH _ _ _ _ _ Hnd' (fun a b Ha => Hav a b (or_intror Ha)) Hs1 (lsub_run _ _ _ HL) El) as B1.
        inv_pair H. apply all_pref_app. split; [exact A1'|].
        rewrite (file_ops_h_none _ _ _ _ _ _ _ _ Ef) by (intros n; discriminate). exact B1.
Qed.

(* ------------------------------------------------------------------ modes *)

Lemma concat_shared : forall i names, is_concat i names = true ->
  (exists p, eff_out i names = OutFile p /\ forall src, dsel_of i names src = Some (DShared p)) \/
  (eff_out i names = OutStdout /\ forall src, dsel_of i names src = Some (DStdout false)).
Proof.
  intros i names H. unfold is_concat, is_test in H. unfold dsel_of, single.
  destruct (i_mode i); cbn [negb andb] in H; try discriminate;
    destruct (one_name names); cbn [negb andb] in H; try discriminate;
    destruct (eff_out i names) as [| |p|d]; try discriminate;
    first [ left; exists p; split; [reflexivity|]; intros src; reflexivity
          | right; split; [reflexivity|]; intros src; reflexivity ].
Qed.

Lemma not_concat_not_shared : forall i names src q, is_concat i names = false -> dsel_of i names src <> Some (DShared q).
Proof.
  intros i names src q H E. unfold is_concat, is_test in H. unfold dsel_of, single in E.
  destruct (i_mode i); cbn [negb andb] in H; try discriminate E;
    destruct (eff_out i names) as [| |p|d]; try discriminate E;
    try (destruct (is_stdin src); [discriminate E|destruct (dstname _ _ src); discriminate E]);
    destruct (one_name names); cbn [negb andb] in *; discriminate.
Qed.

Lemma test_no_rm : forall i names src, dsel_of i names src = Some DTest -> eff_rm i names = false.
Proof.
  intros i names src E. unfold dsel_of in E. unfold eff_rm, is_test.
  destruct (i_mode i); try (rewrite andb_false_r; reflexivity);
    destruct (eff_out i names) as [| |p|d]; try discriminate;
    try (destruct (is_stdin src); [discriminate E|destruct (dstname _ _ src); discriminate E]);
    destruct (single i names); discriminate.
Qed.

Lemma stdout_no_rm : forall i names src c, dsel_of i names src = Some (DStdout c) ->
  eff_rm i names = false \/ is_stdin src = true.
Proof.
  intros i names src c E. unfold dsel_of in E. unfold eff_rm, out_stdout.
  destruct (i_mode i); try discriminate;
    destruct (eff_out i names) as [| |p|d]; try (left; rewrite andb_false_r; reflexivity);
    try (destruct (single i names); discriminate);
    destruct (is_stdin src); try (right; reflexivity); destruct (dstname _ _ src); discriminate.
Qed.

Lemma dst_of_own : forall i names src p, dst_of i names src = Some p <-> dsel_of i names src = Some (DOwn p).
Proof.
  intros i names src p. unfold dst_of. destruct (dsel_of i names src) as [[|c|q|q]|]; split; intro H; try discriminate; congruence.
Qed.

(* ------------------------------------------------------------------ crash safety, whole run *)

Lemma holds_safe2 : forall rel org b0 od (s : fs) (h : option path),
  holds org b0 s /\ holds org b0 (unlinked h s) -> safe2 rel org b0 od s h.
Proof. intros rel org b0 od s h [X Y]. split; left; assumption. Qed.

Lemma look_target : forall s p, look s p = s (target s p).
Proof. intros s p. unfold look, target. destruct (s p) eqn:E; rewrite ?E; reflexivity. Qed.

(* a list of operations none of which modifies anything *)
Lemma nomod_tail_safe : forall rel org b0 od l s h,
  holds org b0 s -> h_unprot (eq org) h -> Forall nomod l -> all_pref (safe2 rel org b0 od) l s h.
Proof.
  intros rel org b0 od l s h H Hh Hl.
  apply (untouched_safe rel org b0 od l s h H Hh). apply nomod_avoids. exact Hl.
Qed.

Lemma exit_of_nomod : forall e, Forall nomod (exit_of e).
Proof. intros [[|]|n]; cbn [exit_of]; repeat constructor. Qed.

(* when nothing may modify the key org, the data stays where it is during the whole loop *)
Lemma loop_untouched : forall rel i rm dof vs s0 org b0 od srcs own s err ops e,
  (forall src' d', In src' srcs -> dof src' = Some d' ->
     forall i' s' ops r, sim i i' -> lsub s0 s' -> file_ops i' rm s' src' d' (vs src') = (ops, r) -> Forall (avoids (eq org)) ops) ->
  holds org b0 s -> lsub s0 s ->
  loop i rm dof vs own srcs s err = (ops, e) ->
  all_pref (safe2 rel org b0 od) ops s None /\ holds org b0 (run ops s) /\ h_unprot (eq org) (run_h ops None).
Proof.
  intros rel i rm dof vs s0 org b0 od srcs own s err ops e Hav Hh HL El.
  destruct (loop_avoid_if i rm dof vs s0 (eq org) (holds org b0) (holds_local _ _) srcs own s err ops e
              (fun a b Ha Hb i' s' o r Hsim _ L E => Hav a b Ha Hb i' s' o r Hsim L E) Hh HL El) as [Q1 [Q2 Q3]].
  split; [|split].
  - eapply all_pref_impl; [|exact Q1]. intros s1 h1 X. apply holds_safe2. exact X.
  - apply (all_pref_end _ _ _ _ Q1).
  - exact Q3.
Qed.

Theorem all_states_safe_main : forall rel i names s0 vs, wf i names s0 ->
  forall src f0, In src names -> look s0 src = Reg f0 -> verdict_sound rel i (f_bytes f0) (vs src) ->
  all_pref (safe2 rel (target s0 src) (f_bytes f0) (dst_of i names src)) (fio_main i names s0 vs) s0 None.
Proof.
  intros rel i names s0 vs [Hnd [Hw2 [Hw3 [Hw4 Hw5]]]] src f0 Hin Hlook Hsound.
  set (org := target s0 src).
  assert (Horg : s0 org = Reg f0) by (unfold org; rewrite <- look_target; exact Hlook).
  assert (Hhold : holds org (f_bytes f0) s0) by (exists f0; split; [exact Horg|reflexivity]).
  (* org is no destination key, whatever the state *)
  assert (Hnodst : forall b d p, In b names -> dsel_of i names b = Some d -> dsel_path d = Some p -> org <> p).
  { intros b d p Hb Ed Ep. unfold org, target. destruct (s0 src) eqn:Es; try (apply (Hw2 src b d p Hin Hb Ed Ep)).
    apply (proj2 (Hw5 src t Hin Es) b d p Hb Ed Ep). }
  assert (Hslots : forall b d s' q, In b names -> dsel_of i names b = Some d -> lsub s0 s' -> dslots s' d q -> org <> q).
  { intros b d s' q Hb Ed HL Hq. destruct d as [|c|p|p]; cbn [dslots] in Hq; try contradiction.
    - subst q. apply (Hnodst b (DShared p) p Hb Ed eq_refl).
    - assert (q = p) by (apply (dslots_plain s0 s' p q HL (Hw4 b (DOwn p) p Hb Ed eq_refl) Hq)). subst q.
      apply (Hnodst b (DOwn p) p Hb Ed eq_refl). }
  unfold fio_main.
  destruct (dict_check i s0 vs) as [n|].
  { apply nomod_tail_safe; [exact Hhold|exact I|repeat constructor]. }
  destruct (is_concat i names) eqn:Ec.
  - (* several sources into one destination: no source is ever removed *)
    assert (Hd : dst_of i names src = None).
    { unfold dst_of. destruct (concat_shared i names Ec) as [[p [_ Hsh]]|[_ Hsh]]; rewrite Hsh; reflexivity. }
    rewrite Hd.
    assert (Hsegs : forall dof, (forall b, dof b = dsel_of i names b) \/ (exists t, (forall b, dof b = Some (DShared t)) /\ org <> t) ->
              forall src' d', In src' names -> dof src' = Some d' ->
              forall i' s' ops r, sim i i' -> lsub s0 s' -> file_ops i' false s' src' d' (vs src') = (ops, r) -> Forall (avoids (eq org)) ops).
    { intros dof Hdof src' d' Hin' Ed' i' s' ops r _ HL Ef.
      apply (seg_avoid_from_mod _ _ _ _ _ _ _ _ (eq org) Ef); [intros X; discriminate X|].
      intros q Hq X. subst q. destruct Hdof as [Hdof|[t [Hdof Ht]]].
      - rewrite Hdof in Ed'. apply (Hslots src' d' s' org Hin' Ed' HL Hq). reflexivity.
      - rewrite Hdof in Ed'. inversion Ed'; subst d'. cbn [dslots] in Hq. apply Ht. exact Hq. }
    destruct (concat_shared i names Ec) as [[p [Eo Hsh]]|[Eo Hsh]]; rewrite Eo.
    + assert (Hp : org <> p) by (apply (Hnodst src (DShared p) p Hin (Hsh src) eq_refl)).
      assert (Hpl : is_lnk (s0 p) = false) by (apply (Hw4 src (DShared p) p Hin (Hsh src) eq_refl)).
      destruct (ovw i).
      2:{ apply nomod_tail_safe; [exact Hhold|exact I|repeat constructor]. }
      destruct (open_dst true s0 (vs p) None p false) as [oo ot] eqn:Eop.
      destruct (open_dst_mod _ _ _ _ _ _ _ _ Eop) as [Hoo0 Hot].
      assert (Hoo : Forall (avoids (eq org)) oo).
      { eapply Forall_impl; [|exact Hoo0]. intros o Ho q E X. apply Hp. rewrite X.
        apply (in_slot_plain s0 p q Hpl). apply Ho. exact E. }
      destruct (untouched_safe rel org (f_bytes f0) None oo s0 None Hhold I Hoo) as [P1 [P2 _]].
      destruct ot as [t|].
      2:{ apply all_pref_app. split; [exact P1|].
          rewrite (run_h_open_dst _ _ _ _ _ _ _ _ None Eop).
          apply nomod_tail_safe; [exact P2|exact I|repeat constructor]. }
      assert (Et : t = p) by (apply (in_slot_plain s0 p t Hpl); apply Hot; reflexivity). subst t.
      destruct (loop i false (fun _ => Some (DShared p)) vs [] names (run oo s0) false) as [ops e] eqn:El.
      destruct (loop_untouched rel i false (fun _ => Some (DShared p)) vs s0 org (f_bytes f0) None names _ _ _ _ _
                  (Hsegs _ (or_intror (ex_intro _ p (conj (fun _ => eq_refl) Hp)))) P2 (lsub_run _ _ _ (lsub_refl s0)) El) as [Q1 [Q2 Q3]].
      apply all_pref_app. split; [exact P1|].
      rewrite (run_h_open_dst _ _ _ _ _ _ _ _ None Eop).
      apply all_pref_app. split; [exact Q1|].
      destruct e as [b|n].
      * apply (untouched_safe rel org (f_bytes f0) None); [exact Q2|exact Q3|].
        apply Forall_cons.
        -- intros q E X. cbn [modifies] in E. inversion E. apply Hp. congruence.
        -- apply nomod_avoids. destruct (v_close_ok (vs p)); [apply exit_of_nomod|repeat constructor].
      * apply (untouched_safe rel org (f_bytes f0) None); [exact Q2|exact Q3|constructor].
    + destruct (loop i false (dsel_of i names) vs [] names s0 false) as [ops e] eqn:El.
      destruct (loop_untouched rel i false (dsel_of i names) vs s0 org (f_bytes f0) None names _ _ _ _ _
                  (Hsegs _ (or_introl (fun _ => eq_refl))) Hhold (lsub_refl s0) El) as [Q1 [Q2 Q3]].
      assert (G : forall tl, Forall nomod tl -> all_pref (safe2 rel org (f_bytes f0) None) (ops ++ tl) s0 None).
      { intros tl Htl. apply all_pref_app. split; [exact Q1|].
        apply (untouched_safe rel org (f_bytes f0) None); [exact Q2|exact Q3|apply nomod_avoids; exact Htl]. }
      destruct (eff_out i names); apply G; destruct e as [b|n]; try constructor;
        destruct (v_close_ok (vs stdoutmark)); try apply exit_of_nomod; repeat constructor.
  - (* one destination per source, stdout, or test *)
    destruct (loop i (eff_rm i names) (dsel_of i names) vs [] names s0 false) as [ops e] eqn:El.
    destruct (s0 src) as [|fsrc| |t] eqn:Es;
      try (unfold look in Hlook; rewrite Es in Hlook; discriminate Hlook).
    + (* the source is a regular file *)
      assert (Eorg : org = src) by (unfold org, target; rewrite Es; reflexivity).
      assert (Ef0 : fsrc = f0) by (unfold look in Hlook; rewrite Es in Hlook; inversion Hlook; reflexivity). subst fsrc.
      destruct (dst_of i names src) as [p0|] eqn:Hd.
      * (* own destination p0 *)
        assert (Ed0 : dsel_of i names src = Some (DOwn p0)) by (apply dst_of_own; exact Hd).
        assert (Hp : src <> p0) by (apply (Hw2 src src (DOwn p0) p0 Hin Hin Ed0); reflexivity).
        assert (Hpl : is_lnk (s0 p0) = false) by (apply (Hw4 src (DOwn p0) p0 Hin Ed0 eq_refl)).
        assert (Hsegs : forall src' d', In src' names -> src' <> src -> dsel_of i names src' = Some d' ->
                  forall i' s' ops r, sim i i' -> lsub s0 s' -> file_ops i' (eff_rm i names) s' src' d' (vs src') = (ops, r) ->
                                   Forall (avoids (prot0 src (Some p0))) ops).
        { intros src' d' Hin' Hne' Ed' i' s' ops' r' _ HL Ef.
          apply (seg_avoid_from_mod _ _ _ _ _ _ _ _ _ Ef).
          - intros _ _ [X|X]; [exact (Hne' X)|]. inversion X; subst p0.
            exact (Hw2 src' src (DOwn src') src' Hin' Hin Ed0 eq_refl eq_refl).
          - intros q Hq [X|X].
            + subst q. rewrite <- Eorg in Hq. apply (Hslots src' d' s' org Hin' Ed' HL Hq). reflexivity.
            + inversion X; subst q. destruct d' as [|c|p|p]; cbn [dslots] in Hq; try contradiction.
              * exact (not_concat_not_shared i names src' p Ec Ed').
              * assert (p0 = p) by (apply (dslots_plain s0 s' p p0 HL (Hw4 src' (DOwn p) p Hin' Ed' eq_refl) Hq)). subst p.
                apply (Hw3 src src' p0 Hin Hin' (fun Y => Hne' (eq_sym Y)) Hd).
                apply dst_of_own. exact Ed'. }
        rewrite Eorg.
        pose proof (loop_own rel i (eff_rm i names) (dsel_of i names) vs s0 src f0 p0 Hp Ed0 Hpl Hsound
                             names [] s0 false ops e Hnd Hsegs Es (lsub_refl s0) El) as Q1.
        apply all_pref_app. split; [exact Q1|].
        pose proof (all_pref_end _ _ _ _ Q1) as Hend.
        destruct e as [[|]|n]; cbn [exit_of all_pref apply_op apply_h]; tauto.
      * (* no destination of its own: nothing modifies src *)
        assert (Hsegs : forall src' d', In src' names -> dsel_of i names src' = Some d' ->
                  forall i' s' ops r, sim i i' -> lsub s0 s' -> file_ops i' (eff_rm i names) s' src' d' (vs src') = (ops, r) ->
                                   Forall (avoids (eq org)) ops).
        { intros src' d' Hin' Ed' i' s' ops' r' _ HL Ef.
          apply (seg_avoid_from_mod _ _ _ _ _ _ _ _ _ Ef).
          - intros Erm Est X. rewrite Eorg in X. subst src'.
            destruct d' as [|c|p|p].
            + rewrite (test_no_rm i names src Ed') in Erm. discriminate.
            + destruct (stdout_no_rm i names src c Ed') as [Y|Y]; congruence.
            + exact (not_concat_not_shared i names src p Ec Ed').
            + unfold dst_of in Hd. rewrite Ed' in Hd. discriminate.
          - intros q Hq X. subst q. apply (Hslots src' d' s' org Hin' Ed' HL Hq). reflexivity. }
        destruct (loop_untouched rel i (eff_rm i names) (dsel_of i names) vs s0 org (f_bytes f0) None names _ _ _ _ _
                    Hsegs Hhold (lsub_refl s0) El) as [Q1 [Q2 Q3]].
        apply all_pref_app. split; [exact Q1|].
        apply (untouched_safe rel org (f_bytes f0) None); [exact Q2|exact Q3|apply nomod_avoids; apply exit_of_nomod].
    + (* the source is reached through a symbolic link: its data is under a key nothing modifies *)
      assert (Eorg : org = t) by (unfold org, target; rewrite Es; reflexivity).
      destruct (Hw5 src t Hin Es) as [Hnotsrc _].
      assert (Hsegs : forall src' d', In src' names -> dsel_of i names src' = Some d' ->
                forall i' s' ops r, sim i i' -> lsub s0 s' -> file_ops i' (eff_rm i names) s' src' d' (vs src') = (ops, r) ->
                                 Forall (avoids (eq org)) ops).
      { intros src' d' Hin' Ed' i' s' ops' r' _ HL Ef.
        apply (seg_avoid_from_mod _ _ _ _ _ _ _ _ _ Ef).
        - intros _ _ X. apply Hnotsrc. rewrite <- Eorg, X. exact Hin'.
        - intros q Hq X. subst q. apply (Hslots src' d' s' org Hin' Ed' HL Hq). reflexivity. }
      destruct (loop_untouched rel i (eff_rm i names) (dsel_of i names) vs s0 org (f_bytes f0) (dst_of i names src) names _ _ _ _ _
                  Hsegs Hhold (lsub_refl s0) El) as [Q1 [Q2 Q3]].
      apply all_pref_app. split; [exact Q1|].
      apply (untouched_safe rel org (f_bytes f0) _); [exact Q2|exact Q3|apply nomod_avoids; apply exit_of_nomod].
Qed.

Lemma run_handler_ops : forall h s, run (handler_ops h) s = unlinked h s.
Proof. intros [p|] s; reflexivity. Qed.

Lemma pre_names : forall i ls s src, In src (eff_srcs i ls s) -> pre i ls s = inr (eff_srcs i ls s).
Proof. intros i ls s src H. unfold eff_srcs in *. destruct (pre i ls s); [contradiction H|reflexivity]. Qed.

Theorem all_states_safe : forall rel i ls s0 vs, wf i (eff_srcs i ls s0) s0 ->
  forall src f0, In src (eff_srcs i ls s0) -> look s0 src = Reg f0 -> verdict_sound rel i (f_bytes f0) (vs src) ->
  all_pref (safe2 rel (target s0 src) (f_bytes f0) (dst_of i (eff_srcs i ls s0) src)) (fio_ops i ls s0 vs) s0 None.
Proof.
  intros rel i ls s0 vs Hwf src f0 Hin Hl Hsound. unfold fio_ops. rewrite (pre_names i ls s0 src Hin).
  apply all_states_safe_main; assumption.
Qed.

Theorem crash_safe_thm : forall rel i ls s0 vs, wf i (eff_srcs i ls s0) s0 ->
  forall src f0, In src (eff_srcs i ls s0) -> look s0 src = Reg f0 -> verdict_sound rel i (f_bytes f0) (vs src) ->
  forall k, safe rel (target s0 src) (f_bytes f0) (dst_of i (eff_srcs i ls s0) src) (run (firstn k (fio_ops i ls s0 vs)) s0).
Proof.
  intros rel i ls s0 vs Hwf src f0 Hin Hs Hsound k.
  pose proof (all_states_safe rel i ls s0 vs Hwf src f0 Hin Hs Hsound) as H.
  apply (all_pref_firstn _ _ _ _ k) in H. apply H.
Qed.

Theorem sigint_safe_thm : forall rel i ls s0 vs, wf i (eff_srcs i ls s0) s0 ->
  forall src f0, In src (eff_srcs i ls s0) -> look s0 src = Reg f0 -> verdict_sound rel i (f_bytes f0) (vs src) ->
  forall k, safe rel (target s0 src) (f_bytes f0) (dst_of i (eff_srcs i ls s0) src) (run (sigint_ops k (fio_ops i ls s0 vs)) s0).
Proof.
  intros rel i ls s0 vs Hwf src f0 Hin Hs Hsound k.
  pose proof (all_states_safe rel i ls s0 vs Hwf src f0 Hin Hs Hsound) as H.
  apply (all_pref_firstn _ _ _ _ k) in H. unfold sigint_ops. rewrite run_app, run_handler_ops. apply H.
Qed.

(* ------------------------------------------------------------------ no clobber *)

Lemma file_ops_refused : forall i rm s src p v f ops r,
  look s p = Reg f -> ovw i = false ->
  file_ops i rm s src (DOwn p) v = (ops, r) -> Forall nomod ops.
Proof.
  intros i rm s src p v f ops r Hs Hovw H. unfold file_ops in H.
  destruct (src_gate i s src v); try (inv_pair H; constructor).
  destruct (codec i (DOwn p) v) as [chunks out].
  assert (E : open_dst (ovw i) s v (Some src) p (negb (is_stdin src)) = ([], None)).
  { unfold open_dst. destruct (same_file s src p); [reflexivity|]. rewrite Hs, Hovw. reflexivity. }
  rewrite E in H. inv_pair H. destruct (is_stdin src); repeat constructor.
Qed.

Theorem no_clobber_main : forall i names s0 vs p f,
  i_force i = false -> confirm i = false -> s0 p = Reg f ->
  (~ In p names \/ eff_rm i names = false) ->
  all_pref (fun s h => s p = Reg f /\ unlinked h s p = Reg f) (fio_main i names s0 vs) s0 None.
Proof.
  intros i names s0 vs p f Hf Hc Hs Hsrc.
  assert (Hovw : ovw i = false) by (unfold ovw; rewrite Hf, Hc; reflexivity).
  assert (Hloc : local_to (eq p) (fun s => s p = Reg f)).
  { intros s s' H H1. rewrite (H p eq_refl). exact H1. }
  assert (Triv : forall n, all_pref (fun s h => s p = Reg f /\ unlinked h s p = Reg f) [OExit n] s0 None).
  { intros n. cbn [all_pref apply_op apply_h unlinked]. tauto. }
  assert (Tail : forall ops l, all_pref (fun s h => s p = Reg f /\ unlinked h s p = Reg f) ops s0 None ->
                   h_unprot (eq p) (run_h ops None) -> Forall nomod l ->
                   all_pref (fun s h => s p = Reg f /\ unlinked h s p = Reg f) (ops ++ l) s0 None).
  { intros ops l Q1 Q3 Hl. apply all_pref_app. split; [exact Q1|].
    pose proof (all_pref_end _ _ _ _ Q1) as [E1 _].
    destruct (avoid_all_pref (eq p) (fun s => s p = Reg f) Hloc l _ _ E1 Q3 (nomod_avoids _ _ Hl)) as [X _]. exact X. }
  unfold fio_main.
  destruct (dict_check i s0 vs) as [n|]; [apply Triv|].
  (* what one segment does while p is in place *)
  assert (Hseg : forall rm dof, (rm = true -> rm = eff_rm i names) ->
            (forall src' q, dof src' <> Some (DShared q)) ->
            forall src' d', In src' names -> dof src' = Some d' ->
            forall i' s' ops' r', sim i i' -> s' p = Reg f -> lsub s0 s' -> file_ops i' rm s' src' d' (vs src') = (ops', r') ->
                               Forall (avoids (eq p)) ops').
  { intros rm dof Hrm Hnsh src' d' Hin' Ed' i' s' ops' r' Hsim Hs' _ Ef.
    assert (Hovw' : ovw i' = false) by (destruct Hsim as [X|X]; subst i'; [exact Hovw|reflexivity]).
    assert (Hun : rm = true -> is_stdin src' = false -> ~ p = src').
    { intros Erm _ X. subst src'. destruct Hsrc as [Hn|Hn]; [contradiction|rewrite (Hrm Erm) in Erm; congruence]. }
    destruct d' as [|c|q|q].
    - apply (seg_avoid_from_mod _ _ _ _ _ _ _ _ _ Ef Hun). intros q0 Hq. cbn [dslots] in Hq. contradiction.
    - apply (seg_avoid_from_mod _ _ _ _ _ _ _ _ _ Ef Hun). intros q0 Hq. cbn [dslots] in Hq. contradiction.
    - exfalso. exact (Hnsh src' q Ed').
    - destruct (look s' q) as [|fq| |tq] eqn:El.
      2:{ apply nomod_avoids. exact (file_ops_refused _ _ _ _ _ _ _ _ _ El Hovw' Ef). }
      all: apply (seg_avoid_from_mod _ _ _ _ _ _ _ _ _ Ef Hun);
        intros q0 Hq X; subst q0; destruct Hq as [Hq|Hq];
        [subst q; unfold look in El; rewrite Hs' in El; discriminate El
        |unfold look in El; rewrite Hq in El; rewrite Hs' in El; discriminate El]. }
  destruct (is_concat i names) eqn:Ec.
  - destruct (concat_shared i names Ec) as [[q [Eo Hsh]]|[Eo Hsh]]; rewrite Eo.
    + rewrite Hovw. apply Triv.
    + destruct (loop i false (dsel_of i names) vs [] names s0 false) as [ops e] eqn:El.
      assert (Hns : forall src' q, dsel_of i names src' <> Some (DShared q)) by (intros src' q; rewrite Hsh; discriminate).
      destruct (loop_avoid_if i false (dsel_of i names) vs s0 (eq p) (fun s => s p = Reg f) Hloc
                  names [] s0 false ops e (Hseg false _ (fun X => False_ind _ (Bool.diff_false_true X)) Hns) Hs (lsub_refl s0) El) as [Q1 [_ Q3]].
      apply Tail; [exact Q1|exact Q3|].
      destruct e as [b|n]; [|constructor].
      destruct (v_close_ok (vs stdoutmark)); [apply exit_of_nomod|repeat constructor].
  - destruct (loop i (eff_rm i names) (dsel_of i names) vs [] names s0 false) as [ops e] eqn:El.
    destruct (loop_avoid_if i (eff_rm i names) (dsel_of i names) vs s0 (eq p) (fun s => s p = Reg f) Hloc
                names [] s0 false ops e (Hseg _ _ (fun _ => eq_refl) (fun a q => not_concat_not_shared i names a q Ec)) Hs (lsub_refl s0) El) as [Q1 [_ Q3]].
    apply Tail; [exact Q1|exact Q3|apply exit_of_nomod].
Qed.

Theorem no_clobber_thm : forall i ls s0 vs p f,
  i_force i = false -> confirm i = false -> s0 p = Reg f ->
  (~ In p (eff_srcs i ls s0) \/ eff_rm i (eff_srcs i ls s0) = false) ->
  all_pref (fun s h => s p = Reg f /\ unlinked h s p = Reg f) (fio_ops i ls s0 vs) s0 None.
Proof.
  intros i ls s0 vs p f Hf Hc Hs Hsrc. unfold fio_ops.
  destruct (pre i ls s0) as [n|names] eqn:Ep.
  - cbn [all_pref apply_op apply_h unlinked]. tauto.
  - unfold eff_srcs in Hsrc. rewrite Ep in Hsrc. apply no_clobber_main; assumption.
Qed.

(* ------------------------------------------------------------------ when is a source removed *)

Definition unl (rm : bool) (src : path) (r : fres) (o : op) : Prop :=
  is_unlink_src o = false \/ (o = OUnlinkSrc src /\ rm = true /\ is_stdin src = false /\ r = FOk).

Lemma unl_notsrc : forall rm src r o, is_unlink_src o = false -> unl rm src r o.
Proof. intros. left. assumption. Qed.

Ltac unlfin := first [apply unl_notsrc; reflexivity].

Lemma open_dst_nounlink : forall ovw s v osrc p m oo ot rm src r,
  open_dst ovw s v osrc p m = (oo, ot) -> Forall (unl rm src r) oo.
Proof.
  intros ovw s v osrc p m oo ot rm src r H.
  destruct (open_dst_spec _ _ _ _ _ _ _ _ H) as [u [c [E [Hu Hc]]]]. subst oo. apply Forall_app. split.
  - destruct Hu; subst u; fsplit. unlfin.
  - destruct Hc as [[Hc _]|[t [Hc _]]]; subst c; fsplit. unlfin.
Qed.

Lemma file_ops_unl : forall i rm s src d v ops r,
  file_ops i rm s src d v = (ops, r) -> Forall (unl rm src r) ops.
Proof.
  intros i rm s src d v ops r H. unfold file_ops in H.
  destruct (src_gate i s src v); try (inv_pair H; apply Forall_nil).
  destruct (codec i d v) as [chunks out].
  assert (Hrd : forall r0, Forall (unl rm src r0) (if is_stdin src then [] else [OOpenRead src])).
  { intros r0. destruct (is_stdin src); fsplit. unlfin. }
  assert (Htl : forall ok tl r', tail_src i rm src v ok = (tl, r') -> Forall (unl rm src r') tl).
  { intros ok tl r' Ht. destruct (tail_src_cases _ _ _ _ _ _ _ Ht) as [[E [Er [_ [Erm Est]]]]|[Hn _]].
    - subst tl. fsplit; try unlfin. right. repeat split; assumption.
    - eapply Forall_impl; [|exact Hn]. intros o Ho. left. destruct o; cbn [modifies] in Ho; try discriminate Ho; reflexivity. }
  destruct d as [|cl|p|p].
  - destruct out as [| |n]; try (destruct (tail_src i rm src v _) as [tl r'] eqn:Ht; inv_pair H);
      try inv_pair H; cbn [writes]; fsplit; try apply Hrd; try (eapply Htl; exact Ht); try unlfin.
  - destruct out as [| |n]; try (destruct (tail_src i rm src v _) as [tl r'] eqn:Ht; inv_pair H);
      try inv_pair H; cbn [writes]; fsplit; try apply Hrd; try (eapply Htl; exact Ht);
      try (apply Forall_map_stdout; intros; unlfin); try unlfin.
  - destruct out as [| |n]; try (destruct (tail_src i rm src v _) as [tl r'] eqn:Ht; inv_pair H);
      try inv_pair H; cbn [writes]; fsplit; try apply Hrd; try (eapply Htl; exact Ht);
      try (apply Forall_map_write; intros; unlfin); try unlfin.
  - destruct (open_dst (ovw i) s v (Some src) p (negb (is_stdin src))) as [oo ot] eqn:Eo.
    assert (Hoo : forall r0, Forall (unl rm src r0) oo) by (intros r0; exact (open_dst_nounlink _ _ _ _ _ _ _ _ rm src r0 Eo)).
    destruct ot as [t|].
    2:{ inv_pair H. fsplit; try apply Hrd; try apply Hoo. unlfin. }
    destruct out as [| |n].
    3:{ inv_pair H. fsplit; try apply Hrd; try apply Hoo; try unlfin.
        - apply Forall_map_write. intros c. unlfin.
        - destruct (v_art_unlink_ok v); fsplit; unlfin. }
    + destruct (tail_src i rm src v (is_ret0 Ret0 && v_close_ok v)) as [tl r'] eqn:Htl'. inv_pair H.
      fsplit; try apply Hrd; try apply Hoo; try (eapply Htl; exact Htl'); try unlfin.
      * apply Forall_map_write. intros c. unlfin.
      * destruct (is_stdin src); fsplit; unlfin.
      * destruct (is_stdin src); fsplit; unlfin.
      * destruct (is_ret0 Ret0 && v_close_ok v); [apply Forall_nil|].
        destruct (v_art_unlink_ok v); fsplit. unlfin.
    + destruct (tail_src i rm src v (is_ret0 Ret1 && v_close_ok v)) as [tl r'] eqn:Htl'. inv_pair H.
      fsplit; try apply Hrd; try apply Hoo; try (eapply Htl; exact Htl'); try unlfin.
      * apply Forall_map_write. intros c. unlfin.
      * destruct (is_stdin src); fsplit; unlfin.
      * destruct (is_stdin src); fsplit; unlfin.
      * destruct (is_ret0 Ret1 && v_close_ok v); [apply Forall_nil|].
        destruct (v_art_unlink_ok v); fsplit. unlfin.
Qed.

Definition unl_in (rm : bool) (srcs : list path) (o : op) : Prop :=
  is_unlink_src o = false \/ exists src, In src srcs /\ o = OUnlinkSrc src /\ rm = true /\ is_stdin src = false.

Lemma loop_unl : forall i rm dof vs srcs own s err ops e,
  loop i rm dof vs own srcs s err = (ops, e) -> Forall (unl_in rm srcs) ops.
Proof.
  intros i rm dof vs. induction srcs as [|src tl IH]; intros own s err ops e H; cbn [loop] in H.
  - inv_pair H. constructor.
  - assert (Up : forall l, Forall (unl_in rm tl) l -> Forall (unl_in rm (src :: tl)) l).
    { intros l Hl. eapply Forall_impl; [|exact Hl]. intros o [Ho|[a [Ha Hb]]]; [left; exact Ho|].
      right. exists a. split; [right; exact Ha|exact Hb]. }
    destruct (dof src) as [d|]; [|apply Up; eapply IH; exact H].
    destruct (file_ops (inv_for i own s src d) rm s src d (vs src)) as [ops1 r] eqn:Ef.
    assert (H1 : Forall (unl_in rm (src :: tl)) ops1).
    { eapply Forall_impl; [|exact (file_ops_unl _ _ _ _ _ _ _ _ Ef)]. intros o [Ho|[Ho1 [Ho2 [Ho3 _]]]]; [left; exact Ho|].
      right. exists src. split; [left; reflexivity|repeat split; assumption]. }
    destruct r as [| |n].
    + destruct (loop i rm dof vs _ tl (run ops1 s) (err || is_fail FOk)) as [ops2 e2] eqn:El.
      inv_pair H. apply Forall_app. split; [exact H1|apply Up; eapply IH; exact El].
    + destruct (loop i rm dof vs _ tl (run ops1 s) (err || is_fail FFail)) as [ops2 e2] eqn:El.
      inv_pair H. apply Forall_app. split; [exact H1|apply Up; eapply IH; exact El].
    + inv_pair H. exact H1.
Qed.

(* a source is removed only by --rm (the last of --rm / --keep), never in test mode, never when the output is
   stdout or one file for several sources, and never when it is stdin *)
Theorem src_removed_only_if_thm : forall i ls s vs q,
  In (OUnlinkSrc q) (fio_ops i ls s vs) ->
  In q (eff_srcs i ls s) /\ eff_rm i (eff_srcs i ls s) = true /\ is_concat i (eff_srcs i ls s) = false /\ is_stdin q = false.
Proof.
  intros i ls s vs q H. unfold fio_ops, eff_srcs in *.
  destruct (pre i ls s) as [n|names]; [destruct H as [H|[]]; discriminate H|].
  assert (G : forall l, Forall (fun o => is_unlink_src o = false) l -> ~ In (OUnlinkSrc q) l).
  { intros l Hl X. rewrite Forall_forall in Hl. specialize (Hl _ X). discriminate Hl. }
  assert (F : forall rm ops, Forall (unl_in rm names) ops -> In (OUnlinkSrc q) ops -> In q names /\ rm = true /\ is_stdin q = false).
  { intros rm ops Hf X. rewrite Forall_forall in Hf. destruct (Hf _ X) as [Y|[a [Ha [Hb Hc]]]]; [discriminate Y|].
    inversion Hb; subst a. split; [exact Ha|exact Hc]. }
  unfold fio_main in H.
  destruct (dict_check i s vs) as [n|]; [destruct H as [H|[]]; discriminate H|].
  destruct (is_concat i names) eqn:Ec.
  - exfalso. destruct (eff_out i names) as [| |p|d].
    1,2,4: destruct (loop i false (dsel_of i names) vs [] names s false) as [ops e] eqn:El;
      apply in_app_or in H; destruct H as [H|H];
      [destruct (F false ops (loop_unl _ _ _ _ _ _ _ _ _ _ El) H) as [_ [X _]]; discriminate X
      |destruct e as [b|n]; [destruct (v_close_ok (vs stdoutmark)); [destruct b|]|]; cbn in H; intuition discriminate].
    destruct (ovw i); [|destruct H as [H|[]]; discriminate H].
    destruct (open_dst true s (vs p) None p false) as [oo ot] eqn:Eo.
    pose proof (open_dst_nounlink _ _ _ _ _ _ _ _ false q FOk Eo) as Hoo.
    assert (Hoo' : ~ In (OUnlinkSrc q) oo).
    { intros X. rewrite Forall_forall in Hoo. destruct (Hoo _ X) as [Y|[_ [Y _]]]; discriminate Y. }
    destruct ot as [t|].
    + destruct (loop i false (fun _ => Some (DShared t)) vs [] names (run oo s) false) as [ops e] eqn:El.
      apply in_app_or in H. destruct H as [H|H]; [exact (Hoo' H)|].
      apply in_app_or in H. destruct H as [H|H].
      * destruct (F false ops (loop_unl _ _ _ _ _ _ _ _ _ _ El) H) as [_ [X _]]. discriminate X.
      * destruct e as [b|n]; [destruct (v_close_ok (vs p)); [destruct b|]|]; cbn in H; intuition discriminate.
    + apply in_app_or in H. destruct H as [H|H]; [exact (Hoo' H)|]. destruct H as [H|[]]. discriminate H.
  - destruct (loop i (eff_rm i names) (dsel_of i names) vs [] names s false) as [ops e] eqn:El.
    apply in_app_or in H. destruct H as [H|H].
    + destruct (F _ ops (loop_unl _ _ _ _ _ _ _ _ _ _ El) H) as [A [B C]]. repeat split; assumption.
    + exfalso. destruct e as [[|]|n]; cbn in H; intuition discriminate.
Qed.

Theorem removeSrc_disabled_thm : forall i ls s vs,
  is_test i = true \/ out_stdout i (eff_srcs i ls s) = true \/ is_concat i (eff_srcs i ls s) = true \/
  last_flag (i_rmk i) = false ->
  Forall (fun o => is_unlink_src o = false) (fio_ops i ls s vs).
Proof.
  intros i ls s vs H. apply Forall_forall. intros o Ho.
  destruct o; try reflexivity. exfalso.
  destruct (src_removed_only_if_thm i ls s vs p Ho) as [_ [Erm [Ec _]]].
  unfold eff_rm in Erm. destruct H as [H|[H|[H|H]]]; rewrite H in *; cbn [negb andb] in Erm;
    rewrite ?andb_false_r in Erm; try discriminate.
Qed.

(* ------------------------------------------------------------------ the frame loop *)

Lemma frames_loop_ret0 : forall items first,
  snd (frames_loop false items first) = Ret0 <->
  ((first = false \/ items <> []) /\ forallb is_ok_item items = true).
Proof.
  induction items as [|x tl IH]; intros first; cbn [frames_loop forallb].
  - destruct first; cbn [snd]; split.
    + discriminate.
    + intros [[X|X] _]; [discriminate|congruence].
    + intros _. split; [left; reflexivity|reflexivity].
    + reflexivity.
  - destruct x as [cs|cs|rest]; cbn [is_ok_item andb].
    + destruct (frames_loop false tl false) as [w o] eqn:E. cbn [snd].
      specialize (IH false). rewrite E in IH. cbn [snd] in IH. rewrite IH. split.
      * intros [_ X]. split; [right; discriminate|exact X].
      * intros [_ X]. split; [left; reflexivity|exact X].
    + cbn [snd]. split; [discriminate|intros [_ X]; discriminate].
    + cbn [snd]. split; [discriminate|intros [_ X]; discriminate].
Qed.

Theorem frames_loop_verdict_thm : forall items,
  (snd (frames_loop false items true) = Ret0 <-> (items <> [] /\ forallb is_ok_item items = true)) /\
  (snd (frames_loop false items true) = Ret0 \/ snd (frames_loop false items true) = Ret1).
Proof.
  intros items. split.
  - rewrite frames_loop_ret0. split.
    + intros [[X|X] Y]; [discriminate|split; assumption].
    + intros [X Y]. split; [right; exact X|exact Y].
  - assert (G : forall first, snd (frames_loop false items first) = Ret0 \/ snd (frames_loop false items first) = Ret1).
    { induction items as [|x tl IH]; intros first; cbn [frames_loop].
      - destruct first; cbn [snd]; auto.
      - destruct x; cbn [snd]; auto.
        destruct (frames_loop false tl false) as [w o] eqn:E. cbn [snd].
        specialize (IH false). rewrite E in IH. exact IH. }
    apply G.
Qed.

(* whatever the verdict, what is written starts with the payload of the leading good frames;
   on success it is exactly the payload of all frames *)
Theorem frames_loop_output_thm : forall pass items first,
  exists rest, fst (frames_loop pass items first) = ok_payload items ++ rest /\
               (forallb is_ok_item items = true -> rest = []).
Proof.
  intros pass. induction items as [|x tl IH]; intros first; cbn [frames_loop ok_payload forallb].
  - exists []. split; reflexivity.
  - destruct x as [cs|cs|r]; cbn [is_ok_item andb].
    + destruct (frames_loop pass tl false) as [w o] eqn:E. cbn [fst].
      destruct (IH false) as [rest [H1 H2]]. rewrite E in H1. cbn [fst] in H1.
      exists rest. split; [rewrite H1; rewrite app_assoc; reflexivity|exact H2].
    + exists cs. split; [reflexivity|discriminate].
    + destruct pass; cbn [fst]; eexists; (split; [reflexivity|discriminate]).
Qed.


(* ------------------------------------------------------------------ failure leaves no artefact; exit status *)

Lemma run_not_mod : forall d ops s, Forall (fun o => modifies o <> Some d) ops -> run ops s d = s d.
Proof.
  induction ops as [|o tl IH]; intros s H; [reflexivity|].
  inversion H; subst. rewrite run_cons. rewrite IH by assumption. apply apply_op_other. assumption.
Qed.

Lemma nomod_not_mod : forall d l, Forall nomod l -> Forall (fun o => modifies o <> Some d) l.
Proof. intros d l H. eapply Forall_impl; [|exact H]. intros o Ho X. unfold nomod in Ho. congruence. Qed.

Lemma exit_code_app_exit : forall ops n, exit_code (ops ++ [OExit n]) = Some n.
Proof.
  induction ops as [|o tl IH]; intros n; cbn [app exit_code]; [reflexivity|]. rewrite IH. reflexivity.
Qed.

Lemma gate_skip_excl : forall i s src v, src_gate i s src v = GSkip -> i_excl i = true.
Proof.
  intros i s src v H. unfold src_gate in H. destruct (is_stdin src); [discriminate H|].
  destruct (i_mode i); try (destruct (look s src); try discriminate H; destruct (v_open_ok v); discriminate H).
  destruct (look s src); try discriminate H;
    destruct (match dict_of i with Some d => same_file s src d | None => false end); try discriminate H;
    destruct (i_excl i); try reflexivity; cbn [andb] in H; try discriminate H; destruct (v_open_ok v); discriminate H.
Qed.

(* the state of the destination and of the source after one segment with its own destination *)
Lemma file_ops_outcome : forall i rm s src d v ops r,
  src <> d -> is_lnk (s d) = false -> v_art_unlink_ok v = true ->
  file_ops i rm s src (DOwn d) v = (ops, r) ->
  match r with
  | FOk => (Forall nomod ops /\ src_gate i s src v = GSkip) \/
           (exists chunks, codec i (DOwn d) v = (chunks, Ret0) /\ v_close_ok v = true /\
                           run ops s d = Reg (mkFile (concat chunks) true))
  | FFail => run ops s d = Absent \/ Forall nomod ops \/
             (exists chunks, codec i (DOwn d) v = (chunks, Ret0) /\
                             run ops s d = Reg (mkFile (concat chunks) true) /\ run ops s src = s src)
  | FThrow n => (snd (codec i (DOwn d) v) = Throw n /\ run ops s d = Absent) \/
                (n = 1 /\ exists chunks, codec i (DOwn d) v = (chunks, Ret0) /\
                                        run ops s d = Reg (mkFile (concat chunks) true) /\ run ops s src = s src)
  end.
Proof.
  intros i rm s src d v ops r Hne Hpl Hart H. unfold file_ops in H.
  destruct (src_gate i s src v) eqn:Eg.
  1:{ inv_pair H. right. left. constructor. }
  1:{ inv_pair H. left. split; [constructor|reflexivity]. }
  destruct (codec i (DOwn d) v) as [chunks out] eqn:Ec.
  destruct (open_dst (ovw i) s v (Some src) d (negb (is_stdin src))) as [oo ot] eqn:Eo.
  pose proof (quiet_rd src) as Hrdq.
  destruct ot as [t|].
  2:{ inv_pair H. destruct (open_dst_not_opened _ _ _ _ _ _ _ Eo) as [X|X]; subst oo.
      - right. left. destruct (is_stdin src); repeat constructor.
      - left. rewrite run_app. rewrite (proj1 (quiet_run _ s None Hrdq)).
        unfold run. cbn [app fold_left apply_op]. apply upd_same. }
  assert (Et : t = d).
  { destruct (open_dst_mod _ _ _ _ _ _ _ _ Eo) as [_ Hot]. apply (in_slot_plain s d t Hpl). apply Hot. reflexivity. }
  subst t.
  set (pre := (if is_stdin src then [] else [OOpenRead src]) ++ oo ++ OReg d :: map (OWrite d) chunks) in *.
  assert (E1 : run pre s d = Reg (mkFile (concat chunks) false)).
  { unfold pre. rewrite run_app. rewrite (proj1 (quiet_run _ s None Hrdq)). rewrite run_app. rewrite run_cons. cbn [apply_op].
    apply (run_writes d chunks _ [] false). apply (open_dst_opened _ _ _ _ _ _ _ _ _ Eo). }
  assert (Epre_src : run pre s src = s src).
  { apply run_not_mod. unfold pre. destruct (open_dst_mod _ _ _ _ _ _ _ _ Eo) as [Hoo _].
    fsplit; try (intros X; cbn [modifies] in X; first [discriminate X | inversion X; apply Hne; congruence]).
    - destruct (is_stdin src); fsplit. intros X; discriminate X.
    - eapply Forall_impl; [|exact Hoo]. intros o Ho X. apply Hne. apply (in_slot_plain s d src Hpl). apply Ho. exact X.
    - apply Forall_map_write. intros c X. cbn [modifies] in X. inversion X. apply Hne. congruence. }
  destruct out as [| |n].
  3:{ inv_pair H. left. split; [reflexivity|]. unfold throw_ops. rewrite Hart. rewrite run_app.
      unfold run at 1. cbn [app fold_left apply_op]. apply upd_same. }
  - (* codec success *)
    destruct (tail_src i rm src v (is_ret0 Ret0 && v_close_ok v)) as [tl r'] eqn:Etl. inv_pair H.
    assert (Hq1 : Forall quiet (if is_stdin src then [] else [OSetStat d])) by (destruct (is_stdin src); repeat constructor; discriminate).
    assert (Hq2 : Forall quiet (if is_stdin src then [] else [OUtime d])) by (destruct (is_stdin src); repeat constructor; discriminate).
    assert (Body : forall (s1 : fs) art tl0,
              s1 d = Reg (mkFile (concat chunks) false) ->
              Forall (fun o => modifies o <> Some d) tl0 ->
              run (OClr :: (if is_stdin src then [] else [OSetStat d]) ++ OClose d :: (if is_stdin src then [] else [OUtime d]) ++ art ++ tl0) s1 d
              = run art (upd s1 d (Reg (mkFile (concat chunks) true))) d).
    { intros s1 art tl0 Hs1 Htl0. rewrite run_cons. cbn [apply_op]. rewrite run_app.
      rewrite (proj1 (quiet_run _ s1 None Hq1)). rewrite run_cons. cbn [apply_op]. rewrite Hs1. cbn [close_node f_bytes].
      rewrite run_app. rewrite (proj1 (quiet_run _ _ None Hq2)). rewrite run_app. apply run_not_mod. exact Htl0. }
    assert (BodySrc : forall (s1 : fs) art tl0,
              Forall (fun o => modifies o <> Some src) art -> Forall (fun o => modifies o <> Some src) tl0 ->
              run (OClr :: (if is_stdin src then [] else [OSetStat d]) ++ OClose d :: (if is_stdin src then [] else [OUtime d]) ++ art ++ tl0) s1 src
              = s1 src).
    { intros s1 art tl0 Ha Ht0. apply run_not_mod. fsplit; try assumption;
        try (intros X; cbn [modifies] in X; first [discriminate X | inversion X; apply Hne; congruence]).
      - destruct (is_stdin src); fsplit. intros X; discriminate X.
      - destruct (is_stdin src); fsplit. intros X; discriminate X. }
    destruct (tail_src_cases _ _ _ _ _ _ _ Etl) as [[T1 [T2 [T3 [T4 T5]]]]|[Hn [Hok Hh]]].
    + subst tl r. right. exists chunks. split; [reflexivity|]. cbn [is_ret0 andb] in T3. split; [exact T3|].
      rewrite run_app. cbn [is_ret0 andb]. rewrite T3. rewrite (Body _ [] _ E1).
      * unfold run. cbn [fold_left]. apply upd_same.
      * fsplit; intros X; cbn [modifies] in X; try discriminate X. inversion X. apply Hne. congruence.
    + assert (Hnd : Forall (fun o => modifies o <> Some d) tl) by (apply nomod_not_mod; exact Hn).
      assert (Hns : Forall (fun o => modifies o <> Some src) tl) by (apply nomod_not_mod; exact Hn).
      cbn [is_ret0 andb] in *. destruct (v_close_ok v) eqn:Ecl.
      * (* closed fine: the destination is complete whatever happens to the source afterwards *)
        assert (Sd : run (pre ++ OClr :: (if is_stdin src then [] else [OSetStat d]) ++ OClose d :: (if is_stdin src then [] else [OUtime d]) ++ [] ++ tl) s d
                     = Reg (mkFile (concat chunks) true)).
        { rewrite run_app. rewrite (Body _ [] _ E1 Hnd). unfold run. cbn [fold_left]. apply upd_same. }
        assert (Ss : run (pre ++ OClr :: (if is_stdin src then [] else [OSetStat d]) ++ OClose d :: (if is_stdin src then [] else [OUtime d]) ++ [] ++ tl) s src
                     = s src).
        { rewrite run_app. rewrite (BodySrc _ [] _ (Forall_nil _) Hns). exact Epre_src. }
        destruct r as [| |n].
        -- right. exists chunks. split; [reflexivity|]. split; [reflexivity|exact Sd].
        -- right. right. exists chunks. split; [reflexivity|]. split; [exact Sd|exact Ss].
        -- right. split.
           ++ unfold tail_src in Etl. destruct (i_mode i); destruct (rm && true && negb (is_stdin src));
                try destruct (v_close_src_ok v); cbn [negb] in Etl; try destruct (v_rm_ok v); inversion Etl; reflexivity.
           ++ exists chunks. split; [reflexivity|]. split; [exact Sd|exact Ss].
      * (* fclose failed: the artefact is removed *)
        assert (Sd : run (pre ++ OClr :: (if is_stdin src then [] else [OSetStat d]) ++ OClose d :: (if is_stdin src then [] else [OUtime d]) ++
                          (if v_art_unlink_ok v then [OUnlinkDst d] else []) ++ tl) s d = Absent).
        { rewrite run_app. rewrite (Body _ _ _ E1 Hnd). rewrite Hart. unfold run. cbn [fold_left apply_op]. apply upd_same. }
        destruct r as [| |n].
        -- specialize (Hok eq_refl). discriminate Hok.
        -- left. exact Sd.
        -- exfalso. unfold tail_src in Etl. destruct (i_mode i); destruct (rm && false && negb (is_stdin src)) eqn:X;
             try (rewrite andb_false_r in X; cbn [andb] in X; discriminate X);
             try destruct (v_close_src_ok v); cbn [negb] in Etl; inversion Etl.
  - (* codec failure *)
    destruct (tail_src i rm src v (is_ret0 Ret1 && v_close_ok v)) as [tl r'] eqn:Etl. inv_pair H.
    assert (Hq1 : Forall quiet (if is_stdin src then [] else [OSetStat d])) by (destruct (is_stdin src); repeat constructor; discriminate).
    assert (Hq2 : Forall quiet (if is_stdin src then [] else [OUtime d])) by (destruct (is_stdin src); repeat constructor; discriminate).
    cbn [is_ret0 andb] in *.
    destruct (tail_src_cases _ _ _ _ _ _ _ Etl) as [[T1 [T2 [T3 _]]]|[Hn [Hok Hh]]]; [discriminate T3|].
    assert (Hnd : Forall (fun o => modifies o <> Some d) tl) by (apply nomod_not_mod; exact Hn).
    assert (Sd : run (pre ++ OClr :: (if is_stdin src then [] else [OSetStat d]) ++ OClose d :: (if is_stdin src then [] else [OUtime d]) ++
                      (if v_art_unlink_ok v then [OUnlinkDst d] else []) ++ tl) s d = Absent).
    { rewrite run_app. rewrite run_cons. cbn [apply_op]. rewrite run_app.
      rewrite (proj1 (quiet_run _ _ None Hq1)). rewrite run_cons. rewrite run_app. rewrite (proj1 (quiet_run _ _ None Hq2)).
      rewrite run_app. rewrite (run_not_mod d tl) by exact Hnd. rewrite Hart. unfold run. cbn [fold_left apply_op]. apply upd_same. }
    destruct r as [| |n].
    + specialize (Hok eq_refl). discriminate Hok.
    + left. exact Sd.
    + exfalso. unfold tail_src in Etl. destruct (i_mode i); destruct (rm && false && negb (is_stdin src)) eqn:X;
        try (rewrite andb_false_r in X; cbn [andb] in X; discriminate X);
        try destruct (v_close_src_ok v); cbn [negb] in Etl; inversion Etl.
Qed.

Lemma one_not_concat : forall i src, is_concat i [src] = false.
Proof. intros i src. unfold is_concat. cbn [one_name negb]. rewrite andb_false_r. reflexivity. Qed.

Lemma dict_check_nonzero : forall i s vs n, dict_check i s vs = Some n -> n <> 0.
Proof.
  intros i s vs n H. unfold dict_check in H. destruct (dict_of i); [|discriminate H].
  destruct (look s p); try (inversion H; discriminate). destruct (v_open_ok (vs p)); inversion H. discriminate.
Qed.

Lemma tail_src_throw : forall i rm src v ok tl n,
  tail_src i rm src v ok = (tl, FThrow n) -> n = 1 /\ tl = [OCloseSrc src; OClr; OExit 1].
Proof.
  intros i rm src v ok tl n H. unfold tail_src in H.
  destruct (i_mode i); destruct (rm && ok && negb (is_stdin src));
    try destruct (v_close_src_ok v); cbn [negb] in H; try destruct (v_rm_ok v); destruct ok;
    inversion H; subst; split; reflexivity.
Qed.

Lemma exit_code_app_exit2 : forall a b n, exit_code (a ++ b ++ [OExit n]) = Some n.
Proof. intros. rewrite app_assoc. apply exit_code_app_exit. Qed.

Lemma file_ops_throw_exit : forall i rm s src d v ops n,
  file_ops i rm s src d v = (ops, FThrow n) -> exit_code ops = Some n.
Proof.
  intros i rm s src d v ops n H. unfold file_ops in H.
  destruct (src_gate i s src v); try (inversion H; fail).
  destruct (codec i d v) as [chunks out].
  assert (T : forall ok tl (pre : list op), tail_src i rm src v ok = (tl, FThrow n) -> exit_code (pre ++ tl) = Some n).
  { intros ok tl pre0 E. destruct (tail_src_throw _ _ _ _ _ _ _ E) as [E1 E2]. subst.
    change [OCloseSrc src; OClr; OExit 1] with ([OCloseSrc src; OClr] ++ [OExit 1]). apply exit_code_app_exit2. }
  destruct d as [|c|p|p].
  1,2,3: destruct out as [| |m];
    try (destruct (tail_src i rm src v _) as [tl r'] eqn:E; inversion H; subst; eapply T; exact E);
    inversion H; subst; apply exit_code_app_exit.
  destruct (open_dst (ovw i) s v (Some src) p (negb (is_stdin src))) as [oo [t|]]; [|inversion H].
  destruct out as [| |m].
  3:{ inversion H; subst. unfold throw_ops. destruct (v_art_unlink_ok v).
      - change ([OUnlinkDst p] ++ [OExit n]) with ([OUnlinkDst p] ++ [OExit n]). apply exit_code_app_exit2.
      - cbn [app]. apply exit_code_app_exit. }
  all: destruct (tail_src i rm src v _) as [tl r'] eqn:E; inversion H; subst;
    repeat rewrite app_comm_cons; repeat rewrite app_assoc; eapply T; exact E.
Qed.

(* one source with a destination file: exit status 0 comes with the complete output (or with a source that
   --exclude-compressed skipped); a non-zero status with no output file from this run, except when the failure is
   reported after the destination was completed (fclose / remove of the source failed): then the source is kept *)
Theorem failure_leaves_no_artefact_thm : forall i ls s vs src d,
  eff_srcs i ls s = [src] -> dst_of i [src] src = Some d -> src <> d -> is_lnk (s d) = false ->
  v_art_unlink_ok (vs src) = true -> snd (codec i (DOwn d) (vs src)) <> Throw 0 ->
  let ops := fio_ops i ls s vs in
  (exit_code ops = Some 0 /\
   ((exists chunks, codec i (DOwn d) (vs src) = (chunks, Ret0) /\ run ops s d = Reg (mkFile (concat chunks) true)) \/
    (Forall nomod ops /\ i_excl i = true))) \/
  (exists n, n <> 0 /\ exit_code ops = Some n /\
     (run ops s d = Absent \/ Forall nomod ops \/
      (exists chunks, codec i (DOwn d) (vs src) = (chunks, Ret0) /\
                      run ops s d = Reg (mkFile (concat chunks) true) /\ run ops s src = s src))).
Proof.
  intros i ls s vs src d Hs Hd Hne Hpl Hart Hnt ops. subst ops.
  unfold fio_ops. assert (Ep : pre i ls s = inr [src]).
  { rewrite <- Hs. apply (pre_names i ls s src). rewrite Hs. left. reflexivity. }
  rewrite Ep. unfold fio_main.
  destruct (dict_check i s vs) as [n|] eqn:Ed.
  { right. exists n. split; [exact (dict_check_nonzero _ _ _ _ Ed)|]. split; [reflexivity|]. right. left. repeat constructor. }
  rewrite one_not_concat. cbn [loop].
  apply dst_of_own in Hd. rewrite Hd. rewrite inv_for_nil.
  destruct (file_ops i (eff_rm i [src]) s src (DOwn d) (vs src)) as [ops1 r] eqn:Ef.
  pose proof (file_ops_outcome _ _ _ _ _ _ _ _ Hne Hpl Hart Ef) as Ho.
  assert (RunExit : forall n q, run (ops1 ++ [OExit n]) s q = run ops1 s q).
  { intros n q. rewrite run_app. reflexivity. }
  destruct r as [| |n].
  - left. cbn [is_fail orb exit_of]. rewrite app_nil_r. split; [apply exit_code_app_exit|].
    destruct Ho as [[H1 H2]|[chunks [H1 [H2 H3]]]].
    + right. split; [|exact (gate_skip_excl _ _ _ _ H2)]. apply Forall_app. split; [exact H1|repeat constructor].
    + left. exists chunks. split; [exact H1|]. rewrite RunExit. exact H3.
  - right. exists 1. split; [discriminate|]. cbn [is_fail orb exit_of]. rewrite app_nil_r. split; [apply exit_code_app_exit|].
    destruct Ho as [H1|[H1|[chunks [H1 [H2 H3]]]]].
    + left. rewrite RunExit. exact H1.
    + right. left. apply Forall_app. split; [exact H1|repeat constructor].
    + right. right. exists chunks. split; [exact H1|]. rewrite !RunExit. split; assumption.
  - (* exit(n) in the middle: the operation list ends with OExit n *)
    right. exists n. rewrite app_nil_r.
    assert (En : n <> 0).
    { destruct Ho as [[H1 _]|[H1 _]]; [|subst n; discriminate]. intro X. subst n. apply Hnt. exact H1. }
    split; [exact En|].
    assert (Ex : exit_code ops1 = Some n) by (exact (file_ops_throw_exit _ _ _ _ _ _ _ _ Ef)).
    split; [exact Ex|].
    destruct Ho as [[_ H1]|[_ [chunks [H1 [H2 H3]]]]].
    + left. exact H1.
    + right. right. exists chunks. split; [exact H1|]. split; assumption.
Qed.

(* source and destination are the same file (also through a symbolic link): nothing is created, removed or written *)
Theorem same_file_refused_thm : forall i rm s src dst v ops r,
  same_file s src dst = true ->
  file_ops i rm s src (DOwn dst) v = (ops, r) ->
  Forall nomod ops /\ (r = FFail \/ (r = FOk /\ i_excl i = true)).
Proof.
  intros i rm s src dst v ops r Hsame H. unfold file_ops in H.
  destruct (src_gate i s src v) eqn:Eg.
  - inv_pair H. split; [constructor|left; reflexivity].
  - inv_pair H. split; [constructor|right; split; [reflexivity|exact (gate_skip_excl _ _ _ _ Eg)]].
  - destruct (codec i (DOwn dst) v) as [chunks out].
    unfold open_dst in H. rewrite Hsame in H. inv_pair H.
    split; [destruct (is_stdin src); repeat constructor|left; reflexivity].
Qed.

(* -f over a destination name that is a symbolic link to a regular file: the link is replaced, its target is not written *)
Theorem overwrite_replaces_link_thm : forall s v osrc p q f m oo t,
  s p = Lnk q -> s q = Reg f -> v_ovw_unlink_ok v = true ->
  open_dst true s v osrc p m = (oo, Some t) ->
  oo = [OUnlinkDst p; OCreat p m] /\ t = p.
Proof.
  intros s v osrc p q f m oo t Hp Hq Hu H. unfold open_dst in H.
  destruct (match osrc with Some sp => same_file s sp p | None => false end); [inversion H|].
  assert (El : look s p = Reg f) by (unfold look; rewrite Hp; exact Hq).
  rewrite El, Hu in H.
  destruct (creat_ops (run [OUnlinkDst p] s) v p m) as [c t'] eqn:Ec. inversion H; subst.
  assert (T : target (run [OUnlinkDst p] s) p = p).
  { unfold target, run. cbn [fold_left apply_op]. rewrite upd_same. reflexivity. }
  destruct (creat_ops_spec _ _ _ _ _ _ Ec) as [[A B]|[A B]]; [discriminate B|].
  rewrite T in A, B. inversion B; subst. split; reflexivity.
Qed.

(* ------------------------------------------------------------------ test mode and stdout output never touch the file system *)

Lemma file_ops_nomod : forall i s src d v ops r,
  (forall q, ~ dslots s d q) -> file_ops i false s src d v = (ops, r) -> Forall nomod ops.
Proof.
  intros i s src d v ops r Hd Ef. eapply Forall_impl; [|exact (file_ops_mod _ _ _ _ _ _ _ _ Ef)].
  intros o Ho. unfold nomod. destruct (modifies o) as [q|] eqn:E; [|reflexivity].
  exfalso. destruct (Ho q E) as [[_ [X _]]|X]; [discriminate X|exact (Hd q X)].
Qed.

Lemma loop_nomod : forall i dof vs,
  (forall src d, dof src = Some d -> d = DTest \/ exists c, d = DStdout c) ->
  forall srcs own s err ops e, loop i false dof vs own srcs s err = (ops, e) -> Forall nomod ops.
Proof.
  intros i dof vs Hdof. induction srcs as [|src tl IH]; intros own s err ops e H; cbn [loop] in H.
  - inv_pair H. constructor.
  - destruct (dof src) as [d|] eqn:Ed; [|eapply IH; exact H].
    destruct (file_ops (inv_for i own s src d) false s src d (vs src)) as [ops1 r] eqn:Ef.
    assert (H1 : Forall nomod ops1).
    { apply (file_ops_nomod (inv_for i own s src d) s src d (vs src) ops1 r); [|exact Ef].
      intros q X. destruct (Hdof src d Ed) as [E|[c E]]; subst d; exact X. }
    destruct r as [| |n].
    + destruct (loop i false dof vs _ tl (run ops1 s) (err || is_fail FOk)) as [ops2 e2] eqn:El.
      inv_pair H. apply Forall_app. split; [exact H1|eapply IH; exact El].
    + destruct (loop i false dof vs _ tl (run ops1 s) (err || is_fail FFail)) as [ops2 e2] eqn:El.
      inv_pair H. apply Forall_app. split; [exact H1|eapply IH; exact El].
    + inv_pair H. exact H1.
Qed.

(* -t, -c (and a lone stdin source without -o): whatever --rm, -f, the sources and the faults are, no file is
   created, written, closed or removed *)
Theorem test_and_stdout_modify_nothing_thm : forall i ls s vs,
  is_test i = true \/ out_stdout i (eff_srcs i ls s) = true ->
  Forall nomod (fio_ops i ls s vs).
Proof.
  intros i ls s vs H. unfold fio_ops, eff_srcs in *.
  destruct (pre i ls s) as [n|names]; [repeat constructor|].
  assert (Hd : forall src d, dsel_of i names src = Some d -> d = DTest \/ exists c, d = DStdout c).
  { intros src d E. unfold dsel_of in E. unfold is_test, out_stdout in H.
    destruct (i_mode i); try (inversion E; left; reflexivity);
      destruct H as [H|H]; try discriminate H;
      destruct (eff_out i names); try discriminate H; inversion E; right; eexists; reflexivity. }
  assert (Erm : eff_rm i names = false).
  { unfold eff_rm. destruct H as [H|H]; rewrite H; cbn [negb]; rewrite ?andb_false_r; reflexivity. }
  unfold fio_main. destruct (dict_check i s vs); [repeat constructor|].
  destruct (is_concat i names) eqn:Ec.
  - destruct (concat_shared i names Ec) as [[p [Eo Hsh]]|[Eo Hsh]]; rewrite Eo.
    + exfalso. destruct (Hd (@nil N) _ (Hsh [])) as [X|[c X]]; discriminate X.
    + destruct (loop i false (dsel_of i names) vs [] names s false) as [ops e] eqn:El.
      apply Forall_app. split; [exact (loop_nomod i _ vs Hd _ _ _ _ _ _ El)|].
      destruct e as [b|n]; [|constructor]. destruct (v_close_ok (vs stdoutmark)); [apply exit_of_nomod|repeat constructor].
  - rewrite Erm. destruct (loop i false (dsel_of i names) vs [] names s false) as [ops e] eqn:El.
    apply Forall_app. split; [exact (loop_nomod i _ vs Hd _ _ _ _ _ _ El)|apply exit_of_nomod].
Qed.

(* a missing / non-regular / unreadable dictionary (-D, --patch-from): the run ends with a non-zero status before any
   source or destination is touched *)
Theorem dict_failure_touches_nothing_thm : forall i ls s vs names n,
  pre i ls s = inr names -> dict_check i s vs = Some n ->
  fio_ops i ls s vs = [OExit n] /\ n <> 0.
Proof.
  intros i ls s vs names n Hp Hd. unfold fio_ops. rewrite Hp. unfold fio_main. rewrite Hd.
  split; [reflexivity|exact (dict_check_nonzero _ _ _ _ Hd)].
Qed.

Lemma dict_check_cases : forall i s vs d,
  dict_of i = Some d ->
  (look s d = Absent -> dict_check i s vs = Some 31) /\
  (look s d = Dir -> dict_check i s vs = Some 32) /\
  (forall f, look s d = Reg f -> v_open_ok (vs d) = false -> dict_check i s vs = Some 33).
Proof.
  intros i s vs d H. unfold dict_check. rewrite H. repeat split; intros; try rewrite H0; try rewrite H1; reflexivity.
Qed.

(* ------------------------------------------------------------------ decompression: the file-system consequences of the frame loop *)

Lemma frames_loop_ret0_iff : forall items,
  snd (frames_loop false items true) = Ret0 <-> (items <> [] /\ forallb is_ok_item items = true).
Proof. intros items. exact (proj1 (frames_loop_verdict_thm items)). Qed.

Lemma frames_loop_ok_payload : forall pass items first,
  forallb is_ok_item items = true -> fst (frames_loop pass items first) = ok_payload items.
Proof.
  intros pass items first H. destruct (frames_loop_output_thm pass items first) as [rest [E1 E2]].
  rewrite E1. rewrite (E2 H). apply app_nil_r.
Qed.

(* zstd -d src (one source, own destination, no injected fault): the destination holds exactly the payload of the
   frames iff the input is non-empty and every frame decodes (skippable frames count as frames with an empty
   payload); then and only then is the source removed by --rm; in every other case (bad frame, truncated frame,
   trailing garbage, empty input) the status is 1, no output of this run is left and the source is untouched --
   with or without -f *)
Theorem decompress_outcome_thm : forall i ls s vs src d f,
  i_mode i = Decompress -> eff_srcs i ls s = [src] -> dst_of i [src] src = Some d -> src <> d ->
  s src = Reg f -> is_stdin src = false -> no_fault (vs src) -> dict_check i s vs = None ->
  (s d = Absent \/ (exists fd, s d = Reg fd) /\ ovw i = true) -> parent d = None ->
  let ops := fio_ops i ls s vs in
  let items := v_items (vs src) in
  if negb (is_nil items) && forallb is_ok_item items then
    exit_code ops = Some 0 /\ run ops s d = Reg (mkFile (concat (ok_payload items)) true) /\
    run ops s src = (if eff_rm i [src] then Absent else s src)
  else
    exit_code ops = Some 1 /\ run ops s d = Absent /\ run ops s src = s src.
Proof.
  intros i ls s vs src d f Hm Hs Hd Hne Hsrc Hstd [F1 [F2 [F3 [F4 [F5 [F6 [F7 F8]]]]]]] Hdc Hdst Hpar ops items.
  subst ops. unfold fio_ops.
  assert (Ep : pre i ls s = inr [src]).
  { rewrite <- Hs. apply (pre_names i ls s src). rewrite Hs. left. reflexivity. }
  rewrite Ep. unfold fio_main. rewrite Hdc. rewrite one_not_concat. cbn [loop].
  apply dst_of_own in Hd. rewrite Hd. rewrite inv_for_nil.
  assert (Hpl : is_lnk (s d) = false).
  { destruct Hdst as [X|[[fd X] _]]; rewrite X; reflexivity. }
  assert (Hsf : same_file s src d = false).
  { unfold same_file. assert (L1 : look s src = Reg f) by (unfold look; rewrite Hsrc; reflexivity). rewrite L1.
    destruct (look s d) eqn:L2; try reflexivity;
      apply path_eqb_neq; rewrite (not_lnk_target s d Hpl); unfold target; rewrite Hsrc; exact Hne. }
  assert (Eg : src_gate i s src (vs src) = GGo).
  { unfold src_gate. rewrite Hstd, Hm. unfold look. rewrite Hsrc. rewrite F2. reflexivity. }
  assert (Ec : codec i (DOwn d) (vs src) = frames_loop false (v_items (vs src)) true).
  { unfold codec. rewrite Hm. cbn [is_stdout]. rewrite andb_false_r. rewrite F1. reflexivity. }
  assert (Cr : forall s1, s1 d = Absent ->
                 creat_ops s1 (vs src) d (negb (is_stdin src)) = ([OCreat d (negb (is_stdin src))], Some d)).
  { intros s1 X. unfold creat_ops, parent_ok. rewrite F4, Hpar. cbn [andb]. unfold look, target. rewrite X. reflexivity. }
  assert (Eo : exists oo, open_dst (ovw i) s (vs src) (Some src) d (negb (is_stdin src)) = (oo, Some d) /\
                          (forall s', run oo s' d = Reg (mkFile [] false)) /\ (forall s', run oo s' src = s' src)).
  { unfold open_dst. rewrite Hsf. destruct Hdst as [X|[[fd X] Y]].
    - assert (L : look s d = Absent) by (unfold look; rewrite X; reflexivity). rewrite L. rewrite (Cr s X).
      exists [OCreat d (negb (is_stdin src))]. split; [reflexivity|]. split.
      + intros s'. unfold run. cbn [fold_left apply_op]. apply upd_same.
      + intros s'. unfold run. cbn [fold_left apply_op]. apply upd_other. exact Hne.
    - assert (L : look s d = Reg fd) by (unfold look; rewrite X; reflexivity). rewrite L, Y, F3.
      assert (S1 : run [OUnlinkDst d] s d = Absent) by (unfold run; cbn [fold_left apply_op]; apply upd_same).
      rewrite (Cr _ S1). exists ([OUnlinkDst d] ++ [OCreat d (negb (is_stdin src))]). split; [reflexivity|]. split.
      + intros s'. unfold run. cbn [app fold_left apply_op]. apply upd_same.
      + intros s'. unfold run. cbn [app fold_left apply_op]. rewrite upd_other by exact Hne. apply upd_other. exact Hne. }
  destruct Eo as [oo [Eo [Ood Oos]]].
  unfold file_ops. rewrite Eg, Ec, Eo. rewrite Hstd. cbv iota. cbn [negb].
  destruct (frames_loop false (v_items (vs src)) true) as [chunks out] eqn:Efl.
  assert (Out : out = Ret0 <-> (v_items (vs src) <> [] /\ forallb is_ok_item (v_items (vs src)) = true)).
  { pose proof (frames_loop_ret0_iff (v_items (vs src))) as X. rewrite Efl in X. exact X. }
  assert (Out01 : out = Ret0 \/ out = Ret1).
  { pose proof (proj2 (frames_loop_verdict_thm (v_items (vs src)))) as X. rewrite Efl in X. exact X. }
  assert (Pre : run ([OOpenRead src] ++ oo ++ OReg d :: map (OWrite d) chunks) s d = Reg (mkFile (concat chunks) false)).
  { cbn [app]. rewrite run_cons. cbn [apply_op]. rewrite run_app. rewrite run_cons. cbn [apply_op].
    apply (run_writes d chunks _ [] false). apply Ood. }
  assert (PreS : run ([OOpenRead src] ++ oo ++ OReg d :: map (OWrite d) chunks) s src = s src).
  { cbn [app]. rewrite run_cons. cbn [apply_op]. rewrite run_app. rewrite run_cons. cbn [apply_op].
    rewrite run_not_mod; [apply Oos|]. apply Forall_map_write. intros c X. cbn [modifies] in X. inversion X. apply Hne. congruence. }
  assert (Hne' : d <> src) by (intro X; apply Hne; congruence).
  unfold items. destruct Out01 as [E|E]; subst out.
  - (* every frame decodes *)
    destruct (proj1 Out eq_refl) as [Hne0 Hall]. rewrite Hall.
    assert (Nn : is_nil (v_items (vs src)) = false) by (destruct (v_items (vs src)); [contradiction Hne0; reflexivity|reflexivity]).
    rewrite Nn. cbn [negb andb].
    assert (Ech : chunks = ok_payload (v_items (vs src))).
    { pose proof (frames_loop_ok_payload false (v_items (vs src)) true Hall) as X. rewrite Efl in X. exact X. }
    unfold tail_src. rewrite Hm. rewrite F7. cbn [negb is_ret0 andb]. rewrite F5. cbn [andb]. rewrite Hstd. cbn [negb].
    rewrite andb_true_r.
    destruct (eff_rm i [src]) eqn:Erm; cbn [andb]; [rewrite F8|]; cbn [is_fail orb exit_of]; rewrite app_nil_r.
    + split; [apply exit_code_app_exit|].
      rewrite !(run_app (_ ++ _) [OExit 0]). rewrite !(run_app ([OOpenRead src] ++ oo ++ OReg d :: map (OWrite d) chunks)).
      revert Pre PreS. generalize (run ([OOpenRead src] ++ oo ++ OReg d :: map (OWrite d) chunks) s). intros s1 Pre PreS.
      unfold run. cbn [app fold_left apply_op]. split.
      * rewrite upd_other by exact Hne'. rewrite upd_same. rewrite Pre. cbn [close_node f_bytes]. rewrite Ech. reflexivity.
      * apply upd_same.
    + split; [apply exit_code_app_exit|].
      rewrite !(run_app (_ ++ _) [OExit 0]). rewrite !(run_app ([OOpenRead src] ++ oo ++ OReg d :: map (OWrite d) chunks)).
      revert Pre PreS. generalize (run ([OOpenRead src] ++ oo ++ OReg d :: map (OWrite d) chunks) s). intros s1 Pre PreS.
      unfold run. cbn [app fold_left apply_op]. split.
      * rewrite upd_same. rewrite Pre. cbn [close_node f_bytes]. rewrite Ech. reflexivity.
      * rewrite upd_other by exact Hne. exact PreS.
  - (* a frame fails, something follows the last frame, or the input is empty *)
    assert (Nb : negb (is_nil (v_items (vs src))) && forallb is_ok_item (v_items (vs src)) = false).
    { destruct (negb (is_nil (v_items (vs src))) && forallb is_ok_item (v_items (vs src))) eqn:X; [|reflexivity].
      apply andb_true_iff in X. destruct X as [X1 X2].
      assert (Y : Ret1 = Ret0); [|discriminate Y]. apply Out. split; [|exact X2].
      intro Z. rewrite Z in X1. discriminate X1. }
    rewrite Nb.
    unfold tail_src. rewrite Hm. rewrite F7. cbn [negb is_ret0 andb]. rewrite F6. rewrite andb_false_r. cbn [andb].
    cbn [is_fail orb exit_of]. rewrite app_nil_r.
    split; [apply exit_code_app_exit|].
    rewrite !(run_app (_ ++ _) [OExit 1]). rewrite !(run_app ([OOpenRead src] ++ oo ++ OReg d :: map (OWrite d) chunks)).
    revert Pre PreS. generalize (run ([OOpenRead src] ++ oo ++ OReg d :: map (OWrite d) chunks) s). intros s1 Pre PreS.
    unfold run. cbn [app fold_left apply_op]. split.
    + apply upd_same.
    + rewrite upd_other by exact Hne. rewrite upd_other by exact Hne. exact PreS.
Qed.

(* ------------------------------------------------------------------ several sources: each one's fate is decided by its own segment *)

Lemma loop_err_false : forall i rm dof vs srcs own s err ops,
  loop i rm dof vs own srcs s err = (ops, inl false) -> err = false.
Proof.
  intros i rm dof vs. induction srcs as [|src tl IH]; intros own s err ops H; cbn [loop] in H.
  - inversion H. reflexivity.
  - destruct (dof src) as [d|].
    + destruct (file_ops (inv_for i own s src d) rm s src d (vs src)) as [ops1 r].
      destruct r as [| |n]; try discriminate H.
      * destruct (loop i rm dof vs _ tl (run ops1 s) (err || is_fail FOk)) as [ops2 e2] eqn:El.
        inversion H; subst. apply IH in El. apply orb_false_iff in El. apply El.
      * destruct (loop i rm dof vs _ tl (run ops1 s) (err || is_fail FFail)) as [ops2 e2] eqn:El.
        inversion H; subst. apply IH in El. apply orb_false_iff in El. destruct El as [_ X]. discriminate X.
    + apply IH in H. discriminate H.
Qed.

Lemma true_local : forall prot : path -> Prop, local_to prot (fun _ => True).
Proof. intros prot s s' _ _. exact I. Qed.

(* where the segment of a tracked source sits in the run *)
Lemma loop_track : forall i rm dof vs s0 src0 d0 (prot : path -> Prop),
  dof src0 = Some d0 ->
  forall srcs own s err ops e,
  NoDup srcs -> In src0 srcs ->
  (forall src' d', In src' srcs -> src' <> src0 -> dof src' = Some d' ->
     forall i' s' ops r, sim i i' -> lsub s0 s' -> file_ops i' rm s' src' d' (vs src') = (ops, r) -> Forall (avoids prot) ops) ->
  lsub s0 s ->
  loop i rm dof vs own srcs s err = (ops, e) ->
  ((exists n, e = inr n) /\ (forall q, prot q -> run ops s q = s q)) \/
  (exists opsA ops0 opsB r0 i0,
     ops = opsA ++ ops0 ++ opsB /\
     (forall q, prot q -> run opsA s q = s q) /\ lsub s0 (run opsA s) /\
     sim i i0 /\ file_ops i0 rm (run opsA s) src0 d0 (vs src0) = (ops0, r0) /\
     (forall q, prot q -> run ops s q = run (opsA ++ ops0) s q) /\
     (e = inl false -> r0 = FOk) /\ (forall b, e = inl b -> forall n, r0 <> FThrow n)).
Proof.
  intros i rm dof vs s0 src0 d0 prot Hd0.
  induction srcs as [|src tl IH]; intros own s err ops e Hnd Hin Hav HL H; [contradiction Hin|].
  cbn [loop] in H. inversion Hnd as [|? ? Hnotin Hnd']; subst.
  destruct (path_eq_dec src src0) as [E|E].
  - (* the tracked source *)
    subst src. rewrite Hd0 in H.
    destruct (file_ops (inv_for i own s src0 d0) rm s src0 d0 (vs src0)) as [ops1 r] eqn:Ef.
    pose proof (inv_for_sim i own s src0 d0) as Hsim0.
    assert (Htl : forall src' d', In src' tl -> dof src' = Some d' ->
              forall i' s' ops r, sim i i' -> True -> lsub s0 s' -> file_ops i' rm s' src' d' (vs src') = (ops, r) -> Forall (avoids prot) ops).
    { intros a b Ha Hb i' s' o r' Hsim' _ L Ef'. assert (Na : a <> src0) by (intro X; subst; contradiction).
      exact (Hav a b (or_intror Ha) Na Hb i' s' o r' Hsim' L Ef'). }
    right. destruct r as [| |n].
    + destruct (loop i rm dof vs _ tl (run ops1 s) (err || is_fail FOk)) as [ops2 e2] eqn:El. inv_pair H.
      destruct (loop_avoid_if i rm dof vs s0 prot (fun _ => True) (true_local prot) tl _ _ _ _ _ Htl I (lsub_run _ _ _ HL) El) as [_ [B2 _]].
      exists [], ops1, ops2, FOk, (inv_for i own s src0 d0). cbn [app]. repeat split; try assumption; try reflexivity.
      * intros q Hq. rewrite run_app. apply B2. exact Hq.
      * intros b _ n X. discriminate X.
    + destruct (loop i rm dof vs _ tl (run ops1 s) (err || is_fail FFail)) as [ops2 e2] eqn:El. inv_pair H.
      destruct (loop_avoid_if i rm dof vs s0 prot (fun _ => True) (true_local prot) tl _ _ _ _ _ Htl I (lsub_run _ _ _ HL) El) as [_ [B2 _]].
      exists [], ops1, ops2, FFail, (inv_for i own s src0 d0). cbn [app]. repeat split; try assumption; try reflexivity.
      * intros q Hq. rewrite run_app. apply B2. exact Hq.
      * intros X. subst e. apply loop_err_false in El. apply orb_false_iff in El. destruct El as [_ Y]. discriminate Y.
      * intros b _ n X. discriminate X.
    + assert (Eo : ops = ops1 /\ e = inr n) by (inversion H; split; reflexivity). destruct Eo as [Eo Ee]. subst ops e.
      exists [], ops1, [], (FThrow n), (inv_for i own s src0 d0). cbn [app]. rewrite app_nil_r.
      repeat split; try assumption; try reflexivity; try (intros X; discriminate X). intros b X. discriminate X.
  - (* another source comes first *)
    destruct Hin as [Hin|Hin]; [contradiction|].
    assert (Hav' : forall src' d', In src' tl -> src' <> src0 -> dof src' = Some d' ->
              forall i' s' ops r, sim i i' -> lsub s0 s' -> file_ops i' rm s' src' d' (vs src') = (ops, r) -> Forall (avoids prot) ops)
      by (intros a b Ha; apply Hav; right; exact Ha).
    destruct (dof src) as [d|] eqn:Ed.
    2:{ exact (IH own s true ops e Hnd' Hin Hav' HL H). }
    destruct (file_ops (inv_for i own s src d) rm s src d (vs src)) as [ops1 r] eqn:Ef.
    pose proof (Hav src d (or_introl eq_refl) E Ed _ s ops1 r (inv_for_sim i own s src d) HL Ef) as Hav1.
    destruct (avoid_all_pref prot (fun _ => True) (true_local prot) ops1 s None I I Hav1) as [_ [A2 _]].
    assert (Go : forall own2 b ops2 e2, loop i rm dof vs own2 tl (run ops1 s) b = (ops2, e2) -> ops = ops1 ++ ops2 -> e = e2 ->
              ((exists n, e = inr n) /\ (forall q, prot q -> run ops s q = s q)) \/
              (exists opsA ops0 opsB r0 i0,
                 ops = opsA ++ ops0 ++ opsB /\
                 (forall q, prot q -> run opsA s q = s q) /\ lsub s0 (run opsA s) /\
                 sim i i0 /\ file_ops i0 rm (run opsA s) src0 d0 (vs src0) = (ops0, r0) /\
                 (forall q, prot q -> run ops s q = run (opsA ++ ops0) s q) /\
                 (e = inl false -> r0 = FOk) /\ (forall b, e = inl b -> forall n, r0 <> FThrow n))).
    { intros own2 b ops2 e2 El Eops Ee. subst ops e.
      destruct (IH own2 (run ops1 s) b ops2 e2 Hnd' Hin Hav' (lsub_run _ _ _ HL) El) as [[Hn Hf]|[opsA [ops0 [opsB [r0 [i0 [X1 [X2 [X3 [Xs [X4 [X5 [X6 X7]]]]]]]]]]]]].
      - left. split; [exact Hn|]. intros q Hq. rewrite run_app. rewrite Hf by exact Hq. apply A2. exact Hq.
      - right. exists (ops1 ++ opsA), ops0, opsB, r0, i0. subst ops2.
        split; [rewrite <- app_assoc; reflexivity|].
        split; [intros q Hq; rewrite run_app; rewrite X2 by exact Hq; apply A2; exact Hq|].
        split; [rewrite run_app; exact X3|].
        split; [exact Xs|].
        split; [rewrite run_app; exact X4|].
        split; [|split; assumption].
        intros q Hq. rewrite (run_app ops1). rewrite X5 by exact Hq. rewrite <- app_assoc. rewrite (run_app ops1). reflexivity. }
    destruct r as [| |n].
    + destruct (loop i rm dof vs _ tl (run ops1 s) (err || is_fail FOk)) as [ops2 e2] eqn:El. inv_pair H.
      exact (Go _ _ _ _ El eq_refl eq_refl).
    + destruct (loop i rm dof vs _ tl (run ops1 s) (err || is_fail FFail)) as [ops2 e2] eqn:El. inv_pair H.
      exact (Go _ _ _ _ El eq_refl eq_refl).
    + inv_pair H. left. split; [exists n; reflexivity|]. exact A2.
Qed.

(* a segment that does not report success does not remove its source *)
Lemma file_ops_src_kept : forall i rm s src d v ops r,
  src <> d -> is_lnk (s d) = false ->
  file_ops i rm s src (DOwn d) v = (ops, r) -> r <> FOk -> run ops s src = s src.
Proof.
  intros i rm s src d v ops r Hne Hpl Ef Hr. apply run_not_mod.
  pose proof (file_ops_mod _ _ _ _ _ _ _ _ Ef) as H1. pose proof (file_ops_unl _ _ _ _ _ _ _ _ Ef) as H2.
  rewrite Forall_forall in *. intros o Ho X.
  destruct (H1 o Ho src X) as [[Eo _]|Hs].
  - destruct (H2 o Ho) as [Y|[_ [_ [_ Y]]]]; [subst o; discriminate Y|exact (Hr Y)].
  - cbn [dslots] in Hs. apply Hne. apply (in_slot_plain s d src Hpl Hs).
Qed.

Lemma file_ops_src_state : forall i rm s src d v ops r,
  src <> d -> is_lnk (s d) = false ->
  file_ops i rm s src (DOwn d) v = (ops, r) -> run ops s src = s src \/ run ops s src = Absent.
Proof.
  intros i rm s src d v ops r Hne Hpl Ef.
  pose proof (file_ops_mod _ _ _ _ _ _ _ _ Ef) as H1.
  assert (G : forall l s1, Forall (seg_mod rm s src (DOwn d)) l -> run l s1 src = s1 src \/ run l s1 src = Absent).
  { induction l as [|o tl IH]; intros s1 Hl; [left; reflexivity|].
    inversion Hl as [|? ? Ho Ht]; subst. rewrite run_cons.
    destruct (modifies o) as [q|] eqn:Em.
    - destruct (path_eq_dec q src) as [Eq|Eq].
      + subst q. destruct (Ho src Em) as [[Eo _]|Hs].
        * subst o. cbn [apply_op].
          assert (K : forall l2 s2, Forall (seg_mod rm s src (DOwn d)) l2 -> s2 src = Absent -> run l2 s2 src = Absent).
          { induction l2 as [|o2 t2 IH2]; intros s2 Hl2 Hs2; [exact Hs2|].
            inversion Hl2 as [|? ? Ho2 Ht2]; subst. rewrite run_cons. apply IH2; [exact Ht2|].
            destruct (modifies o2) as [q2|] eqn:Em2.
            - destruct (path_eq_dec q2 src) as [Eq2|Eq2].
              + subst q2. destruct (Ho2 src Em2) as [[Eo2 _]|Hs'].
                * subst o2. cbn [apply_op]. apply upd_same.
                * exfalso. apply Hne. apply (in_slot_plain s d src Hpl Hs').
              + rewrite apply_op_other; [exact Hs2|]. rewrite Em2. intro Y. inversion Y. contradiction.
            - rewrite apply_op_other; [exact Hs2|]. rewrite Em2. discriminate. }
          right. apply K; [exact Ht|apply upd_same].
        * exfalso. apply Hne. apply (in_slot_plain s d src Hpl Hs).
      + destruct (IH (apply_op s1 o) Ht) as [Y|Y]; [left|right; exact Y].
        rewrite Y. apply apply_op_other. rewrite Em. intro Z. inversion Z. contradiction.
    - destruct (IH (apply_op s1 o) Ht) as [Y|Y]; [left|right; exact Y].
      rewrite Y. apply apply_op_other. rewrite Em. discriminate. }
  apply G. exact H1.
Qed.

Lemma exit_code_app_r : forall a b n, exit_code b = Some n -> exit_code (a ++ b) = Some n.
Proof.
  induction a as [|o a IH]; intros b n H; [exact H|]. cbn [app exit_code]. rewrite (IH b n H). reflexivity.
Qed.

Lemma frames_loop_no_throw : forall pass items first n, snd (frames_loop pass items first) <> Throw n.
Proof.
  intros pass. induction items as [|x tl IH]; intros first n; cbn [frames_loop].
  - destruct first; cbn [snd]; discriminate.
  - destruct x as [cs|cs|r].
    + destruct (frames_loop pass tl false) as [w o] eqn:E. cbn [snd]. specialize (IH false n). rewrite E in IH. exact IH.
    + cbn [snd]. discriminate.
    + destruct pass; cbn [snd]; discriminate.
Qed.

Lemma codec_throw0 : forall i d v, v_out v <> Throw 0 -> snd (codec i d v) <> Throw 0.
Proof.
  intros i d v Hv. unfold codec.
  assert (R : snd (match i_mode i with
                   | Compress => (v_chunks v, v_out v)
                   | _ => frames_loop (i_force i && is_stdout d) (v_items v) true
                   end) <> Throw 0).
  { destruct (i_mode i); cbn [snd]; try exact Hv; apply frames_loop_no_throw. }
  destruct d; try exact R; unfold cut_w; destruct (v_wfail v) as [n|]; try exact R;
    destruct (Nat.ltb n _); try exact R; cbn [snd]; discriminate.
Qed.

Lemma file_ops_throw_code : forall i rm s src d v ops n,
  file_ops i rm s src d v = (ops, FThrow n) -> snd (codec i d v) = Throw n \/ n = 1.
Proof.
  intros i rm s src d v ops n H. unfold file_ops in H.
  destruct (src_gate i s src v); try (inversion H; fail).
  destruct (codec i d v) as [chunks out]. cbn [snd].
  assert (T : forall ok tl, tail_src i rm src v ok = (tl, FThrow n) -> n = 1)
    by (intros ok tl E; exact (proj1 (tail_src_throw _ _ _ _ _ _ _ E))).
  destruct d as [|c|p|p].
  1,2,3: destruct out as [| |m];
    try (destruct (tail_src i rm src v _) as [tl r'] eqn:E; inversion H; subst; right; eapply T; exact E);
    inversion H; subst; left; reflexivity.
  destruct (open_dst (ovw i) s v (Some src) p (negb (is_stdin src))) as [oo [t|]]; [|inversion H].
  destruct out as [| |m].
  3:{ inversion H; subst. left. reflexivity. }
  all: destruct (tail_src i rm src v _) as [tl r'] eqn:E; inversion H; subst; right; eapply T; exact E.
Qed.

Lemma loop_throw_exit : forall i rm dof vs,
  (forall p, v_out (vs p) <> Throw 0) ->
  forall srcs own s err ops n, loop i rm dof vs own srcs s err = (ops, inr n) -> exit_code ops = Some n /\ n <> 0.
Proof.
  intros i rm dof vs Hv. induction srcs as [|src tl IH]; intros own s err ops n H; cbn [loop] in H; [inversion H|].
  destruct (dof src) as [d|]; [|exact (IH _ _ _ _ _ H)].
  destruct (file_ops (inv_for i own s src d) rm s src d (vs src)) as [ops1 r] eqn:Ef.
  destruct r as [| |m].
  - destruct (loop i rm dof vs _ tl (run ops1 s) (err || is_fail FOk)) as [ops2 e2] eqn:El. inv_pair H.
    destruct (IH _ _ _ _ _ El) as [A B]. split; [apply exit_code_app_r; exact A|exact B].
  - destruct (loop i rm dof vs _ tl (run ops1 s) (err || is_fail FFail)) as [ops2 e2] eqn:El. inv_pair H.
    destruct (IH _ _ _ _ _ El) as [A B]. split; [apply exit_code_app_r; exact A|exact B].
  - inversion H; subst. split; [exact (file_ops_throw_exit _ _ _ _ _ _ _ _ Ef)|].
    destruct (file_ops_throw_code _ _ _ _ _ _ _ _ Ef) as [X|X]; [|subst; discriminate].
    intro Y. subst n. exact (codec_throw0 _ d (vs src) (Hv src) X).
Qed.

(* several sources, each with its own destination (default names, -O): the final state of a source and of its
   destination is decided by its own segment alone -- whatever happens to the sources before and after it *)
Theorem per_source_outcome_main : forall i names s0 vs, wf i names s0 -> is_concat i names = false ->
  dict_check i s0 vs = None -> (forall p, v_out (vs p) <> Throw 0) ->
  forall src d f0, In src names -> dst_of i names src = Some d -> s0 src = Reg f0 -> v_art_unlink_ok (vs src) = true ->
  let ops := fio_main i names s0 vs in
  let fin := run ops s0 in
  ( (* untouched: the tool exited before reaching it, or its processing was refused / skipped *)
    (fin src = s0 src /\ fin d = s0 d) \/
    (* destination complete; the source is kept or removed *)
    (exists chunks, codec i (DOwn d) (vs src) = (chunks, Ret0) /\ fin d = Reg (mkFile (concat chunks) true) /\
                    (fin src = s0 src \/ fin src = Absent)) \/
    (* failed: nothing is left under the destination name, the source is kept *)
    (fin d = Absent /\ fin src = s0 src) ) /\
  (exit_code ops = Some 0 ->
     (exists chunks, codec i (DOwn d) (vs src) = (chunks, Ret0) /\ fin d = Reg (mkFile (concat chunks) true)) \/
     (i_excl i = true /\ fin src = s0 src /\ fin d = s0 d)).
Proof.
  intros i names s0 vs [Hnd [Hw2 [Hw3 [Hw4 Hw5]]]] Ec Hdc Hv0 src d f0 Hin Hd Hs Hart ops fin.
  subst ops fin. unfold fio_main. rewrite Hdc, Ec.
  destruct (loop i (eff_rm i names) (dsel_of i names) vs [] names s0 false) as [ops e] eqn:El.
  assert (Ed0 : dsel_of i names src = Some (DOwn d)) by (apply dst_of_own; exact Hd).
  assert (Hp : src <> d) by (apply (Hw2 src src (DOwn d) d Hin Hin Ed0); reflexivity).
  assert (Hpl : is_lnk (s0 d) = false) by (apply (Hw4 src (DOwn d) d Hin Ed0 eq_refl)).
  assert (Hsegs : forall src' d', In src' names -> src' <> src -> dsel_of i names src' = Some d' ->
            forall i' s' ops r, sim i i' -> lsub s0 s' -> file_ops i' (eff_rm i names) s' src' d' (vs src') = (ops, r) ->
                             Forall (avoids (prot0 src (Some d))) ops).
  { intros src' d' Hin' Hne' Ed' i' s' ops' r' _ HL Ef.
    apply (seg_avoid_from_mod _ _ _ _ _ _ _ _ _ Ef).
    - intros _ _ [X|X]; [exact (Hne' X)|]. inversion X; subst d.
      exact (Hw2 src' src (DOwn src') src' Hin' Hin Ed0 eq_refl eq_refl).
    - intros q Hq [X|X].
      + subst q. destruct d' as [|c|p|p]; cbn [dslots] in Hq; try contradiction.
        * subst p. exact (Hw2 src src' (DShared src) src Hin Hin' Ed' eq_refl eq_refl).
        * assert (src = p) by (apply (dslots_plain s0 s' p src HL (Hw4 src' (DOwn p) p Hin' Ed' eq_refl) Hq)). subst p.
          exact (Hw2 src src' (DOwn src) src Hin Hin' Ed' eq_refl eq_refl).
      + inversion X; subst q. destruct d' as [|c|p|p]; cbn [dslots] in Hq; try contradiction.
        * exact (not_concat_not_shared i names src' p Ec Ed').
        * assert (d = p) by (apply (dslots_plain s0 s' p d HL (Hw4 src' (DOwn p) p Hin' Ed' eq_refl) Hq)). subst p.
          apply (Hw3 src src' d Hin Hin' (fun Y => Hne' (eq_sym Y)) Hd). apply dst_of_own. exact Ed'. }
  assert (ExitRun : forall q, run (ops ++ exit_of e) s0 q = run ops s0 q).
  { intros q. rewrite run_app. destruct e as [[|]|n]; reflexivity. }
  rewrite !ExitRun.
  assert (Exit0 : exit_code (ops ++ exit_of e) = Some 0 -> e = inl false).
  { intros X. destruct e as [[|]|n]; try reflexivity.
    - cbn [exit_of] in X. rewrite exit_code_app_exit in X. discriminate X.
    - exfalso. cbn [exit_of] in X. rewrite app_nil_r in X.
      destruct (loop_throw_exit i _ _ vs Hv0 _ _ _ _ _ _ El) as [A B]. rewrite A in X. inversion X. exact (B H0). }
  destruct (loop_track i (eff_rm i names) (dsel_of i names) vs s0 src (DOwn d) (prot0 src (Some d)) Ed0
              names [] s0 false ops e Hnd Hin Hsegs (lsub_refl s0) El)
    as [[[n En] Hf]|[opsA [ops0 [opsB [r0 [i0 [X1 [X2 [X3 [Xs [X4 [X5 [X6 X7]]]]]]]]]]]]].
  - (* never reached *)
    split.
    + left. split; apply Hf; [left; reflexivity|right; reflexivity].
    + intros X. apply Exit0 in X. subst e. discriminate X.
  - set (s1 := run opsA s0) in *.
    assert (S1s : s1 src = s0 src) by (apply X2; left; reflexivity).
    assert (S1d : s1 d = s0 d) by (apply X2; right; reflexivity).
    assert (Hpl1 : is_lnk (s1 d) = false) by (rewrite S1d; exact Hpl).
    assert (Fs : run ops s0 src = run ops0 s1 src) by (rewrite X5 by (left; reflexivity); rewrite run_app; reflexivity).
    assert (Fd : run ops s0 d = run ops0 s1 d) by (rewrite X5 by (right; reflexivity); rewrite run_app; reflexivity).
    rewrite Fs, Fd.
    pose proof (file_ops_outcome _ _ _ _ _ _ _ _ Hp Hpl1 Hart X4) as Ho.
    rewrite (sim_codec_own i i0 d (vs src) Xs) in Ho.
    pose proof (file_ops_src_state _ _ _ _ _ _ _ _ Hp Hpl1 X4) as Hss.
    assert (Kept : r0 <> FOk -> run ops0 s1 src = s0 src).
    { intros Y. rewrite (file_ops_src_kept _ _ _ _ _ _ _ _ Hp Hpl1 X4 Y). exact S1s. }
    assert (Nomod_d : Forall nomod ops0 -> run ops0 s1 src = s0 src /\ run ops0 s1 d = s0 d).
    { intros Y. split; rewrite run_not_mod by (apply nomod_not_mod; exact Y); assumption. }
    split.
    + destruct r0 as [| |n].
      * destruct Ho as [[H1 _]|[chunks [H1 [_ H3]]]].
        -- left. apply Nomod_d. exact H1.
        -- right. left. exists chunks. split; [exact H1|]. split; [exact H3|]. rewrite <- S1s. exact Hss.
      * destruct Ho as [H1|[H1|[chunks [H1 [H2 H3]]]]].
        -- right. right. split; [exact H1|]. apply Kept. discriminate.
        -- left. apply Nomod_d. exact H1.
        -- right. left. exists chunks. split; [exact H1|]. split; [exact H2|]. left. rewrite H3. exact S1s.
      * destruct Ho as [[_ H1]|[_ [chunks [H1 [H2 H3]]]]].
        -- right. right. split; [exact H1|]. apply Kept. discriminate.
        -- right. left. exists chunks. split; [exact H1|]. split; [exact H2|]. left. rewrite H3. exact S1s.
    + intros X. apply Exit0 in X. specialize (X6 X). subst r0.
      destruct Ho as [[H1 H2]|[chunks [H1 [_ H3]]]].
      * right. split; [rewrite <- (sim_excl i i0 Xs); exact (gate_skip_excl _ _ _ _ H2)|]. destruct (Nomod_d H1) as [A B]. split; assumption.
      * left. exists chunks. split; assumption.
Qed.

Theorem per_source_outcome_thm : forall i ls s0 vs,
  wf i (eff_srcs i ls s0) s0 -> is_concat i (eff_srcs i ls s0) = false ->
  dict_check i s0 vs = None -> (forall p, v_out (vs p) <> Throw 0) ->
  forall src d f0, In src (eff_srcs i ls s0) -> dst_of i (eff_srcs i ls s0) src = Some d -> s0 src = Reg f0 ->
  v_art_unlink_ok (vs src) = true ->
  let ops := fio_ops i ls s0 vs in
  let fin := run ops s0 in
  ( (fin src = s0 src /\ fin d = s0 d) \/
    (exists chunks, codec i (DOwn d) (vs src) = (chunks, Ret0) /\ fin d = Reg (mkFile (concat chunks) true) /\
                    (fin src = s0 src \/ fin src = Absent)) \/
    (fin d = Absent /\ fin src = s0 src) ) /\
  (exit_code ops = Some 0 ->
     (exists chunks, codec i (DOwn d) (vs src) = (chunks, Ret0) /\ fin d = Reg (mkFile (concat chunks) true)) \/
     (i_excl i = true /\ fin src = s0 src /\ fin d = s0 d)).
Proof.
  intros i ls s0 vs Hwf Hc Hdc Hv src d f0 Hin Hd Hs Hart. unfold fio_ops. rewrite (pre_names i ls s0 src Hin).
  exact (per_source_outcome_main i (eff_srcs i ls s0) s0 vs Hwf Hc Hdc Hv src d f0 Hin Hd Hs Hart).
Qed.

(* ------------------------------------------------------------------ the hypotheses are satisfiable; worked examples *)

Definition no_ls : path -> list path := fun _ => [].
Definition ok_verdict (chunks : list data) : verdict :=
  mkVerdict chunks Ret0 [] None true true true true true true true.

Definition ex_inv : inv := mkInv Compress [[97]] OutDefault false [true] None false false None None.       (* zstd --rm a *)
Definition ex_fs : fs := upd (fun _ => Absent) [97] (Reg (mkFile [1] true)).
Definition ex_vs : path -> verdict := fun _ => ok_verdict [[2]].

Example ex_names : eff_srcs ex_inv no_ls ex_fs = [[97]].
Proof. vm_compute. reflexivity. Qed.

Example ex_wf : wf ex_inv (eff_srcs ex_inv no_ls ex_fs) ex_fs.
Proof.
  rewrite ex_names. unfold wf. split; [|split; [|split; [|split]]].
  - repeat constructor. intros [].
  - intros a b d p [Ha|[]] [Hb|[]] Hd Hp. subst a b. vm_compute in Hd. inversion Hd; subst d.
    cbn [dsel_path] in Hp. inversion Hp. discriminate.
  - intros a b p [Ha|[]] [Hb|[]] Hne. subst. contradiction.
  - intros b d p [Hb|[]] Hd Hp. subst b. vm_compute in Hd. inversion Hd; subst d. cbn [dsel_path] in Hp. inversion Hp. reflexivity.
  - intros a t [Ha|[]] Hl. subst a. vm_compute in Hl. discriminate Hl.
Qed.

Example ex_ops :
  fio_ops ex_inv no_ls ex_fs ex_vs =
  [OOpenRead [97]; OCreat [97; 46; 122; 115; 116] true; OReg [97; 46; 122; 115; 116];
   OWrite [97; 46; 122; 115; 116] [2]; OClr; OSetStat [97; 46; 122; 115; 116];
   OClose [97; 46; 122; 115; 116]; OUtime [97; 46; 122; 115; 116]; OCloseSrc [97]; OClr;
   OUnlinkSrc [97]; OExit 0].
Proof. vm_compute. reflexivity. Qed.

Example ex_sound : verdict_sound (fun b b0 => b = [2] /\ b0 = [1]) ex_inv [1] (ex_vs [97]).
Proof. intros d chunks H. vm_compute in H. inversion H; subst. split; reflexivity. Qed.

(* the same run when the second fwrite fails (ENOSPC): EXM_THROW(70) removes the artefact, the source stays *)
Example ex_write_fault :
  fio_ops ex_inv no_ls ex_fs (fun _ => mkVerdict [[2]; [3]] Ret0 [] (Some 1%nat) true true true true true true true) =
  [OOpenRead [97]; OCreat [97; 46; 122; 115; 116] true; OReg [97; 46; 122; 115; 116];
   OWrite [97; 46; 122; 115; 116] [2]; OUnlinkDst [97; 46; 122; 115; 116]; OExit 70].
Proof. vm_compute. reflexivity. Qed.

(* zstd -f a, where a.zst is a symbolic link to the regular file p: the link is replaced, p is not written *)
Example ex_link_dst :
  fio_ops (mkInv Compress [[97]] OutDefault true [] None false false None None) no_ls
          (upd (upd ex_fs [97; 46; 122; 115; 116] (Lnk [112])) [112] (Reg (mkFile [9] true))) ex_vs =
  [OOpenRead [97]; OUnlinkDst [97; 46; 122; 115; 116]; OCreat [97; 46; 122; 115; 116] true; OReg [97; 46; 122; 115; 116];
   OWrite [97; 46; 122; 115; 116] [2]; OClr; OSetStat [97; 46; 122; 115; 116];
   OClose [97; 46; 122; 115; 116]; OUtime [97; 46; 122; 115; 116]; OCloseSrc [97]; OExit 0].
Proof. vm_compute. reflexivity. Qed.
