(* C19 — proofs about the CLI file-protocol model. *)
From Coq Require Import NArith List Bool Lia.
From ZV.Cli Require Import FsModel FioModel FioSpec.
Import ListNotations.
Local Open Scope N_scope.

(* ------------------------------------------------------------------ basics *)

Lemma path_eqb_eq : forall a b, path_eqb a b = true <-> a = b.
Proof.
  induction a as [|x a IH]; destruct b as [|y b]; cbn [path_eqb]; split; intro H; try congruence; try reflexivity.
  - apply andb_true_iff in H. destruct H as [H1 H2]. apply N.eqb_eq in H1. apply IH in H2. congruence.
  - inversion H; subst. apply andb_true_iff. split. apply N.eqb_refl. apply IH. reflexivity.
Qed.

Lemma path_eqb_refl : forall a, path_eqb a a = true.
Proof. intro a. apply path_eqb_eq. reflexivity. Qed.

Lemma path_eqb_neq : forall a b, a <> b -> path_eqb a b = false.
Proof.
  intros a b H. destruct (path_eqb a b) eqn:E; [|reflexivity].
  apply path_eqb_eq in E. contradiction.
Qed.

Lemma path_eq_dec : forall a b : path, {a = b} + {a <> b}.
Proof.
  intros a b. destruct (path_eqb a b) eqn:E.
  - left. apply path_eqb_eq. exact E.
  - right. intro H. apply path_eqb_eq in H. congruence.
Qed.

Lemma upd_same : forall s p n, upd s p n p = n.
Proof. intros. unfold upd. rewrite path_eqb_refl. reflexivity. Qed.

Lemma upd_other : forall s p n q, q <> p -> upd s p n q = s q.
Proof. intros. unfold upd. rewrite path_eqb_neq by assumption. reflexivity. Qed.

Lemma run_app : forall a b s, run (a ++ b) s = run b (run a s).
Proof. intros. unfold run. apply fold_left_app. Qed.

Lemma run_h_app : forall a b h, run_h (a ++ b) h = run_h b (run_h a h).
Proof. intros. unfold run_h. apply fold_left_app. Qed.

Lemma run_cons : forall o a s, run (o :: a) s = run a (apply_op s o).
Proof. reflexivity. Qed.

Lemma run_h_cons : forall o a h, run_h (o :: a) h = run_h a (apply_h h o).
Proof. reflexivity. Qed.

Lemma apply_op_other : forall s o q, modifies o <> Some q -> apply_op s o q = s q.
Proof.
  intros s o q H. destruct o; cbn [apply_op modifies] in *; try reflexivity;
    apply upd_other; intro E; apply H; congruence.
Qed.

(* ------------------------------------------------------------------ all_pref *)

Lemma all_pref_app : forall P a b s h,
  all_pref P (a ++ b) s h <-> all_pref P a s h /\ all_pref P b (run a s) (run_h a h).
Proof.
  induction a as [|o a IH]; intros b s h; cbn [app all_pref].
  - unfold run, run_h; cbn [fold_left]. split.
    + intro H. split; [split; [|exact I]|exact H]. destruct b; cbn [all_pref] in H; tauto.
    + tauto.
  - rewrite IH. rewrite run_cons, run_h_cons. tauto.
Qed.

Lemma all_pref_here : forall P ops s h, all_pref P ops s h -> P s h.
Proof. intros P ops s h H. destruct ops; cbn [all_pref] in H; tauto. Qed.

Lemma all_pref_end : forall P ops s h, all_pref P ops s h -> P (run ops s) (run_h ops h).
Proof.
  induction ops as [|o a IH]; intros s h H; cbn [all_pref] in H.
  - apply H.
  - rewrite run_cons, run_h_cons. apply IH. apply H.
Qed.

Lemma all_pref_impl : forall (P Q : fs -> option path -> Prop) ops s h,
  (forall s h, P s h -> Q s h) -> all_pref P ops s h -> all_pref Q ops s h.
Proof.
  induction ops as [|o a IH]; intros s h HPQ H; cbn [all_pref] in *.
  - split; [apply HPQ; apply H|exact I].
  - split; [apply HPQ; apply H|]. apply IH; [exact HPQ|apply H].
Qed.

Lemma all_pref_firstn : forall P ops s h k,
  all_pref P ops s h -> P (run (firstn k ops) s) (run_h (firstn k ops) h).
Proof.
  intros P ops s h k H.
  rewrite <- (firstn_skipn k ops) in H. apply all_pref_app in H. destruct H as [H _].
  apply all_pref_end in H. exact H.
Qed.

(* ------------------------------------------------------------------ frame lemma *)

Definition avoids (prot : path -> Prop) (o : op) : Prop :=
  forall p, modifies o = Some p -> ~ prot p.

Definition h_unprot (prot : path -> Prop) (h : option path) : Prop :=
  match h with Some p => ~ prot p | None => True end.

Lemma apply_h_unprot : forall prot h o, h_unprot prot h -> avoids prot o -> h_unprot prot (apply_h h o).
Proof.
  intros prot h o Hh Ho. destruct o; cbn [apply_h]; try exact Hh.
  - cbn [h_unprot]. apply Ho. reflexivity.
  - exact I.
Qed.

Lemma apply_op_prot : forall (prot : path -> Prop) s o q, avoids prot o -> prot q -> apply_op s o q = s q.
Proof.
  intros prot s o q Ho Hq. apply apply_op_other. intro E. apply (Ho q E Hq).
Qed.

Lemma unlinked_prot : forall (prot : path -> Prop) h s q, h_unprot prot h -> prot q -> unlinked h s q = s q.
Proof.
  intros prot h s q Hh Hq. destruct h as [p|]; cbn [unlinked h_unprot] in *; [|reflexivity].
  apply upd_other. intro E. subst. contradiction.
Qed.

(* Q depends only on the protected paths *)
Definition local_to (prot : path -> Prop) (Q : fs -> Prop) : Prop :=
  forall s s', (forall q, prot q -> s' q = s q) -> Q s -> Q s'.

Lemma avoid_all_pref : forall (prot : path -> Prop) (Q : fs -> Prop),
  local_to prot Q ->
  forall ops s h,
    Q s -> h_unprot prot h -> Forall (avoids prot) ops ->
    all_pref (fun s h => Q s /\ Q (unlinked h s)) ops s h /\
    (forall q, prot q -> run ops s q = s q) /\
    h_unprot prot (run_h ops h).
Proof.
  intros prot Q Hloc. induction ops as [|o a IH]; intros s h HQ Hh Hav.
  - cbn [all_pref]. unfold run, run_h; cbn [fold_left]. repeat split; try assumption.
    apply (Hloc s); [|exact HQ]. intros q Hq. apply (unlinked_prot prot); assumption.
  - inversion Hav as [|? ? Ho Ha]; subst.
    assert (HQ' : Q (apply_op s o)).
    { apply (Hloc s); [|exact HQ]. intros q Hq. apply (apply_op_prot prot); assumption. }
    assert (Hh' : h_unprot prot (apply_h h o)) by (apply apply_h_unprot; assumption).
    destruct (IH (apply_op s o) (apply_h h o) HQ' Hh' Ha) as [I1 [I2 I3]].
    cbn [all_pref]. rewrite run_cons, run_h_cons. repeat split; try assumption.
    + apply (Hloc s); [|exact HQ]. intros q Hq. apply (unlinked_prot prot); assumption.
    + intros q Hq. rewrite I2 by assumption. apply (apply_op_prot prot); assumption.
Qed.

(* ------------------------------------------------------------------ what a segment may modify *)

Definition seg_mod (rm : bool) (src : path) (d : dsel) (o : op) : Prop :=
  forall p, modifies o = Some p -> (o = OUnlinkSrc src /\ rm = true) \/ dsel_path d = Some p.

Lemma Forall_map_write : forall (P : op -> Prop) p chunks,
  (forall c, P (OWrite p c)) -> Forall P (map (OWrite p) chunks).
Proof. intros. apply Forall_forall. intros x Hx. apply in_map_iff in Hx. destruct Hx as [c [E _]]. subst. auto. Qed.

Lemma Forall_map_stdout : forall (P : op -> Prop) chunks,
  (forall c, P (OStdout c)) -> Forall P (map OStdout chunks).
Proof. intros. apply Forall_forall. intros x Hx. apply in_map_iff in Hx. destruct Hx as [c [E _]]. subst. auto. Qed.

Lemma open_dst_mod : forall ovw s osrc p m oo opened,
  open_dst ovw s osrc p m = (oo, opened) ->
  Forall (fun o => forall q, modifies o = Some q -> q = p) oo.
Proof.
  intros ovw s osrc p m oo opened H. unfold open_dst in H.
  destruct (match osrc with Some sp => path_eqb sp p | None => false end).
  - inversion H; subst. constructor.
  - destruct (s p); [|destruct ovw|]; inversion H; subst; repeat (first [apply Forall_cons | apply Forall_nil]);
      intros q E; cbn [modifies] in E; congruence.
Qed.

Lemma tail_src_mod : forall rm src ok d, Forall (seg_mod rm src d) (tail_src rm src ok).
Proof.
  intros rm src ok d. unfold tail_src. constructor.
  - intros p E. discriminate.
  - destruct rm; cbn [andb]; [destruct ok|]; repeat (first [apply Forall_cons | apply Forall_nil]);
      intros p E; cbn [modifies] in E; try discriminate.
    left. split; reflexivity.
Qed.

Ltac inv_pair H := apply pair_equal_spec in H; destruct H as [? ?]; subst.

Ltac solve_mod :=
  repeat first
    [ apply tail_src_mod
    | apply Forall_app; split
    | apply Forall_cons
    | apply Forall_nil
    | apply Forall_map_write; intros ? ? E; cbn [modifies] in E; inversion E; subst; right; reflexivity
    | apply Forall_map_stdout; intros ? ? E; discriminate E
    | (intros ? E; cbn [modifies] in E; first [discriminate E | inversion E; subst; right; reflexivity]) ].

Lemma file_ops_mod : forall i rm s src d v ops r,
  file_ops i rm s src d v = (ops, r) -> Forall (seg_mod rm src d) ops.
Proof.
  intros i rm s src d v ops r H. unfold file_ops in H.
  destruct (s src); try (inv_pair H; constructor).
  destruct (codec i d v) as [chunks out].
  destruct d as [| |p|p].
  - destruct out; inv_pair H; cbn [writes]; solve_mod.
  - destruct out; inv_pair H; cbn [writes]; solve_mod.
  - destruct out; inv_pair H; cbn [writes]; solve_mod.
  - destruct (open_dst (ovw i) s (Some src) p true) as [oo opened] eqn:Eo.
    pose proof (open_dst_mod _ _ _ _ _ _ _ Eo) as Hoo.
    assert (Hoo' : Forall (seg_mod rm src (DOwn p)) oo).
    { eapply Forall_impl; [|exact Hoo]. intros o Ho q E. right. cbn [dsel_path]. rewrite (Ho q E). reflexivity. }
    destruct opened.
    + destruct out; inv_pair H; solve_mod; try exact Hoo';
        destruct (is_ret0 _ && v_close_ok v); solve_mod.
    + inv_pair H. solve_mod. exact Hoo'.
Qed.

(* ------------------------------------------------------------------ one source with its own destination *)

Lemma run_writes : forall p chunks s b c,
  s p = Reg (mkFile b c) ->
  run (map (OWrite p) chunks) s p = Reg (mkFile (b ++ concat chunks) c).
Proof.
  induction chunks as [|x tl IH]; intros s b c H; cbn [map concat].
  - unfold run; cbn [fold_left]. rewrite app_nil_r. exact H.
  - rewrite run_cons. rewrite (IH _ (b ++ x) c).
    + rewrite app_assoc. reflexivity.
    + cbn [apply_op]. rewrite upd_same. rewrite H. reflexivity.
Qed.

Lemma open_dst_opened : forall ovw s osrc p m oo s',
  open_dst ovw s osrc p m = (oo, true) -> run oo s' p = Reg (mkFile [] false).
Proof.
  intros ovw s osrc p m oo s' H. unfold open_dst in H.
  destruct (match osrc with Some sp => path_eqb sp p | None => false end); [inversion H|].
  destruct (s p); [|destruct ovw|]; inversion H; subst;
    rewrite ?run_cons; unfold run; cbn [fold_left apply_op]; apply upd_same.
Qed.

Lemma open_dst_not_opened : forall ovw s osrc p m oo,
  open_dst ovw s osrc p m = (oo, false) -> oo = [].
Proof.
  intros ovw s osrc p m oo H. unfold open_dst in H.
  destruct (match osrc with Some sp => path_eqb sp p | None => false end); [inversion H; reflexivity|].
  destruct (s p); [|destruct ovw|]; inversion H; reflexivity.
Qed.

Definition safe2 rel src b0 od : fs -> option path -> Prop :=
  fun s h => safe rel src b0 od s /\ safe rel src b0 od (unlinked h s).

Definition holds (src : path) (b0 : data) (s : fs) : Prop := exists f, s src = Reg f /\ f_bytes f = b0.

Lemma holds_local : forall src b0, local_to (eq src) (holds src b0).
Proof.
  intros src b0 s s' H [f [H1 H2]]. exists f. split; [|exact H2]. rewrite (H src eq_refl). exact H1.
Qed.

Lemma holds_safe : forall rel src b0 od s, holds src b0 s -> safe rel src b0 od s.
Proof. intros. left. exact H. Qed.

(* a list of operations none of which modifies src keeps src's data in place *)
Lemma untouched_safe : forall rel src b0 od ops s h,
  holds src b0 s -> h_unprot (eq src) h -> Forall (avoids (eq src)) ops ->
  all_pref (safe2 rel src b0 od) ops s h /\ holds src b0 (run ops s) /\ h_unprot (eq src) (run_h ops h).
Proof.
  intros rel src b0 od ops s h H Hh Hav.
  destruct (avoid_all_pref (eq src) (holds src b0) (holds_local src b0) ops s h H Hh Hav) as [A [B C]].
  split; [|split].
  - eapply all_pref_impl; [|exact A]. intros s1 h1 [X Y]. split; apply holds_safe; assumption.
  - destruct H as [f [H1 H2]]. exists f. split; [|exact H2]. rewrite (B src eq_refl). exact H1.
  - exact C.
Qed.

Ltac solve_avoid src p Hne :=
  repeat first
    [ apply Forall_app; split
    | apply Forall_cons
    | apply Forall_nil
    | apply Forall_map_write; intros ? ? E; cbn [modifies] in E; inversion E; subst; intro; apply Hne; congruence
    | apply Forall_map_stdout; intros ? ? E; discriminate E
    | (intros ? E; cbn [modifies] in E; first [discriminate E | inversion E; subst; intro; apply Hne; congruence]) ].

Lemma run_h_writes : forall p chunks h, run_h (map (OWrite p) chunks) h = h.
Proof. induction chunks; intros; cbn [map]; [reflexivity|]. rewrite run_h_cons. cbn [apply_h]. apply IHchunks. Qed.

Lemma run_h_stdout : forall chunks h, run_h (map OStdout chunks) h = h.
Proof. induction chunks; intros; cbn [map]; [reflexivity|]. rewrite run_h_cons. cbn [apply_h]. apply IHchunks. Qed.

Lemma run_h_open_dst : forall ovw s osrc p m oo opened h,
  open_dst ovw s osrc p m = (oo, opened) -> run_h oo h = h.
Proof.
  intros ovw s osrc p m oo opened h H. unfold open_dst in H.
  destruct (match osrc with Some sp => path_eqb sp p | None => false end); [inversion H; reflexivity|].
  destruct (s p); [|destruct ovw|]; inversion H; reflexivity.
Qed.

Lemma run_h_nil : forall h, run_h [] h = h.
Proof. reflexivity. Qed.

Ltac simp_h Eo :=
  repeat first
    [ rewrite run_h_app
    | rewrite run_h_cons
    | rewrite run_h_writes
    | rewrite run_h_stdout
    | rewrite (run_h_open_dst _ _ _ _ _ _ _ _ Eo)
    | rewrite run_h_nil
    | progress cbn [apply_h] ].

Lemma own_file_safe : forall rel i rm s src p v f ops r,
  s src = Reg f -> src <> p -> verdict_sound rel i (f_bytes f) v ->
  file_ops i rm s src (DOwn p) v = (ops, r) ->
  all_pref (safe2 rel src (f_bytes f) (Some p)) ops s None /\
  ((forall n, r <> FThrow n) -> run_h ops None = None).
Proof.
  intros rel i rm s src p v f ops r Hs Hne Hsound H.
  assert (Hhold : holds src (f_bytes f) s) by (exists f; split; [exact Hs|reflexivity]).
  unfold file_ops in H. rewrite Hs in H.
  destruct (codec i (DOwn p) v) as [chunks out] eqn:Ec.
  destruct (open_dst (ovw i) s (Some src) p true) as [oo opened] eqn:Eo.
  assert (Hoo : Forall (avoids (eq src)) oo).
  { eapply Forall_impl; [|exact (open_dst_mod _ _ _ _ _ _ _ Eo)].
    intros o Ho q E X. apply Hne. rewrite X. apply Ho. exact E. }
  destruct opened.
  2:{ inv_pair H. split.
      - apply (untouched_safe rel src (f_bytes f) (Some p)); [exact Hhold|exact I|].
        solve_avoid src p Hne. exact Hoo.
      - intros _. simp_h Eo. reflexivity. }
  destruct out as [| |n].
  3:{ inv_pair H. split.
      - apply (untouched_safe rel src (f_bytes f) (Some p)); [exact Hhold|exact I|].
        solve_avoid src p Hne. exact Hoo.
      - intros X. exfalso. apply (X n). reflexivity. }
  2:{ cbn [is_ret0 andb] in H. inv_pair H. split.
      - apply (untouched_safe rel src (f_bytes f) (Some p)); [exact Hhold|exact I|].
        unfold tail_src. rewrite andb_false_r. solve_avoid src p Hne. exact Hoo.
      - intros _. unfold tail_src. rewrite andb_false_r. simp_h Eo. reflexivity. }
  cbn [is_ret0 andb] in H.
  destruct (v_close_ok v) eqn:Ecl.
  2:{ inv_pair H. split.
      - apply (untouched_safe rel src (f_bytes f) (Some p)); [exact Hhold|exact I|].
        unfold tail_src. rewrite andb_false_r. solve_avoid src p Hne. exact Hoo.
      - intros _. unfold tail_src. rewrite andb_false_r. simp_h Eo. reflexivity. }
  destruct rm.
  2:{ inv_pair H. split.
      - apply (untouched_safe rel src (f_bytes f) (Some p)); [exact Hhold|exact I|].
        unfold tail_src. cbn [andb]. solve_avoid src p Hne. exact Hoo.
      - intros _. unfold tail_src. cbn [andb]. simp_h Eo. reflexivity. }
  (* success with --rm: everything up to the final unlink leaves src alone *)
  inv_pair H. unfold tail_src. cbn [andb].
  set (A := (OOpenRead src :: oo ++ OReg p :: map (OWrite p) chunks) ++
            [OClr; OSetStat p; OClose p; OUtime p] ++ [OCloseSrc src; OClr]).
  assert (EA : (OOpenRead src :: oo ++ OReg p :: map (OWrite p) chunks) ++
               [OClr; OSetStat p; OClose p; OUtime p] ++ [] ++ [OCloseSrc src; OClr; OUnlinkSrc src]
               = A ++ [OUnlinkSrc src]).
  { unfold A. cbn [app]. rewrite <- !app_assoc. cbn [app]. reflexivity. }
  rewrite EA. clear EA.
  assert (HA : Forall (avoids (eq src)) A).
  { unfold A. solve_avoid src p Hne. exact Hoo. }
  destruct (untouched_safe rel src (f_bytes f) (Some p) A s None Hhold I HA) as [P1 [P2 P3]].
  assert (HhA : run_h A None = None).
  { unfold A. simp_h Eo. reflexivity. }
  assert (HpA : run A s p = Reg (mkFile (concat chunks) true)).
  { unfold A. rewrite run_app.
    assert (E1 : run (OOpenRead src :: oo ++ OReg p :: map (OWrite p) chunks) s p
                 = Reg (mkFile ([] ++ concat chunks) false)).
    { rewrite run_cons. cbn [apply_op]. rewrite run_app. rewrite run_cons. cbn [apply_op].
      apply run_writes. apply (open_dst_opened _ _ _ _ _ _ _ Eo). }
    revert E1. generalize (run (OOpenRead src :: oo ++ OReg p :: map (OWrite p) chunks) s). intros s1 E1.
    unfold run. cbn [app fold_left apply_op]. rewrite upd_same. rewrite E1. reflexivity. }
  split.
  - apply all_pref_app. split; [exact P1|].
    rewrite HhA. cbn [all_pref]. split; [|split; [|exact I]].
    + pose proof (all_pref_end _ _ _ _ P1) as X. rewrite HhA in X. exact X.
    + cbn [apply_op apply_h unlinked].
      assert (S1 : safe rel src (f_bytes f) (Some p) (upd (run A s) src Absent)).
      { right. exists p, (concat chunks). split; [reflexivity|]. split.
        - rewrite upd_other by (intro X; apply Hne; congruence). exact HpA.
        - apply (Hsound p chunks). exact Ec. }
      split; exact S1.
  - intros _. rewrite run_h_app, HhA. reflexivity.
Qed.

(* ------------------------------------------------------------------ the handler register is clear between sources *)

Lemma file_ops_h_none : forall i rm s src d v ops r,
  file_ops i rm s src d v = (ops, r) -> (forall n, r <> FThrow n) -> run_h ops None = None.
Proof.
  intros i rm s src d v ops r H Hr. unfold file_ops in H.
  destruct (s src); try (inv_pair H; reflexivity).
  destruct (codec i d v) as [chunks out].
  assert (Ht : forall ok h, run_h (tail_src rm src ok) h = None \/ run_h (tail_src rm src ok) h = h).
  { intros ok h. unfold tail_src. destruct (rm && ok); [left|right]; reflexivity. }
  destruct d as [| |p|p].
  - destruct out; inv_pair H; try (exfalso; eapply Hr; reflexivity); cbn [writes];
      rewrite run_h_app; cbn [app]; rewrite run_h_cons; cbn [apply_h];
      match goal with |- run_h (tail_src ?a ?b ?c) ?h = _ => destruct (Ht c h) as [X|X]; rewrite X; reflexivity end.
  - destruct out; inv_pair H; try (exfalso; eapply Hr; reflexivity); cbn [writes];
      rewrite run_h_app, run_h_cons; cbn [apply_h]; rewrite run_h_stdout;
      match goal with |- run_h (tail_src ?a ?b ?c) ?h = _ => destruct (Ht c h) as [X|X]; rewrite X; reflexivity end.
  - destruct out; inv_pair H; try (exfalso; eapply Hr; reflexivity); cbn [writes];
      rewrite run_h_app, run_h_cons; cbn [apply_h]; rewrite run_h_writes;
      match goal with |- run_h (tail_src ?a ?b ?c) ?h = _ => destruct (Ht c h) as [X|X]; rewrite X; reflexivity end.
  - destruct (open_dst (ovw i) s (Some src) p true) as [oo opened] eqn:Eo.
    destruct opened.
    + destruct out; inv_pair H; try (exfalso; eapply Hr; reflexivity);
        (destruct (is_ret0 _ && v_close_ok v));
        simp_h Eo;
        match goal with |- run_h (tail_src ?a ?b ?c) ?h = _ => destruct (Ht c h) as [X|X]; rewrite X; reflexivity end.
    + inv_pair H. simp_h Eo. reflexivity.
Qed.

(* ------------------------------------------------------------------ the loop over the sources *)

Definition prot0 (src0 : path) (od : option path) : path -> Prop :=
  fun q => q = src0 \/ od = Some q.

Lemma safe_local : forall rel src0 b0 od, local_to (prot0 src0 od) (safe rel src0 b0 od).
Proof.
  intros rel src0 b0 od s s' H [[f [H1 H2]]|[d [b [H1 [H2 H3]]]]].
  - left. exists f. split; [|exact H2]. rewrite (H src0); [exact H1|left; reflexivity].
  - right. exists d, b. split; [exact H1|]. split; [|exact H3]. rewrite (H d); [exact H2|right; exact H1].
Qed.

Definition seg_avoids i rm (vs : path -> verdict) (prot : path -> Prop) (src' : path) (d' : dsel) : Prop :=
  forall s' ops r, file_ops i rm s' src' d' (vs src') = (ops, r) -> Forall (avoids prot) ops.

Lemma loop_avoid_if : forall i rm dof vs (prot : path -> Prop) (Q : fs -> Prop),
  local_to prot Q ->
  forall srcs s err ops e,
  (forall src' d', In src' srcs -> dof src' = Some d' ->
     forall s' ops r, Q s' -> file_ops i rm s' src' d' (vs src') = (ops, r) -> Forall (avoids prot) ops) ->
  Q s ->
  loop i rm dof vs srcs s err = (ops, e) ->
  all_pref (fun s h => Q s /\ Q (unlinked h s)) ops s None /\
  (forall q, prot q -> run ops s q = s q) /\
  h_unprot prot (run_h ops None).
Proof.
  intros i rm dof vs prot Q Hloc. induction srcs as [|src tl IH]; intros s err ops e Hav HQ H; cbn [loop] in H.
  - inv_pair H. cbn [all_pref]. split; [|split; [reflexivity|exact I]]. repeat split; assumption.
  - destruct (dof src) as [d|] eqn:Ed.
    2:{ eapply IH; [|exact HQ|exact H]. intros a b Ha Hb. apply Hav; [right; exact Ha|exact Hb]. }
    destruct (file_ops i rm s src d (vs src)) as [ops1 r] eqn:Ef.
    pose proof (Hav src d (or_introl eq_refl) Ed s ops1 r HQ Ef) as Hav1.
    destruct (avoid_all_pref prot Q Hloc ops1 s None HQ I Hav1) as [A1 [A2 A3]].
    destruct r as [| |n].
    3:{ inv_pair H. split; [|split]; assumption. }
    + destruct (loop i rm dof vs tl (run ops1 s) (err || is_fail FOk)) as [ops2 e2] eqn:El.
      assert (HQ1 : Q (run ops1 s)) by (apply (all_pref_end _ _ _ _ A1)).
      destruct (IH (run ops1 s) _ ops2 e2 (fun a b Ha => Hav a b (or_intror Ha)) HQ1 El) as [B1 [B2 B3]].
      inv_pair H.
      split; [|split].
      * apply all_pref_app. split; [exact A1|].
        rewrite (file_ops_h_none _ _ _ _ _ _ _ _ Ef) by (intros n; discriminate). exact B1.
      * intros q Hq. rewrite run_app. rewrite B2 by exact Hq. apply A2. exact Hq.
      * rewrite run_h_app. rewrite (file_ops_h_none _ _ _ _ _ _ _ _ Ef) by (intros n; discriminate). exact B3.
    + destruct (loop i rm dof vs tl (run ops1 s) (err || is_fail FFail)) as [ops2 e2] eqn:El.
      assert (HQ1 : Q (run ops1 s)) by (apply (all_pref_end _ _ _ _ A1)).
      destruct (IH (run ops1 s) _ ops2 e2 (fun a b Ha => Hav a b (or_intror Ha)) HQ1 El) as [B1 [B2 B3]].
      inv_pair H.
      split; [|split].
      * apply all_pref_app. split; [exact A1|].
        rewrite (file_ops_h_none _ _ _ _ _ _ _ _ Ef) by (intros n; discriminate). exact B1.
      * intros q Hq. rewrite run_app. rewrite B2 by exact Hq. apply A2. exact Hq.
      * rewrite run_h_app. rewrite (file_ops_h_none _ _ _ _ _ _ _ _ Ef) by (intros n; discriminate). exact B3.
Qed.

Lemma loop_avoid : forall i rm dof vs (prot : path -> Prop) (Q : fs -> Prop),
  local_to prot Q ->
  forall srcs s err ops e,
  (forall src' d', In src' srcs -> dof src' = Some d' -> seg_avoids i rm vs prot src' d') ->
  Q s ->
  loop i rm dof vs srcs s err = (ops, e) ->
  all_pref (fun s h => Q s /\ Q (unlinked h s)) ops s None /\
  (forall q, prot q -> run ops s q = s q) /\
  h_unprot prot (run_h ops None).
Proof.
  intros i rm dof vs prot Q Hloc srcs s err ops e Hav HQ H.
  apply (loop_avoid_if i rm dof vs prot Q Hloc srcs s err ops e); try assumption.
  intros src' d' Hin Hd s' ops' r' _ Ef. exact (Hav src' d' Hin Hd s' ops' r' Ef).
Qed.

Lemma keeps_local : forall src0 od (f0 : file), local_to (prot0 src0 od) (fun s => s src0 = Reg f0).
Proof. intros src0 od f0 s s' H H1. rewrite (H src0); [exact H1|left; reflexivity]. Qed.

Lemma loop_own : forall rel i rm dof vs src0 f0 p0,
  src0 <> p0 -> dof src0 = Some (DOwn p0) -> verdict_sound rel i (f_bytes f0) (vs src0) ->
  forall srcs s err ops e,
  NoDup srcs ->
  (forall src' d', In src' srcs -> src' <> src0 -> dof src' = Some d' ->
                   seg_avoids i rm vs (prot0 src0 (Some p0)) src' d') ->
  s src0 = Reg f0 ->
  loop i rm dof vs srcs s err = (ops, e) ->
  all_pref (safe2 rel src0 (f_bytes f0) (Some p0)) ops s None.
Proof.
  intros rel i rm dof vs src0 f0 p0 Hne Hd0 Hsound.
  induction srcs as [|src tl IH]; intros s err ops e Hnd Hav Hs H; cbn [loop] in H.
  - inv_pair H. cbn [all_pref unlinked]. split; [|exact I].
    split; left; exists f0; split; auto.
  - inversion Hnd as [|? ? Hnotin Hnd']; subst.
    destruct (dof src) as [d|] eqn:Ed.
    2:{ eapply IH; [exact Hnd'| |exact Hs|exact H]. intros a b Ha. apply Hav. right. exact Ha. }
    destruct (file_ops i rm s src d (vs src)) as [ops1 r] eqn:Ef.
    destruct (path_eq_dec src src0) as [E|E].
    + (* the tracked source itself *)
      subst src. rewrite Hd0 in Ed. inversion Ed; subst d.
      destruct (own_file_safe rel i rm s src0 p0 (vs src0) f0 ops1 r Hs Hne Hsound Ef) as [A1 A2].
      assert (Htl : forall src' d', In src' tl -> dof src' = Some d' ->
                                    seg_avoids i rm vs (prot0 src0 (Some p0)) src' d').
      { intros a b Ha Hb. apply Hav; [right; exact Ha| |exact Hb]. intro X. subst. contradiction. }
      destruct r as [| |n].
      3:{ inv_pair H. exact A1. }
      * destruct (loop i rm dof vs tl (run ops1 s) (err || is_fail FOk)) as [ops2 e2] eqn:El.
        assert (HQ1 : safe rel src0 (f_bytes f0) (Some p0) (run ops1 s)) by (apply (all_pref_end _ _ _ _ A1)).
        destruct (loop_avoid i rm dof vs _ _ (safe_local rel src0 (f_bytes f0) (Some p0)) tl _ _ _ _ Htl HQ1 El) as [B1 _].
        inv_pair H. apply all_pref_app. split; [exact A1|].
        rewrite A2 by (intros n; discriminate). exact B1.
      * destruct (loop i rm dof vs tl (run ops1 s) (err || is_fail FFail)) as [ops2 e2] eqn:El.
        assert (HQ1 : safe rel src0 (f_bytes f0) (Some p0) (run ops1 s)) by (apply (all_pref_end _ _ _ _ A1)).
        destruct (loop_avoid i rm dof vs _ _ (safe_local rel src0 (f_bytes f0) (Some p0)) tl _ _ _ _ Htl HQ1 El) as [B1 _].
        inv_pair H. apply all_pref_app. split; [exact A1|].
        rewrite A2 by (intros n; discriminate). exact B1.
    + (* another source: it leaves src0 and p0 alone *)
      pose proof (Hav src d (or_introl eq_refl) E Ed s ops1 r Ef) as Hav1.
      destruct (avoid_all_pref _ _ (keeps_local src0 (Some p0) f0) ops1 s None Hs I Hav1) as [A1 [A2 A3]].
      assert (A1' : all_pref (safe2 rel src0 (f_bytes f0) (Some p0)) ops1 s None).
      { eapply all_pref_impl; [|exact A1]. intros s1 h1 [X Y]. split; left; exists f0; split; auto. }
      assert (Hs1 : run ops1 s src0 = Reg f0).
      { rewrite A2; [exact Hs|left; reflexivity]. }
      destruct r as [| |n].
      3:{ inv_pair H. exact A1'. }
      * destruct (loop i rm dof vs tl (run ops1 s) (err || is_fail FOk)) as [ops2 e2] eqn:El.
        pose proof (IH _ _ _ _ Hnd' (fun a b Ha => Hav a b (or_intror Ha)) Hs1 El) as B1.
        inv_pair H. apply all_pref_app. split; [exact A1'|].
        rewrite (file_ops_h_none _ _ _ _ _ _ _ _ Ef) by (intros n; discriminate). exact B1.
      * destruct (loop i rm dof vs tl (run ops1 s) (err || is_fail FFail)) as [ops2 e2] eqn:El.
        pose proof (IH _ _ _ _ Hnd' (fun a b Ha => Hav a b (or_intror Ha)) Hs1 El) as B1.
        inv_pair H. apply all_pref_app. split; [exact A1'|].
        rewrite (file_ops_h_none _ _ _ _ _ _ _ _ Ef) by (intros n; discriminate). exact B1.
Qed.

(* ------------------------------------------------------------------ modes *)

Lemma concat_shared : forall i, is_concat i = true ->
  exists p, i_out i = OutFile p /\ forall src, dsel_of i src = Some (DShared p).
Proof.
  intros i H. unfold is_concat, is_test in H. unfold dsel_of.
  destruct (i_mode i); cbn [negb andb] in H; try discriminate;
    destruct (i_out i) as [| |p]; try discriminate;
    exists p; (split; [reflexivity|]); intros src;
    destruct (i_srcs i) as [|a [|b tl]]; try discriminate; reflexivity.
Qed.

Lemma not_concat_not_shared : forall i src q, is_concat i = false -> dsel_of i src <> Some (DShared q).
Proof.
  intros i src q H E. unfold is_concat, is_test in H. unfold dsel_of in E.
  destruct (i_mode i); cbn [negb andb] in H; try discriminate;
    destruct (i_out i) as [| |p]; try discriminate;
    try (destruct (dstname _ src); discriminate);
    destruct (i_srcs i) as [|a [|b tl]]; discriminate.
Qed.

Lemma test_no_rm : forall i src, dsel_of i src = Some DTest -> eff_rm i = false.
Proof.
  intros i src E. unfold dsel_of in E. unfold eff_rm, is_test.
  destruct (i_mode i); try (rewrite andb_false_r; reflexivity);
    destruct (i_out i) as [| |p]; try discriminate;
    try (destruct (dstname _ src); discriminate);
    destruct (i_srcs i) as [|a [|b tl]]; discriminate.
Qed.

Lemma stdout_no_rm : forall i src, dsel_of i src = Some DStdout -> eff_rm i = false.
Proof.
  intros i src E. unfold dsel_of in E. unfold eff_rm, out_stdout.
  destruct (i_mode i); try discriminate;
    destruct (i_out i) as [| |p]; try (rewrite andb_false_r; reflexivity);
    try (destruct (dstname _ src); discriminate);
    destruct (i_srcs i) as [|a [|b tl]]; discriminate.
Qed.

Lemma dst_of_own : forall i src p, dst_of i src = Some p <-> dsel_of i src = Some (DOwn p).
Proof.
  intros i src p. unfold dst_of. destruct (dsel_of i src) as [[| |q|q]|]; split; intro H; try discriminate; congruence.
Qed.

(* ------------------------------------------------------------------ crash safety, whole run *)

Lemma all_pref_exit : forall (P : fs -> option path -> Prop) e s h, P s h -> all_pref P (exit_of e) s h.
Proof.
  intros P e s h H. destruct e as [[|]|n]; cbn [exit_of all_pref apply_op apply_h]; tauto.
Qed.

Lemma holds_safe2 : forall rel src b0 od (s : fs) (h : option path),
  holds src b0 s /\ holds src b0 (unlinked h s) -> safe2 rel src b0 od s h.
Proof. intros rel src b0 od s h [X Y]. split; left; assumption. Qed.

(* every segment of a run in which src has no destination of its own leaves src alone *)
Lemma segs_avoid_src : forall i vs src,
  (forall a b d p, In a (i_srcs i) -> In b (i_srcs i) -> dsel_of i b = Some d -> dsel_path d = Some p -> a <> p) ->
  In src (i_srcs i) -> dst_of i src = None -> is_concat i = false ->
  forall src' d', In src' (i_srcs i) -> dsel_of i src' = Some d' -> seg_avoids i (eff_rm i) vs (eq src) src' d'.
Proof.
  intros i vs src Hw2 Hin Hd Hc src' d' Hin' Ed' s' ops r Ef.
  eapply Forall_impl; [|exact (file_ops_mod _ _ _ _ _ _ _ _ Ef)].
  intros o Ho q E X. subst q. destruct (Ho src E) as [[Eo Erm]|Ep].
  - (* OUnlinkSrc src' with src' = src *)
    subst o. cbn [modifies] in E. inversion E; subst src'.
    destruct d' as [| |p|p].
    + rewrite (test_no_rm i src Ed') in Erm. discriminate.
    + rewrite (stdout_no_rm i src Ed') in Erm. discriminate.
    + exact (not_concat_not_shared i src p Hc Ed').
    + unfold dst_of in Hd. rewrite Ed' in Hd. discriminate.
  - exact (Hw2 src src' d' src Hin Hin' Ed' Ep eq_refl).
Qed.

Theorem all_states_safe : forall rel i s0 vs, wf i ->
  forall src f0, In src (i_srcs i) -> s0 src = Reg f0 -> verdict_sound rel i (f_bytes f0) (vs src) ->
  all_pref (safe2 rel src (f_bytes f0) (dst_of i src)) (fio_ops i s0 vs) s0 None.
Proof.
  intros rel i s0 vs [Hnd [Hw2 Hw3]] src f0 Hin Hs Hsound.
  assert (Hhold : holds src (f_bytes f0) s0) by (exists f0; split; [exact Hs|reflexivity]).
  unfold fio_ops. destruct (is_concat i) eqn:Ec.
  - (* several sources into one -o destination *)
    destruct (concat_shared i Ec) as [p [Eo Hsh]]. rewrite Eo.
    assert (Hd : dst_of i src = None) by (unfold dst_of; rewrite Hsh; reflexivity). rewrite Hd.
    assert (Hp : src <> p) by (apply (Hw2 src src (DShared p) p Hin Hin (Hsh src)); reflexivity).
    destruct (ovw i) eqn:Eovw.
    2:{ apply (untouched_safe rel src (f_bytes f0) None); [exact Hhold|exact I|].
        repeat constructor. intros q E; discriminate E. }
    destruct (open_dst true s0 None p false) as [oo opened] eqn:Eop.
    destruct opened.
    2:{ destruct (i_mode i); apply (untouched_safe rel src (f_bytes f0) None); try exact Hhold; try exact I;
          repeat constructor; intros q E; discriminate E. }
    destruct (loop i false (dsel_of i) vs (i_srcs i) (run oo s0) false) as [ops e] eqn:El.
    assert (Hoo : Forall (avoids (eq src)) oo).
    { eapply Forall_impl; [|exact (open_dst_mod _ _ _ _ _ _ _ Eop)].
      intros o Ho q E X. apply Hp. rewrite X. apply Ho. exact E. }
    destruct (untouched_safe rel src (f_bytes f0) None oo s0 None Hhold I Hoo) as [P1 [P2 _]].
    assert (Hsegs : forall src' d', In src' (i_srcs i) -> dsel_of i src' = Some d' ->
                                    seg_avoids i false vs (eq src) src' d').
    { intros src' d' Hin' Ed' s' ops' r' Ef.
      eapply Forall_impl; [|exact (file_ops_mod _ _ _ _ _ _ _ _ Ef)].
      intros o Ho q E X. subst q. destruct (Ho src E) as [[_ Erm]|Ep]; [discriminate|].
      rewrite Hsh in Ed'. inversion Ed'; subst d'. cbn [dsel_path] in Ep. apply Hp. congruence. }
    destruct (loop_avoid i false (dsel_of i) vs (eq src) (holds src (f_bytes f0)) (holds_local _ _)
                         (i_srcs i) _ _ _ _ Hsegs P2 El) as [Q1 [Q2 Q3]].
    apply all_pref_app. split; [exact P1|].
    rewrite (run_h_open_dst _ _ _ _ _ _ _ None Eop).
    apply all_pref_app. split.
    { eapply all_pref_impl; [|exact Q1]. intros s1 h1 X. apply holds_safe2. exact X. }
    assert (Hend : holds src (f_bytes f0) (run ops (run oo s0))).
    { apply (all_pref_end _ _ _ _ Q1). }
    destruct e as [b|n].
    + apply (untouched_safe rel src (f_bytes f0) None); [exact Hend|exact Q3|].
      apply Forall_cons.
      * intros q E X. cbn [modifies] in E. inversion E. apply Hp. congruence.
      * destruct b; repeat constructor; intros q E; discriminate E.
    + apply (untouched_safe rel src (f_bytes f0) None); [exact Hend|exact Q3|constructor].
  - (* one destination per source, stdout, or test *)
    destruct (loop i (eff_rm i) (dsel_of i) vs (i_srcs i) s0 false) as [ops e] eqn:El.
    destruct (dst_of i src) as [p0|] eqn:Hd.
    + (* own destination p0 *)
      assert (Ed0 : dsel_of i src = Some (DOwn p0)) by (apply dst_of_own; exact Hd).
      assert (Hp : src <> p0) by (apply (Hw2 src src (DOwn p0) p0 Hin Hin Ed0); reflexivity).
      assert (Hsegs : forall src' d', In src' (i_srcs i) -> src' <> src -> dsel_of i src' = Some d' ->
                                      seg_avoids i (eff_rm i) vs (prot0 src (Some p0)) src' d').
      { intros src' d' Hin' Hne' Ed' s' ops' r' Ef.
        eapply Forall_impl; [|exact (file_ops_mod _ _ _ _ _ _ _ _ Ef)].
        intros o Ho q E [X|X]; destruct (Ho q E) as [[Eo _]|Ep].
        - subst o. cbn [modifies] in E. inversion E. apply Hne'. congruence.
        - subst q. exact (Hw2 src src' d' src Hin Hin' Ed' Ep eq_refl).
        - subst o. cbn [modifies] in E. inversion E; subst q. inversion X; subst p0.
          exact (Hw2 src' src (DOwn src') src' Hin' Hin Ed0 eq_refl eq_refl).
        - inversion X; subst q. destruct d' as [| |p|p]; cbn [dsel_path] in Ep; try discriminate.
          + exact (not_concat_not_shared i src' p Ec Ed').
          + inversion Ep; subst p.
            apply (Hw3 src src' p0 Hin Hin' (fun Y => Hne' (eq_sym Y)) Hd).
            apply dst_of_own. exact Ed'. }
      pose proof (loop_own rel i (eff_rm i) (dsel_of i) vs src f0 p0 Hp Ed0 Hsound
                           (i_srcs i) s0 false ops e Hnd Hsegs Hs El) as Q1.
      apply all_pref_app. split; [exact Q1|].
      apply all_pref_exit. apply (all_pref_end _ _ _ _ Q1).
    + (* no destination of its own: nothing modifies src *)
      pose proof (segs_avoid_src i vs src Hw2 Hin Hd Ec) as Hsegs.
      destruct (loop_avoid i (eff_rm i) (dsel_of i) vs (eq src) (holds src (f_bytes f0)) (holds_local _ _)
                           (i_srcs i) _ _ _ _ Hsegs Hhold El) as [Q1 [Q2 Q3]].
      assert (Q1' : all_pref (safe2 rel src (f_bytes f0) None) ops s0 None).
      { eapply all_pref_impl; [|exact Q1]. intros s1 h1 X. apply holds_safe2. exact X. }
      apply all_pref_app. split; [exact Q1'|].
      apply all_pref_exit. apply (all_pref_end _ _ _ _ Q1').
Qed.

Lemma run_handler_ops : forall h s, run (handler_ops h) s = unlinked h s.
Proof. intros [p|] s; reflexivity. Qed.

Theorem crash_safe_thm : forall rel i s0 vs, wf i ->
  forall src f0, In src (i_srcs i) -> s0 src = Reg f0 -> verdict_sound rel i (f_bytes f0) (vs src) ->
  forall k, safe rel src (f_bytes f0) (dst_of i src) (run (firstn k (fio_ops i s0 vs)) s0).
Proof.
  intros rel i s0 vs Hwf src f0 Hin Hs Hsound k.
  pose proof (all_states_safe rel i s0 vs Hwf src f0 Hin Hs Hsound) as H.
  apply (all_pref_firstn _ _ _ _ k) in H. apply H.
Qed.

Theorem sigint_safe_thm : forall rel i s0 vs, wf i ->
  forall src f0, In src (i_srcs i) -> s0 src = Reg f0 -> verdict_sound rel i (f_bytes f0) (vs src) ->
  forall k, safe rel src (f_bytes f0) (dst_of i src) (run (sigint_ops k (fio_ops i s0 vs)) s0).
Proof.
  intros rel i s0 vs Hwf src f0 Hin Hs Hsound k.
  pose proof (all_states_safe rel i s0 vs Hwf src f0 Hin Hs Hsound) as H.
  apply (all_pref_firstn _ _ _ _ k) in H. unfold sigint_ops. rewrite run_app, run_handler_ops. apply H.
Qed.

(* ------------------------------------------------------------------ no clobber *)

Lemma file_ops_refused : forall i rm s src p v f ops r,
  s p = Reg f -> ovw i = false ->
  file_ops i rm s src (DOwn p) v = (ops, r) -> Forall (fun o => modifies o = None) ops.
Proof.
  intros i rm s src p v f ops r Hs Hovw H. unfold file_ops in H.
  destruct (s src); try (inv_pair H; constructor).
  destruct (codec i (DOwn p) v) as [chunks out].
  assert (E : open_dst (ovw i) s (Some src) p true = ([], false)).
  { unfold open_dst. destruct (path_eqb src p); [reflexivity|]. rewrite Hs, Hovw. reflexivity. }
  rewrite E in H. inv_pair H. repeat constructor.
Qed.

Theorem no_clobber_thm : forall i s0 vs p f,
  i_force i = false -> i_confirm i = false -> s0 p = Reg f ->
  (~ In p (i_srcs i) \/ eff_rm i = false) ->
  all_pref (fun s h => s p = Reg f /\ unlinked h s p = Reg f) (fio_ops i s0 vs) s0 None.
Proof.
  intros i s0 vs p f Hf Hc Hs Hsrc.
  assert (Hovw : ovw i = false) by (unfold ovw; rewrite Hf, Hc; reflexivity).
  assert (Hloc : local_to (eq p) (fun s => s p = Reg f)).
  { intros s s' H H1. rewrite (H p eq_refl). exact H1. }
  unfold fio_ops. destruct (is_concat i) eqn:Ec.
  - destruct (i_out i); try (cbn [all_pref apply_op apply_h unlinked]; tauto).
    rewrite Hovw. cbn [all_pref apply_op apply_h unlinked]. tauto.
  - destruct (loop i (eff_rm i) (dsel_of i) vs (i_srcs i) s0 false) as [ops e] eqn:El.
    assert (Hsegs : forall src' d', In src' (i_srcs i) -> dsel_of i src' = Some d' ->
              forall s' ops' r', s' p = Reg f -> file_ops i (eff_rm i) s' src' d' (vs src') = (ops', r') ->
                                Forall (avoids (eq p)) ops').
    { intros src' d' Hin' Ed' s' ops' r' Hs' Ef.
      destruct (match d' with DOwn q => path_eqb q p | _ => false end) eqn:Eq.
      - destruct d' as [| |q|q]; try discriminate. apply path_eqb_eq in Eq. subst q.
        eapply Forall_impl; [|exact (file_ops_refused _ _ _ _ _ _ _ _ _ Hs' Hovw Ef)].
        intros o Ho q E. rewrite Ho in E. discriminate.
      - eapply Forall_impl; [|exact (file_ops_mod _ _ _ _ _ _ _ _ Ef)].
        intros o Ho q E X. subst q. destruct (Ho p E) as [[Eo Erm]|Ep].
        + subst o. cbn [modifies] in E. inversion E; subst src'.
          destruct Hsrc as [Hn|Hrm]; [contradiction|congruence].
        + destruct d' as [| |q|q]; cbn [dsel_path] in Ep; try discriminate.
          * exact (not_concat_not_shared i src' q Ec Ed').
          * inversion Ep; subst q. rewrite path_eqb_refl in Eq. discriminate. }
    destruct (loop_avoid_if i (eff_rm i) (dsel_of i) vs (eq p) (fun s => s p = Reg f) Hloc
                            (i_srcs i) s0 false ops e Hsegs Hs El) as [Q1 _].
    apply all_pref_app. split; [exact Q1|].
    apply all_pref_exit. apply (all_pref_end _ _ _ _ Q1).
Qed.

(* ------------------------------------------------------------------ --rm is off whenever the output cannot stand for the source *)

Ltac solve_nounlink :=
  repeat first
    [ apply Forall_app; split
    | apply Forall_cons
    | apply Forall_nil
    | apply Forall_map_write; intros; reflexivity
    | apply Forall_map_stdout; intros; reflexivity
    | reflexivity ].

Lemma open_dst_nounlink : forall ovw s osrc p m oo opened,
  open_dst ovw s osrc p m = (oo, opened) -> Forall (fun o => is_unlink_src o = false) oo.
Proof.
  intros ovw s osrc p m oo opened H. unfold open_dst in H.
  destruct (match osrc with Some sp => path_eqb sp p | None => false end); [inversion H; constructor|].
  destruct (s p); [|destruct ovw|]; inversion H; subst; solve_nounlink.
Qed.

Lemma file_ops_nounlink : forall i s src d v ops r,
  file_ops i false s src d v = (ops, r) -> Forall (fun o => is_unlink_src o = false) ops.
Proof.
  intros i s src d v ops r H. unfold file_ops in H.
  destruct (s src); try (inv_pair H; constructor).
  destruct (codec i d v) as [chunks out].
  destruct d as [| |p|p].
  - destruct out; inv_pair H; cbn [writes tail_src andb]; solve_nounlink.
  - destruct out; inv_pair H; cbn [writes tail_src andb]; solve_nounlink.
  - destruct out; inv_pair H; cbn [writes tail_src andb]; solve_nounlink.
  - destruct (open_dst (ovw i) s (Some src) p true) as [oo opened] eqn:Eo.
    pose proof (open_dst_nounlink _ _ _ _ _ _ _ Eo) as Hoo.
    destruct opened.
    + destruct out; inv_pair H; cbn [tail_src andb]; solve_nounlink; try exact Hoo;
        destruct (is_ret0 _ && v_close_ok v); solve_nounlink.
    + inv_pair H. solve_nounlink. exact Hoo.
Qed.

Lemma loop_nounlink : forall i dof vs srcs s err ops e,
  loop i false dof vs srcs s err = (ops, e) -> Forall (fun o => is_unlink_src o = false) ops.
Proof.
  intros i dof vs. induction srcs as [|src tl IH]; intros s err ops e H; cbn [loop] in H.
  - inv_pair H. constructor.
  - destruct (dof src) as [d|]; [|eapply IH; exact H].
    destruct (file_ops i false s src d (vs src)) as [ops1 r] eqn:Ef.
    pose proof (file_ops_nounlink _ _ _ _ _ _ _ Ef) as H1.
    destruct r as [| |n].
    + destruct (loop i false dof vs tl (run ops1 s) (err || is_fail FOk)) as [ops2 e2] eqn:El.
      inv_pair H. apply Forall_app. split; [exact H1|eapply IH; exact El].
    + destruct (loop i false dof vs tl (run ops1 s) (err || is_fail FFail)) as [ops2 e2] eqn:El.
      inv_pair H. apply Forall_app. split; [exact H1|eapply IH; exact El].
    + inv_pair H. exact H1.
Qed.

Lemma exit_of_nounlink : forall e, Forall (fun o => is_unlink_src o = false) (exit_of e).
Proof. intros [[|]|n]; cbn [exit_of]; solve_nounlink. Qed.

Theorem removeSrc_disabled_thm : forall i s vs,
  is_test i = true \/ out_stdout i = true \/ is_concat i = true ->
  Forall (fun o => is_unlink_src o = false) (fio_ops i s vs).
Proof.
  intros i s vs H. unfold fio_ops. destruct (is_concat i) eqn:Ec.
  - destruct (i_out i) as [| |p]; try solve_nounlink.
    destruct (ovw i); [|solve_nounlink].
    destruct (open_dst true s None p false) as [oo opened] eqn:Eo.
    destruct opened; [|destruct (i_mode i); solve_nounlink].
    destruct (loop i false (dsel_of i) vs (i_srcs i) (run oo s) false) as [ops e] eqn:El.
    apply Forall_app. split; [exact (open_dst_nounlink _ _ _ _ _ _ _ Eo)|].
    apply Forall_app. split; [exact (loop_nounlink _ _ _ _ _ _ _ _ El)|].
    destruct e; [apply Forall_cons; [reflexivity|apply exit_of_nounlink]|constructor].
  - assert (Erm : eff_rm i = false).
    { unfold eff_rm. destruct H as [H|[H|H]]; try congruence; rewrite H; cbn [negb];
        rewrite ?andb_false_r; reflexivity. }
    rewrite Erm.
    destruct (loop i false (dsel_of i) vs (i_srcs i) s false) as [ops e] eqn:El.
    apply Forall_app. split; [exact (loop_nounlink _ _ _ _ _ _ _ _ El)|apply exit_of_nounlink].
Qed.

(* ------------------------------------------------------------------ the frame loop *)

Lemma frames_loop_ret0 : forall items first,
  snd (frames_loop false items first) = Ret0 <->
  ((first = false \/ items <> []) /\ forallb is_ok_item items = true).
Proof.
  induction items as [|x tl IH]; intros first; cbn [frames_loop forallb].
  - destruct first; cbn [snd]; split.
    + discriminate.
    + intros [[X|X] _]; [discriminate|congruence].
    + intros _. split; [left; reflexivity|reflexivity].
    + reflexivity.
  - destruct x as [cs|cs|rest]; cbn [is_ok_item andb].
    + destruct (frames_loop false tl false) as [w o] eqn:E. cbn [snd].
      specialize (IH false). rewrite E in IH. cbn [snd] in IH. rewrite IH. split.
      * intros [_ X]. split; [right; discriminate|exact X].
      * intros [_ X]. split; [left; reflexivity|exact X].
    + cbn [snd]. split; [discriminate|intros [_ X]; discriminate].
    + cbn [snd]. split; [discriminate|intros [_ X]; discriminate].
Qed.

Theorem frames_loop_verdict_thm : forall items,
  (snd (frames_loop false items true) = Ret0 <-> (items <> [] /\ forallb is_ok_item items = true)) /\
  (snd (frames_loop false items true) = Ret0 \/ snd (frames_loop false items true) = Ret1).
Proof.
  intros items. split.
  - rewrite frames_loop_ret0. split.
    + intros [[X|X] Y]; [discriminate|split; assumption].
    + intros [X Y]. split; [right; exact X|exact Y].
  - assert (G : forall first, snd (frames_loop false items first) = Ret0 \/ snd (frames_loop false items first) = Ret1).
    { induction items as [|x tl IH]; intros first; cbn [frames_loop].
      - destruct first; cbn [snd]; auto.
      - destruct x; cbn [snd]; auto.
        destruct (frames_loop false tl false) as [w o] eqn:E. cbn [snd].
        specialize (IH false). rewrite E in IH. exact IH. }
    apply G.
Qed.

(* whatever the verdict, what is written starts with the payload of the leading good frames;
   on success it is exactly the payload of all frames *)
Theorem frames_loop_output_thm : forall pass items first,
  exists rest, fst (frames_loop pass items first) = ok_payload items ++ rest /\
               (forallb is_ok_item items = true -> rest = []).
Proof.
  intros pass. induction items as [|x tl IH]; intros first; cbn [frames_loop ok_payload forallb].
  - exists []. split; reflexivity.
  - destruct x as [cs|cs|r]; cbn [is_ok_item andb].
    + destruct (frames_loop pass tl false) as [w o] eqn:E. cbn [fst].
      destruct (IH false) as [rest [H1 H2]]. rewrite E in H1. cbn [fst] in H1.
      exists rest. split; [rewrite H1; rewrite app_assoc; reflexivity|exact H2].
    + exists cs. split; [reflexivity|discriminate].
    + destruct pass; cbn [fst]; eexists; (split; [reflexivity|discriminate]).
Qed.

(* ------------------------------------------------------------------ failure leaves no artefact; exit status *)

Lemma run_not_mod : forall d ops s, Forall (fun o => modifies o <> Some d) ops -> run ops s d = s d.
Proof.
  induction ops as [|o tl IH]; intros s H; [reflexivity|].
  inversion H; subst. rewrite run_cons. rewrite IH by assumption. apply apply_op_other. assumption.
Qed.

Ltac solve_notmod Hne :=
  repeat first
    [ apply Forall_app; split
    | apply Forall_cons
    | apply Forall_nil
    | (intros E; cbn [modifies] in E; first [discriminate E | inversion E; apply Hne; congruence]) ].

Lemma file_ops_outcome : forall i rm s src d v ops r,
  src <> d ->
  file_ops i rm s src (DOwn d) v = (ops, r) ->
  match r with
  | FOk => exists chunks, codec i (DOwn d) v = (chunks, Ret0) /\ v_close_ok v = true /\
                          run ops s d = Reg (mkFile (concat chunks) true)
  | FFail => run ops s d = Absent \/ Forall (fun o => modifies o = None) ops
  | FThrow n => snd (codec i (DOwn d) v) = Throw n
  end.
Proof.
  intros i rm s src d v ops r Hne H. unfold file_ops in H.
  destruct (s src); try (inv_pair H; right; constructor).
  destruct (codec i (DOwn d) v) as [chunks out] eqn:Ec.
  destruct (open_dst (ovw i) s (Some src) d true) as [oo opened] eqn:Eo.
  destruct opened.
  2:{ inv_pair H. right. rewrite (open_dst_not_opened _ _ _ _ _ _ Eo). repeat constructor. }
  assert (E1 : run (OOpenRead src :: oo ++ OReg d :: map (OWrite d) chunks) s d
               = Reg (mkFile ([] ++ concat chunks) false)).
  { rewrite run_cons. cbn [apply_op]. rewrite run_app. rewrite run_cons. cbn [apply_op].
    apply run_writes. apply (open_dst_opened _ _ _ _ _ _ _ Eo). }
  assert (Hts : forall ok, Forall (fun o => modifies o <> Some d) (tail_src rm src ok)).
  { intros ok. unfold tail_src. destruct (rm && ok); solve_notmod Hne. }
  destruct out as [| |n].
  3:{ inv_pair H. reflexivity. }
  - cbn [is_ret0 andb] in H. destruct (v_close_ok v) eqn:Ecl; inv_pair H.
    + exists chunks. split; [reflexivity|]. split; [reflexivity|].
      rewrite !run_app. rewrite (run_not_mod d (tail_src rm src true)) by apply Hts.
      revert E1. generalize (run (OOpenRead src :: oo ++ OReg d :: map (OWrite d) chunks) s). intros s1 E1.
      unfold run. cbn [fold_left apply_op]. rewrite upd_same, E1. reflexivity.
    + left. rewrite !run_app. rewrite (run_not_mod d (tail_src rm src false)) by apply Hts.
      unfold run at 1. cbn [fold_left apply_op]. apply upd_same.
  - cbn [is_ret0 andb] in H. inv_pair H.
    left. rewrite !run_app. rewrite (run_not_mod d (tail_src rm src false)) by apply Hts.
    unfold run at 1. cbn [fold_left apply_op]. apply upd_same.
Qed.

Lemma exit_code_app_exit : forall ops n, exit_code (ops ++ [OExit n]) = Some n.
Proof.
  induction ops as [|o tl IH]; intros n; cbn [app exit_code]; [reflexivity|]. rewrite IH. reflexivity.
Qed.

Lemma single_not_concat : forall i src, i_srcs i = [src] -> is_concat i = false.
Proof.
  intros i src H. unfold is_concat. rewrite H. destruct (is_test i); cbn [negb andb]; [reflexivity|].
  destruct (i_out i); reflexivity.
Qed.

(* one source with a destination file: exit status 0 comes with the complete output,
   a non-zero status with no output file from this run *)
Theorem failure_leaves_no_artefact_thm : forall i s vs src d,
  i_srcs i = [src] -> dst_of i src = Some d -> src <> d ->
  (forall n, snd (codec i (DOwn d) (vs src)) <> Throw n) ->
  let ops := fio_ops i s vs in
  (exit_code ops = Some 0 /\
   exists chunks, codec i (DOwn d) (vs src) = (chunks, Ret0) /\ run ops s d = Reg (mkFile (concat chunks) true)) \/
  (exit_code ops = Some 1 /\
   (run ops s d = Absent \/ Forall (fun o => modifies o = None) ops)).
Proof.
  intros i s vs src d Hs Hd Hne Hnt ops. subst ops.
  unfold fio_ops. rewrite (single_not_concat i src Hs). rewrite Hs. cbn [loop].
  apply dst_of_own in Hd. rewrite Hd.
  destruct (file_ops i (eff_rm i) s src (DOwn d) (vs src)) as [ops1 r] eqn:Ef.
  pose proof (file_ops_outcome _ _ _ _ _ _ _ _ Hne Ef) as Ho.
  destruct r as [| |n].
  - left. cbn [is_fail orb exit_of]. rewrite app_nil_r. split; [apply exit_code_app_exit|].
    destruct Ho as [chunks [H1 [H2 H3]]]. exists chunks. split; [exact H1|].
    rewrite run_app. unfold run at 1. cbn [fold_left apply_op]. exact H3.
  - right. cbn [is_fail orb exit_of]. rewrite app_nil_r. split; [apply exit_code_app_exit|].
    destruct Ho as [H1|H1].
    + left. rewrite run_app. unfold run at 1. cbn [fold_left apply_op]. exact H1.
    + right. apply Forall_app. split; [exact H1|repeat constructor].
  - exfalso. apply (Hnt n). exact Ho.
Qed.

(* same file as source and destination: nothing is created, removed or written *)
Theorem same_file_refused_thm : forall i rm s src v ops r,
  file_ops i rm s src (DOwn src) v = (ops, r) ->
  r = FFail /\ Forall (fun o => modifies o = None) ops.
Proof.
  intros i rm s src v ops r H. unfold file_ops in H.
  destruct (s src); try (inv_pair H; split; [reflexivity|constructor]).
  destruct (codec i (DOwn src) v) as [chunks out].
  unfold open_dst in H. rewrite path_eqb_refl in H. inv_pair H.
  split; [reflexivity|repeat constructor].
Qed.

(* ------------------------------------------------------------------ the hypotheses are satisfiable *)

Definition ex_inv : inv := mkInv Compress [[97]] OutDefault false true false.       (* zstd --rm a *)
Definition ex_fs : fs := upd (fun _ => Absent) [97] (Reg (mkFile [1] true)).
Definition ex_vs : path -> verdict := fun _ => mkVerdict [[2]] Ret0 [] true.

Example ex_wf : wf ex_inv.
Proof.
  unfold wf, ex_inv. cbn [i_srcs]. split; [|split].
  - repeat constructor. intros [].
  - intros a b d p [Ha|[]] [Hb|[]] Hd Hp. subst a b. vm_compute in Hd. inversion Hd; subst d.
    cbn [dsel_path] in Hp. inversion Hp. discriminate.
  - intros a b p [Ha|[]] [Hb|[]] Hne. subst. contradiction.
Qed.

Example ex_ops :
  fio_ops ex_inv ex_fs ex_vs =
  [OOpenRead [97]; OCreat [97; 46; 122; 115; 116] true; OReg [97; 46; 122; 115; 116];
   OWrite [97; 46; 122; 115; 116] [2]; OClr; OSetStat [97; 46; 122; 115; 116];
   OClose [97; 46; 122; 115; 116]; OUtime [97; 46; 122; 115; 116]; OCloseSrc [97]; OClr;
   OUnlinkSrc [97]; OExit 0].
Proof. vm_compute. reflexivity. Qed.

Example ex_sound : verdict_sound (fun b b0 => b = [2] /\ b0 = [1]) ex_inv [1] (ex_vs [97]).
Proof. intros d chunks H. vm_compute in H. inversion H; subst. split; reflexivity. Qed.
