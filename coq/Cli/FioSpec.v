(* C19 — vocabulary of the theorems about the CLI file protocol (definitions only). *)
From Coq Require Import NArith List Bool.
From ZV.Cli Require Import FsModel FioModel.
Import ListNotations.
Local Open Scope N_scope.

(* P holds in every intermediate state of the run (file system, SIGINT register) *)
Fixpoint all_pref (P : fs -> option path -> Prop) (ops : list op) (s : fs) (h : option path) : Prop :=
  P s h /\
  match ops with
  | [] => True
  | o :: tl => all_pref P tl (apply_op s o) (apply_h h o)
  end.

(* the key whose node (or the handler register) an operation may change *)
Definition modifies (o : op) : option path :=
  match o with
  | OCreat p _ => Some p
  | OWrite p _ => Some p
  | OClose p => Some p
  | OUnlinkDst p => Some p
  | OUnlinkSrc p => Some p
  | OReg p => Some p
  | _ => None
  end.

(* the file system after the SIGINT handler has run *)
Definition unlinked (h : option path) (s : fs) : fs :=
  match h with
  | Some p => upd s p Absent
  | None => s
  end.

(* "the data of a source (original bytes b0, stored under key org) is recoverable in state s":
   org still holds b0, or the destination exists, is closed, and holds bytes
   related to b0 by rel (rel = "decodes to" when compressing, "is the decoding of" when decompressing) *)
Definition safe (rel : data -> data -> Prop) (org : path) (b0 : data) (od : option path) (s : fs) : Prop :=
  (exists f, s org = Reg f /\ f_bytes f = b0) \/
  (exists d b, od = Some d /\ s d = Reg (mkFile b true) /\ rel b b0).

(* the codec is right when it reports success on this source *)
Definition verdict_sound (rel : data -> data -> Prop) (i : inv) (b0 : data) (v : verdict) : Prop :=
  forall d chunks, codec i (DOwn d) v = (chunks, Ret0) -> rel (concat chunks) b0.

Definition dsel_path (d : dsel) : option path :=
  match d with
  | DShared p => Some p
  | DOwn p => Some p
  | _ => None
  end.

(* well-formed list of names in file system s: names pairwise distinct, no destination is also a source,
   destinations of distinct sources are distinct, no destination name is a symbolic link, and a source given
   through a symbolic link points at a key that is neither a source nor a destination *)
Definition wf (i : inv) (names : list path) (s : fs) : Prop :=
  NoDup names /\
  (forall a b d p, In a names -> In b names -> dsel_of i names b = Some d -> dsel_path d = Some p -> a <> p) /\
  (forall a b p, In a names -> In b names -> a <> b ->
                 dst_of i names a = Some p -> dst_of i names b <> Some p) /\
  (forall b d p, In b names -> dsel_of i names b = Some d -> dsel_path d = Some p -> is_lnk (s p) = false) /\
  (forall a t, In a names -> s a = Lnk t ->
               ~ In t names /\
               forall b d p, In b names -> dsel_of i names b = Some d -> dsel_path d = Some p -> t <> p).

(* wf without "destinations of distinct sources are distinct": two sources may share one destination name
   (--output-dir-flat with equal file names in different directories) *)
Definition wf_shared_dst (i : inv) (names : list path) (s : fs) : Prop :=
  NoDup names /\
  (forall a b d p, In a names -> In b names -> dsel_of i names b = Some d -> dsel_path d = Some p -> a <> p) /\
  (forall b d p, In b names -> dsel_of i names b = Some d -> dsel_path d = Some p -> is_lnk (s p) = false) /\
  (forall a t, In a names -> s a = Lnk t ->
               ~ In t names /\
               forall b d p, In b names -> dsel_of i names b = Some d -> dsel_path d = Some p -> t <> p).

Definition is_unlink_src (o : op) : bool := match o with OUnlinkSrc _ => true | _ => false end.

(* exit status of a completed run: the argument of the last OExit *)
Fixpoint exit_code (ops : list op) : option N :=
  match ops with
  | [] => None
  | o :: tl => match exit_code tl with
               | Some n => Some n
               | None => match o with OExit n => Some n | _ => None end
               end
  end.

Definition is_ok_item (x : fitem) : bool := match x with FrOk _ => true | _ => false end.

Fixpoint ok_payload (items : list fitem) : list data :=
  match items with
  | FrOk cs :: tl => cs ++ ok_payload tl
  | _ => []
  end.

(* no injected fault on this file *)
Definition no_fault (v : verdict) : Prop :=
  v_wfail v = None /\ v_open_ok v = true /\ v_ovw_unlink_ok v = true /\ v_creat_ok v = true /\
  v_close_ok v = true /\ v_art_unlink_ok v = true /\ v_close_src_ok v = true /\ v_rm_ok v = true.
