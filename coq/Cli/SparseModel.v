(* C19 — model of the sparse writer of programs/fileio_asyncio.c
   (AIO_fwriteSparse / AIO_fwriteSparseEnd).  Model only, no proofs.

   A destination FILE* is modelled as (data, pos): the bytes materialised so far
   and the current offset; pos may be beyond the end of data after a seek (a hole).
   A write at pos first materialises the hole as zero bytes (POSIX semantics of
   writing beyond end of file), an empty write does nothing.

   The C code works on size_t words (8 bytes) in segments of 32 KB; `storedSkips`
   is an `unsigned` (arithmetic mod 2^32, written explicitly). *)
From Coq Require Import NArith List Bool.
Import ListNotations.
Local Open Scope N_scope.

Definition M32 : N := 4294967296.
Definition GB1 : N := 1073741824.
Definition SEGB : nat := N.to_nat 32768.   (* segmentSizeT * sizeof(size_t); never unfolded to unary *)
Definition WORD : nat := 8.            (* sizeof(size_t) *)

Inductive sop :=
| SSeek (n : N)                        (* LONG_SEEK(file, n, SEEK_CUR) *)
| SWrite (bs : list N).                (* fwrite(bs) *)

Record sfile := mkS { s_data : list N; s_pos : N }.

Definition zeros (n : N) : list N := repeat 0 (N.to_nat n).

Definition len (l : list N) : N := N.of_nat (length l).

Definition s_apply (f : sfile) (o : sop) : sfile :=
  match o with
  | SSeek n => mkS (s_data f) (s_pos f + n)
  | SWrite [] => f
  | SWrite bs => mkS (s_data f ++ zeros (s_pos f - len (s_data f)) ++ bs) (s_pos f + len bs)
  end.

Definition s_run (ops : list sop) (f : sfile) : sfile := fold_left s_apply ops f.

Fixpoint all_zero (l : list N) : bool :=
  match l with
  | [] => true
  | x :: tl => (x =? 0) && all_zero tl
  end.

(* number of bytes in the leading all-zero words of a segment whose length is a multiple of 8 *)
Fixpoint lead0_words (fuel : nat) (seg : list N) : nat :=
  match fuel with
  | O => O
  | S f => match seg with
           | [] => O
           | _ => if all_zero (firstn WORD seg)
                  then (length (firstn WORD seg) + lead0_words f (skipn WORD seg))%nat   (* = WORD: segments are word aligned *)
                  else O
           end
  end.

Fixpoint lead0_bytes (l : list N) : nat :=
  match l with
  | x :: tl => if x =? 0 then S (lead0_bytes tl) else O
  | [] => O
  end.

(* the `while (ptrT < bufferTEnd)` loop over 32 KB segments *)
Fixpoint seg_loop (sz : nat) (fuel : nat) (body : list N) (skips : N) : list sop * N :=
  match fuel with
  | O => ([], skips)
  | S f =>
      match body with
      | [] => ([], skips)
      | _ =>
          let seg := firstn sz body in
          let rest := skipn sz body in
          let nb0 := lead0_words (length seg) seg in
          let skips1 := (skips + N.of_nat nb0) mod M32 in
          if Nat.eqb nb0 (length seg) then seg_loop sz f rest skips1
          else let '(ops, sk) := seg_loop sz f rest 0 in
               (SSeek skips1 :: SWrite (skipn nb0 seg) :: ops, sk)
      end
  end.

(* the tail of fewer than 8 bytes *)
Definition rest_part (r : list N) (skips : N) : list sop * N :=
  match r with
  | [] => ([], skips)
  | _ => let k := lead0_bytes r in
         let skips1 := (skips + N.of_nat k) mod M32 in
         if Nat.eqb k (length r) then ([], skips1)
         else ([SSeek skips1; SWrite (skipn k r)], 0)
  end.

(* AIO_fwriteSparse with sparseFileSupport on: one call = one write job buffer *)
Definition fwrite_sparse (chunk : list N) (skips : N) : list sop * N :=
  let '(o0, sk0) := if GB1 <? skips then ([SSeek GB1], skips - GB1) else ([], skips) in
  let nbody := Nat.mul (Nat.div (length chunk) WORD) WORD in
  let '(o1, sk1) := seg_loop SEGB (length chunk) (firstn nbody chunk) sk0 in
  let '(o2, sk2) := rest_part (skipn nbody chunk) sk1 in
  (o0 ++ o1 ++ o2, sk2).

(* AIO_fwriteSparseEnd *)
Definition fwrite_sparse_end (skips : N) : list sop :=
  if 0 <? skips then [SSeek (skips - 1); SWrite [0]] else [].

(* a whole file: the chunks handed to the write pool, then the End call *)
Fixpoint sparse_ops (chunks : list (list N)) (skips : N) : list sop :=
  match chunks with
  | [] => fwrite_sparse_end skips
  | c :: tl => let '(o, sk) := fwrite_sparse c skips in o ++ sparse_ops tl sk
  end.

(* AIO_fwriteSparse with sparseFileSupport off *)
Definition plain_ops (chunks : list (list N)) : list sop := map SWrite chunks.

(* several frames into one file: AIO_WritePool_sparseWriteEnd runs at the end of every frame *)
Fixpoint sparse_frames_ops (frames : list (list (list N))) : list sop :=
  match frames with
  | [] => []
  | fr :: tl => sparse_ops fr 0 ++ sparse_frames_ops tl
  end.

Definition empty_file : sfile := mkS [] 0.

Definition sparse_result (chunks : list (list N)) : list N := s_data (s_run (sparse_ops chunks 0) empty_file).
Definition plain_result (chunks : list (list N)) : list N := s_data (s_run (plain_ops chunks) empty_file).

(* ---- which writer is used: prefs->sparseFileSupport (0: never, 1: automatic, 2: forced) ----
   zstdcli.c: default ZSTD_SPARSE_DEFAULT (1), --sparse => 2, --no-sparse => 0, compression => 0 (whatever was asked);
   FIO_openDstFile, for every destination it opens: stdout turns 1 into 0; for a file, 1 stays 1 only if the
   destination name denoted a regular file before it was opened (isDstRegFile, taken before the -f unlink), else 0;
   0 and 2 are never changed (so "automatic" is lost for the rest of the run once a destination did not pre-exist). *)
Inductive sparse_arg := SpDefault | SpForce | SpNever.

Definition sparse_init (compress : bool) (a : sparse_arg) : N :=
  if compress then 0 else match a with SpDefault => 1 | SpForce => 2 | SpNever => 0 end.

Definition sparse_open (v : N) (to_stdout dst_reg : bool) : N :=
  if v =? 1 then (if to_stdout then 0 else if dst_reg then 1 else 0) else v.

(* the seek / write calls made for a whole destination under setting v *)
Definition dst_writer_ops (v : N) (frames : list (list (list N))) : list sop :=
  if v =? 0 then concat (map plain_ops frames) else sparse_frames_ops frames.
