(* C14 - memory budgets hold: estimates suffice, static contexts, decoder window limit.
   Only statements + [exact lemma]; models: Mem/Cwksp.v (zstd_cwksp.h), Mem/Estimate.v (zstd_compress.c / zstd_ldm.c
   sizing: estimate side and reservation side), Mem/LevelDefs.v (source-size classes, needs), Mem/DBuffers.v
   (zstd_decompress.c buffer sizing); proofs: Mem/*Proofs.v, Mem/C14Final.v.
   [rz] is the ASAN redzone (0 in production builds, 128 under ASAN poisoning). *)
From Coq Require Import NArith ZArith List Bool.
From ZV.Gen Require Import Gen_C14.
From ZV.Mem Require Import Cwksp CwkspProofs Estimate EstimateProofs LevelDefs LevelProofs DBuffers DBuffersProofs C14Final
                          History HistoryProofs HistoryLevels CParamsProofs NegLevelProofs
                          DOwner DOwnerProofs CDictLevel C14Round2 MtOwner MtOwnerProofs COwner COwnerProofs.
Import ListNotations.
Local Open Scope N_scope.

(* ---------- the workspace allocator ---------- *)

(* static_never_grows: bump-pointer safety with NO budget assumption.  From a freshly initialised workspace
   [start, start+size), whatever sequence of reservations / clears is executed and whatever the sizes, the
   bounds never move and every non-NULL pointer handed out designates bytes inside the workspace. *)
Theorem static_never_grows :
  forall rz start size static ops,
    let w0 := init start size static in
    let '(w', log) := run rz w0 ops in
    (ws_start w' = start /\ ws_end w' = start + size) /\
    Forall (fun e : entry => fst e = None \/
              exists p, fst e = Some p /\ start <= p /\ p + snd e <= start + size) log.
Proof. exact static_never_grows_l. Qed.
Print Assumptions static_never_grows.

(* on a static context the size gate of ZSTD_resetCCtx_internal is an error, never a resize *)
Theorem static_too_small_is_error :
  forall rz w cp ldm row pledged ext mbs buffered inb outb ri mc,
    is_static w = true ->
    let ldmA := if ldm_enabled ldm then ldm_adjustParameters ldm cp else ldm in
    cwksp_sizeof w < estimate_internal rz cp ldmA true row (reset_buffInSize cp pledged mbs buffered inb)
                                       (reset_buffOutSize cp pledged mbs buffered outb) pledged ext mbs ->
    resetCCtx_static rz w cp ldm row pledged ext mbs buffered inb outb ri mc = ResetMemError.
Proof. exact static_too_small_is_error_l. Qed.
Print Assumptions static_too_small_is_error.

Theorem static_never_resizes :
  forall rz w cp ldm row pledged ext mbs buffered inb outb ri mc n,
    is_static w = true ->
    resetCCtx_static rz w cp ldm row pledged ext mbs buffered inb outb ri mc <> ResetResize n.
Proof. exact static_never_resizes_l. Qed.
Print Assumptions static_never_resizes.

(* the allocator's fit rule: a well-ordered reservation list whose summed cost leaves 126 spare bytes
   (two alignment pads of at most 63 bytes) never fails and never returns NULL for a non-empty request *)
Theorem cwksp_fit_126 :
  forall rz start size static ops,
    wf_ops true ops = true ->
    ops_cost rz ops + 126 <= size ->
    let w0 := init start size static in
    let '(w', log) := run rz w0 ops in
    allocFailed w' = false /\ Forall (entry_ok w0) log.
Proof. exact cwksp_fit_126_l. Qed.
Print Assumptions cwksp_fit_126.

(* ---------- the estimate covers the reservation list ---------- *)

(* estimate_covers_reservation: for ALL cParams (no bound needed), LDM user values 0-or-in-bounds, row mode, pledged
   size, sequence-producer flag, resolved maxBlockSize, buffer policy, base address (8-aligned) and redzone:
   a static context whose block is at least ZSTD_estimateCCtxSize_usingCCtxParams_internal(applied params) is
   accepted by ZSTD_initStaticCCtx, passes the size gate, and every reservation made by ZSTD_resetCCtx_internal /
   ZSTD_reset_matchState succeeds (reserve_failed stays 0, no NULL for a non-empty request) inside the block. *)
Theorem estimate_covers_reservation :
  forall rz start size cp ldm row pledged ext mbs buffered inb outb,
    start mod 8 = 0 -> mbs <> 0 ->
    (ldm_enabled ldm = true -> ldm_user_ok ldm = true) ->
    let ldmA := if ldm_enabled ldm then ldm_adjustParameters ldm cp else ldm in
    estimate_internal rz cp ldmA true row (reset_buffInSize cp pledged mbs buffered inb)
                      (reset_buffOutSize cp pledged mbs buffered outb) pledged ext mbs <= size ->
    exists w log,
      static_session rz start size (cp, ldm, row, mbs) pledged ext buffered inb outb = SessDone w log /\
      allocFailed w = false /\ ws_start w = start /\ ws_end w = start + size /\
      Forall (entry_in start size) log.
Proof. exact estimate_covers_reservation_l. Qed.
Print Assumptions estimate_covers_reservation.

(* heap contexts: the workspace malloc'ed by the resize branch (exactly neededSpace bytes) holds everything *)
Theorem heap_workspace_suffices :
  forall rz start cp ldm row bin bout pledged ext mbs ri mc,
    mbs <> 0 -> ldm_sized ldm ->
    let needed := estimate_internal rz cp ldm false row bin bout pledged ext mbs in
    let w0 := init start needed false in
    let '(w', log) := run rz w0 (heap_objects ++ resetCCtx_ops cp ldm row bin bout pledged ext mbs ri mc) in
    allocFailed w' = false /\ Forall (entry_in start needed) log.
Proof. exact heap_workspace_suffices_l. Qed.
Print Assumptions heap_workspace_suffices.

(* CDict: static (estimate) and heap (createCDict workspace, with or without dedicated dict search) *)
Theorem static_cdict_covers :
  forall rz start size cp dictSize byRef,
    start mod 8 = 0 ->
    estimateCDictSize_advanced rz dictSize cp byRef <= size ->
    exists w log, initStaticCDict rz start size cp dictSize byRef = InitOk w log /\
                  allocFailed w = false /\ Forall (entry_in start size) log.
Proof. exact static_cdict_covers_l. Qed.
Print Assumptions static_cdict_covers.

Theorem static_cdict_too_small :
  forall rz start size cp dictSize byRef,
    size < estimateCDictSize_advanced rz dictSize cp byRef ->
    initStaticCDict rz start size cp dictSize byRef = InitNull.
Proof. exact static_cdict_too_small_l. Qed.
Print Assumptions static_cdict_too_small.

Theorem heap_cdict_suffices :
  forall rz start cp row dictSize byRef dds,
    let sz := createCDict_workspaceSize rz cp row dictSize byRef dds in
    let w0 := init start sz false in
    let '(w', log) := run rz w0 (cdict_ops cp row dictSize byRef dds) in
    allocFailed w' = false /\ Forall (entry_in start sz) log.
Proof. exact heap_cdict_suffices_l. Qed.
Print Assumptions heap_cdict_suffices.

(* ---------- levels: estimate_monotone_level ---------- *)
(* finite sweep (22 rows x 27 source-size classes, [vm_compute]) lifted to every level pair and EVERY source size:
   level_covered l L := 0 <= l <= L /\ (l = 0 -> 3 <= L)   (level 0 is an alias of the default level 3).
   Negative levels: theorems negative_levels_* below. *)

Theorem sweep_production_build : sweep_oneshot 0 = true /\ sweep_stream 0 = true.
Proof. exact (conj sweep_oneshot_0 sweep_stream_0). Qed.
Print Assumptions sweep_production_build.

Theorem sweep_asan_build : sweep_oneshot 128 = true /\ sweep_stream 128 = true.
Proof. exact (conj sweep_oneshot_128 sweep_stream_128). Qed.
Print Assumptions sweep_asan_build.

Theorem estimate_monotone_level :
  forall l L s, level_covered l L -> s <= UNKNOWN ->
    need_simple 0 l s <= estimateCCtxSize 0 L /\ need_compress2 0 l s <= estimateCCtxSize 0 L /\
    need_stream 0 l s <= estimateCStreamSize 0 L.
Proof. exact estimate_monotone_level_l. Qed.
Print Assumptions estimate_monotone_level.

(* end-to-end: ZSTD_initStaticCCtx(ZSTD_estimateCCtxSize(L)) + ZSTD_compressCCtx at level l, any source size *)
Theorem levels_static_oneshot_ok :
  forall rz start size l L s,
    sweep_oneshot rz = true ->
    level_covered l L -> s <= UNKNOWN -> start mod 8 = 0 ->
    estimateCCtxSize rz L <= size ->
    exists w log, static_simple_session rz start size l s = SessDone w log /\
                  allocFailed w = false /\ ws_start w = start /\ ws_end w = start + size /\
                  Forall (entry_in start size) log.
Proof. exact levels_static_oneshot_ok_l. Qed.
Print Assumptions levels_static_oneshot_ok.

Theorem levels_static_compress2_ok :
  forall rz start size l L s,
    sweep_oneshot rz = true ->
    level_covered l L -> s <= UNKNOWN -> start mod 8 = 0 ->
    estimateCCtxSize rz L <= size ->
    exists w log, static_stream2_session rz start size (level_pp l) s true = SessDone w log /\
                  allocFailed w = false /\ ws_start w = start /\ ws_end w = start + size /\
                  Forall (entry_in start size) log.
Proof. exact levels_static_compress2_ok_l. Qed.
Print Assumptions levels_static_compress2_ok.

Theorem levels_static_stream_ok :
  forall rz start size l L s,
    sweep_stream rz = true ->
    level_covered l L -> s <= UNKNOWN -> start mod 8 = 0 ->
    estimateCStreamSize rz L <= size ->
    exists w log, static_stream2_session rz start size (level_pp l) s false = SessDone w log /\
                  allocFailed w = false /\ ws_start w = start /\ ws_end w = start + size /\
                  Forall (entry_in start size) log.
Proof. exact levels_static_stream_ok_l. Qed.
Print Assumptions levels_static_stream_ok.

(* negative ("fast") levels: any l < 0 uses table row 0 with another targetLength, which no sizing function reads;
   row 0 is swept against the estimate of level 1, so every L >= 1 covers every negative level at every source size *)
Theorem sweep_negative_levels : sweep_neg 0 = true /\ sweep_neg 128 = true.
Proof. exact (conj sweep_neg_0 sweep_neg_128). Qed.
Print Assumptions sweep_negative_levels.

Theorem negative_levels_covered :
  forall rz l L s, sweep_neg rz = true -> (l < 0)%Z -> (1 <= L)%Z -> s <= UNKNOWN ->
    need_simple rz l s <= estimateCCtxSize rz L /\ need_compress2 rz l s <= estimateCCtxSize rz L /\
    need_stream rz l s <= estimateCStreamSize rz L.
Proof. exact neg_levels_covered_l. Qed.
Print Assumptions negative_levels_covered.

Theorem negative_levels_static_oneshot_ok :
  forall rz start size l L s,
    sweep_neg rz = true -> (l < 0)%Z -> (1 <= L)%Z -> s <= UNKNOWN -> start mod 8 = 0 ->
    estimateCCtxSize rz L <= size ->
    exists w log, static_simple_session rz start size l s = SessDone w log /\
                  allocFailed w = false /\ ws_start w = start /\ ws_end w = start + size /\
                  Forall (entry_in start size) log.
Proof. exact neg_levels_static_oneshot_ok_l. Qed.
Print Assumptions negative_levels_static_oneshot_ok.

(* ---------- context reuse: histories of resets on ONE static context ---------- *)

(* static_history_served_iff_fits: after ZSTD_initStaticCCtx, for EVERY sequence of reset requests (any parameters the
   library can issue, any order, served and refused ones interleaved): a request is refused (memory_allocation) exactly
   when its neededSpace exceeds the block, and is otherwise served completely inside the block - no reservation fails,
   ZSTD_cwksp_used <= block size - whatever was executed before.  The workspaceOversizedDuration counter of a static
   context stays 0, so the "wasteful workspace" branch of the size gate never turns into an error. *)
Theorem static_history_served_iff_fits :
  forall rz start size reqs l0 outs,
    static_history rz start size reqs = Some (l0, outs) ->
    Forall req_ok reqs ->
    Forall2 (served_iff_fits rz start size) reqs outs.
Proof. exact static_history_served_iff_fits_l. Qed.
Print Assumptions static_history_served_iff_fits.

Theorem static_history_never_resizes :
  forall rz start size reqs l0 outs n,
    static_history rz start size reqs = Some (l0, outs) -> Forall req_ok reqs -> ~ In (ResetResize n) outs.
Proof. exact static_history_never_resizes_l. Qed.
Print Assumptions static_history_never_resizes.

(* a static context of ZSTD_estimateCCtxSize(L) serves ANY history of ZSTD_compressCCtx calls at covered levels
   l <= L and any source sizes *)
Theorem levels_static_history_ok :
  forall rz start size L p hops l0 outs cxf,
    sweep_oneshot rz = true ->
    Forall (hop_level_ok L) hops ->
    estimateCCtxSize rz L <= size ->
    static_history_hops rz start size p hops = Some (l0, outs, cxf) ->
    length outs = length hops /\ Forall (served_ok start size) outs.
Proof. exact levels_static_history_ok_l. Qed.
Print Assumptions levels_static_history_ok.

(* ---------- estimate*_usingCParams(c) + exactly c ---------- *)
(* explicit_cp c: the six memory-relevant cParams are set (non-zero); level and targetLength are arbitrary.
   A static context of ZSTD_estimateCCtxSize_usingCParams(c) completes the reset of ZSTD_compress2 with exactly c for
   EVERY source size (ZSTD_adjustCParams_internal only shrinks windowLog / chainLog / hashLog, the need is monotone in
   them, in the auto-enabled LDM tables and in the pledged size, and the estimator takes the larger row mode). *)
Theorem cparams_static_compress2_ok :
  forall rz start size lvl cp inb outb s,
    explicit_cp cp -> s <= UNKNOWN -> start mod 8 = 0 ->
    estimateCCtxSize_usingCParams rz cp <= size ->
    exists w log, static_stream2_session rz start size (cparams_pp lvl cp inb outb) s true = SessDone w log /\
                  allocFailed w = false /\ ws_start w = start /\ ws_end w = start + size /\
                  Forall (entry_in start size) log.
Proof. exact cparams_static_compress2_ok_l. Qed.
Print Assumptions cparams_static_compress2_ok.

(* same for ZSTD_estimateCStreamSize_usingCParams(c) + ZSTD_compressStream2 with exactly c, any buffer modes *)
Theorem cparams_static_stream_ok :
  forall rz start size lvl cp inb outb s,
    explicit_cp cp -> s <= UNKNOWN -> start mod 8 = 0 ->
    estimateCStreamSize_usingCParams rz cp <= size ->
    exists w log, static_stream2_session rz start size (cparams_pp lvl cp inb outb) s false = SessDone w log /\
                  allocFailed w = false /\ ws_start w = start /\ ws_end w = start + size /\
                  Forall (entry_in start size) log.
Proof. exact cparams_static_stream_ok_l. Qed.
Print Assumptions cparams_static_stream_ok.

(* the monotonicity behind it: the need never grows when a log parameter, the LDM table logs, a buffer or the pledged
   size shrinks *)
Theorem estimate_internal_monotone :
  forall rz a b la lb st row bia bib boa bob pa pb ext mbs,
    cp_le a b -> ldm_le la lb -> bia <= bib -> boa <= bob -> pa <= pb ->
    estimate_internal rz a la st row bia boa pa ext mbs <= estimate_internal rz b lb st row bib bob pb ext mbs.
Proof. exact estimate_internal_mono. Qed.
Print Assumptions estimate_internal_monotone.

(* ---------- CCtx_params estimators ---------- *)
(* the estimators resolve row mode and LDM (enable + adjust) before sizing: their value IS the need of a reset whose
   source size is unknown (tier-consistent case) ... *)
Theorem ccparams_estimate_is_need :
  forall rz p, p_nbWorkers p = 0 ->
    estimateCCtxSize_usingCCtxParams rz p
    = Some (session_need rz (stream2_params p UNKNOWN) UNKNOWN (p_extSeq p) true false false).
Proof. exact ccparams_estimate_is_need_unknown. Qed.
Print Assumptions ccparams_estimate_is_need.

Theorem cstream_ccparams_estimate_is_need :
  forall rz p, p_nbWorkers p = 0 ->
    wlog (getCParamsFromCCtxParams p UNKNOWN 0 CpmNoAttachDict) <= 63 ->
    estimateCStreamSize_usingCCtxParams rz p
    = Some (session_need rz (stream2_params p UNKNOWN) UNKNOWN (p_extSeq p) true (p_inBuffered p) (p_outBuffered p)).
Proof. exact cstream_estimate_is_need_unknown. Qed.
Print Assumptions cstream_ccparams_estimate_is_need.

Theorem ccparams_static_unknown_size_ok :
  forall rz start size p e,
    p_nbWorkers p = 0 -> start mod 8 = 0 ->
    (ldm_enabled (ldm_with_enable (p_ldm p)
        (resolveEnableLdm (ldm_enable (p_ldm p)) (getCParamsFromCCtxParams p UNKNOWN 0 CpmNoAttachDict))) = true ->
     ldm_user_ok (p_ldm p) = true) ->
    estimateCCtxSize_usingCCtxParams rz p = Some e -> e <= size ->
    exists w log, static_stream2_session rz start size p UNKNOWN true = SessDone w log /\
                  allocFailed w = false /\ ws_start w = start /\ ws_end w = start + size /\
                  Forall (entry_in start size) log.
Proof. exact ccparams_static_unknown_size_ok_l. Qed.
Print Assumptions ccparams_static_unknown_size_ok.

(* ... and the cross-tier statement is FALSE on the current tree (known finding C14-ccparams-level-tier) *)
Theorem ccparams_level_tier_refuted :
  exists e, estimateCCtxSize_usingCCtxParams 0 tier_witness_pp = Some e /\
            e < session_need 0 (stream2_params tier_witness_pp 16384) 16384 false true false false.
Proof. exact ccparams_level_tier_refuted_l. Qed.
Print Assumptions ccparams_level_tier_refuted.

(* ---------- streaming decoder: dstream_budget ---------- *)

Theorem dstream_window_gate :
  forall st w fcs,
    (maxWindowSize st < clampedWindow w <-> dstream_load_header st w fcs = DsErrWindow).
Proof. exact dstream_window_gate_l. Qed.
Print Assumptions dstream_window_gate.

Theorem dstream_budget :
  forall st w fcs st' al,
    maxWindowSize st < 2 ^ 62 ->
    dstream_load_header st w fcs = DsOk st' al ->
    needIn st w <= inBuffSize st' /\ needOut st w fcs <= outBuffSize st' /\
    needIn st w + needOut st w fcs <= dbudget (clampedWindow w) /\
    dbudget (clampedWindow w) <= dbudget (maxWindowSize st) /\
    (forall n, al = Some n -> n = needIn st w + needOut st w fcs) /\
    (bufs st <= dbudget (maxWindowSize st) -> bufs st' <= dbudget (maxWindowSize st')) /\
    (staticSize st = 0 -> live st = bufs st -> live st' = bufs st').
Proof. exact dstream_budget_l. Qed.
Print Assumptions dstream_budget.

Theorem dstream_static_fits :
  forall st w fcs W0,
    W0 < 2 ^ 62 -> clampedWindow w <= W0 ->
    staticSize st = estimateDStreamSize W0 ->
    dstream_load_header st w fcs <> DsErrMem.
Proof. exact dstream_static_fits_l. Qed.
Print Assumptions dstream_static_fits.

Theorem dstream_static_iff :
  forall st w fcs,
    staticSize st <> 0 -> clampedWindow w <= maxWindowSize st ->
    (dstream_load_header st w fcs = DsErrMem ->
       staticSize st - sizeof_ZSTD_DCtx < needIn st w + needOut st w fcs) /\
    (needIn st w + needOut st w fcs <= staticSize st - sizeof_ZSTD_DCtx ->
       exists st', dstream_load_header st w fcs = DsOk st' None).
Proof. exact dstream_static_iff_l. Qed.
Print Assumptions dstream_static_iff.

Theorem dstream_history_budget :
  forall frames st,
    maxWindowSize st < 2 ^ 62 ->
    bufs st <= dbudget (maxWindowSize st) ->
    let st' := dstream_history st frames in
    bufs st' <= dbudget (maxWindowSize st) /\ maxWindowSize st' = maxWindowSize st /\
    (staticSize st = 0 -> live st = bufs st -> sizeof_DCtx_model st' = sizeof_ZSTD_DCtx + live st').
Proof. exact dstream_history_budget_l. Qed.
Print Assumptions dstream_history_budget.

(* ====================================================================================================== *)
(* round 2 *)

(* ---------- what a DCtx owns, what ZSTD_sizeof_DCtx reports (models: Mem/DOwner.v) ---------- *)

(* T-tie of the sizeof expression: the terms the CURRENT ZSTD_sizeof_DCtx adds for a multi-DDict set of 100 slots, a
   local DDict of 1000 copied bytes / by reference, buffers of 7 + 9 bytes (probed by harness/c14_dump.c on a fake
   context, regenerated on every run) are the terms of [sizeof_DCtx_full] *)
Theorem sizeof_dctx_terms_probed :
  c_probe_sizeof_dctx_base = sizeof_ZSTD_DCtx /\
  c_probe_sizeof_dctx_set100 = sizeof_ZSTD_DDictHashSet + 100 * sizeof_ptr /\
  c_probe_sizeof_dctx_local1000 = sizeof_ZSTD_DDict + 1000 /\
  c_probe_sizeof_dctx_localref = sizeof_ZSTD_DDict /\
  c_probe_sizeof_dctx_buf79 = 7 + 9.
Proof. exact gen_sizeof_dctx_probe. Qed.
Print Assumptions sizeof_dctx_terms_probed.

(* dctx_sizeof_exact: for EVERY history of operations on a heap DCtx - ZSTD_d_refMultipleDDicts on / off,
   ZSTD_DCtx_refDDict with any dictIDs (replacement of an ID, growth of the table by the load-factor rule),
   ZSTD_DCtx_refDDict(NULL), ZSTD_DCtx_loadDictionary_advanced by copy / by reference of any size, frames of any
   window / content size through ZSTD_decompressStream (incl. rejected ones and the oversize-shrink reallocation),
   ZSTD_DCtx_reset(session_and_parameters), ZSTD_copyDCtx from another context - the bytes outstanding at the
   allocator (context included) are EXACTLY what ZSTD_sizeof_DCtx reports.  In particular it never under-reports. *)
Theorem dctx_sizeof_exact :
  forall ops d' outs,
    down_run (down0 0) ops = (d', outs) ->
    live_after sizeof_ZSTD_DCtx (all_events outs) = sizeof_DCtx_full d'.
Proof. exact dctx_sizeof_exact_l. Qed.
Print Assumptions dctx_sizeof_exact.

(* the expression in use before fix 4686148 under-reports by the whole hash set as soon as one exists *)
Theorem dctx_sizeof_old_underreports :
  forall ops d' outs h,
    down_run (down0 0) ops = (d', outs) -> do_set d' = Some h ->
    sizeof_DCtx_old d' + hs_bytes h = live_after sizeof_ZSTD_DCtx (all_events outs) /\ 0 < hs_bytes h.
Proof. exact dctx_sizeof_old_underreports_l. Qed.
Print Assumptions dctx_sizeof_old_underreports.

(* ZSTD_freeDCtx after any history leaves nothing outstanding *)
Theorem dctx_free_releases_all :
  forall ops d' outs,
    down_run (down0 0) ops = (d', outs) ->
    live_after sizeof_ZSTD_DCtx (all_events outs ++ free_events d') = 0.
Proof. exact dctx_free_releases_all_l. Qed.
Print Assumptions dctx_free_releases_all.

(* static_dctx_never_allocates: a STATIC DCtx never performs an allocator event (no malloc, no free), whatever is asked
   of it, in any order: internal dictionary creation (refused: fix 11c6d2b), the multi-DDict mode set directly (refused)
   or smuggled in by ZSTD_copyDCtx from a heap context (the copy keeps the destination's ownership fields: fix 15cfcd6;
   ZSTD_DCtx_refDDict refuses at the allocation: fix c6e8f36), frames of any size, resets.  It never owns a local
   dictionary or a hash set. *)
Theorem static_dctx_never_allocates :
  forall ops staticSz d' outs,
    staticSz <> 0 ->
    down_run (down0 staticSz) ops = (d', outs) ->
    all_events outs = [] /\ do_local d' = None /\ do_set d' = None.
Proof. exact static_dctx_never_allocates_l. Qed.
Print Assumptions static_dctx_never_allocates.

(* ---------- ZSTD_estimateDStreamSize_fromFrame ---------- *)

(* a static DStream of ZSTD_estimateDStreamSize_fromFrame(frame) bytes loads the header of THAT frame without
   memory_allocation - also single-segment frames smaller than the 1 KiB minimum window (the decoder clamps the window
   up; the estimate was made from the raw content size), any ZSTD_d_maxBlockSize, buffered or stable output *)
Theorem dstream_fromframe_fits :
  forall st ss wl fcs w est,
    frame_windowSize ss wl fcs = Some w ->
    estimateDStreamSize_fromFrame ss wl fcs = Some est ->
    staticSize st = est ->
    dstream_load_header st w fcs <> DsErrMem.
Proof. exact dstream_fromframe_fits_l. Qed.
Print Assumptions dstream_fromframe_fits.

(* ---------- static CDict from a compression level: the recipe of zstd.h is refuted ---------- *)

(* known finding C14-cdict-level-estimate-vs-getcparams, closed witness: dictionary of 1000 bytes, level 3.
   ZSTD_estimateCDictSize(1000, 3) is smaller than what ZSTD_initStaticCDict needs for ZSTD_getCParams(3, 0, 1000), the
   block is refused; with the source-size hint 513 (the size the estimate silently assumes) the same recipe works *)
Theorem cdict_level_recipe_refuted :
  estimateCDictSize 0 1000 3 < estimateCDictSize_advanced 0 1000 (getCParams_public 3 0 1000) false /\
  cdict_level_recipe 0 4096 1000 3 0 = InitNull /\
  (exists w l, cdict_level_recipe 0 4096 1000 3 513 = InitOk w l).
Proof. exact cdict_level_recipe_refuted_l. Qed.
Print Assumptions cdict_level_recipe_refuted.

(* ---------- non-positive maximum levels (round-1 gap: "l < 0 with L <= 0") ---------- *)

Theorem sweep_nonpositive_levels : sweep_nonpos 0 = true /\ sweep_nonpos 128 = true.
Proof. exact (conj sweep_nonpos_0 sweep_nonpos_128). Qed.
Print Assumptions sweep_nonpositive_levels.

(* ZSTD_estimateCCtxSize(L) / ZSTD_estimateCStreamSize(L) with L <= 0 cover EVERY level l <= L at every source size:
   all negative levels share table row 0 and their estimate (no sizing function reads targetLength - neither on the
   need side nor on the estimate side), level 0 is level 3 and dominates level 1, which dominates row 0 *)
Theorem nonpositive_levels_covered :
  forall rz l L s,
    sweep_nonpos rz = true -> sweep_neg rz = true -> sweep_oneshot rz = true -> sweep_stream rz = true ->
    (l <= L)%Z -> (L <= 0)%Z -> s <= UNKNOWN ->
    need_simple rz l s <= estimateCCtxSize rz L /\ need_compress2 rz l s <= estimateCCtxSize rz L /\
    need_stream rz l s <= estimateCStreamSize rz L.
Proof. exact nonpositive_levels_covered_l. Qed.
Print Assumptions nonpositive_levels_covered.

Theorem nonpositive_levels_static_oneshot_ok :
  forall rz start size l L s,
    sweep_nonpos rz = true -> sweep_neg rz = true -> sweep_oneshot rz = true -> sweep_stream rz = true ->
    (l <= L)%Z -> (L <= 0)%Z -> s <= UNKNOWN -> start mod 8 = 0 ->
    estimateCCtxSize rz L <= size ->
    exists w log, static_simple_session rz start size l s = SessDone w log /\
                  allocFailed w = false /\ ws_start w = start /\ ws_end w = start + size /\
                  Forall (entry_in start size) log.
Proof. exact nonpositive_levels_static_oneshot_ok_l. Qed.
Print Assumptions nonpositive_levels_static_oneshot_ok.

(* ---------- raw cParams through ZSTD_compress_advanced: refuted (known finding C14-advanced-raw-cparams-vs-estimate) ---------- *)

Theorem advanced_raw_cparams_refuted :
  estimateCCtxSize_usingCParams 0 raw_witness_cp < need_advanced_raw 0 raw_witness_cp 100000 /\
  session_need 0 (stream2_params (mkPP 3 raw_witness_cp PsAuto (ldm_zero PsAuto) 0 false true true 0 0) 100000) 100000 false true false false
    <= estimateCCtxSize_usingCParams 0 raw_witness_cp.
Proof. exact advanced_raw_cparams_refuted_l. Qed.
Print Assumptions advanced_raw_cparams_refuted.

(* ---------- round 3: what a multithreaded compression context owns / reports, allocation failures included ---------- *)
(* Models: Mem/MtOwner.v (lib/compress/zstdmt_compress.c + lib/common/pool.c).  [z] = the structure sizes of the build:
   universally quantified.  A failure schedule (list bool) decides which allocations return NULL. *)

(* for EVERY history of a multithreaded context - creation, session starts that change the worker count with ANY
   allocation failing, local dictionaries, round buffer, serial LDM tables (growing, failing), job output buffers taken
   and flushed in any order, sequence buffers, worker contexts of any workspace size - the bytes outstanding at the
   allocator are EXACTLY what the current ZSTDMT_sizeof_CCtx reports: it never under-reports and is defined in every
   reachable state (NULL pools included) *)
Theorem mt_sizeof_exact :
  forall z n fs0 s0 e0 f0 ops s outs,
    mt_create z n fs0 = (Some s0, e0, f0) ->
    mt_run z s0 ops = (s, outs) ->
    live_after 0 (e0 ++ mt_all_events outs) = mt_sizeof z s.
Proof. exact mt_sizeof_exact_l. Qed.
Print Assumptions mt_sizeof_exact.

(* a creation that fails (any allocation of its 12) returns NULL and leaves nothing at the allocator *)
Theorem mt_create_failed_leaves_nothing :
  forall z n fs e f X, mt_create z n fs = (None, e, f) -> live_after X e = X.
Proof. exact mt_create_failed_l. Qed.
Print Assumptions mt_create_failed_leaves_nothing.

(* the expression used before fix eb053f6 is exact WHERE it is defined ... *)
Theorem mt_sizeof_old_exact_where_defined :
  forall z n fs0 s0 e0 f0 ops s outs v,
    mt_create z n fs0 = (Some s0, e0, f0) -> mt_run z s0 ops = (s, outs) ->
    mt_sizeof_old z s = Some v -> v = live_after 0 (e0 ++ mt_all_events outs).
Proof. exact mt_sizeof_old_exact_l. Qed.
Print Assumptions mt_sizeof_old_exact_where_defined.

(* ... and UNDEFINED (NULL pool / NULL jobs table dereferenced: finding C14-sizeof-cctx-after-failed-mt-resize) after
   EVERY ZSTDMT_resize that fails beyond the thread-handle array, from any state, for any worker count and schedule *)
Theorem mt_sizeof_old_undefined_after_failed_resize :
  forall z s n fs th eT fsT s' e fs',
    resize_threads z (mt_threads s) n fs = (true, th, eT, fsT) ->
    mt_resize z s n fs = (s', false, e, fs') ->
    mt_sizeof_old z s' = None.
Proof. exact mt_sizeof_old_undefined_l. Qed.
Print Assumptions mt_sizeof_old_undefined_after_failed_resize.

(* a resize without allocation failure repairs ANY state: worker count recorded, jobs table of at least n + 2 entries,
   the three pools present with at least 2n + 3 / n / n slots *)
Theorem mt_resize_recovers :
  forall z s n s' ok e fs',
    mt_resize z s n [] = (s', ok, e, fs') ->
    ok = true /\ mt_nbw s' = n /\ mt_sizeof_old z s' <> None
    /\ (exists j b c q, mt_jobs s' = Some j /\ n + 2 <= j /\ mt_buf s' = Some b /\ 2 * n + 3 <= p_total b
                        /\ mt_cctx s' = Some c /\ n <= p_total c /\ mt_seq s' = Some q /\ n <= p_total q).
Proof. exact mt_resize_recovers_l. Qed.
Print Assumptions mt_resize_recovers.

(* the session that follows a failed resize repairs the context whatever worker count it asks for (the failed resize
   recorded nbWorkers = 0: fixes 3a42f3b / 44900dc are part of the model) *)
Theorem mt_next_session_recovers :
  forall z s n fs s1 e fs' m,
    mt_inflight s = [] ->
    mt_resize z s n fs = (s1, false, e, fs') ->
    m <> 0 ->
    exists s2 e2, mt_step z s1 (MStart m []) = (s2, MOk, e2) /\ mt_nbw s2 = m /\ mt_sizeof_old z s2 <> None.
Proof. exact mt_next_session_recovers_l. Qed.
Print Assumptions mt_next_session_recovers.

(* ZSTDMT_freeCCtx after any history (failed resizes, buffers in flight included) leaves nothing at the allocator *)
Theorem mt_free_releases_all :
  forall z n fs0 s0 e0 f0 ops s outs,
    mt_create z n fs0 = (Some s0, e0, f0) -> mt_run z s0 ops = (s, outs) ->
    live_after 0 (e0 ++ mt_all_events outs ++ mt_free_events z s) = 0.
Proof. exact mt_free_releases_all_l. Qed.
Print Assumptions mt_free_releases_all.

(* ---------- round 3: the enclosing heap ZSTD_CCtx (Mem/COwner.v) ---------- *)

(* for EVERY history of a heap compression context - dictionaries loaded by copy / by reference, digested at the first
   compression, cleared by refPrefix / refCDict / reset(parameters); workspace replaced (also through ZSTD_copyCCtx, which
   leaves the allocator alone); a multithreaded context created, operated through ANY MtOwner operation with any failure
   schedule, dropped by a thread-pool switch; every allocation allowed to fail - the bytes outstanding at the allocator,
   the context itself included, are EXACTLY ZSTD_sizeof_CCtx *)
Theorem cctx_sizeof_exact :
  forall z ops c outs,
    c_run z cown0 ops = (c, outs) ->
    live_after (z_cctx z) (flat_map snd outs) = c_sizeof z c.
Proof. exact cctx_sizeof_exact_l. Qed.
Print Assumptions cctx_sizeof_exact.

(* ZSTD_freeCCtx (multithreaded context first, then the dictionaries, the workspace, the structure) leaves nothing *)
Theorem cctx_free_releases_all :
  forall z ops c outs,
    c_run z cown0 ops = (c, outs) ->
    live_after (z_cctx z) (flat_map snd outs ++ c_free_events z c) = 0.
Proof. exact cctx_free_releases_all_l. Qed.
Print Assumptions cctx_free_releases_all.
