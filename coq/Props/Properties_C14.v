(* C14 - memory budgets hold: estimates suffice, static contexts, decoder window limit.
   Only statements + [exact lemma]; models in Mem/{Cwksp,Estimate,DBuffers}.v, proofs in Mem/*Proofs.v, Mem/C14Final.v. *)
From Coq Require Import NArith ZArith List Bool.
From ZV.Gen Require Import Gen_C14.
From ZV.Mem Require Import Cwksp CwkspProofs C14Final.
Import ListNotations.
Local Open Scope N_scope.

(* static_never_grows: bump-pointer safety with NO budget assumption.  From a freshly initialised workspace
   [start, start+size), whatever sequence of reservations / clears is executed and whatever the sizes, the
   bounds never move and every non-NULL pointer handed out designates bytes inside the workspace. *)
Theorem static_never_grows :
  forall rz start size static ops,
    let w0 := init start size static in
    let '(w', log) := run rz w0 ops in
    (ws_start w' = start /\ ws_end w' = start + size) /\
    Forall (fun e : entry => fst e = None \/
              exists p, fst e = Some p /\ start <= p /\ p + snd e <= start + size) log.
Proof. exact static_never_grows_l. Qed.
Print Assumptions static_never_grows.

(* the allocator's fit rule: a well-ordered reservation list whose summed cost leaves 126 spare bytes
   (two alignment pads of at most 63 bytes) never fails and never returns NULL for a non-empty request *)
Theorem cwksp_fit_126 :
  forall rz start size static ops,
    wf_ops true ops = true ->
    ops_cost rz ops + 126 <= size ->
    let w0 := init start size static in
    let '(w', log) := run rz w0 ops in
    allocFailed w' = false /\ Forall (entry_ok w0) log.
Proof. exact cwksp_fit_126_l. Qed.
Print Assumptions cwksp_fit_126.
