(* C13 - allocation failure anywhere: clean error, no crash, no leak, context reusable (PARTIAL).

   Model: ZV.Mem.AllocDsl - a deep-embedded allocation language (Alloc / Free through a ZSTD_customMem copy / NULL
   tests / ownership transfer / arrays of owned pointers / procedure calls / data-dependent choices / loops) with a
   concrete semantics [run o p s] under an oracle o = (which allocation indexes fail, outcome of every data-dependent
   test, number of iterations of every loop).  The concrete state records every double free, every dereference of a
   NULL or freed block and every block released through a zeroed customMem ([errs]), the blocks still allocated
   ([live]), the status of the last call and the number of failed allocations of that call.
   ZV.Mem.AllocInstances - the ownership skeletons of the zstd constructors / destructors / (re)allocation points,
   parametrised by the record [sizes] of sizeof / macro constants; ZV.Mem.AllocClient - the caller ([client],
   [session]: constructors only into empty handles, objects used only when non-NULL, handles forgotten after free).
   What the model cannot exhibit: undefined behaviour inside an error path, the content of objects, allocation sites
   that are not transcribed (dictionary trainers, the legacy one-shot decoders, contrib/seekable_format; the legacy STREAM
   decoders are transcribed in ZV.Mem.AllocLegacy, round 2, end of this file).  Those are covered only by the per-run
   exhaustive fault injection on the real code (zv/props/c13.py). *)
From Coq Require Import NArith List Bool Arith.
Import ListNotations.
From ZV.Mem Require Import AllocDsl AllocInstances AllocProofs AllocSet AllocSetProofs AllocGen AllocClient AllocHistory
  AllocTheorems AllocTheoremsS AllocTheoremsC AllocExamples AllocExamplesProofs.
Local Open Scope N_scope.

(* ---- the ownership analysis is sound for EVERY program of the language and EVERY oracle: a program it accepts never
   double-frees, never uses a NULL / freed block, never releases through a zeroed customMem and leaves nothing allocated *)
Theorem alloc_analysis_sound : forall fuel p, acheckS fuel aclean p ainit = true ->
  forall o, live (fst (run o p init_state)) = [] /\ errs (fst (run o p init_state)) = [].
Proof. exact runS_no_leak. Qed.
Print Assumptions alloc_analysis_sound.

(* ... an accepted program reports an error exactly when one of its allocations failed *)
Theorem alloc_analysis_sound_error_iff_failure : forall fuel p, acheckS fuel aerr_iff_fail p ainit = true ->
  forall o, status (fst (run o p init_state)) = false <-> (0 < nfail (fst (run o p init_state)))%nat.
Proof. exact runS_error_iff_failure. Qed.
Print Assumptions alloc_analysis_sound_error_iff_failure.

(* ... and whatever failed in [first], [again] run with memory available ends in a state described by P *)
Theorem alloc_analysis_sound_reusable : forall fuel first again P, areusableS fuel first again ainit P = true ->
  forall o1 o2, (forall k, fails o2 k = false) ->
  exists a', G a' (fst (run o2 again (fst (run o1 first init_state)))) /\ P a' = true.
Proof. exact runS_reusable. Qed.
Print Assumptions alloc_analysis_sound_reusable.

(* ---- thread pool: POOL_create_advanced / POOL_resize / POOL_free, every history, every parameter, every oracle *)
Theorem pool_any_history_no_leak : forall zs ops, forallb pool_op ops = true -> forall o,
  let s := fst (run o (session zs ops ;; teardown_pool zs) init_state) in live s = [] /\ errs s = [].
Proof. exact AllocTheorems.pool_any_history_no_leak. Qed.
Print Assumptions pool_any_history_no_leak.

Theorem pool_any_history_error_iff_failure : forall zs ops op, forallb pool_op ops = true -> pool_op op = true -> forall o,
  let s := fst (run o (session zs ops ;; client zs op) init_state) in status s = false <-> (0 < nfail s)%nat.
Proof. exact AllocTheorems.pool_any_history_error_iff_failure. Qed.
Print Assumptions pool_any_history_error_iff_failure.

Theorem pool_reusable_after_any_history : forall zs ops, forallb pool_op ops = true ->
  forall o1 o2, (forall k, fails o2 k = false) -> forall cap n, n <> 0 ->
  let s1 := fst (run o1 (session zs ops) init_state) in
  sget s1 (P_ctx 10) <> None ->
  let s2 := fst (run o2 (client zs (OPoolResize cap n)) s1) in
  status s2 = true /\ errs s2 = [].
Proof. exact AllocTheorems.pool_reusable_after_any_history. Qed.
Print Assumptions pool_reusable_after_any_history.

(* ---- ZSTDMT_createCCtx_advanced_internal / ZSTDMT_resize (any state of the tables and pools it finds) / ZSTDMT_freeCCtx
   (factory, jobs table, buffer / cctx / seq pools) *)
Theorem mtctx_any_history_no_leak : forall zs, sizes_ok zs -> forall ops, forallb mtctx_op ops = true -> forall o,
  let s := fst (run o (session zs ops ;; teardown_mtctx zs) init_state) in live s = [] /\ errs s = [].
Proof. exact AllocTheorems.mtctx_any_history_no_leak. Qed.
Print Assumptions mtctx_any_history_no_leak.

Theorem mtctx_any_history_error_iff_failure : forall zs, sizes_ok zs -> forall ops op, forallb mtctx_op ops = true -> mtctx_op op = true -> forall o,
  let s := fst (run o (session zs ops ;; client zs op) init_state) in status s = false <-> (0 < nfail s)%nat.
Proof. exact AllocTheorems.mtctx_any_history_error_iff_failure. Qed.
Print Assumptions mtctx_any_history_error_iff_failure.

(* ---- ZSTD_createCDict_advanced / ZSTD_freeCDict, ZSTD_createDDict_advanced (by copy / by reference) / ZSTD_freeDDict *)
Theorem dict_any_history_no_leak : forall zs ops, forallb dict_op ops = true -> forall o,
  let s := fst (run o (session zs ops ;; teardown_dicts zs) init_state) in live s = [] /\ errs s = [].
Proof. exact AllocTheorems.dict_any_history_no_leak. Qed.
Print Assumptions dict_any_history_no_leak.

Theorem dict_any_history_error_iff_failure : forall zs ops op, forallb dict_op ops = true -> dict_op op = true -> forall o,
  let s := fst (run o (session zs ops ;; client zs op) init_state) in status s = false <-> (0 < nfail s)%nat.
Proof. exact AllocTheorems.dict_any_history_error_iff_failure. Qed.
Print Assumptions dict_any_history_error_iff_failure.

(* ---- ZSTD_DCtx: create / loadDictionary (copy, reference) / streaming buffer (re)allocation / DDict hash set creation
   and expansion / free *)
Theorem dctx_any_history_no_leak : forall zs ops, forallb dctx_op ops = true -> forall o,
  let s := fst (run o (session zs ops ;; teardown_dctx zs) init_state) in live s = [] /\ errs s = [].
Proof. exact AllocTheorems.dctx_any_history_no_leak. Qed.
Print Assumptions dctx_any_history_no_leak.

Theorem dctx_any_history_error_iff_failure : forall zs ops op, forallb dctx_op ops = true -> dctx_op op = true -> forall o,
  let s := fst (run o (session zs ops ;; client zs op) init_state) in status s = false <-> (0 < nfail s)%nat.
Proof. exact AllocTheorems.dctx_any_history_error_iff_failure. Qed.
Print Assumptions dctx_any_history_error_iff_failure.

Theorem dctx_reusable_after_any_history : forall zs ops, forallb dctx_op ops = true ->
  forall o1 o2, (forall k, fails o2 k = false) -> forall byRef,
  let s1 := fst (run o1 (session zs ops) init_state) in
  sget s1 D_dctx <> None ->
  let s2 := fst (run o2 (client zs (ODLoadDict byRef 0) ;; Forget ;; client zs (ODStreamAny 0)) s1) in
  status s2 = true /\ errs s2 = [].
Proof. exact AllocTheorems.dctx_reusable_after_any_history. Qed.
Print Assumptions dctx_reusable_after_any_history.

(* ---- ZSTD_CCtx with local dictionary and the ZSTDMT_CCtx it owns (nbWorkers >= 1): every history of create / loadDictionary /
   refCDict / multithreaded compression (any worker count, resize, jobs, flushes) / reset / free *)
Theorem cctx_any_history_no_leak : forall zs, sizes_ok zs -> forall ops, forallb cctx_op ops = true -> forall o,
  let s := fst (run o (session zs ops ;; teardown_cctx zs) init_state) in live s = [] /\ errs s = [].
Proof. exact AllocTheoremsC.cctx_any_history_no_leak. Qed.
Print Assumptions cctx_any_history_no_leak.

Theorem cctx_any_history_error_iff_failure : forall zs, sizes_ok zs -> forall ops op, forallb cctx_op ops = true -> cctx_op op = true -> forall o,
  let s := fst (run o (session zs ops ;; client zs op) init_state) in status s = false <-> (0 < nfail s)%nat.
Proof. exact AllocTheoremsC.cctx_any_history_error_iff_failure. Qed.
Print Assumptions cctx_any_history_error_iff_failure.

Theorem cctx_reusable_mt_after_any_history : forall zs, sizes_ok zs -> forall ops, forallb cctx_op ops = true ->
  forall o1 o2, (forall k, fails o2 k = false) -> forall w cap dsz rsz hsz bsz cdsz wsz jbsz,
  let s1 := fst (run o1 (session zs ops) init_state) in
  sget s1 K_cctx <> None ->
  let s2 := fst (run o2 (client zs OReset ;; Forget ;; client zs (OCompressMT w cap dsz rsz hsz bsz cdsz wsz jbsz)) s1) in
  status s2 = true /\ errs s2 = [].
Proof. exact AllocTheoremsC.cctx_reusable_mt_after_any_history. Qed.
Print Assumptions cctx_reusable_mt_after_any_history.

(* ---- the same context used with nbWorkers = 0: every history of create / loadDictionary / refCDict / single-threaded
   compression (any workspace decision) / reset / free *)
Theorem cctx_st_any_history_no_leak : forall zs ops, forallb cctx_st_op ops = true -> forall o,
  let s := fst (run o (session zs ops ;; teardown_cctx zs) init_state) in live s = [] /\ errs s = [].
Proof. exact AllocTheoremsS.cctx_st_any_history_no_leak. Qed.
Print Assumptions cctx_st_any_history_no_leak.

Theorem cctx_st_any_history_error_iff_failure : forall zs ops op, forallb cctx_st_op ops = true -> cctx_st_op op = true -> forall o,
  let s := fst (run o (session zs ops ;; client zs op) init_state) in status s = false <-> (0 < nfail s)%nat.
Proof. exact AllocTheoremsS.cctx_st_any_history_error_iff_failure. Qed.
Print Assumptions cctx_st_any_history_error_iff_failure.

Theorem cctx_st_reusable_after_any_history : forall zs ops, forallb cctx_st_op ops = true ->
  forall o1 o2, (forall k, fails o2 k = false) -> forall wsz cdsz,
  let s1 := fst (run o1 (session zs ops) init_state) in
  sget s1 K_cctx <> None ->
  let s2 := fst (run o2 (client zs OReset ;; Forget ;; client zs (OCompressAny wsz cdsz)) s1) in
  status s2 = true /\ errs s2 = [].
Proof. exact AllocTheoremsS.cctx_st_reusable_after_any_history. Qed.
Print Assumptions cctx_st_reusable_after_any_history.

(* ---- T-tie: with the constants regenerated from the current headers the hypothesis [sizes_ok] holds and the model's
   formulas for BUF_POOL_MAX_NB_BUFFERS / SEQ_POOL_MAX_NB_BUFFERS / the jobs-table size agree with the C macros *)
Theorem current_sizes_ok : sizes_ok gen_sizes /\ formulas_agree = true.
Proof. exact (conj gen_sizes_ok formulas_agree_current). Qed.
Print Assumptions current_sizes_ok.

(* ---- non-vacuity: the semantics exhibits each kind of violation on the code as it was before a fix: commit (or on a
   one-line mutation), the analysis rejects those programs, and the current transcription is clean on the same oracle *)
Theorem pre_a233ed7_foreign_free_refuted :
  errs_of (fault 2) (bufpool_create_pre_a233ed7 120 5) = [EForeignFree 120] /\
  acheckS 8 (fun _ => true) (bufpool_create_pre_a233ed7 120 5) ainit = false /\
  errs_of (fault 2) (bufpool_create zsx 120 5) = [] /\ live_of (fault 2) (bufpool_create zsx 120 5) = [].
Proof. exact pre_a233ed7_foreign_free. Qed.
Print Assumptions pre_a233ed7_foreign_free_refuted.

Theorem pre_d89793f_null_deref_refuted :
  errs_of (fault 5) (mtctx_create_pre_d89793f 2) = [EUseDead 101] /\
  acheckS 8 (fun _ => true) (mtctx_create_pre_d89793f 2) ainit = false /\
  errs_of (fault 5) (mtctx_create zsx 2) = [] /\ live_of (fault 5) (mtctx_create zsx 2) = [] /\
  status (fst (run (fault 5) (mtctx_create zsx 2) init_state)) = false.
Proof. exact pre_d89793f_null_deref. Qed.
Print Assumptions pre_d89793f_null_deref_refuted.

Theorem leaky_pool_create_refuted :
  live_of (fault 3) (pool_create_leaky 10 3 4) = [2; 1]%nat /\ errs_of (fault 3) (pool_create_leaky 10 3 4) = [] /\
  acheckS 8 aclean (pool_create_leaky 10 3 4) ainit = false /\
  live_of (fault 3) (pool_create zsx 10 3 4) = [].
Proof. exact leaky_pool_create_leaks. Qed.
Print Assumptions leaky_pool_create_refuted.

Theorem double_free_refuted :
  errs_of (fault 0) double_free_prog = [EDoubleFree 200] /\ acheckS 8 (fun _ => true) double_free_prog ainit = false.
Proof. exact double_free_detected. Qed.
Print Assumptions double_free_refuted.

Theorem stale_buffer_sizes_refuted :
  errs_of (fault 2) (dctx_create zsx ;; dstream_stale_sizes 100 ;; dstream_stale_sizes 100) = [EUseDead 301] /\
  errs_of (fault 2) (dctx_create zsx ;; dstream 100 ;; dstream 100) = [] /\
  status (fst (run (fault 2) (dctx_create zsx ;; dstream 100 ;; dstream 100) init_state)) = true.
Proof. exact stale_sizes_use_null. Qed.
Print Assumptions stale_buffer_sizes_refuted.

(* the hypotheses are satisfiable: a concrete 50-allocation history, every single failing index *)
Theorem life_example : every_k_clean 60 = true /\ next (fst (run (life_oracle 0) life init_state)) = 50%nat.
Proof. exact life_every_single_fault_clean. Qed.
Print Assumptions life_example.

(* ==================================================================== round 2: the legacy stream decoders behind
   ZSTD_decompressStream (ZV.Mem.AllocLegacy: ZSTD_initLegacyStream, ZBUFFv05/06/07 create / free / buffer (re)allocation,
   ZSTD_freeDCtx releasing dctx->legacyContext) and POOL_create_advanced's init-error path.  The theorems about the
   REPAIRED code hold for every history, every oracle (failing allocations, version-switch and buffer-growth decisions)
   and every size; the code AS FOUND in /repo on 2026-10-02 is refuted on concrete histories (the findings). *)
From ZV.Mem Require Import AllocLegacy AllocHistoryG AllocLegacyTheorems.

(* every history of ZSTD_createDCtx / a legacy frame streamed (any version switch, any buffer growth) / ZSTD_freeDCtx,
   then ZSTD_freeDCtx: nothing allocated, no double free, no use of a NULL / freed block *)
Theorem legacy_any_history_no_leak : forall a b c ops o,
  let s := fst (run o (Seq (gsession lop (lclient repaired a b c) ops) (lteardown repaired a b c)) init_state) in
  live s = [] /\ errs s = [].
Proof. exact legacy_any_history_no_leak_l. Qed.
Print Assumptions legacy_any_history_no_leak.

(* after every call of every such history: error <-> an allocation of that call failed *)
Theorem legacy_any_history_error_iff_failure : forall a b c ops op o,
  let s := fst (run o (Seq (gsession lop (lclient repaired a b c) ops) (lclient repaired a b c op)) init_state) in
  status s = false <-> (0 < nfail s)%nat.
Proof. exact legacy_any_history_error_iff_failure_l. Qed.
Print Assumptions legacy_any_history_error_iff_failure.

(* whatever failed before, while the DCtx is alive a legacy frame streamed with memory available succeeds *)
Theorem legacy_reusable_after_any_history : forall a b c ops o1 o2, (forall k, fails o2 k = false) -> forall i o,
  let s1 := fst (run o1 (gsession lop (lclient repaired a b c) ops) init_state) in
  sget s1 X_dctx <> None ->
  let s2 := fst (run o2 (lclient repaired a b c (LStream i o)) s1) in
  status s2 = true /\ errs s2 = [].
Proof. exact legacy_reusable_after_any_history_l. Qed.
Print Assumptions legacy_reusable_after_any_history.

(* the three legacy findings, on the code as found, with the repaired code clean on the same history and oracle; the
   second components also show that the hypotheses of the three theorems above are satisfiable *)
Theorem legacy_as_found_stale_size_refuted :
  (exists e, snd (fst (run_l as_found [LCreate; LStream 10 20; LStream 10 20] [4%nat] [true; false; false; false; false; false])) = e /\ e <> [])
  /\ run_l repaired [LCreate; LStream 10 20; LStream 10 20] [4%nat] [true; false; false; false; false; false] = ([], [], true).
Proof. exact legacy_stale_size_refuted. Qed.
Print Assumptions legacy_as_found_stale_size_refuted.

Theorem legacy_as_found_dangling_context_refuted :
  (exists e, snd (fst (run_l as_found [LCreate; LStream 10 20; LStream 10 20] [6%nat] [true; false; false; true; false; false])) = e /\ e <> [])
  /\ run_l repaired [LCreate; LStream 10 20; LStream 10 20] [6%nat] [true; false; false; true; false; false] = ([], [], true).
Proof. exact legacy_dangling_context_refuted. Qed.
Print Assumptions legacy_as_found_dangling_context_refuted.

Theorem zbuffv05_as_found_unchecked_refuted :
  (exists e, snd (fst (run_l as_found [LCreate; LStream 10 20] [3%nat] [true; false; false])) = e /\ e <> [])
  /\ run_l repaired [LCreate; LStream 10 20] [3%nat] [true; false; false] = ([], [], true).
Proof. exact zbuffv05_unchecked_refuted. Qed.
Print Assumptions zbuffv05_as_found_unchecked_refuted.

(* POOL_create_advanced when the initialisation of its mutex / conditions fails (a ZSTD_malloc in DEBUGLEVEL >= 1 builds):
   as found the error path locks the missing mutex and releases ctx and queue through the still-zero customMem *)
Theorem pool_create_init_error_path_refuted :
  (exists e, snd (fst (run_y false [3%nat])) = e /\ In (EForeignFree Y_ctx) e /\ In (EUseDead Y_mutex) e)
  /\ run_y true [3%nat] = ([], [], false).
Proof. exact pool_init_error_path_refuted. Qed.
Print Assumptions pool_create_init_error_path_refuted.

(* ... and the repaired constructor for every oracle and size: no ownership error, error <-> a request failed, nothing
   owned after an error *)
Theorem pool_create_init_error_path_repaired_sound : forall a b c o,
  let s := fst (run o (Seq Forget (Call 0 (pool_create_y true a b c))) init_state) in
  errs s = [] /\ (status s = false <-> (0 < nfail s)%nat) /\ (status s = false -> live s = []).
Proof. exact pool_create_y_sound. Qed.
Print Assumptions pool_create_init_error_path_repaired_sound.

(* ================================================================== round 3 *)
From ZV.Mem Require Import AllocBorrow AllocBorrowTheorems.

(* ---- ZSTD_DCtx with ZSTD_d_refMultipleDDicts (ZV.Mem.AllocBorrow): the DDicts are BORROWED from the caller, the hash set that
   remembers them belongs to the DCtx.  Caller [bclient]: it keeps a DDict alive from the moment ZSTD_DCtx_refDDict returned
   success until ZSTD_DCtx_reset(parameters) / ZSTD_freeDCtx, and is free to release it otherwise - in particular after a
   ZSTD_DCtx_refDDict that returned an error.  The same family holds the rest of the DCtx: the local DDict of
   ZSTD_DCtx_loadDictionary (copy / reference; released by ZSTD_clearDict) and the stream buffer.  The REPAIRED
   ZSTD_DCtx_refDDict (8de9dc9), every history of create / refDDict k (any expansion decision) / refDDict(NULL) /
   loadDictionary / refPrefix (single use) / a frame decoded in one call or streamed (any selection among the referenced DDicts,
   any buffer decision; a frame compressed with the prefix the caller referenced fails for its content when the prefix is gone) /
   parameter reset (releases the set, b70602d) / free and create / free of two DDicts (by copy, by reference), every oracle,
   every size: the library never reads a released DDict, no double free, nothing allocated after the teardown *)
Theorem borrow_any_history_no_leak : forall a b c d ops, forallb bok ops = true -> forall o,
  let s := fst (run o (Seq (gsession bop (bcl a b c d) ops) (btd a b c d)) init_state) in
  live s = [] /\ errs s = [].
Proof. exact borrow_any_history_no_leak_l. Qed.
Print Assumptions borrow_any_history_no_leak.

(* ... after every call of such a history: status = error <-> an allocation of that call failed *)
Theorem borrow_any_history_error_iff_failure : forall a b c d ops op, forallb bok ops = true -> bok op = true -> forall o,
  let s := fst (run o (Seq (gsession bop (bcl a b c d) ops) (bcl a b c d op)) init_state) in
  status s = false <-> (0 < nfail s)%nat.
Proof. exact borrow_any_history_error_iff_failure_l. Qed.
Print Assumptions borrow_any_history_error_iff_failure.

(* ... while the DCtx is alive, whatever failed before: (create DDict k if the handle is empty,) reference it, decode a frame and
   stream one with memory available: success, the reference is recorded by the caller, no ownership error *)
Theorem borrow_reusable_after_any_history : forall a b c d ops, forallb bok ops = true -> forall o1 o2, (forall k, fails o2 k = false) ->
  forall k, (k <? 2) = true ->
  let s1 := fst (run o1 (gsession bop (bcl a b c d) ops) init_state) in
  sget s1 R_dctx <> None ->
  let s2 := fst (run o2 (ref_then_decode a b c d k) s1) in
  status s2 = true /\ errs s2 = [].
Proof. exact borrow_reusable_after_any_history_l. Qed.
Print Assumptions borrow_reusable_after_any_history.

(* finding dctx-refddict-failed-call-takes-effect on ZSTD_DCtx_refDDict AS FOUND (dctx->ddict recorded before the set is created /
   expanded): the call fails, the caller releases the DDict, the next frame reads it; the repaired code is clean on the same
   history and oracle (which also shows that the hypotheses of the three theorems above are satisfiable) *)
Theorem refddict_failed_call_takes_effect_refuted :
  (exists e, snd (fst (run_b false [BCreate; BDDCreate 0 false; BRef 0; BDDFree 0; BDecomp] [4%nat] [])) = e /\ In (EUseDead (RD 0)) e)
  /\ run_b true [BCreate; BDDCreate 0 false; BRef 0; BDDFree 0; BDecomp] [4%nat] [] = ([], [], true).
Proof. exact refddict_failed_call_takes_effect_refuted_l. Qed.
Print Assumptions refddict_failed_call_takes_effect_refuted.

Theorem refddict_failed_expansion_takes_effect_refuted :
  (exists e, snd (fst (run_b false [BCreate; BDDCreate 1 true; BRef 1; BDDCreate 0 true; BRef 0; BDDFree 0; BDecomp] [6%nat] [true])) = e /\ In (EUseDead (RD 0)) e)
  /\ run_b true [BCreate; BDDCreate 1 true; BRef 1; BDDCreate 0 true; BRef 0; BDDFree 0; BDecomp] [6%nat] [true] = ([], [], true).
Proof. exact refddict_failed_expansion_takes_effect_refuted_l. Qed.
Print Assumptions refddict_failed_expansion_takes_effect_refuted.

(* finding prefix-used-up-by-failed-frame-start, decoder side (the family also holds the single-use prefix of ZSTD_DCtx_refPrefix and,
   on the caller's side, the fact that the frame it decodes next was compressed with the prefix it referenced: decoding such a frame
   without the prefix is an error although no allocation failed).  As found: refPrefix, a frame whose stream buffer cannot be
   allocated (3rd allocation), the same frame again: error with nfail = 0.  Repaired (b15fdb6: the prefix is marked as used once the
   frame start has succeeded): the second attempt succeeds - and [borrow_any_history_error_iff_failure] above says so for every history *)
Theorem prefix_used_up_by_failed_frame_start_refuted :
  run_p false [BCreate; BRefPrefix; BStream 0 0] (BStream 0 0) [3%nat] [] = (false, 0%nat, [])
  /\ run_p true [BCreate; BRefPrefix; BStream 0 0] (BStream 0 0) [3%nat] [] = (true, 0%nat, []).
Proof. exact prefix_used_up_by_failed_frame_start_refuted_l. Qed.
Print Assumptions prefix_used_up_by_failed_frame_start_refuted.

(* finding zbuffv04-stream-second-doors: lib/legacy/zstd_v04.c as found (sizes recorded before the malloc, inner context not
   tested; the shared version-switch code already repaired) on the legacy model of round 2; the repaired transcription - the
   one [legacy_any_history_*] are about, and since 498f682 / 08afd1c also the v0.4 code - is clean on the same runs *)
Theorem zbuffv04_as_found_stale_size_refuted :
  (exists e, snd (fst (run_l v04_as_found [LCreate; LStream 10 20; LStream 10 20] [4%nat] [true; false; false; false; false; false])) = e /\ e <> [])
  /\ (exists e, snd (fst (run_l v04_as_found [LCreate; LStream 10 20; LStream 10 20] [5%nat] [true; false; false; false; false; false])) = e /\ e <> [])
  /\ run_l repaired [LCreate; LStream 10 20; LStream 10 20] [5%nat] [true; false; false; false; false; false] = ([], [], true).
Proof. exact zbuffv04_stale_size_refuted_l. Qed.
Print Assumptions zbuffv04_as_found_stale_size_refuted.

Theorem zbuffv04_as_found_unchecked_refuted :
  (exists e, snd (fst (run_l v04_as_found [LCreate; LStream 10 20] [3%nat] [true; false; false])) = e /\ In (EUseDead X_zd) e)
  /\ run_l repaired [LCreate; LStream 10 20] [3%nat] [true; false; false] = ([], [], true).
Proof. exact zbuffv04_unchecked_refuted_l. Qed.
Print Assumptions zbuffv04_as_found_unchecked_refuted.
