(* Property C08 - theorem list (dictionary side of the reference decoder + the statistics seeding repaired by
   commit b08f995).  Round trips for every dictionary / supply mode / input are validated per run through R and libzstd. *)
From Coq Require Import NArith ZArith List Bool.
From ZV.Codec Require Import Bytes Block Frame FrameProofs DictProofs.
Import ListNotations.
Local Open Scope N_scope.

(* bytes without the dictionary magic (or shorter than 8) are a raw-content dictionary with ID 0 *)
Theorem C08_raw_content_fallback : forall b,
  (lenN b < 8 \/ (forall m r, read_le 4 b = Some (m, r) -> m <> MAGIC_DICT)) ->
  parse_dict b = Ok (raw_dict b).
Proof. exact parse_dict_raw_fallback. Qed.
Print Assumptions C08_raw_content_fallback.

(* a formatted dictionary that loads has its three repeat offsets inside its content (never 0) *)
Theorem C08_loaded_repeat_offsets_valid : forall b d e,
  parse_dict b = Ok d -> d_entropy d = Some e ->
  let '(r1, r2, r3) := e_rep e in
  1 <= r1 <= lenN (d_content d) /\ 1 <= r2 <= lenN (d_content d) /\ 1 <= r3 <= lenN (d_content d).
Proof. exact parse_dict_formatted. Qed.
Print Assumptions C08_loaded_repeat_offsets_valid.

(* a frame that names a different dictionary ID is refused, whatever follows its header *)
Theorem C08_wrong_dictionary_refused : forall cfg dc f fh r0,
  parse_fheader (c_magicless cfg) f = Ok (fh, r0) ->
  fh_dictid fh <> 0 -> fh_dictid fh <> d_id dc ->
  exists c s, decode_frame cfg (Some dc) f = Err c s.
Proof. exact wrong_dictionary_refused. Qed.
Print Assumptions C08_wrong_dictionary_refused.

(* an accepted frame decoded with a dictionary names that dictionary or none *)
Theorem C08_accepted_frame_names_the_dictionary : forall cfg dc f out t rest,
  decode_frame cfg (Some dc) f = Ok (out, t, rest) ->
  fh_dictid (ft_header t) = 0 \/ fh_dictid (ft_header t) = d_id dc.
Proof.
  intros cfg dc f out t rest H. destruct (decode_frame_sound _ _ _ _ _ _ H) as (_ & _ & _ & _ & _ & _ & Hd & _).
  exact (Hd dc eq_refl).
Qed.
Print Assumptions C08_accepted_frame_names_the_dictionary.

(* literal statistics seeded from a dictionary's Huffman costs are defined for every cost the loader admits *)
Theorem C08_rescale_lit_freq_total : forall bitCost, 1 <= lit_freq_repaired bitCost <= 1024.
Proof. exact lit_freq_repaired_bounds. Qed.
Print Assumptions C08_rescale_lit_freq_total.

(* ---- the LZ compressor model with a dictionary (coq/Codec/EncodeLzFrame.v): history starts as the dictionary content, repeat
        offsets as the dictionary's; any block split and any parse valid against that history - matches may reach into the
        dictionary - decodes, with the same dictionary, to the parsed bytes; the frame records the dictionary ID ---- *)
From ZV.Codec Require Import Encode EncodeProofs EncodeSeq EncodeLzFrame EncodeLzFrameProofs.

Theorem C08_model_dictionary_compression_lossless : forall cfg dc p pbs ebs z rest,
  let d := Some dc in
  let content := blocks_content ebs in
  let win := frame_window p (lenN content) in
  let blockMax := N.min (N.min win BLOCK_MAX) (c_block_max cfg) in
  pbs <> [] ->
  pblocks_run (c_strict_window cfg) win blockMax (z_init d) pbs = Some (ebs, z) ->
  params_ok p (lenN content) (d_id dc) -> c_magicless cfg = fp_magicless p -> win <= c_window_max cfg ->
  (exists t, decode_frame cfg d (enc_frame p (d_id dc) ebs ++ rest) = Ok (content, t, rest) /\
             fh_expected p (lenN content) (d_id dc) (ft_header t)) /\
  z_hist z = rev content ++ rev' (d_content dc) /\ z_pos z = lenN content.
Proof. exact lz_model_lossless_dict. Qed.
Print Assumptions C08_model_dictionary_compression_lossless.
