(* Property C08 - theorem list (dictionary side of the reference decoder + the statistics seeding repaired by
   commit b08f995).  Round trips for every dictionary / supply mode / input are validated per run through R and libzstd. *)
From Coq Require Import NArith ZArith List Bool.
From ZV.Codec Require Import Bytes Block Frame FrameProofs DictProofs.
Import ListNotations.
Local Open Scope N_scope.

(* bytes without the dictionary magic (or shorter than 8) are a raw-content dictionary with ID 0 *)
Theorem C08_raw_content_fallback : forall b,
  (lenN b < 8 \/ (forall m r, read_le 4 b = Some (m, r) -> m <> MAGIC_DICT)) ->
  parse_dict b = Ok (raw_dict b).
Proof. exact parse_dict_raw_fallback. Qed.
Print Assumptions C08_raw_content_fallback.

(* a formatted dictionary that loads has its three repeat offsets inside its content (never 0) *)
Theorem C08_loaded_repeat_offsets_valid : forall b d e,
  parse_dict b = Ok d -> d_entropy d = Some e ->
  let '(r1, r2, r3) := e_rep e in
  1 <= r1 <= lenN (d_content d) /\ 1 <= r2 <= lenN (d_content d) /\ 1 <= r3 <= lenN (d_content d).
Proof. exact parse_dict_formatted. Qed.
Print Assumptions C08_loaded_repeat_offsets_valid.

(* a frame that names a different dictionary ID is refused, whatever follows its header *)
Theorem C08_wrong_dictionary_refused : forall cfg dc f fh r0,
  parse_fheader (c_magicless cfg) f = Ok (fh, r0) ->
  fh_dictid fh <> 0 -> fh_dictid fh <> d_id dc ->
  exists c s, decode_frame cfg (Some dc) f = Err c s.
Proof. exact wrong_dictionary_refused. Qed.
Print Assumptions C08_wrong_dictionary_refused.

(* an accepted frame decoded with a dictionary names that dictionary or none *)
Theorem C08_accepted_frame_names_the_dictionary : forall cfg dc f out t rest,
  decode_frame cfg (Some dc) f = Ok (out, t, rest) ->
  fh_dictid (ft_header t) = 0 \/ fh_dictid (ft_header t) = d_id dc.
Proof.
  intros cfg dc f out t rest H. destruct (decode_frame_sound _ _ _ _ _ _ H) as (_ & _ & _ & _ & _ & _ & Hd & _).
  exact (Hd dc eq_refl).
Qed.
Print Assumptions C08_accepted_frame_names_the_dictionary.

(* literal statistics seeded from a dictionary's Huffman costs are defined for every cost the loader admits *)
Theorem C08_rescale_lit_freq_total : forall bitCost, 1 <= lit_freq_repaired bitCost <= 1024.
Proof. exact lit_freq_repaired_bounds. Qed.
Print Assumptions C08_rescale_lit_freq_total.

(* ---- the LZ compressor model with a dictionary (coq/Codec/EncodeLzFrame.v): history starts as the dictionary content, repeat
        offsets as the dictionary's; any block split and any parse valid against that history - matches may reach into the
        dictionary - decodes, with the same dictionary, to the parsed bytes; the frame records the dictionary ID ---- *)
From ZV.Codec Require Import Encode EncodeProofs EncodeSeq EncodeLzFrame EncodeLzFrameProofs.

Theorem C08_model_dictionary_compression_lossless : forall cfg dc p pbs ebs z rest,
  let d := Some dc in
  let content := blocks_content ebs in
  let win := frame_window p (lenN content) in
  let blockMax := N.min (N.min win BLOCK_MAX) (c_block_max cfg) in
  pbs <> [] ->
  pblocks_run (c_strict_window cfg) win blockMax (z_init d) pbs = Some (ebs, z) ->
  params_ok p (lenN content) (d_id dc) -> c_magicless cfg = fp_magicless p -> win <= c_window_max cfg ->
  (exists t, decode_frame cfg d (enc_frame p (d_id dc) ebs ++ rest) = Ok (content, t, rest) /\
             fh_expected p (lenN content) (d_id dc) (ft_header t)) /\
  z_hist z = rev content ++ rev' (d_content dc) /\ z_pos z = lenN content.
Proof. exact lz_model_lossless_dict. Qed.
Print Assumptions C08_model_dictionary_compression_lossless.

(* ==== round 2: the three places where findings of this property lived, each as a model of the mechanism with a theorem over all
        histories / sizes and a refutation of the code as it was (fixes d50580e, 2f41a3c, dd32199) ==== *)
From ZV.Safety Require DDictHashSet.
From ZV.Codec Require C08Select C08DictId C08Attach C08Repeat C08Window.

(* ZSTD_d_refMultipleDDicts: for every hash function, every history of ZSTD_DCtx_refDDict calls (any dictIDs, raw-content DDicts with
   dictID 0 included), every active DDict and every frame dictID: never an out-of-table probe or an endless loop; the frame is decoded
   with a DDict that carries the dictID it names, or it names none and the active DDict serves, or it is refused *)
Theorem C08_multi_ddict_selection_names_frame_dictionary :
  forall (h : N -> N) (l : list (N * N)) (s : DDictHashSet.hset) (active : N * N) (fid : N),
  DDictHashSet.add_all h DDictHashSet.next_fixed l DDictHashSet.create = DDictHashSet.HOk s ->
  match C08Select.select h s active fid with
  | C08Select.Decode e => (fid = 0 /\ e = active) \/ (fid <> 0 /\ fst e = fid)
  | C08Select.Refuse => fid <> 0 /\ fst active <> fid /\ DDictHashSet.spec_get l fid None = None
  | C08Select.Broken => False
  end.
Proof. exact C08Select.select_names_frame_dictionary. Qed.
Print Assumptions C08_multi_ddict_selection_names_frame_dictionary.

(* ... and the frame's dictionary is found whenever it was referenced (the last DDict referenced with that dictID), whatever else the
   table holds and whichever DDict is active *)
Theorem C08_multi_ddict_finds_referenced_dictionary :
  forall (h : N -> N) (l1 l2 : list (N * N)) (e active : N * N) (s : DDictHashSet.hset),
  fst e <> 0 -> (forall x, In x l2 -> fst x <> fst e) ->
  DDictHashSet.add_all h DDictHashSet.next_fixed (l1 ++ e :: l2) DDictHashSet.create = DDictHashSet.HOk s ->
  C08Select.select h s active (fst e) = C08Select.Decode e.
Proof. exact C08Select.select_finds_referenced_dictionary. Qed.
Print Assumptions C08_multi_ddict_finds_referenced_dictionary.

(* the lookup loop before fix d50580e: table {raw-content DDict, DDict 777}, frame naming dictionary 26: decoded with the raw content *)
Theorem C08_multi_ddict_old_lookup_refuted :
  match DDictHashSet.add_all DDictHashSet.xxh_hash DDictHashSet.next_fixed [(0, 7); (777, 2)] DDictHashSet.create with
  | DDictHashSet.HOk s => C08Select.select_old DDictHashSet.xxh_hash s (777, 2) 26 = C08Select.Decode (0, 7) /\
                          C08Select.select DDictHashSet.xxh_hash s (777, 2) 26 = C08Select.Refuse
  | _ => False
  end.
Proof. exact C08Select.select_old_refuted. Qed.
Print Assumptions C08_multi_ddict_old_lookup_refuted.

(* "frames record the dictionary's ID unless told not to": every history of dictIDFlag changes, dictionary loads, CDict references
   (digested under any flag), prefixes, unloads and frames on one context - each header carries the ID of the dictionary the frame
   was compressed with, or 0 when the flag in force for that frame is 0 *)
Theorem C08_dictid_recorded_all_histories : forall (l : list C08DictId.op),
  Forall C08DictId.truthful (C08DictId.run true C08DictId.init l).
Proof. exact C08DictId.dictid_recorded_from_fresh_context. Qed.
Print Assumptions C08_dictid_recorded_all_histories.

(* before fix 2f41a3c: flag off, load dictionary 5, frame, flag on, frame -> the second header carries no ID *)
Theorem C08_dictid_recorded_refuted_before_fix :
  C08DictId.run false C08DictId.init [C08DictId.SetIdFlag false; C08DictId.Load 5; C08DictId.Compress; C08DictId.SetIdFlag true; C08DictId.Compress] =
    [{| C08DictId.e_header := 0; C08DictId.e_flag := false; C08DictId.e_used := 5 |};
     {| C08DictId.e_header := 0; C08DictId.e_flag := true; C08DictId.e_used := 5 |}].
Proof. exact (proj1 C08DictId.dictid_recorded_refuted_before_fix). Qed.
Print Assumptions C08_dictid_recorded_refuted_before_fix.

(* attached CDict: for every content size, strategy class (tagged tables or not), repeat offsets the loader admits and position of the
   block, the index probed for a repeat offset does not wrap and lies inside dictionary + prefix, given the decision of
   ZSTD_shouldAttachDict since fix dd32199 *)
Theorem C08_attach_rep_index_in_range : forall tagged content reps r curr,
  C08Attach.loader_ok content reps -> C08Attach.may_attach true tagged content reps = true -> In r reps ->
  C08Attach.prefix_start tagged content <= curr -> curr + 1 < C08Attach.U32 ->
  C08Attach.rep_index curr r = curr + 1 - r /\ C08Attach.dict_start < C08Attach.rep_index curr r <= curr.
Proof. exact C08Attach.attach_rep_index_in_range. Qed.
Print Assumptions C08_attach_rep_index_in_range.

(* the copy path taken instead: an offset beyond the reachable history is zeroed before the first probe *)
Theorem C08_copy_rep_sanitized : forall windowLow curr rep,
  windowLow <= curr -> curr + 1 < C08Attach.U32 ->
  let r := C08Attach.sanitize (curr - windowLow) rep in
  r = 0 \/ (C08Attach.rep_index curr r = curr + 1 - r /\ windowLow < C08Attach.rep_index curr r).
Proof. exact C08Attach.copy_rep_sanitized. Qed.
Print Assumptions C08_copy_rep_sanitized.

(* before the fix: content 17,000,000, repeat offset = content size, tagged tables: attached, and the probe index wraps to 4294744513 *)
Theorem C08_attach_refuted_before_fix :
  C08Attach.loader_ok 17000000 [17000000; 4; 8] /\ C08Attach.may_attach false true 17000000 [17000000; 4; 8] = true /\
  let curr := C08Attach.prefix_start true 17000000 in
  C08Attach.rep_index curr 17000000 = 4294744513 /\ curr < C08Attach.rep_index curr 17000000 /\
  3 <= (C08Attach.prefix_start true 17000000 - 1 + C08Attach.U32 - C08Attach.rep_index curr 17000000) mod C08Attach.U32.
Proof. exact C08Attach.attach_refuted_before_fix. Qed.
Print Assumptions C08_attach_refuted_before_fix.

(* ---- round 3: re-use of the dictionary's FSE tables by the compressor (coq/Codec/C08Repeat.v) ---- *)
(* a table the loader marks "valid" (ZSTD_dictNCountRepeat) encodes every symbol up to the bound it was checked against *)
Theorem C08_loader_valid_mark_covers : forall l dms maxSym s,
  C08Repeat.ncount_repeat l dms maxSym = C08Repeat.RValid -> s <= maxSym ->
  C08Repeat.enc {| C08Repeat.tb_cnt := l; C08Repeat.tb_max := dms |} s.
Proof. exact C08Repeat.valid_covers. Qed.
Print Assumptions C08_loader_valid_mark_covers.

(* every offset a match of the first block can have (position p of a block of at most 128 KB, at least 3 bytes long, back to the
   dictionary content of c bytes or to the block itself) has an offset code within the bound ZSTD_loadCEntropy checked *)
Theorem C08_first_block_offcodes_within_loader_bound : forall c B p back,
  c <= C08Repeat.U32MAX - C08Repeat.KB128 -> B <= C08Repeat.KB128 -> p + 3 <= B -> back <= p + c ->
  C08Repeat.of_code back <= C08Repeat.of_bound c /\ C08Repeat.of_code back <= C08Repeat.MaxOff.
Proof. exact C08Repeat.first_block_offcode_le. Qed.
Print Assumptions C08_first_block_offcodes_within_loader_bound.

(* offset codes: whatever the dictionary's counters, content size, strategy, block history (raw / RLE / compressed blocks) and cost
   values, a block that re-uses the table in force (set_repeat) only contains codes that table can encode *)
Theorem C08_dictionary_offcode_table_reuse_safe : forall strategy da dnl l dms c blocks,
  C08Repeat.bounded C08Repeat.MaxOff (C08Repeat.of_bound c) blocks ->
  Forall (fun x => let '(e, t, used) := x in e = C08Repeat.Repeat -> Forall (C08Repeat.enc t) used)
         (C08Repeat.trace strategy da dnl true ({| C08Repeat.tb_cnt := l; C08Repeat.tb_max := dms |}, C08Repeat.of_mode l dms c) blocks).
Proof. exact C08Repeat.of_table_reuse_safe. Qed.
Print Assumptions C08_dictionary_offcode_table_reuse_safe.

(* literal-length and match-length codes: same statement, no downgrade needed *)
Theorem C08_dictionary_llml_table_reuse_safe : forall strategy da dnl l dms maxSym blocks,
  C08Repeat.bounded maxSym maxSym blocks ->
  Forall (fun x => let '(e, t, used) := x in e = C08Repeat.Repeat -> Forall (C08Repeat.enc t) used)
         (C08Repeat.trace strategy da dnl false ({| C08Repeat.tb_cnt := l; C08Repeat.tb_max := dms |}, C08Repeat.ncount_repeat l dms maxSym) blocks).
Proof. exact C08Repeat.llml_table_reuse_safe. Qed.
Print Assumptions C08_dictionary_llml_table_reuse_safe.

(* without the valid -> check downgrade after the first block the offset-code table is re-used for a code the loader never looked at *)
Theorem C08_offcode_reuse_refuted_without_downgrade :
  map (fun x => let '(e, t, used) := x in (e, C08Repeat.cost_ok t used))
      (C08Repeat.trace 1 true 5 false ({| C08Repeat.tb_cnt := C08Repeat.ex_tab; C08Repeat.tb_max := 18 |}, C08Repeat.of_mode C08Repeat.ex_tab 18 1000)
                       [C08Repeat.ex_blk [3; 5]; C08Repeat.ex_blk [3; C08Repeat.of_code 300000]])
  = [(C08Repeat.Repeat, true); (C08Repeat.Repeat, false)].
Proof. exact C08Repeat.no_downgrade_refuted. Qed.
Print Assumptions C08_offcode_reuse_refuted_without_downgrade.

(* ---- round 3: validity of an attached dictionary while input segments arrive at arbitrary addresses (coq/Codec/C08Window.v) ---- *)
(* block mode (ZSTD_compressBlock, with the test of fix 00d59f3): for every history of segments (address, size, forced non-contiguity),
   while the dictionary is attached the prefix starts where this session's output began and holds every byte produced so far *)
Theorem C08_block_mode_attached_dictionary_aligned : forall b db e segs,
  Forall C08Window.seg_ok segs -> C08Window.inv (fold_left (C08Window.block_step true) segs (C08Window.attach b db e)).
Proof. exact C08Window.block_mode_attached_dictionary_aligned. Qed.
Print Assumptions C08_block_mode_attached_dictionary_aligned.

(* frame mode (ZSTD_compressContinue: ZSTD_checkDictValidity + ZSTD_window_enforceMaxDist per block), any window size, any cut into blocks *)
Theorem C08_frame_mode_attached_dictionary_aligned : forall md b db e segs,
  Forall C08Window.fseg_ok segs -> C08Window.inv (fold_left (C08Window.frame_step md) segs (C08Window.attach b db e)).
Proof. exact C08Window.frame_mode_attached_dictionary_aligned. Qed.
Print Assumptions C08_frame_mode_attached_dictionary_aligned.

(* whenever the dictionary-aware block compressors run (attached, no extDict segment) the index translation is the decoder's distance *)
Theorem C08_block_mode_dictionary_use_aligned : forall b db e segs,
  Forall C08Window.seg_ok segs ->
  let s := fold_left (C08Window.block_step true) segs (C08Window.attach b db e) in C08Window.uses_dict s = true -> C08Window.aligned s.
Proof. exact C08Window.block_mode_dictionary_use_aligned. Qed.
Print Assumptions C08_block_mode_dictionary_use_aligned.

(* block mode before 00d59f3: three blocks (the third written over the second) leave the dictionary in use with the prefix 2000 bytes late *)
Theorem C08_block_mode_refuted_before_fix :
  let s := fold_left (C08Window.block_step false) C08Window.ex_hist (C08Window.attach 10 10 1000) in
  C08Window.uses_dict s = true /\ C08Window.dictLimit (C08Window.w s) = 3000%Z /\ C08Window.lde s = 1000%Z /\ C08Window.total s = 4000%Z /\
  (C08Window.nextSrc (C08Window.w s) - C08Window.base (C08Window.w s) = 5000)%Z.
Proof. exact C08Window.block_mode_refuted_before_fix. Qed.
Print Assumptions C08_block_mode_refuted_before_fix.

(* ---- round 3, following fix d0ddbff: a dictionary LOADED into the decompression context is the current one until a call replaces it ---- *)
(* every hash function, history of referenced DDicts, current dictionary (referenced or loaded) and frame dictID: decoded with a dictionary
   carrying the ID the frame names, or it names none and the current one serves, or refused *)
Theorem C08_multi_ddict_selection_with_loaded_dictionary : forall (h : N -> N) (l : list DDictHashSet.entry) (s : DDictHashSet.hset) (local : bool)
    (active : DDictHashSet.entry) (fid : N),
  DDictHashSet.add_all h DDictHashSet.next_fixed l DDictHashSet.create = DDictHashSet.HOk s ->
  match C08Select.select_cur h s local active fid with
  | C08Select.Decode e => (fid = 0 /\ e = active) \/ (fid <> 0 /\ fst e = fid)
  | C08Select.Refuse => fid <> 0 /\ fst active <> fid
  | C08Select.Broken => False
  end.
Proof. exact C08Select.select_cur_names_frame_dictionary. Qed.
Print Assumptions C08_multi_ddict_selection_with_loaded_dictionary.

(* the loaded dictionary is never replaced by a frame, whatever the table of referenced DDicts holds *)
Theorem C08_loaded_dictionary_never_replaced : forall (h : N -> N) (s : DDictHashSet.hset) (active e : DDictHashSet.entry) (fid : N),
  C08Select.select_cur h s true active fid = C08Select.Decode e -> e = active.
Proof. exact C08Select.loaded_dictionary_never_replaced. Qed.
Print Assumptions C08_loaded_dictionary_never_replaced.

(* "the whole dictionary is referencable while its last byte is within the window, then dropped": after the per-block calls of
   ZSTD_compress_frameChunk (ZSTD_checkDictValidity, ZSTD_window_enforceMaxDist) any match index the finders may return for a position of
   the block (>= ZSTD_getLowestMatchIndex) obeys the format's window rule as the reference decoder states it (Block.offset_ok) *)
Theorem C08_frame_mode_match_obeys_window_rule : forall s ip bs md f0 curr m,
  (0 <= md)%Z -> (C08Window.lde s = f0 \/ C08Window.lde s = 0%Z) -> (f0 <= ip - C08Window.base (C08Window.w s))%Z ->
  let s' := C08Window.enforce_max_dist (C08Window.check_dict_validity s (ip + bs) md) ip md in
  (ip - C08Window.base (C08Window.w s) <= curr < ip + bs - C08Window.base (C08Window.w s))%Z ->
  (C08Window.lowest_match_index s' curr md <= m < curr)%Z ->
  C08Window.format_window_rule md (curr - f0) (curr - m).
Proof. exact C08Window.frame_mode_match_obeys_window_rule. Qed.
Print Assumptions C08_frame_mode_match_obeys_window_rule.
