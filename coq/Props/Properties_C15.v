(* C15 - correctness does not wear out: index overflow correction, table reduction, unbounded histories.
   Only statements here; proofs are in coq/Index/*Proofs.v. *)
From Coq Require Import ZArith List Bool.
From ZV.Index Require Import Window Reduce Overflow History OverflowProofs.
Import ListNotations.
Local Open Scope Z_scope.

Theorem correction_preserves_window :
  forall (w : window) (cl wl src : Z),
    params_ok cl wl -> window_bounded w ->
    0 <= src - base w < two32 ->
    minIndexToOverflowCorrect cl wl <= src - base w ->
    let curr := src - base w in
    let '(w', corr) := window_correctOverflow w cl (2 ^ wl) src in
    let newCurrent := src - base w' in
    0 < corr < two32 /\ newCurrent = curr - corr /\ idx w' src = newCurrent /\
    2 ^ wl + START <= newCurrent /\
    newCurrent <= 2 ^ cl + Z.max (2 ^ wl) (2 ^ cl) + 1 /\
    Z.land newCurrent (2 ^ cl - 1) = Z.land curr (2 ^ cl - 1) /\
    START <= lowLimit w' /\ START <= dictLimit w' /\
    (lowLimit w <= dictLimit w -> lowLimit w' <= dictLimit w') /\
    (dictLimit w <= curr -> dictLimit w' <= newCurrent) /\
    (lowLimit w <= curr -> lowLimit w' <= newCurrent) /\
    nextSrc w' = nextSrc w /\ dictBase w' - base w' = dictBase w - base w /\
    nbOvf w' = u32 (nbOvf w + 1) /\
    (forall i, corr + START <= i <= curr ->
       base w' + (i - corr) = base w + i /\ dictBase w' + (i - corr) = dictBase w + i /\
       newCurrent - (i - corr) = curr - i /\
       (lowLimit w <= i -> lowLimit w' <= i - corr) /\
       (dictLimit w <= i -> dictLimit w' <= i - corr) /\
       (i < dictLimit w -> i - corr < dictLimit w')) /\
    (forall i, i <= curr -> curr - i <= 2 ^ wl -> corr + START <= i).
Proof. exact correction_preserves_window_lemma. Qed.
Print Assumptions correction_preserves_window.
