(* C15 - correctness does not wear out: index overflow correction, table reduction, unbounded histories.
   Only statements here; models are in coq/Index/{Window,Reduce,Overflow,History}.v, proofs in
   coq/Index/*Proofs.v.  Constants (START = ZSTD_WINDOW_START_INDEX, CURRENT_MAX, CHUNKSIZE_MAX, BLOCKSIZE_MAX,
   INDEXOVERFLOW_MARGIN, CHAINLOG_MAX, WINDOWLOG_MAX, ...) are regenerated from the current headers. *)
From Coq Require Import ZArith List Bool.
From ZV.Index Require Import Window Reduce Overflow History MtJobs
     OverflowProofs ReduceProofs CorrectProofs WindowProofs HistoryProofs TableProofs MtJobsProofs MtSerialProofs AttachProofs.
Import ListNotations.
Local Open Scope Z_scope.

(* 1. ZSTD_window_correctOverflow: once the index is at least minIndexToOverflowCorrect, the correction is a
   genuine reduction computed without wrap-around; the full window stays addressable above the reserved
   indices; chain / binary-tree position bits are unchanged; every index that can still be referenced keeps
   its byte, its distance and its validity. *)
Theorem correction_preserves_window :
  forall (w : window) (cl wl src : Z),
    params_ok cl wl -> window_bounded w ->
    0 <= src - base w < two32 ->
    minIndexToOverflowCorrect cl wl <= src - base w ->
    let curr := src - base w in
    let '(w', corr) := window_correctOverflow w cl (2 ^ wl) src in
    let newCurrent := src - base w' in
    0 < corr < two32 /\ newCurrent = curr - corr /\ idx w' src = newCurrent /\
    2 ^ wl + START <= newCurrent /\
    newCurrent <= 2 ^ cl + Z.max (2 ^ wl) (2 ^ cl) + 1 /\
    Z.land newCurrent (2 ^ cl - 1) = Z.land curr (2 ^ cl - 1) /\
    START <= lowLimit w' /\ START <= dictLimit w' /\
    (lowLimit w <= dictLimit w -> lowLimit w' <= dictLimit w') /\
    (dictLimit w <= curr -> dictLimit w' <= newCurrent) /\
    (lowLimit w <= curr -> lowLimit w' <= newCurrent) /\
    nextSrc w' = nextSrc w /\ dictBase w' - base w' = dictBase w - base w /\
    nbOvf w' = u32 (nbOvf w + 1) /\
    (forall i, corr + START <= i <= curr ->
       base w' + (i - corr) = base w + i /\ dictBase w' + (i - corr) = dictBase w + i /\
       newCurrent - (i - corr) = curr - i /\
       (lowLimit w <= i -> lowLimit w' <= i - corr) /\
       (dictLimit w <= i -> dictLimit w' <= i - corr) /\
       (i < dictLimit w -> i - corr < dictLimit w')) /\
    (forall i, i <= curr -> curr - i <= 2 ^ wl -> corr + START <= i).
Proof. exact correction_preserves_window_lemma. Qed.
Print Assumptions correction_preserves_window.

(* 2. the trigger (ZSTD_window_needOverflowCorrection, either build) establishes that precondition whenever
   the segment being processed is short enough for the parameters ... *)
Theorem need_implies_correctable :
  forall freq w cl wl lde src srcEnd n,
    params_ok cl wl ->
    0 <= src - base w -> src <= srcEnd -> srcEnd - base w < two32 -> srcEnd - src <= n ->
    minIndexToOverflowCorrect cl wl + n <= CURRENT_MAX + 1 ->
    window_needOverflowCorrection freq w cl (2 ^ wl) lde src srcEnd = true ->
    minIndexToOverflowCorrect cl wl <= src - base w.
Proof. exact need_implies_correctable_lemma. Qed.
Print Assumptions need_implies_correctable.

(* ... which blocks (<= ZSTD_BLOCKSIZE_MAX) always are ... *)
Theorem block_size_is_short_enough :
  forall cl wl, params_ok cl wl -> minIndexToOverflowCorrect cl wl + BLOCKSIZE_MAX <= CURRENT_MAX + 1.
Proof. exact block_size_condition. Qed.
Print Assumptions block_size_is_short_enough.

(* ... and chunks of ZSTD_CHUNKSIZE_MAX are, except for windowLog = 31 with cycleLog = 30 *)
Theorem chunk_size_is_short_enough :
  forall cl wl, params_ok cl wl -> (cl <= 29 \/ wl <= 30) ->
    minIndexToOverflowCorrect cl wl + CHUNKSIZE_MAX <= CURRENT_MAX + 1.
Proof. exact chunk_size_condition. Qed.
Print Assumptions chunk_size_is_short_enough.

Theorem chunk_size_corner_is_not :
  minIndexToOverflowCorrect 30 31 + CHUNKSIZE_MAX > CURRENT_MAX + 1.
Proof. exact chunk_size_condition_corner. Qed.
Print Assumptions chunk_size_corner_is_not.

(* 3. ZSTD_reduceTable_internal, cell by cell, including the row batching and the unsorted mark *)
Theorem reduce_table_sound :
  forall (t : list Z) (size r : Z) (pm : bool) (k : nat),
    0 <= r -> r + START < two32 -> 0 <= size ->
    (forall e, In e t -> 0 <= e < two32) ->
    (k < length t)%nat ->
    let e := nth k t 0 in
    let e' := nth k (reduceTable_internal t size r pm) 0 in
    length (reduceTable_internal t size r pm) = length t /\
    (Z.of_nat k < ROWSIZE * (size / ROWSIZE) ->
       (pm = true -> e = DUBT_UNSORTED_MARK -> e' = DUBT_UNSORTED_MARK) /\
       ((pm = false \/ e <> DUBT_UNSORTED_MARK) -> e < r + START -> e' = 0) /\
       ((pm = false \/ e <> DUBT_UNSORTED_MARK) -> r + START <= e -> e' = e - r /\ START <= e' < two32)) /\
    (ROWSIZE * (size / ROWSIZE) <= Z.of_nat k -> e' = e).
Proof. exact reduce_table_sound_lemma. Qed.
Print Assumptions reduce_table_sound.

Theorem unsorted_mark_is_reserved : DUBT_UNSORTED_MARK < START.
Proof. exact mark_below_start. Qed.
Print Assumptions unsorted_mark_is_reserved.

Theorem ldm_reduce_sound :
  forall (t : list Z) (r : Z) (k : nat),
    0 <= r < two32 -> (forall e, In e t -> 0 <= e < two32) -> (k < length t)%nat ->
    let e := nth k t 0 in
    let e' := nth k (ldm_reduceTable t r) 0 in
    length (ldm_reduceTable t r) = length t /\
    (e < r -> e' = 0) /\ (r <= e -> e' = e - r).
Proof. exact ldm_reduce_sound_lemma. Qed.
Print Assumptions ldm_reduce_sound.

(* 4. ZSTD_overflowCorrectIfNeeded as a whole: window, dictionaries, nextToUpdate, tables *)
Theorem overflow_correction_sound :
  forall freq ms p ip iend n,
    cparams_ok p -> ms_bounded ms ->
    let w := ms_window ms in
    let cl := cycleLog_of (p_chainLog p) (p_strategy p) in
    let wl := p_windowLog p in
    0 <= ip - base w -> ip <= iend -> iend - base w < two32 -> iend - ip <= n ->
    minIndexToOverflowCorrect cl wl + n <= CURRENT_MAX + 1 ->
    match overflowCorrectIfNeeded freq ms p ip iend with
    | (ms', None) => ms' = ms /\ iend - base w <= CURRENT_MAX
    | (ms', Some corr) =>
        let w' := ms_window ms' in
        (w', corr) = window_correctOverflow w cl (2 ^ wl) ip /\
        0 < corr < two32 /\
        ip - base w' = ip - base w - corr /\
        2 ^ wl + START <= ip - base w' <= 2 ^ cl + Z.max (2 ^ wl) (2 ^ cl) + 1 /\
        ms_loadedDictEnd ms' = 0 /\ ms_dms ms' = false /\
        (corr <= ms_nextToUpdate ms ->
           ms_nextToUpdate ms' = ms_nextToUpdate ms - corr /\
           base w' + ms_nextToUpdate ms' = base w + ms_nextToUpdate ms) /\
        (ms_nextToUpdate ms < corr -> ms_nextToUpdate ms' = 0) /\
        ms_tables ms' = reduceIndex (ms_tables ms) (ms_hashLog3 ms) (ms_dds ms) p corr /\
        ms_hashLog3 ms' = ms_hashLog3 ms /\ ms_dds ms' = ms_dds ms
    end.
Proof. exact overflow_correction_sound_lemma. Qed.
Print Assumptions overflow_correction_sound.

(* a table entry that can still be referenced designates the same byte after the correction *)
Theorem entry_keeps_its_byte :
  forall w w' corr cl wl src e pm,
    params_ok cl wl -> window_bounded w -> 0 <= src - base w < two32 ->
    minIndexToOverflowCorrect cl wl <= src - base w ->
    window_correctOverflow w cl (2 ^ wl) src = (w', corr) ->
    corr + START <= e <= src - base w ->
    reduce_cell corr pm e = e - corr /\ base w' + reduce_cell corr pm e = base w + e /\
    (src - base w') - reduce_cell corr pm e = (src - base w) - e.
Proof. exact CorrectProofs.entry_keeps_its_byte. Qed.
Print Assumptions entry_keeps_its_byte.

(* 5. the long-distance matcher's own window: one chunk step of ZSTD_ldm_generateSequences *)
Theorem ldm_correction :
  forall freq s wl chunkStart chunkEnd,
    0 <= wl <= WINDOWLOG_MAX ->
    let w := ldm_window s in
    window_bounded w -> 0 <= ldm_loadedDictEnd s <= chunkStart - base w ->
    0 <= chunkStart - base w -> chunkStart <= chunkEnd -> chunkEnd - base w < two32 ->
    chunkEnd - chunkStart <= CHUNKSIZE_MAX ->
    lowLimit w <= dictLimit w -> dictLimit w <= chunkStart - base w ->
    let '(s', corr) := ldm_chunk_step freq s wl chunkStart chunkEnd in
    let w' := ldm_window s' in
    0 <= lowLimit w' /\ 0 <= nbOvf w' < two32 /\
    lowLimit w' <= dictLimit w' /\ dictLimit w' <= chunkEnd - base w' /\
    0 <= chunkEnd - base w' < two32 /\
    (ldm_loadedDictEnd s' = 0 \/ (ldm_loadedDictEnd s' = ldm_loadedDictEnd s /\ corr = None)) /\
    match corr with
    | None => base w' = base w /\ ldm_table s' = ldm_table s /\ chunkEnd - base w <= CURRENT_MAX
    | Some c =>
        0 < c < two32 /\ base w' = base w + c /\
        2 ^ wl + START <= chunkStart - base w' <= 2 ^ wl + 2 /\
        ldm_table s' = ldm_reduceTable (ldm_table s) c /\
        (forall e, e <= chunkStart - base w -> (chunkStart - base w) - e <= 2 ^ wl ->
           ldm_reduce_cell c e = e - c /\ base w' + (e - c) = base w + e)
    end.
Proof. exact ldm_correction_lemma. Qed.
Print Assumptions ldm_correction.

(* 6. ZSTD_window_update *)
Theorem window_update_sound :
  forall w src size force,
    window_wf w -> 0 < size ->
    src + size - dictBase w < two64 -> src + size - base w < two64 ->
    let c := nextSrc w - base w in
    let '(w', contiguous) := window_update w src size force in
    nextSrc w' = src + size /\ src - base w' = c /\ nextSrc w' - base w' = c + size /\
    0 <= lowLimit w' /\ lowLimit w' <= dictLimit w' /\ dictLimit w' <= c /\ nbOvf w' = nbOvf w /\
    (contiguous = true <-> (src = nextSrc w /\ force = false)) /\
    (contiguous = true -> base w' = base w /\ dictBase w' = dictBase w /\ dictLimit w' = dictLimit w) /\
    (contiguous = false -> dictLimit w' = c /\ dictBase w' = base w) /\
    (lowLimit w' = dictLimit w' \/ src + size <= dictBase w' + lowLimit w' \/ dictBase w' + dictLimit w' <= src).
Proof. exact window_update_sound_lemma. Qed.
Print Assumptions window_update_sound.

(* 7. ZSTD_window_enforceMaxDist *)
Theorem enforceMaxDist_sound :
  forall w blockEnd wl lde dms,
    0 <= wl <= WINDOWLOG_MAX ->
    0 <= lowLimit w -> lowLimit w <= dictLimit w ->
    let be := blockEnd - base w in
    dictLimit w <= be -> be < two32 -> 0 <= lde <= be ->
    let '(w', lde', dms') := window_enforceMaxDist w blockEnd (2 ^ wl) (Some lde) (Some dms) in
    base w' = base w /\ dictBase w' = dictBase w /\ nextSrc w' = nextSrc w /\ nbOvf w' = nbOvf w /\
    lowLimit w <= lowLimit w' /\ lowLimit w' <= dictLimit w' /\ dictLimit w' <= be /\
    dictLimit w <= dictLimit w' /\
    ((w' = w /\ lde' = Some lde /\ dms' = Some dms /\ (be <= 2 ^ wl + lde \/ two32 <= 2 ^ wl + lde)) \/
     (lde' = Some 0 /\ dms' = Some false /\ be - lowLimit w' <= 2 ^ wl /\
      lowLimit w' = Z.max (lowLimit w) (be - 2 ^ wl) /\ dictLimit w' = Z.max (dictLimit w) (lowLimit w'))).
Proof. exact enforceMaxDist_sound_lemma. Qed.
Print Assumptions enforceMaxDist_sound.

(* 8. ZSTD_checkDictValidity: the dictionary is dropped exactly when it has scrolled out of range *)
Theorem dict_scrolls_out :
  forall w blockEnd wl lde dms,
    0 <= wl <= WINDOWLOG_MAX ->
    let be := blockEnd - base w in
    0 <= be < two32 -> 0 <= lde -> 2 ^ wl + lde < two32 ->
    let '(lde', dms') := checkDictValidity w blockEnd (2 ^ wl) lde dms in
    ((be > lde + 2 ^ wl \/ lde <> dictLimit w) -> lde' = 0 /\ dms' = false) /\
    (be <= lde + 2 ^ wl -> lde = dictLimit w -> lde' = lde /\ dms' = dms).
Proof. exact dict_scrolls_out_lemma. Qed.
Print Assumptions dict_scrolls_out.

(* 9. ZSTD_getLowestMatchIndex / ZSTD_getLowestPrefixIndex *)
Theorem lowest_match_within_window :
  forall lowestValid curr wl lde,
    0 <= wl <= WINDOWLOG_MAX -> 0 <= lowestValid <= curr -> curr < two32 ->
    let m := lowest_index lowestValid curr wl lde in
    lowestValid <= m <= curr /\
    (lde = 0 -> curr - m <= 2 ^ wl /\ (m = lowestValid \/ m = curr - 2 ^ wl)) /\
    (lde <> 0 -> m = lowestValid).
Proof. exact lowest_index_sound_lemma. Qed.
Print Assumptions lowest_match_within_window.

(* 10. the index reset policy of ZSTD_resetCCtx_internal (ZSTD_indexTooCloseToMax / ZSTD_dictTooBig):
   a frame starts either on a fresh referential or at least ZSTD_INDEXOVERFLOW_MARGIN below ZSTD_CURRENT_MAX
   with a dictionary of at most ZSTD_CHUNKSIZE_MAX still to load *)
Theorem needsIndexReset_sound :
  forall ms lds forced lit h3,
    ms_inv ms (nextSrc (ms_window ms)) CB -> 0 <= lds ->
    let doReset := needsIndexReset (ms_window ms) lds forced in
    let ms1 := reset_matchState ms doReset lit h3 in
    let w1 := ms_window ms1 in
    let c1 := nextSrc w1 - base w1 in
    lowLimit w1 = c1 /\ dictLimit w1 = c1 /\ 0 <= nbOvf w1 < two32 /\ ms_loadedDictEnd ms1 = 0 /\
    ((doReset = true /\ c1 = START) \/
     (doReset = false /\ c1 <= CURRENT_MAX - INDEXOVERFLOW_MARGIN /\ lds <= CHUNKSIZE_MAX /\ 0 <= c1)) /\
    (doReset = true \/ exact_idx (ms_window ms) (nextSrc (ms_window ms)) = true).
Proof. exact reset_inv. Qed.
Print Assumptions needsIndexReset_sound.

(* 11. ... so that ZSTD_loadDictionaryContent (with its truncations and its own overflow correction) ends
   with every index exact *)
Theorem dictionary_load_fits :
  forall freq ms ls p src size fw drp,
    cparams_ok p -> HASH_READ_SIZE <= size ->
    let w := ms_window ms in
    let c := nextSrc w - base w in
    lowLimit w = c -> dictLimit w = c -> 0 <= nbOvf w < two32 -> ms_loadedDictEnd ms = 0 ->
    (c = START \/ (0 <= c <= CURRENT_MAX - INDEXOVERFLOW_MARGIN /\ size <= CHUNKSIZE_MAX)) ->
    let '(ms', _, _, _) := loadDictionaryContent freq ms ls p src size fw drp false in
    ms_inv ms' (src + size) CB /\ nextSrc (ms_window ms') = src + size /\
    (c = START -> (src + size) - base (ms_window ms') <= CURRENT_MAX).
Proof. exact loadDict_inv. Qed.
Print Assumptions dictionary_load_fits.

(* 12. THE "does not wear out" statement.  For every history - any number of frames, dictionaries,
   parameter changes, chunks, blocks, corrections, in either build - whose operations respect the sizes the
   code itself enforces (blocks <= ZSTD_BLOCKSIZE_MAX, legal parameters), starting from any state satisfying
   the invariant (a new context does), the invariant holds afterwards and every U32 index the match-state
   window computed along the way was the exact pointer difference.  No total size appears. *)
Theorem index_never_overflows :
  forall freq ops h, Inv h -> Forall op_ok ops -> Inv (run freq h ops) /\ run_ok_ms freq h ops = true.
Proof. exact index_never_overflows_lemma. Qed.
Print Assumptions index_never_overflows.

Theorem new_context_satisfies_invariant : forall p, cparams_ok p -> Inv (h_init p).
Proof. exact Inv_init. Qed.
Print Assumptions new_context_satisfies_invariant.

Theorem invariant_meaning :
  forall h, Inv h ->
  let w := ms_window (h_ms h) in
  0 <= lowLimit w /\ lowLimit w <= dictLimit w /\ dictLimit w <= nextSrc w - base w /\
  nextSrc w - base w <= CURRENT_MAX + CHUNKSIZE_MAX - BLOCKSIZE_MAX /\
  nextSrc w - base w + BLOCKSIZE_MAX < two32.
Proof. exact Inv_meaning. Qed.
Print Assumptions invariant_meaning.

(* 13. the contract of ZSTD_CHUNKSIZE_MAX (chunk machine: window update + correction per chunk) *)
Theorem chunk_machine_never_overflows :
  forall freq ops h, InvC h -> Forall chunk_op_ok ops -> InvC (run freq h ops) /\ run_ok_ms freq h ops = true.
Proof. exact chunk_machine_never_overflows_lemma. Qed.
Print Assumptions chunk_machine_never_overflows.

(* 14. the LDM window, as long as every byte goes through the chunk step ... *)
Theorem ldm_index_never_overflows :
  forall freq wl sizes s p,
    0 <= wl <= WINDOWLOG_MAX -> ldm_inv s p -> Forall (fun n => 0 < n <= CHUNKSIZE_MAX) sizes ->
    ldm_inv (ldm_run freq s wl p sizes) (p + sumZ sizes) /\ ldm_run_ok freq s wl p sizes = true.
Proof. exact ldm_index_never_overflows_lemma. Qed.
Print Assumptions ldm_index_never_overflows.

(* ... which blocks below 7 bytes do not (see docs/C15.md, "LDM window and tiny blocks") *)
Theorem ldm_tiny_blocks_unchecked :
  forall freq blocks h ip l,
    h_ldm h = Some l -> Forall (fun b => 0 < b < TINY_BLOCK) blocks ->
    h_ldm (frame_blocks freq h ip blocks) = Some l.
Proof. exact ldm_tiny_blocks_unchecked_lemma. Qed.
Print Assumptions ldm_tiny_blocks_unchecked.

(* 15. a rebased table cell never designates another position: it becomes 0 (invalid), stays the preserved
   unsorted mark, or is the old index minus the correction, which with base' = base + correction is the SAME
   address (b, b' are the window bases before / after; the same holds for dictBase) *)
Theorem reduced_entry_same_position_or_invalid :
  forall r pm e (b b' : Z),
    0 <= e < two32 -> 0 <= r -> r + START < two32 -> b' = b + r ->
    let e' := reduce_cell r pm e in
    e' = 0 \/ (pm = true /\ e = DUBT_UNSORTED_MARK /\ e' = DUBT_UNSORTED_MARK) \/
    (START <= e' /\ e' = e - r /\ b' + e' = b + e).
Proof. exact reduce_cell_never_moves_lemma. Qed.
Print Assumptions reduced_entry_same_position_or_invalid.

Theorem ldm_reduced_entry_same_position_or_invalid :
  forall r e (b b' : Z),
    0 <= e < two32 -> 0 <= r -> b' = b + r ->
    let e' := ldm_reduce_cell r e in
    e' = 0 \/ (e' = e - r /\ b' + e' = b + e).
Proof. exact ldm_reduce_cell_never_moves_lemma. Qed.
Print Assumptions ldm_reduced_entry_same_position_or_invalid.

(* 16. no stored index is ever "in the future": for every history (same operations as in 12, in either build)
   in which the tables have the sizes of the parameters in force when a correction can run, the match finder
   only stores positions at or below the current index, a CDict is attached to an empty window and copied over
   cleared tables (op_okT: what the library does at those points), every cell of hashTable / chainTable /
   hashTable3 and nextToUpdate stay at or below the current index nextSrc - base - through every window
   update, index reset, dictionary load, rebasing and btultra2 first pass.  A table that misses a rebasing
   breaks exactly this. *)
Theorem tables_stay_below_current :
  forall freq ops h,
    Inv h -> TInv h -> Forall op_ok ops -> hist_okT freq h ops -> TInv (run freq h ops).
Proof. exact tables_stay_below_current_lemma. Qed.
Print Assumptions tables_stay_below_current.

Theorem new_context_tables_invariant : forall p, TInv (h_init p).
Proof. exact TInv_init. Qed.
Print Assumptions new_context_tables_invariant.

Theorem tables_invariant_meaning :
  forall h, TInv h ->
  let ms := h_ms h in
  let c := nextSrc (ms_window ms) - base (ms_window ms) in
  (forall e, In e (hashTable (ms_tables ms)) \/ In e (chainTable (ms_tables ms)) \/ In e (hashTable3 (ms_tables ms)) ->
             0 <= e <= c) /\
  0 <= ms_nextToUpdate ms <= c.
Proof. exact TInv_meaning. Qed.
Print Assumptions tables_invariant_meaning.

(* one ZSTD_overflowCorrectIfNeeded keeps the cells and nextToUpdate at or below the index of ip *)
Theorem overflow_correction_keeps_tables_below :
  forall freq ms p ip iend q B,
    cparams_ok p ->
    let w := ms_window ms in
    0 <= lowLimit w -> lowLimit w <= dictLimit w -> dictLimit w <= ip - base w -> ip - base w <= B ->
    0 <= nbOvf w < two32 -> ip <= q -> 0 <= ms_loadedDictEnd ms <= q - base w ->
    ip <= iend -> iend - base w < two32 ->
    let cl := cycleLog_of (p_chainLog p) (p_strategy p) in
    let wl := p_windowLog p in
    (minIndexToOverflowCorrect cl wl + (iend - ip) <= CURRENT_MAX + 1 \/ iend - ip <= CHUNKSIZE_MAX \/
     iend - base w <= CURRENT_MAX) ->
    tables_sized p (ms_hashLog3 ms) (ms_dds ms) (ms_tables ms) ->
    tables_le (ip - base w) (ms_tables ms) -> 0 <= ms_nextToUpdate ms <= ip - base w ->
    let ms' := fst (overflowCorrectIfNeeded freq ms p ip iend) in
    let w' := ms_window ms' in
    tables_le (ip - base w') (ms_tables ms') /\ 0 <= ms_nextToUpdate ms' <= ip - base w' /\
    tables_sized p (ms_hashLog3 ms') (ms_dds ms') (ms_tables ms') /\
    ms_hashLog3 ms' = ms_hashLog3 ms /\ ms_dds ms' = ms_dds ms.
Proof. exact ovf_tables. Qed.
Print Assumptions overflow_correction_keeps_tables_below.

(* 17. the LDM hash table, chunk steps interleaved with whatever the long-distance matcher stores (a cell is
   left alone or receives a position of the data seen so far): no cell above the LDM window's current index *)
Theorem ldm_table_stays_below_current :
  forall freq wl steps s p,
    0 <= wl <= WINDOWLOG_MAX -> ldm_inv s p -> tbl_le (p - base (ldm_window s)) (ldm_table s) ->
    ldm_steps_ok freq s wl p steps ->
    let s' := ldm_run_f freq s wl p steps in
    ldm_inv s' (p + sum_fst steps) /\ tbl_le (p + sum_fst steps - base (ldm_window s')) (ldm_table s').
Proof. exact ldm_table_stays_below_current_lemma. Qed.
Print Assumptions ldm_table_stays_below_current.

(* ------------------------------------------------------------------------------------------------------------
   Round 2: the counters of the multithreaded compressor that grow with the length of one frame (MtJobs.v).
   ------------------------------------------------------------------------------------------------------------ *)

(* 18. ZSTDMT job bookkeeping (nextJobID / doneJobID are `unsigned`, reset once per frame).  While fewer than
   2^32 - jobIDMask jobs have been created, the 32-bit tests ("table is full", "first job", "jobs pending") say
   exactly what unbounded counters say. *)
Theorem mt_job_counters_exact_below_wrap :
  forall N D mask,
    0 <= D <= N -> 1 <= mask -> N + mask < two32 ->
    let m := mkMtc (u32 N) (u32 D) mask in
    mt_table_full m = ideal_table_full N D mask /\
    mt_firstJob m = ideal_firstJob N /\
    mt_jobs_pending m = ideal_jobs_pending N D /\
    nextJobID (mt_post m) = N + 1 /\ doneJobID (mt_done m) = u32 (D + 1).
Proof. exact mt_counters_exact_below_wrap_lemma. Qed.
Print Assumptions mt_job_counters_exact_below_wrap.

(* 19. ... and the property is REFUTED for the 32-bit counters beyond that (finding C15-zstdmt-job-counter-wraps):
   from the start of a frame, 2^32 - jobIDMask flush calls succeed and leave both counters at 2^32 - jobIDMask;
   every later call finds the EMPTY jobs table "full", creates no job, and cannot return. *)
Theorem mt_frame_gets_stuck_refuted :
  forall mask, 1 <= mask < two32 ->
    let k := Z.to_nat (two32 - mask) in
    mt_flush_calls k (mt_frame_start mask) = Some (mkMtc (two32 - mask) (two32 - mask) mask) /\
    forall j, mt_flush_calls (k + S j) (mt_frame_start mask) = None.
Proof. exact mt_frame_gets_stuck_lemma. Qed.
Print Assumptions mt_frame_gets_stuck_refuted.

Theorem mt_empty_table_declared_full_refuted :
  forall mask D, 1 <= mask < two32 -> two32 - mask <= D < two32 ->
    mt_table_full (mkMtc D D mask) = true /\ ideal_table_full D D mask = false /\
    mt_flush_call (mkMtc D D mask) = None.
Proof. exact mt_empty_table_declared_full. Qed.
Print Assumptions mt_empty_table_declared_full_refuted.

(* with a full table in flight the wrap is passed: job number 2^32 is then taken for the first job of the frame
   (frame header written again, dictionary applied again) and the pending-jobs test answers "none" *)
Theorem mt_first_job_confused_refuted :
  forall mask, 1 <= mask < two32 ->
    let m := mkMtc (two32 - 1) (two32 - 1 - mask) mask in
    mt_table_full m = false /\ ideal_table_full (two32 - 1) (two32 - 1 - mask) mask = false /\
    mt_firstJob (mt_post m) = true /\ ideal_firstJob (two32 - 1 + 1) = false /\
    mt_jobs_pending (mt_post m) = false /\ ideal_jobs_pending (two32 - 1 + 1) (two32 - 1 - mask) = true.
Proof. exact mt_first_job_confused. Qed.
Print Assumptions mt_first_job_confused_refuted.

(* the observer evaluated in the tie is the iteration the theorems speak about *)
Theorem mt_flush_observer_sound :
  forall fuel m n, let '(n', m') := mt_flush_until_stuck fuel m n in
    n <= n' <= n + Z.of_nat fuel /\
    mt_flush_calls (Z.to_nat (n' - n)) m = Some m' /\
    (n' < n + Z.of_nat fuel -> mt_flush_call m' = None).
Proof. exact mt_flush_until_stuck_ok. Qed.
Print Assumptions mt_flush_observer_sound.

Example mt_job_counters_example :
  mt_flush_until_stuck 40 (mkMtc 4294967280 4294967280 3) 0 = (13, mkMtc 4294967293 4294967293 3).
Proof. vm_compute. reflexivity. Qed.

(* 20. the serial LDM window of ZSTDMT at the start of a frame (ZSTDMT_serialState_reset with a raw-content prefix):
   whatever the size of the prefix, the index is exact and at most ZSTD_CURRENT_MAX, the loaded segment ends where the
   prefix ends (finding C15-zstdmt-ldm-prefix-index-wraps, repaired: only the last ZSTD_CURRENT_MAX - START bytes are
   loaded).  From there `ldm_index_never_overflows` (14) applies to the chunk steps of every job. *)
Theorem mt_serial_ldm_load_exact :
  forall lit dict n fw, 0 < n -> away_from_literal lit dict n ->
    let '(w, lde) := mt_serial_ldm_load MT_SERIAL_DICT_LIMIT lit dict n fw in
    window_exact w = true /\ nextSrc w = dict + n /\
    nextSrc w - base w = Z.min n (CURRENT_MAX - START) + START /\ nextSrc w - base w <= CURRENT_MAX /\
    dictLimit w = START /\ lowLimit w = START /\
    (fw = false -> lde = nextSrc w - base w) /\ nbOvf w = 0 /\ (fw = true -> lde = 0).
Proof. exact mt_serial_ldm_load_exact_lemma. Qed.
Print Assumptions mt_serial_ldm_load_exact.

(* ... and the limit is necessary: a loader without it wraps the index for every prefix of 2^32 - START bytes or more *)
Theorem mt_serial_ldm_load_needs_limit :
  forall lit dict n fw, two32 - START <= n -> away_from_literal lit dict n ->
    window_exact (fst (mt_serial_ldm_load None lit dict n fw)) = false.
Proof. exact mt_serial_ldm_load_needs_limit_lemma. Qed.
Print Assumptions mt_serial_ldm_load_needs_limit.

Example mt_serial_ldm_load_example :
  let '(w, lde) := mt_serial_ldm_load MT_SERIAL_DICT_LIMIT 1000 5000000000 4400000000 false in
  (nextSrc w - base w, lde, window_exact w) = (3670016000, 3670016000, true).
Proof. vm_compute. reflexivity. Qed.

(* 21. the serial LDM window of ZSTDMT over a whole frame: a raw-content prefix of ANY size (n = 0: none), then
   any number of jobs, each at any address and of any size, cut in chunks of at most ZSTD_CHUNKSIZE_MAX (the code
   cuts at 1 MiB): the invariant of the LDM window holds after every job with nextSrc as the current position
   (index <= ZSTD_CURRENT_MAX between jobs) and every index computed on the way - the job start after the window
   update, both ends of every chunk - is the exact pointer difference.  No frame size, number of jobs or number
   of corrections appears.  (Every job goes through the chunk steps, whatever its size: the tiny-block gap of the
   single-threaded path, 6.2, does not exist here.) *)
Theorem mt_serial_ldm_never_overflows :
  forall freq wl lit dict n fw tbl jobs,
    0 <= wl <= WINDOWLOG_MAX -> 0 <= n -> away_from_literal lit dict n -> Forall job_ok jobs ->
    let s0 := mt_serial_start lit dict n fw tbl in
    mt_inv (mt_serial_jobs freq s0 wl jobs) /\ mt_serial_jobs_ok freq s0 wl jobs = true.
Proof. exact mt_serial_ldm_never_overflows_lemma. Qed.
Print Assumptions mt_serial_ldm_never_overflows.

Example mt_serial_frame_example :
  let s0 := mt_serial_start 1000 5000000000 4400000000 false [] in
  let jobs := [(9400000000 + 64, [1048576; 1048576; 5000]); (9400000000 - 50000000, [1048576; 77])] in
  0 <= 27 <= WINDOWLOG_MAX /\ away_from_literal 1000 5000000000 4400000000 /\
  Forall job_ok jobs /\ mt_serial_jobs_ok false s0 27 jobs = true /\
  nbOvf (ldm_window (mt_serial_jobs false s0 27 jobs)) = 1.
Proof. exact mt_serial_frame_example_lemma. Qed.

(* 22. R3.  An attached dictionary stays adjacent to the prefix.  The dictionary-aware block compressors translate the
   indices of an attached CDict with dictIndexDelta = window.dictLimit - dictEnd: they assume that the dictionary ends
   exactly where the prefix of the window starts, i.e. dictMatchState != NULL -> loadedDictEnd == window.dictLimit
   (loadedDictEnd is the index at which ZSTD_resetCCtx_byAttachingCDict attached it).  For EVERY history of operations
   (begin / dictionary load / attach / copy / frame-mode continue with any block cutting / block mode / arbitrary finder
   writes), in both builds, from any state that satisfies it (a new context does), the property holds after every
   operation.  Only side condition: a CDict is copied right after the reset of the match state (nothing attached).
   Frame mode owes it to ZSTD_checkDictValidity in every block, block mode to the test added by /repo 00d59f3
   (finding C15-block-mode-attached-cdict-survives-noncontiguous-input). *)
Theorem attached_dict_stays_adjacent :
  forall (freq : bool) (ops : list op) (h : hstate),
    AInv h -> hist_okA freq h ops ->
    let ms := h_ms (run freq h ops) in
    ms_dms ms = true -> ms_loadedDictEnd ms = dictLimit (ms_window ms).
Proof. exact attached_dict_adjacent_lemma. Qed.
Print Assumptions attached_dict_stays_adjacent.

Theorem new_context_attach_invariant : forall p, AInv (h_init p).
Proof. exact AInv_init. Qed.
Print Assumptions new_context_attach_invariant.

(* in a dictionary-aware mode (no extDict, dictionary attached) the prefix starts at the attach point *)
Theorem attach_invariant_meaning :
  forall h, AInv h ->
    let ms := h_ms h in
    window_hasExtDict (ms_window ms) = false -> ms_dms ms = true ->
    dictLimit (ms_window ms) = ms_loadedDictEnd ms.
Proof. exact AInv_meaning. Qed.
Print Assumptions attach_invariant_meaning.

(* 23. R3.  ... and the test of 00d59f3 is necessary: the block-mode step without it (the code before the repair),
   after begin + attach of a 4096-byte CDict + a block of 1000 bytes, then a block of 2000 bytes at the SAME address
   (input buffer re-used), leaves the dictionary attached, no extDict, with the prefix starting at index 5098 while the
   dictionary was attached at 4098: ZSTD_dictMatchState mode with every dictionary offset 1000 too short (the decoder
   has the first block in between).  The step of the current code detaches it and leaves the same window. *)
Theorem block_mode_needs_dict_check_refuted :
  let p := mkCParams 13 13 14 2 false in
  let h0 := run false (h_init p) [OpBegin p 0 false true 100 100 0 None; OpAttach 4098 2; OpBlockMode 1000000 1000] in
  let bad := step_blockmode_unchecked false h0 1000000 2000 in
  let good := step false h0 (OpBlockMode 1000000 2000) in
  AInv h0 /\
  ms_dms (h_ms bad) = true /\ window_hasExtDict (ms_window (h_ms bad)) = false /\
  ms_loadedDictEnd (h_ms bad) = 4098 /\ dictLimit (ms_window (h_ms bad)) = 5098 /\ ~ AInv bad /\
  ms_dms (h_ms good) = false /\ ms_window (h_ms good) = ms_window (h_ms bad).
Proof. exact block_mode_without_check_refuted. Qed.
Print Assumptions block_mode_needs_dict_check_refuted.

(* 24. R3.  ... and it is not over-eager: a block-mode block that continues the previous input (no forced discontinuity)
   and needs no index correction (a correction drops every dictionary by design) keeps the attached dictionary, at the same
   attach point. *)
Theorem block_mode_keeps_dict_on_contiguous_input :
  forall freq h src size,
    AInv h -> ms_dms (h_ms h) = true -> h_forceNC h = false ->
    src = nextSrc (ms_window (h_ms h)) -> size <> 0 ->
    let h1 := continue_update h src size in
    window_needOverflowCorrection freq (ms_window (h_ms h1))
        (cycleLog_of (p_chainLog (h_params h1)) (p_strategy (h_params h1)))
        (u32 (Z.shiftl 1 (p_windowLog (h_params h1)))) (ms_loadedDictEnd (h_ms h1)) src (src + size) = false ->
    let h' := step freq h (OpBlockMode src size) in
    ms_dms (h_ms h') = true /\ ms_loadedDictEnd (h_ms h') = ms_loadedDictEnd (h_ms h) /\
    dictLimit (ms_window (h_ms h')) = dictLimit (ms_window (h_ms h)).
Proof. exact block_mode_keeps_dict_lemma. Qed.
Print Assumptions block_mode_keeps_dict_on_contiguous_input.

(* the hypotheses of 22 are satisfiable: a history with an attach, frame-mode and block-mode steps *)
Example attached_dict_history_example :
  let p := mkCParams 13 13 14 2 false in
  let ops := [OpBegin p 0 false true 100 100 0 None; OpAttach 4098 2; OpContinue 1000000 [1000; 500];
              OpBlockMode 1001500 700; OpBlockMode 2000000 64] in
  AInv (h_init p) /\ hist_okA false (h_init p) ops /\
  ms_dms (h_ms (run false (h_init p) (firstn 4 ops))) = true /\
  ms_dms (h_ms (run false (h_init p) ops)) = false.
Proof. exact attached_dict_history_example_lemma. Qed.

(* 25. R3.  Observation 6.6 of docs/C15.md about the model: block mode does not enforce the window, so an index correction
   is visible there (frequent-correction build, windowLog 10, a 100-byte dictionary loaded): after one 128 KiB block in
   block mode the dictionary is still in force and a cell holding index 5000 (126174 bytes back) is usable
   (ZSTD_getLowestMatchIndex = 2); the next block starts with a correction that zeroes it.  Through frame mode the same
   bytes leave the dictionary dropped and the lowest usable index at curr - 1024: the cell was out of reach already. *)
Example block_mode_correction_is_visible :
  let p := mkCParams 10 4 4 1 false in
  let begin_ := OpBegin p 0 false true 1000 1000 100 (Some (mkDict 50000 100 false false)) in
  let cell := mkTables (5000 :: repeat 0 15) [] [] in
  let hb := run true (h_init p) [begin_; OpBlockMode 100000 131072; OpFinder 131174 cell] in
  let hf := run true (h_init p) [begin_; OpContinue 100000 [131072]; OpFinder 131174 cell] in
  let curr := 131174 in
  ms_loadedDictEnd (h_ms hb) = 102 /\ getLowestMatchIndex (ms_window (h_ms hb)) (ms_loadedDictEnd (h_ms hb)) curr 10 = 2 /\
  step_ok true hb (OpBlockMode 231072 131072) = true /\
  nbOvf (ms_window (h_ms (step true hb (OpBlockMode 231072 131072)))) = 1 /\
  hd 1 (hashTable (ms_tables (h_ms (step true hb (OpBlockMode 231072 131072))))) = 0 /\
  ms_loadedDictEnd (h_ms hf) = 0 /\ getLowestMatchIndex (ms_window (h_ms hf)) (ms_loadedDictEnd (h_ms hf)) curr 10 = curr - 1024.
Proof. exact block_mode_correction_is_visible_lemma. Qed.
