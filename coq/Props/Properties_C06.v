(* C06 - capacity discipline; ZSTD_compressBound; frame inspectors.
   ONLY theorem statements; every proof is `exact <lemma>` (proofs live in Mem/CompressBoundProofs.v and
   Codec/FrameInspectProofs.v).  Each theorem is followed by Print Assumptions. *)
From Coq Require Import ZArith List Bool.
From ZV.Gen Require Gen_Tables.
From ZV.Mem Require Import CompressBound CompressBoundProofs.
From ZV.Codec Require Import FrameInspect FrameInspectProofs.
Import ListNotations.
Local Open Scope Z_scope.

(* ZSTD_COMPRESSBOUND below ZSTD_MAX_INPUT_SIZE: strictly above n (in particular non-zero) and no size_t wrap-around *)
Theorem compressBound_range : forall n, 0 <= n < MAX_INPUT -> n < bound n < 2 ^ SIZE_T_BITS.
Proof. exact bound_range. Qed.
Print Assumptions compressBound_range.

(* 0 (-> ERROR(srcSize_wrong) in ZSTD_compressBound) exactly from ZSTD_MAX_INPUT_SIZE on *)
Theorem compressBound_error_iff : forall n, 0 <= n -> (bound n = 0 <-> MAX_INPUT <= n).
Proof. exact bound_zero_iff. Qed.
Print Assumptions compressBound_error_iff.

Theorem compressBound_monotone : forall a b, 0 <= a <= b -> b < MAX_INPUT -> bound a <= bound b.
Proof. exact bound_monotone. Qed.
Print Assumptions compressBound_monotone.

(* "this formula ensures that bound(A) + bound(B) <= bound(A+B) as long as A and B >= 128 KB" *)
Theorem compressBound_superadditive : forall a b,
  KB128 <= a -> KB128 <= b -> a + b < MAX_INPUT -> bound a + bound b <= bound (a + b).
Proof. exact bound_superadditive. Qed.
Print Assumptions compressBound_superadditive.

(* Starting from ZSTD_compressBound(n) bytes, the one-pass frame writer passes every capacity guard (frame header,
   per-block guard, block compressor, epilogue) and the frame fits - for every input size below
   ZSTD_MAX_INPUT_SIZE, every block size limit that is >= ZSTD_BLOCKSIZE_MAX_MIN or covers the whole input, every
   header size, with or without checksum, every answer of the pre-splitter, and every block compressor obeying the
   raw-fallback contract. *)
Theorem compressBound_suffices : forall fuel bc split n bsMax hs chk s0,
  bc_contract bc -> split_contract split ->
  0 <= n < MAX_INPUT -> n <= Z.of_nat fuel ->
  0 < bsMax <= BLOCKSIZE_MAX -> (BLOCKSIZE_MAX_MIN <= bsMax \/ n <= bsMax) ->
  0 <= hs <= FHS_MAX -> s0 <= 0 ->
  exists w capLeft,
    compress_frame fuel bc split n bsMax hs chk s0 (bound n) = Done w capLeft /\
    0 < w /\ w <= bound n /\ capLeft = bound n - w /\ w <= worst_frame n bsMax hs chk.
Proof. exact compressBound_suffices_lemma. Qed.
Print Assumptions compressBound_suffices.

(* the sharper statement used by the capacity sweep: any capacity >= suff_capacity is enough *)
Theorem sufficient_capacity : forall fuel bc split n bsMax hs chk s0 cap,
  bc_contract bc -> split_contract split ->
  0 <= n -> n <= Z.of_nat fuel ->
  0 < bsMax <= BLOCKSIZE_MAX -> 0 <= hs -> s0 <= 0 ->
  suff_capacity n bsMax hs chk <= cap ->
  exists w capLeft,
    compress_frame fuel bc split n bsMax hs chk s0 cap = Done w capLeft /\
    0 < w /\ w <= cap /\ capLeft = cap - w /\ w <= worst_frame n bsMax hs chk.
Proof. exact sufficient_capacity_lemma. Qed.
Print Assumptions sufficient_capacity.

Theorem sufficient_capacity_below_bound : forall n bs hs chk,
  0 <= n < MAX_INPUT -> 0 < bs -> (BLOCKSIZE_MAX_MIN <= bs \/ n <= bs) -> hs <= FHS_MAX ->
  suff_capacity n bs hs chk <= bound n.
Proof. exact suff_capacity_le_bound. Qed.
Print Assumptions sufficient_capacity_below_bound.

(* the block size a compression context uses (ZSTD_resetCCtx_internal) meets the block-size hypothesis for every
   accepted ZSTD_c_maxBlockSize / windowLog when the source size is known *)
Theorem context_block_size_meets_hypothesis : forall mbs wlog n,
  (mbs = 0 \/ BLOCKSIZE_MAX_MIN <= mbs <= BLOCKSIZE_MAX) ->
  Z.of_N Gen_Tables.c_ZSTD_WINDOWLOG_ABSOLUTEMIN <= wlog -> 0 <= n ->
  let bs := cctx_block_size mbs wlog n in
  0 < bs <= BLOCKSIZE_MAX /\ (BLOCKSIZE_MAX_MIN <= bs \/ n <= bs).
Proof. exact cctx_block_size_ok. Qed.
Print Assumptions context_block_size_meets_hypothesis.

(* the arithmetic core on its own: header + all blocks raw + empty last block + checksum <= bound *)
Theorem worst_frame_fits : forall n bs hs chk,
  0 <= n < MAX_INPUT -> 0 < bs -> (BLOCKSIZE_MAX_MIN <= bs \/ n <= bs) -> hs <= FHS_MAX ->
  worst_frame n bs hs chk <= bound n.
Proof. exact worst_frame_le_bound. Qed.
Print Assumptions worst_frame_fits.

(* savings accounting of ZSTD_compress_frameChunk / ZSTD_optimalBlockSize: pre-splitting never costs more than
   3 bytes per full block, whatever the splitter answers and whatever capacity is offered *)
Theorem savings_guard : forall fuel bc split n bsMax hs chk s0 cap w capLeft,
  bc_raw_bounded bc -> split_contract split -> 0 < bsMax <= BLOCKSIZE_MAX -> 0 <= n -> s0 <= 0 ->
  compress_frame fuel bc split n bsMax hs chk s0 cap = Done w capLeft ->
  w <= worst_frame n bsMax hs chk.
Proof. exact savings_guard_lemma. Qed.
Print Assumptions savings_guard.

(* too small a capacity is an error, never an overrun (model level) *)
Theorem capacity_error_not_corruption : forall fuel bc split n bsMax hs chk s0 cap w capLeft,
  bc_respects_capacity bc -> 0 <= hs <= FHS_MAX ->
  compress_frame fuel bc split n bsMax hs chk s0 cap = Done w capLeft ->
  0 <= capLeft /\ w + capLeft = cap /\ hs <= w.
Proof. exact compress_frame_within_capacity. Qed.
Print Assumptions capacity_error_not_corruption.

(* the contracts are satisfiable (all-raw block compressor, blind 92 KB split) *)
Theorem contracts_inhabited : bc_contract bc_raw /\ split_contract (split_const (92 * 1024)).
Proof. exact contracts_satisfiable. Qed.
Print Assumptions contracts_inhabited.

(* ======================= frame inspectors (coq/Codec/FrameInspect.v) ======================= *)

(* ZSTD_getFrameHeader returns exactly the fields that were serialised (every header layout: dictionary-id width,
   content-size width incl. the +256 form, single segment or window descriptor, checksum flag) *)
Theorem frame_header_fields_exact : forall h rest, wf_hdr h ->
  get_frame_header (ser_header h ++ rest) = HOk (zfh_of h).
Proof. exact get_frame_header_ser. Qed.
Print Assumptions frame_header_fields_exact.

(* ZSTD_findFrameCompressedSize = length of the first frame, whatever follows it (zstd or skippable frame) *)
Theorem frame_compressed_size_exact : forall f rest, wf_frame f ->
  find_frame_compressed_size (ser_frame f ++ rest) = Some (len (ser_frame f)).
Proof. exact find_frame_compressed_size_ser. Qed.
Print Assumptions frame_compressed_size_exact.

(* ZSTD_decompressBound is never below what the frames regenerate *)
Theorem decompress_bound_safe : forall fl,
  Forall wf_frame fl -> bound_frames fl < CS_ERROR ->
  decompress_bound (ser_frames fl) = Some (bound_frames fl) /\ regen_frames fl <= bound_frames fl.
Proof. exact decompress_bound_ser. Qed.
Print Assumptions decompress_bound_safe.

(* ZSTD_getFrameContentSize: the declared size when present (and then it is what the frame regenerates) *)
Theorem content_size_exact : forall f rest, wf_frame f ->
  get_frame_content_size (ser_frame f ++ rest) =
    match f with
    | ZFrame h bl _ => if has_fcs h then regen_blocks bl else CS_UNKNOWN
    | SFrame _ _ => 0
    end.
Proof. exact get_frame_content_size_ser. Qed.
Print Assumptions content_size_exact.

(* ZSTD_findDecompressedSize over a concatenation of frames that all declare their size *)
Theorem find_decompressed_size_exact : forall fl,
  Forall wf_frame fl -> forallb frame_has_size fl = true -> regen_frames fl < CS_ERROR ->
  find_decompressed_size (ser_frames fl) = regen_frames fl.
Proof. exact find_decompressed_size_ser. Qed.
Print Assumptions find_decompressed_size_exact.

(* ZSTD_decompressionMargin computes header + checksum + 3 bytes per block (+ whole skippable frames) + largest block size *)
Theorem decompression_margin_formula : forall fl,
  Forall wf_frame fl -> bound_frames fl < CS_ERROR ->
  decompression_margin (ser_frames fl) = Some (margin_of fl).
Proof. exact decompression_margin_ser. Qed.
Print Assumptions decompression_margin_formula.

(* in-place decoding with that margin: no block leaves the buffer or overwrites unread input,
   provided no block is larger than what it regenerates *)
Theorem inplace_margin_sound : forall fl,
  Forall wf_frame fl -> Forall non_expanding fl ->
  let B := regen_frames fl + margin_of fl in
  inplace_decode fl B = Some (regen_frames fl, B).
Proof. exact inplace_margin_sound_lemma. Qed.
Print Assumptions inplace_margin_sound.

(* ... and that hypothesis is needed (known finding C06-margin-expanding-blocks): witness layout *)
Theorem inplace_margin_refuted :
  Forall wf_frame expanding_witness /\
  decompression_margin (ser_frames expanding_witness) = Some 4063 /\
  inplace_decode expanding_witness (regen_frames expanding_witness + 4063) = None.
Proof. exact inplace_margin_refuted_lemma. Qed.
Print Assumptions inplace_margin_refuted.
