(* C06 - capacity discipline; ZSTD_compressBound; frame inspectors.
   ONLY theorem statements; every proof is `exact <lemma>` (proofs live in Mem/CompressBoundProofs.v and
   Codec/FrameInspectProofs.v).  Each theorem is followed by Print Assumptions. *)
From Coq Require Import ZArith List Bool.
From ZV.Gen Require Gen_Tables.
From ZV.Mem Require Import CompressBound CompressBoundProofs CompressCalls CompressCallsProofs CompressSplit CompressSplitProofs CompressCallsKb CompressMtKb.
From ZV.Codec Require Import FrameInspect FrameInspectProofs FrameInspectRobust LegacyInspect LegacyInspectProofs.
Import ListNotations.
Local Open Scope Z_scope.

(* ZSTD_COMPRESSBOUND below ZSTD_MAX_INPUT_SIZE: strictly above n (in particular non-zero) and no size_t wrap-around *)
Theorem compressBound_range : forall n, 0 <= n < MAX_INPUT -> n < bound n < 2 ^ SIZE_T_BITS.
Proof. exact bound_range. Qed.
Print Assumptions compressBound_range.

(* 0 (-> ERROR(srcSize_wrong) in ZSTD_compressBound) exactly from ZSTD_MAX_INPUT_SIZE on *)
Theorem compressBound_error_iff : forall n, 0 <= n -> (bound n = 0 <-> MAX_INPUT <= n).
Proof. exact bound_zero_iff. Qed.
Print Assumptions compressBound_error_iff.

Theorem compressBound_monotone : forall a b, 0 <= a <= b -> b < MAX_INPUT -> bound a <= bound b.
Proof. exact bound_monotone. Qed.
Print Assumptions compressBound_monotone.

(* "this formula ensures that bound(A) + bound(B) <= bound(A+B) as long as A and B >= 128 KB" *)
Theorem compressBound_superadditive : forall a b,
  KB128 <= a -> KB128 <= b -> a + b < MAX_INPUT -> bound a + bound b <= bound (a + b).
Proof. exact bound_superadditive. Qed.
Print Assumptions compressBound_superadditive.

(* Starting from ZSTD_compressBound(n) bytes, the one-pass frame writer passes every capacity guard (frame header,
   per-block guard, block compressor, epilogue) and the frame fits - for every input size below
   ZSTD_MAX_INPUT_SIZE, every block size limit that is >= ZSTD_BLOCKSIZE_MAX_MIN or covers the whole input, every
   header size, with or without checksum, every answer of the pre-splitter, and every block compressor obeying the
   raw-fallback contract. *)
Theorem compressBound_suffices : forall fuel bc split n bsMax hs chk s0,
  bc_contract bc -> split_contract split ->
  0 <= n < MAX_INPUT -> n <= Z.of_nat fuel ->
  0 < bsMax <= BLOCKSIZE_MAX -> (BLOCKSIZE_MAX_MIN <= bsMax \/ n <= bsMax) ->
  0 <= hs <= FHS_MAX -> s0 <= 0 ->
  exists w capLeft,
    compress_frame fuel bc split n bsMax hs chk s0 (bound n) = Done w capLeft /\
    0 < w /\ w <= bound n /\ capLeft = bound n - w /\ w <= worst_frame n bsMax hs chk.
Proof. exact compressBound_suffices_lemma. Qed.
Print Assumptions compressBound_suffices.

(* the sharper statement used by the capacity sweep: any capacity >= suff_capacity is enough *)
Theorem sufficient_capacity : forall fuel bc split n bsMax hs chk s0 cap,
  bc_contract bc -> split_contract split ->
  0 <= n -> n <= Z.of_nat fuel ->
  0 < bsMax <= BLOCKSIZE_MAX -> 0 <= hs -> s0 <= 0 ->
  suff_capacity n bsMax hs chk <= cap ->
  exists w capLeft,
    compress_frame fuel bc split n bsMax hs chk s0 cap = Done w capLeft /\
    0 < w /\ w <= cap /\ capLeft = cap - w /\ w <= worst_frame n bsMax hs chk.
Proof. exact sufficient_capacity_lemma. Qed.
Print Assumptions sufficient_capacity.

Theorem sufficient_capacity_below_bound : forall n bs hs chk,
  0 <= n < MAX_INPUT -> 0 < bs -> (BLOCKSIZE_MAX_MIN <= bs \/ n <= bs) -> hs <= FHS_MAX ->
  suff_capacity n bs hs chk <= bound n.
Proof. exact suff_capacity_le_bound. Qed.
Print Assumptions sufficient_capacity_below_bound.

(* the block size a compression context uses (ZSTD_resetCCtx_internal) meets the block-size hypothesis for every
   accepted ZSTD_c_maxBlockSize / windowLog when the source size is known *)
Theorem context_block_size_meets_hypothesis : forall mbs wlog n,
  (mbs = 0 \/ BLOCKSIZE_MAX_MIN <= mbs <= BLOCKSIZE_MAX) ->
  Z.of_N Gen_Tables.c_ZSTD_WINDOWLOG_ABSOLUTEMIN <= wlog -> 0 <= n ->
  let bs := cctx_block_size mbs wlog n in
  0 < bs <= BLOCKSIZE_MAX /\ (BLOCKSIZE_MAX_MIN <= bs \/ n <= bs).
Proof. exact cctx_block_size_ok. Qed.
Print Assumptions context_block_size_meets_hypothesis.

(* the arithmetic core on its own: header + all blocks raw + empty last block + checksum <= bound *)
Theorem worst_frame_fits : forall n bs hs chk,
  0 <= n < MAX_INPUT -> 0 < bs -> (BLOCKSIZE_MAX_MIN <= bs \/ n <= bs) -> hs <= FHS_MAX ->
  worst_frame n bs hs chk <= bound n.
Proof. exact worst_frame_le_bound. Qed.
Print Assumptions worst_frame_fits.

(* savings accounting of ZSTD_compress_frameChunk / ZSTD_optimalBlockSize: pre-splitting never costs more than
   3 bytes per full block, whatever the splitter answers and whatever capacity is offered *)
Theorem savings_guard : forall fuel bc split n bsMax hs chk s0 cap w capLeft,
  bc_raw_bounded bc -> split_contract split -> 0 < bsMax <= BLOCKSIZE_MAX -> 0 <= n -> s0 <= 0 ->
  compress_frame fuel bc split n bsMax hs chk s0 cap = Done w capLeft ->
  w <= worst_frame n bsMax hs chk.
Proof. exact savings_guard_lemma. Qed.
Print Assumptions savings_guard.

(* too small a capacity is an error, never an overrun (model level) *)
Theorem capacity_error_not_corruption : forall fuel bc split n bsMax hs chk s0 cap w capLeft,
  bc_respects_capacity bc -> 0 <= hs <= FHS_MAX ->
  compress_frame fuel bc split n bsMax hs chk s0 cap = Done w capLeft ->
  0 <= capLeft /\ w + capLeft = cap /\ hs <= w.
Proof. exact compress_frame_within_capacity. Qed.
Print Assumptions capacity_error_not_corruption.

(* the contracts are satisfiable (all-raw block compressor, blind 92 KB split) *)
Theorem contracts_inhabited : bc_contract bc_raw /\ split_contract (split_const (92 * 1024)).
Proof. exact contracts_satisfiable. Qed.
Print Assumptions contracts_inhabited.

(* ======================= frame inspectors (coq/Codec/FrameInspect.v) ======================= *)

(* ZSTD_getFrameHeader returns exactly the fields that were serialised (every header layout: dictionary-id width,
   content-size width incl. the +256 form, single segment or window descriptor, checksum flag) *)
Theorem frame_header_fields_exact : forall h rest, wf_hdr h ->
  get_frame_header (ser_header h ++ rest) = HOk (zfh_of h).
Proof. exact get_frame_header_ser. Qed.
Print Assumptions frame_header_fields_exact.

(* ZSTD_findFrameCompressedSize = length of the first frame, whatever follows it (zstd or skippable frame) *)
Theorem frame_compressed_size_exact : forall f rest, wf_frame f ->
  find_frame_compressed_size (ser_frame f ++ rest) = Some (len (ser_frame f)).
Proof. exact find_frame_compressed_size_ser. Qed.
Print Assumptions frame_compressed_size_exact.

(* ZSTD_decompressBound is never below what the frames regenerate *)
Theorem decompress_bound_safe : forall fl,
  Forall wf_frame fl -> bound_frames fl < CS_ERROR ->
  decompress_bound (ser_frames fl) = Some (bound_frames fl) /\ regen_frames fl <= bound_frames fl.
Proof. exact decompress_bound_ser. Qed.
Print Assumptions decompress_bound_safe.

(* ZSTD_getFrameContentSize: the declared size when present (and then it is what the frame regenerates) *)
Theorem content_size_exact : forall f rest, wf_frame f ->
  get_frame_content_size (ser_frame f ++ rest) =
    match f with
    | ZFrame h bl _ => if has_fcs h then regen_blocks bl else CS_UNKNOWN
    | SFrame _ _ => 0
    end.
Proof. exact get_frame_content_size_ser. Qed.
Print Assumptions content_size_exact.

(* ZSTD_findDecompressedSize over a concatenation of frames that all declare their size *)
Theorem find_decompressed_size_exact : forall fl,
  Forall wf_frame fl -> forallb frame_has_size fl = true -> regen_frames fl < CS_ERROR ->
  find_decompressed_size (ser_frames fl) = regen_frames fl.
Proof. exact find_decompressed_size_ser. Qed.
Print Assumptions find_decompressed_size_exact.

(* ZSTD_decompressionMargin computes header + checksum + 3 bytes per block (+ whole skippable frames) + largest block size *)
Theorem decompression_margin_formula : forall fl,
  Forall wf_frame fl -> bound_frames fl < CS_ERROR ->
  decompression_margin (ser_frames fl) = Some (margin_of fl).
Proof. exact decompression_margin_ser. Qed.
Print Assumptions decompression_margin_formula.

(* in-place decoding with that margin: no block leaves the buffer or overwrites unread input,
   provided no block is larger than what it regenerates *)
Theorem inplace_margin_sound : forall fl,
  Forall wf_frame fl -> Forall non_expanding fl ->
  let B := regen_frames fl + margin_of fl in
  inplace_decode fl B = Some (regen_frames fl, B).
Proof. exact inplace_margin_sound_lemma. Qed.
Print Assumptions inplace_margin_sound.

(* ... and that hypothesis is needed (known finding C06-margin-expanding-blocks): witness layout *)
Theorem inplace_margin_refuted :
  Forall wf_frame expanding_witness /\
  decompression_margin (ser_frames expanding_witness) = Some 4063 /\
  inplace_decode expanding_witness (regen_frames expanding_witness + 4063) = None.
Proof. exact inplace_margin_refuted_lemma. Qed.
Print Assumptions inplace_margin_refuted.

(* ======================= call histories and multi-threaded jobs (coq/Mem/CompressCalls.v) ======================= *)

(* Any history of ZSTD_compressContinue calls closed by ZSTD_compressEnd, all writing one after the other into ONE
   buffer: if the buffer holds header + every chunk raw with its block headers + the epilogue (+ what earlier calls
   saved, which the pre-splitter may spend), every guard of every call passes and the total stays within that budget.
   For every chunk-length list, every block compressor / splitter obeying the contracts, every start state. *)
Theorem buffer_less_history_sufficient : forall fuel bsMax hs chk calls st cap written,
  calls <> [] ->
  Forall (call_ok fuel) calls -> 0 < bsMax <= KB128 -> 0 <= hs <= FHS_MAX ->
  cs_stage st <> StEnding ->
  (cs_stage st = StInit -> FHS_MAX <= cap) ->
  hdr_of st hs + need calls bsMax + epilogue_room calls chk + Z.max (savings_of st) 0 <= cap ->
  exists W cap' st',
    compress_calls fuel bsMax hs chk st calls cap written = CDone W cap' st' /\
    cap' = cap - (W - written) /\ 0 <= cap' /\ written < W /\
    W <= written + Z.max (savings_of st) 0 + hdr_of st hs + need calls bsMax + epilogue_cost calls chk.
Proof. exact compress_calls_succeed. Qed.
Print Assumptions buffer_less_history_sufficient.

(* ... and for ANY capacity a history that completes stayed inside the buffer (error, never overrun; model level) *)
Theorem buffer_less_history_within_capacity : forall fuel bsMax hs chk calls st cap written W cap' st',
  Forall (fun c => bc_respects_capacity (c_bc c)) calls -> 0 <= hs <= FHS_MAX -> 0 <= cap ->
  compress_calls fuel bsMax hs chk st calls cap written = CDone W cap' st' ->
  cap' = cap - (W - written) /\ 0 <= cap' /\ written <= W.
Proof. exact compress_calls_within. Qed.
Print Assumptions buffer_less_history_within_capacity.

(* A ZSTDMT compression job (first / middle / last, with or without frame checksum, source of n <= T bytes fed in
   512 KiB chunks) writing into a buffer of ZSTD_compressBound(T) bytes never runs out of room, and the 4-byte
   checksum that ZSTDMT_flushProduced stores after the job's output WITHOUT a capacity test stays inside the buffer
   (the result is never COverrun / CTooSmall). *)
Theorem mt_job_buffer_suffices : forall fuel bsMax hs chkFrame first last calls n T,
  Forall (fun c => bc_contract (c_bc c) /\ split_contract (c_split c)) calls ->
  map c_len calls = mt_chunks n ->
  0 <= n <= T -> T < MAX_INPUT -> MT_CHUNK <= Z.of_nat fuel ->
  0 < bsMax <= BLOCKSIZE_MAX -> (BLOCKSIZE_MAX_MIN <= bsMax \/ n <= bsMax) ->
  0 <= hs <= FHS_MAX ->
  (last = false -> 0 < n) ->
  exists w cap' st',
    mt_job fuel bsMax hs chkFrame first last calls n (bound T) = CDone w cap' st' /\
    cap' = bound T - w /\ 0 <= cap' /\ w <= mt_job_worst bsMax hs chkFrame first last n.
Proof. exact mt_job_fits_lemma. Qed.
Print Assumptions mt_job_buffer_suffices.

Theorem mt_job_hypotheses_inhabited : forall n,
  Forall (fun c => bc_contract (c_bc c) /\ split_contract (c_split c)) (map raw_call (mt_chunks n)) /\
  map c_len (map raw_call (mt_chunks n)) = mt_chunks n.
Proof. exact raw_calls_ok. Qed.
Print Assumptions mt_job_hypotheses_inhabited.

(* The whole multi-threaded frame (every job raw, each with its own block framing, header, last empty block,
   checksum) fits ZSTD_compressBound of the whole input, for every cut into jobs of at least 128 KiB (all but the
   last) and every block size >= 1 KiB. *)
Theorem mt_frame_fits_compressBound : forall bs hs chk jobs,
  1024 <= bs -> hs <= FHS_MAX -> jobs_ok jobs -> sumz jobs < MAX_INPUT ->
  mt_frame_worst bs hs chk true jobs <= bound (sumz jobs).
Proof. exact mt_frame_worst_le_bound. Qed.
Print Assumptions mt_frame_fits_compressBound.

(* ======================= inspectors on ARBITRARY byte strings (coq/Codec/FrameInspectRobust.v) ======================= *)

(* whatever the bytes are: a reported compressed size is positive and never exceeds the source *)
Theorem frame_size_info_within_source : forall src i, bytes_ok src ->
  find_frame_size_info src = Some i -> 0 < fsi_csize i <= len src /\ 0 <= fsi_nb i.
Proof. exact find_frame_size_info_within. Qed.
Print Assumptions frame_size_info_within_source.

Theorem frame_compressed_size_within_source : forall src s, bytes_ok src ->
  find_frame_compressed_size src = Some s -> 0 < s <= len src.
Proof. exact find_frame_compressed_size_within. Qed.
Print Assumptions frame_compressed_size_within_source.

(* ... and the answer is determined by those bytes alone: replacing everything after them changes nothing
   (model-level form of "never reads beyond the frame it delimits") *)
Theorem frame_size_info_self_delimiting : forall p r t i,
  bytes_ok (p ++ r) -> find_frame_size_info (p ++ r) = Some i -> len p = fsi_csize i ->
  find_frame_size_info (p ++ t) = Some i.
Proof. exact find_frame_size_info_prefix. Qed.
Print Assumptions frame_size_info_self_delimiting.

(* the multi-frame walks make progress on every input: their fuel is never the reason for an answer *)
Theorem block_walk_fuel_irrelevant : forall f1 f2 src consumed nb,
  bytes_ok src -> (length src < length f1)%nat -> (length src < length f2)%nat ->
  walk_blocks f1 src consumed nb = walk_blocks f2 src consumed nb.
Proof. exact walk_blocks_fuel. Qed.
Print Assumptions block_walk_fuel_irrelevant.

Theorem decompress_bound_total : forall fuel src, bytes_ok src -> (length src <= length fuel)%nat ->
  decompress_bound_loop fuel src 0 = decompress_bound src.
Proof. exact decompress_bound_fuel_irrelevant. Qed.
Print Assumptions decompress_bound_total.

Theorem decompression_margin_total : forall fuel src, bytes_ok src -> (length src <= length fuel)%nat ->
  decompression_margin_loop fuel src 0 0 = decompression_margin src.
Proof. exact decompression_margin_fuel_irrelevant. Qed.
Print Assumptions decompression_margin_total.

(* when ZSTD_decompressBound answers, the frames it walked tile the source exactly (sizes > 0 summing to srcSize) *)
Theorem decompress_bound_walk_tiles_source : forall src v, bytes_ok src -> decompress_bound src = Some v ->
  exists sizes, Forall (fun s => 0 < s) sizes /\ fold_right Z.add 0 sizes = len src.
Proof. exact decompress_bound_some_tiles. Qed.
Print Assumptions decompress_bound_walk_tiles_source.

(* skippable frames: the writer needs exactly payload + 8 bytes; the reader returns payload and variant iff the
   destination can hold the payload, and never reports more than the capacity *)
Theorem skippable_write_capacity : forall cap v p, 0 <= v <= 15 -> len p + SKIPHDR < W32 ->
  write_skippable_frame cap (len p) v =
  if cap <? len p + SKIPHDR then None else Some (len (ser_frame (SFrame v p))).
Proof. exact write_skippable_frame_spec. Qed.
Print Assumptions skippable_write_capacity.

Theorem skippable_read_capacity : forall cap v p rest, 0 <= v <= 15 -> len p + SKIPHDR < W32 ->
  read_skippable_frame cap (ser_frame (SFrame v p) ++ rest) =
  if len p >? cap then None else Some (len p, v).
Proof. exact read_skippable_frame_spec. Qed.
Print Assumptions skippable_read_capacity.

Theorem skippable_read_within_capacity : forall cap src n v,
  read_skippable_frame cap src = Some (n, v) -> n <= cap.
Proof. exact read_skippable_frame_within. Qed.
Print Assumptions skippable_read_within_capacity.

(* ZSTD_decompressBound over a concatenation, for ALL byte strings: when the walk over [a] completes with va, the walk
   over a ++ b is the walk over b started at va *)
Theorem decompress_bound_concatenation : forall a b va, bytes_ok (a ++ b) ->
  decompress_bound a = Some va ->
  decompress_bound (a ++ b) = decompress_bound_loop b b va.
Proof. exact decompress_bound_concat. Qed.
Print Assumptions decompress_bound_concatenation.

(* in-place decoding is sound for EVERY buffer at least as large as decoded size + ZSTD_decompressionMargin *)
Theorem inplace_margin_any_larger_buffer : forall fl B,
  Forall wf_frame fl -> Forall non_expanding fl ->
  regen_frames fl + margin_of fl <= B ->
  inplace_decode fl B = Some (regen_frames fl, B).
Proof. exact inplace_any_larger_buffer. Qed.
Print Assumptions inplace_margin_any_larger_buffer.

(* ZSTD_DECOMPRESSION_MARGIN(originalSize, blockSize): sound for a single frame that regenerates originalSize > 0 bytes in
   at most ceil(originalSize / blockSize) non-expanding blocks and whose block-size limit is at most blockSize *)
Theorem inplace_macro_margin : forall h bl ck bs B,
  wf_frame (ZFrame h bl ck) -> Forall non_expanding_blk bl -> 0 < bs -> bsmax_of h <= bs ->
  0 < regen_blocks bl -> len bl <= (regen_blocks bl + bs - 1) / bs ->
  regen_blocks bl + DECOMPRESSION_MARGIN (regen_blocks bl) bs <= B ->
  inplace_decode [ZFrame h bl ck] B = Some (regen_blocks bl, B).
Proof. exact inplace_macro_margin_sound. Qed.
Print Assumptions inplace_macro_margin.

(* ======================================================================================================================
   Round 2: the post-splitter (ZSTD_deriveBlockSplits / ZSTD_compressBlock_splitBlock_internal) inside the model *)

(* the partition table: for EVERY decision oracle (entropy estimates), every number of sequences and every recursion
   depth the repaired helper leaves at most ZSTD_MAX_NB_BLOCK_SPLITS - 1 split locations, so the terminator that
   ZSTD_deriveBlockSplits stores behind them stays inside partitions[ZSTD_MAX_NB_BLOCK_SPLITS] *)
Theorem splitter_table_never_overrun : forall fuel decide nbSeq,
  last_store_index (derive_splits true fuel decide nbSeq) <= MAX_NB_BLOCK_SPLITS - 1.
Proof. exact derive_splits_table_bound. Qed.
Print Assumptions splitter_table_never_overrun.

(* ... and the split locations are strictly increasing inside (0, nbSeq): no partition without a sequence
   (holds for the code before and after the repair) *)
Theorem splitter_table_increasing : forall fixed fuel decide nbSeq,
  increasing_in 0 nbSeq (derive_splits fixed fuel decide nbSeq).
Proof. exact derive_splits_increasing. Qed.
Print Assumptions splitter_table_increasing.

(* closed witness of the finding C06-splitter-partition-table-overrun: the helper as it was, every split accepted,
   43690 sequences: the last store goes to index 199 of a table of 196 entries *)
Theorem splitter_table_overrun_before_repair :
  last_store_index (derive_splits false 12 (fun _ _ => true) 43690) = 199 /\ 199 > MAX_NB_BLOCK_SPLITS - 1.
Proof. split; [exact old_helper_overruns_the_table | reflexivity]. Qed.
Print Assumptions splitter_table_overrun_before_repair.

(* the block-level contract of the capped post-splitter: for ALL partition compressors obeying the raw-fallback contract
   and ALL cuts of the block into partitions (positive sizes summing to the block), the split block is produced whenever
   len + 3 * max(1, len >> 10) bytes are offered and never costs more than that, nor more than the capacity offered *)
Theorem splitter_block_contract : forall pcs cut,
  (forall i, bc_contract (pcs i)) -> (forall i len, 0 < len -> cut_ok (cut i len) len) ->
  bc_contract_kb (bc_split pcs cut).
Proof. exact split_block_contract. Qed.
Print Assumptions splitter_block_contract.

(* ZSTD_compressBound(n) bytes suffice under that WEAKER block contract (theorem 5 assumed cSize <= 3 + len per
   frame-loop block, which the post-splitter does not guarantee) *)
Theorem compressBound_suffices_weak_contract : forall fuel bc split n bsMax hs chk s0,
  bc_contract_kb bc -> split_contract split ->
  0 <= n < MAX_INPUT -> n <= Z.of_nat fuel ->
  0 < bsMax <= BLOCKSIZE_MAX -> (BLOCKSIZE_MAX_MIN <= bsMax \/ n <= bsMax) ->
  0 <= hs <= FHS_MAX -> s0 <= 0 ->
  exists w capLeft,
    compress_frame fuel bc split n bsMax hs chk s0 (bound n) = Done w capLeft /\
    0 < w /\ w <= bound n /\ capLeft = bound n - w /\
    w <= hs + n + BHS * kb_blocks n + (if n <=? 0 then BHS else 0) + (if chk then CHECKSUM_SIZE else 0).
Proof. exact compressBound_suffices_kb_lemma. Qed.
Print Assumptions compressBound_suffices_weak_contract.

(* the frame writer with the post-splitter as part of the model: only the per-partition compressor and the cut are
   oracles now *)
Theorem compressBound_suffices_with_splitter : forall fuel pcs cut split n bsMax hs chk s0,
  (forall i, bc_contract (pcs i)) -> (forall i len, 0 < len -> cut_ok (cut i len) len) -> split_contract split ->
  0 <= n < MAX_INPUT -> n <= Z.of_nat fuel ->
  0 < bsMax <= BLOCKSIZE_MAX -> (BLOCKSIZE_MAX_MIN <= bsMax \/ n <= bsMax) ->
  0 <= hs <= FHS_MAX -> s0 <= 0 ->
  exists w capLeft,
    compress_frame fuel (bc_split pcs cut) split n bsMax hs chk s0 (bound n) = Done w capLeft /\
    0 < w /\ w <= bound n /\ capLeft = bound n - w.
Proof. exact compressBound_suffices_with_splitter_lemma. Qed.
Print Assumptions compressBound_suffices_with_splitter.

(* the one-partition contract of round 1 is an instance of the weak one *)
Theorem strong_contract_implies_weak : forall bc, bc_contract bc -> bc_contract_kb bc.
Proof. exact bc_contract_is_kb. Qed.
Print Assumptions strong_contract_implies_weak.

(* closed witness of the finding C06-splitter-exceeds-compressBound: without the cap, 64 blocks of 1 KiB each cut into
   two raw partitions do not fit ZSTD_compressBound(64 KiB); with the cap the same frame takes 65734 bytes *)
Theorem uncapped_splitter_refutes_the_bound :
  let bc : block_compressor := fun _ cap len => split_block_uncapped pc_raw [len / 2; len - len / 2] cap in
  compress_frame 100 bc (split_const KB128) 65536 1024 6 false 0 (bound 65536) = TooSmall /\
  compress_frame 100 (bc_split (fun _ => pc_raw) (fun _ len => [len / 2; len - len / 2])) (split_const KB128) 65536 1024 6 false 0 (bound 65536)
    = Done 65734 90.
Proof. exact uncapped_splitter_overflows_the_bound. Qed.
Print Assumptions uncapped_splitter_refutes_the_bound.

(* the hypotheses of the two splitter theorems are satisfiable *)
Theorem splitter_hypotheses_inhabited :
  (forall i : nat, bc_contract ((fun _ => pc_raw) i)) /\ (forall (i : nat) len, 0 < len -> cut_ok ((fun _ l => [l]) i len) len).
Proof. exact splitter_contracts_satisfiable. Qed.
Print Assumptions splitter_hypotheses_inhabited.

(* theorem 13 (any history of ZSTD_compressContinue calls closed by ZSTD_compressEnd into one shared buffer) under the
   WEAK block contract: the buffer must hold header + sum(chunk + 3 * kb_blocks(chunk)) + epilogue + the savings in hand *)
Theorem buffer_less_history_sufficient_weak_contract : forall fuel bsMax hs chk calls st cap written,
  calls <> [] ->
  Forall (call_ok_kb fuel bsMax) calls -> 0 < bsMax <= KB128 -> 0 <= hs <= FHS_MAX ->
  cs_stage st <> StEnding ->
  (cs_stage st = StInit -> FHS_MAX <= cap) ->
  hdr_of st hs + need_kb calls + epilogue_room calls chk + Z.max (savings_of st) 0 <= cap ->
  exists W cap' st',
    compress_calls fuel bsMax hs chk st calls cap written = CDone W cap' st' /\
    cap' = cap - (W - written) /\ 0 <= cap' /\ written < W /\
    W <= written + Z.max (savings_of st) 0 + hdr_of st hs + need_kb calls + epilogue_cost calls chk.
Proof. exact compress_calls_succeed_kb. Qed.
Print Assumptions buffer_less_history_sufficient_weak_contract.

Theorem weak_history_hypotheses_inhabited : Forall (call_ok_kb (Z.to_nat 200000) 131072) [raw_call 100000; raw_call 5].
Proof. exact calls_kb_satisfiable. Qed.
Print Assumptions weak_history_hypotheses_inhabited.

(* ======================= round 3: multi-threading under the WEAK block contract (coq/Mem/CompressMtKb.v) ======================= *)

(* theorem 15 (mt_job_buffer_suffices) assumed cSize <= 3 + len per frame-loop block; here every block of every 512 KiB
   chunk may cost len + 3 * max(1, len >> 10) (bc_contract_kb, what the capped post-splitter guarantees): a ZSTDMT job
   writing into ZSTD_compressBound(T) bytes (T >= its source size) is never CTooSmall and the checksum that
   ZSTDMT_flushProduced stores without a capacity test is never COverrun; the output is at most
   header + n + 3 * (KiB partitions of the chunks) + last empty block + checksum *)
Theorem mt_job_buffer_suffices_weak_contract : forall fuel bsMax hs chkFrame first last calls n T,
  Forall (fun c => bc_contract_kb (c_bc c) /\ split_contract (c_split c)) calls ->
  map c_len calls = mt_chunks n ->
  0 <= n <= T -> T < MAX_INPUT -> MT_CHUNK <= Z.of_nat fuel ->
  0 < bsMax <= BLOCKSIZE_MAX -> (BLOCKSIZE_MAX_MIN <= bsMax \/ n <= bsMax) ->
  0 <= hs <= FHS_MAX ->
  (last = false -> 0 < n) ->
  exists w cap' st',
    mt_job fuel bsMax hs chkFrame first last calls n (bound T) = CDone w cap' st' /\
    cap' = bound T - w /\ 0 <= cap' /\ w <= mt_job_worst_kb hs chkFrame first last n.
Proof. exact mt_job_fits_kb_lemma. Qed.
Print Assumptions mt_job_buffer_suffices_weak_contract.

(* the KiB partitions a job can be charged for: one call per 512 KiB chunk, each call at most one more than its full KiB *)
Theorem mt_job_partitions_bound : forall n, 0 <= n ->
  0 <= chunks_kb n <= n / 1024 + n / 524288 + 1 /\ (n = 0 -> chunks_kb n = 0).
Proof. exact chunks_kb_bound. Qed.
Print Assumptions mt_job_partitions_bound.

(* theorem 17 (mt_frame_fits_compressBound) under the weak contract: header + every job paying 3 bytes per KiB partition
   of every chunk + last empty block + checksum <= ZSTD_compressBound(sum of the jobs), for every cut into jobs of at
   least 128 KiB (all but the last); no hypothesis on the block size is left (the weak cost does not depend on it) *)
Theorem mt_frame_fits_compressBound_weak_contract : forall hs chk jobs,
  hs <= FHS_MAX -> jobs_ok jobs -> sumz jobs < MAX_INPUT ->
  mt_frame_worst_kb hs chk true jobs <= bound (sumz jobs).
Proof. exact mt_frame_worst_kb_le_bound. Qed.
Print Assumptions mt_frame_fits_compressBound_weak_contract.

(* hypotheses satisfiable (all-raw calls), and a closed instance in which the weak contract really is reached: a block
   compressor charging 3 bytes per full KiB makes a 300000-byte last job 867 bytes larger than the strong worst case *)
Theorem mt_weak_hypotheses_inhabited : forall n,
  Forall (fun c => bc_contract_kb (c_bc c) /\ split_contract (c_split c)) (map raw_call (mt_chunks n)) /\
  map c_len (map raw_call (mt_chunks n)) = mt_chunks n.
Proof. exact raw_calls_ok_kb. Qed.
Print Assumptions mt_weak_hypotheses_inhabited.

Theorem mt_job_weak_contract_witness :
  mt_job (Z.to_nat 600000) 131072 6 true true true [mk_call 300000 bc_kb_worst (split_const KB128)] 300000 (bound 524288)
  = CDone (6 + 300000 + 3 * (128 + 128 + 36) + 4) (bound 524288 - (6 + 300000 + 3 * (128 + 128 + 36) + 4))
          (mk_cstate StEnding 300000 (300000 + 3 * (128 + 128 + 36) + 6))
  /\ mt_job_worst 131072 6 true true true 300000 = 6 + 300000 + 3 * 3 + 4.
Proof. exact mt_job_weak_costs_more. Qed.
Print Assumptions mt_job_weak_contract_witness.

(* ======================= round 3: the LEGACY side of the bound (coq/Codec/LegacyInspect.v) ======================= *)

(* for EVERY byte string, every version 5..7 (any integer: the model treats everything that is not 5 or 6 like v0.7),
   every block decoder (regen = what each compressed block regenerates, or an error) and every verdict of the header
   check: when the single-call legacy frame decoder (code after 39f3df0) produces d bytes, the legacy frame walk of
   ZSTD_decompressBound / ZSTD_findFrameCompressedSize answers too, its bound is at least d and the size it reports
   lies inside the source *)
Theorem legacy_decompress_bound_safe : forall ver regen hdr_ok src d,
  legacy_decode true ver regen hdr_ok src = Some d ->
  exists cs b, legacy_find ver src = Some (cs, b) /\ d <= b /\ cs <= len src.
Proof. exact legacy_bound_safe_lemma. Qed.
Print Assumptions legacy_decompress_bound_safe.

(* on arbitrary bytes the legacy walk never reports a size outside the source nor a negative bound *)
Theorem legacy_frame_size_within_source : forall ver src cs b, bytes_ok src ->
  legacy_find ver src = Some (cs, b) -> 3 <= cs <= len src /\ 0 <= b.
Proof. exact legacy_find_within_lemma. Qed.
Print Assumptions legacy_frame_size_within_source.

(* closed witness of the finding C06-legacy-bound-oversize-compressed-block (22-byte v0.7 frame, one compressed block that
   regenerates 131075 bytes): walk = (22, 131072); decoder before 39f3df0: 131075 bytes; after: refused; a block of exactly
   128 KiB still decodes *)
Theorem legacy_bound_finding_witness :
  legacy_find 7 lg_finding_frame = Some (22, 131072) /\
  legacy_decode false 7 (fun _ _ => Some 131075) true lg_finding_frame = Some 131075 /\
  legacy_decode true 7 (fun _ _ => Some 131075) true lg_finding_frame = None /\
  legacy_decode true 7 (fun _ _ => Some 131072) true lg_finding_frame = Some 131072.
Proof. exact legacy_finding_witness. Qed.
Print Assumptions legacy_bound_finding_witness.

(* ... hence theorem legacy_decompress_bound_safe is false for the decoder without the test of 39f3df0 *)
Theorem legacy_bound_unsafe_before_39f3df0 :
  exists src d cs b, legacy_decode false 7 (fun _ _ => Some 131075) true src = Some d /\
                     legacy_find 7 src = Some (cs, b) /\ b < d.
Proof. exact legacy_bound_unsafe_before_repair. Qed.
Print Assumptions legacy_bound_unsafe_before_39f3df0.

(* v0.7 (the only legacy version whose walk and decoder both end at bt_end): when the single-call decoder accepts the
   bytes, ZSTD_findFrameCompressedSize reports exactly their number - "the frame compressed size equals the bytes the
   decoder consumes" on the legacy side (v0.5 / v0.6 end a frame at any block whose cBlockSize is 0: there only
   cs <= |src| holds, theorem legacy_decompress_bound_safe) *)
Theorem legacy_v07_compressed_size_exact : forall regen hdr_ok src d, bytes_ok src ->
  legacy_decode true 7 regen hdr_ok src = Some d ->
  exists b, legacy_find 7 src = Some (len src, b) /\ d <= b.
Proof. exact legacy7_compressed_size_exact_lemma. Qed.
Print Assumptions legacy_v07_compressed_size_exact.
