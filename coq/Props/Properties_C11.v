(* C11 - multithreaded compression (lib/compress/zstdmt_compress.c + the pool protocol it uses) under EVERY schedule.
   Model: ZV.Conc.MtModel (one step = one critical section; all interleavings; all call programs; all payload oracles).
   [reach cfg ops sched] = [run state (step cfg) sched (init cfg ops)] = the state after running schedule [sched] (ANY list of
   (thread, wake choice)) from a freshly created ZSTDMT_CCtx with the application's call program [ops].
   Hypotheses of the ring theorems: [0 < c_chunk cfg] (the chunk size 4*ZSTD_BLOCKSIZE_MAX) and [ops_ok ops] (every frame is
   initialised with a non-zero targetSectionSize; ZSTDMT_JOBSIZE_MIN in the code).
   Vocabulary (ZV.Conc.MtRing): [active pc] = the pool thread is inside ZSTDMT_compressionJob; [owned s k] = slot k is in the pool
   queue or an active pool thread works on it; [Stale j] = no error, cSize = 0, no checksum pending, consumed = src.size, no
   output buffer; [relphase pc] = the caller is inside ZSTDMT_waitForAllJobsCompleted / ZSTDMT_releaseAllJobResources. *)
From Coq Require Import List NArith Bool Sorting.Sorted.
Import ListNotations.
From ZV.Conc Require Import Sched MtModel MtProofs MtRing MtRingC MtRingT MtPool MtFrame MtSleep MtStep MtLive.
From ZV.Conc Require Import MtErr MtErrC MtFlush MtFlushC MtGeo MtGeoC MtGeoW MtLdm MtLdmBug MtTermS MtTermR MtTermQ3 MtTerm MtTermAll MtSeq.
Local Open Scope N_scope.

(* mt_serial_order (1): serial sections (LDM sequence generation + checksum update) are executed in strictly increasing
   job-id order, every executed id is below serial.nextJobID *)
Theorem mt_serial_order : forall cfg ops sched,
  let s := run state (step cfg) sched (init cfg ops) in
  StronglySorted N.lt (log_ids (s_log (sr s))) /\ Forall (fun i => i < s_next (sr s)) (log_ids (s_log (sr s))).
Proof. exact serial_sections_in_job_order. Qed.
Print Assumptions mt_serial_order.

(* the ring / ownership invariant (MtRing.KInv) and the frame-state invariant (MtRingC.AInv) hold in every reachable state *)
Theorem mt_ring_invariant : forall cfg ops sched,
  0 < c_chunk cfg -> ops_ok ops -> KInv cfg (reach cfg ops sched) /\ AInv (reach cfg ops sched).
Proof. exact tinv_reachable. Qed.
Print Assumptions mt_ring_invariant.

(* job ids in the ring are consecutive: the jobs in flight are doneJobID .. nextJobID-1, at most jobIDMask+1 of them, slot
   (id & jobIDMask) carries job id, two jobs in flight never share a slot *)
Theorem mt_ring_ids_consecutive : forall cfg ops sched,
  0 < c_chunk cfg -> ops_ok ops -> let s := reach cfg ops sched in
  length (jobs s) = N.to_nat (2 ^ c_rlog cfg) /\
  done (mt s) <= next (mt s) /\ next (mt s) <= done (mt s) + 2 ^ c_rlog cfg /\
  (forall i, done (mt s) <= i < next (mt s) -> j_id (getj s (slot cfg i)) = i) /\
  (forall i i', done (mt s) <= i < next (mt s) -> done (mt s) <= i' < next (mt s) -> slot cfg i = slot cfg i' -> i = i').
Proof. exact ring_ids_consecutive. Qed.
Print Assumptions mt_ring_ids_consecutive.

(* no two pool threads work on the same job slot; none works on the slot of the job waiting in the pool queue *)
Theorem mt_workers_own_distinct_slots : forall cfg ops sched,
  0 < c_chunk cfg -> ops_ok ops -> let s := reach cfg ops sched in
  (forall t1 t2 w1 w2, nth_error (ws s) t1 = Some w1 -> nth_error (ws s) t2 = Some w2 ->
     active (w_pc w1) = true -> active (w_pc w2) = true -> w_slot w1 = w_slot w2 -> t1 = t2) /\
  (forall t w k, nth_error (ws s) t = Some w -> active (w_pc w) = true -> q (pl s) = Some k -> w_slot w <> k).
Proof. exact workers_own_distinct_slots. Qed.
Print Assumptions mt_workers_own_distinct_slots.

(* a slot held by a pool thread or the queue is in flight, carries that job's id, and neither completion test of the caller
   (jobCompleted; consumed == src.size with something produced) holds for it *)
Theorem mt_owned_slot_in_flight : forall cfg ops sched,
  0 < c_chunk cfg -> ops_ok ops -> let s := reach cfg ops sched in
  forall k, owned s k ->
  exists i, done (mt s) <= i < next (mt s) /\ k = slot cfg i /\ j_id (getj s k) = i /\ j_done (getj s k) = false /\
            (j_consumed (getj s k) < j_size (getj s k) \/
             (j_size (getj s k) = 0 /\ j_csize (getj s k) = 0 /\ j_ckneed (getj s k) = false)).
Proof. exact owned_slot_in_flight. Qed.
Print Assumptions mt_owned_slot_in_flight.

(* no job is lost: a job in flight that has not reported completion is in the pool queue or on a pool thread *)
Theorem mt_unfinished_job_has_owner : forall cfg ops sched,
  0 < c_chunk cfg -> ops_ok ops -> let s := reach cfg ops sched in
  forall i, done (mt s) <= i < next (mt s) -> j_done (getj s (slot cfg i)) = false -> owned s (slot cfg i).
Proof. exact unfinished_job_has_owner. Qed.
Print Assumptions mt_unfinished_job_has_owner.

(* mt_ring_safe: a slot is reused only after its job was flushed completely and released: outside the wait-and-release phase a
   slot with no job in flight is Stale, or it is slot(nextJobID) holding the freshly prepared job while the ring is not full
   (by mt_owned_slot_in_flight no pool thread holds such a slot) *)
Theorem mt_ring_slot_reuse : forall cfg ops sched,
  0 < c_chunk cfg -> ops_ok ops -> let s := reach cfg ops sched in
  relphase (awake (c_pc (cl s))) = false ->
  forall k, (k < N.to_nat (2 ^ c_rlog cfg))%nat -> (forall i, done (mt s) <= i < next (mt s) -> slot cfg i <> k) ->
  Stale (getj s k) \/
  (k = slot cfg (next (mt s)) /\ next (mt s) < done (mt s) + 2 ^ c_rlog cfg /\ j_id (getj s k) = next (mt s) /\
   j_consumed (getj s k) = 0 /\ j_csize (getj s k) = 0 /\ j_err (getj s k) = false).
Proof. exact ring_slot_reuse. Qed.
Print Assumptions mt_ring_slot_reuse.

(* reset / abort: the job table is cleared and the ring is reset only when no job is in flight, i.e. after every posted job
   has been waited for: no pool thread is inside a job, the pool queue is empty *)
Theorem mt_release_only_when_idle : forall cfg ops sched,
  0 < c_chunk cfg -> ops_ok ops -> let s := reach cfg ops sched in
  match awake (c_pc (cl s)) with CRelAll _ _ | CInitBuf | CInitSeq => True | _ => False end ->
  done (mt s) = next (mt s) /\ q (pl s) = None /\
  forall t w, nth_error (ws s) t = Some w -> active (w_pc w) = false.
Proof. exact release_only_when_idle. Qed.
Print Assumptions mt_release_only_when_idle.

(* doneJobID moves past a job in ZSTDMT_flushProduced only when the job is error-free, consumed and flushed completely, its
   checksum written, its worker has reported and nobody owns the slot *)
Theorem mt_job_leaves_ring_complete : forall cfg ops sched,
  0 < c_chunk cfg -> ops_ok ops -> let s := reach cfg ops sched in
  awake (c_pc (cl s)) = CRelBuf ->
  let j := getj s (slot cfg (done (mt s))) in
  done (mt s) < next (mt s) /\ j_err j = false /\ j_consumed j = j_size j /\ j_ckneed j = false /\ j_done j = true /\
  ~ owned s (slot cfg (done (mt s))).
Proof. exact job_leaves_ring_complete. Qed.
Print Assumptions mt_job_leaves_ring_complete.

(* the pool as zstdmt uses it (POOL_tryAdd, POOL_thread, queue of one job): numThreadsBusy counts exactly the pool threads between the pop
   of a job and the end of POOL_thread's bookkeeping, and a queued job always has a pool thread that is AWAKE at the queue mutex to take
   it: the wake-up of pthread_cond_signal(queuePopCond) is never lost (no hypothesis on the configuration or the program) *)
Theorem mt_pool_no_lost_wakeup : forall cfg ops sched,
  let s := reach cfg ops sched in
  length (ws s) = c_nbw cfg /\ busy (pl s) = nbusy (ws s) /\
  forall k, q (pl s) = Some k -> exists t w, nth_error (ws s) t = Some w /\ w_pc w = WIdle.
Proof. exact pool_no_lost_wakeup. Qed.
Print Assumptions mt_pool_no_lost_wakeup.

(* ---- no lost wake-up: in every reachable state the condition a sleeping thread waits for is still false ---- *)

(* the caller asleep on a job_cond (ZSTDMT_flushProduced / ZSTDMT_waitForAllJobsCompleted): the job is in flight, its worker has not made
   its final report (the one that signals the condition), and the job is in the pool queue or on a pool thread *)
Theorem mt_no_lost_wakeup_job_cond : forall cfg ops sched,
  0 < c_chunk cfg -> ops_ok ops -> let s := run state (step cfg) sched (init cfg ops) in
  (c_pc (cl s) = CFlushZ \/ exists i, c_pc (cl s) = CWaitZ i) ->
  done (mt s) < next (mt s) /\ j_done (getj s (slot cfg (done (mt s)))) = false /\ owned s (slot cfg (done (mt s))).
Proof. exact no_lost_wakeup_job_cond. Qed.
Print Assumptions mt_no_lost_wakeup_job_cond.

(* a pool thread asleep on serial.cond holds a job in flight whose turn has not come: serial.nextJobID is below its job id (every
   change of serial.nextJobID broadcasts) *)
Theorem mt_no_lost_wakeup_serial_cond : forall cfg ops sched,
  0 < c_chunk cfg -> ops_ok ops -> let s := run state (step cfg) sched (init cfg ops) in
  forall t w, nth_error (ws s) t = Some w -> w_pc w = WSerialZ ->
  exists i, done (mt s) <= i < next (mt s) /\ w_slot w = slot cfg i /\ j_id (getj s (w_slot w)) = i /\ s_next (sr s) < i.
Proof. exact no_lost_wakeup_serial_cond. Qed.
Print Assumptions mt_no_lost_wakeup_serial_cond.

(* the caller asleep on ldmWindowCond (ZSTDMT_waitForLdmComplete): the range it waits for still overlaps ldmWindow (every change of
   ldmWindow signals) *)
Theorem mt_no_lost_wakeup_ldm_cond : forall cfg ops sched,
  0 < c_chunk cfg -> ops_ok ops -> let s := run state (step cfg) sched (init cfg ops) in
  (c_pc (cl s) = CLdm1Z -> overlap_win (0, psize (mt s)) (s_lw (sr s)) = true) /\
  (c_pc (cl s) = CLdm2Z -> overlap_win (rpos (mt s), target (mt s)) (s_lw (sr s)) = true).
Proof. exact no_lost_wakeup_ldm_cond. Qed.
Print Assumptions mt_no_lost_wakeup_ldm_cond.

(* jobCompleted implies consumed == src.size for every job in flight *)
Theorem mt_reported_job_consumed : forall cfg ops sched,
  0 < c_chunk cfg -> ops_ok ops -> let s := run state (step cfg) sched (init cfg ops) in
  forall i, done (mt s) <= i < next (mt s) -> j_done (getj s (slot cfg i)) = true ->
  j_consumed (getj s (slot cfg i)) = j_size (getj s (slot cfg i)).
Proof. exact reported_job_consumed. Qed.
Print Assumptions mt_reported_job_consumed.

(* ---- transition form of slot-reuse safety ---- *)

(* one step of the application thread (one critical section plus the code up to its next lock, possibly running through the end of the
   call and into the next one) never rewrites the description - id, source, prefix, consumed, error, first/last flags, completion flag -
   of a job that is in flight before and after the step: a ring slot is recycled only after doneJobID has passed its job *)
Theorem mt_caller_keeps_jobs_in_flight : forall cfg ops sched w s',
  0 < c_chunk cfg -> ops_ok ops -> let s := run state (step cfg) sched (init cfg ops) in
  step cfg 0 w s = Some s' ->
  forall i, done (mt s) <= i < next (mt s) -> done (mt s') <= i < next (mt s') ->
  jcore (getj s' (slot cfg i)) = jcore (getj s (slot cfg i)).
Proof. exact reachable_caller_step_keeps_jobs. Qed.
Print Assumptions mt_caller_keeps_jobs_in_flight.

(* one step of a pool thread writes no job description but the one of the slot it holds (any state, any schedule) *)
Theorem mt_worker_writes_own_job : forall cfg t w0 s s' w,
  step cfg (S t) w0 s = Some s' -> nth_error (ws s) t = Some w -> forall k, k <> w_slot w -> getj s' k = getj s k.
Proof. exact worker_step_writes_own_job. Qed.
Print Assumptions mt_worker_writes_own_job.

(* ---- liveness ---- *)

(* mt_deadlock_free (PARTIAL: programs whose frames do not use long-distance matching; rsyncable, checksum, overlap, abort, reuse and
   worker-side errors are included): in every reachable state, under every schedule, either the application has finished its call program
   or some thread can take a step - no state in which every thread is asleep on a condition.  [stuck cfg s] = the caller is not done and
   [step cfg t 0 s = None] for every thread t. *)
Theorem mt_deadlock_free : forall cfg ops sched,
  0 < c_chunk cfg -> ops_ok ops -> noldm_ops ops -> stuck cfg (run state (step cfg) sched (init cfg ops)) = false.
Proof. exact deadlock_free. Qed.
Print Assumptions mt_deadlock_free.

(* mt_deadlock_free, every program (LDM included), every payload oracle: the ONLY place where the whole system can halt is the caller's
   wait on ldmWindowCond (ZSTDMT_waitForLdmComplete): in every other reachable state some thread can take a step *)
Theorem mt_deadlock_free_outside_ldm_wait : forall cfg ops sched,
  0 < c_chunk cfg -> ops_ok ops -> let s := run state (step cfg) sched (init cfg ops) in
  c_pc (cl s) <> CLdm1Z -> c_pc (cl s) <> CLdm2Z -> stuck cfg s = false.
Proof. exact no_deadlock_outside_ldm_wait. Qed.
Print Assumptions mt_deadlock_free_outside_ldm_wait.

(* ---- in-order flush ---- *)

(* mt_flush_in_order: the flush log g_out (frame, job id, offset in the job's output, length: one entry per copy into the caller's buffer)
   is a chain - an entry continues its job exactly where the previous one stopped, or starts the NEXT job of the frame at offset 0 after the
   previous job was finished (listed in g_fin) with exactly the bytes flushed so far, or starts job 0 of a later frame; every length is
   positive; g_fin lists each finished job once, ids consecutive from 0 inside a frame, with total = the sum of its entries; while a frame is
   open the log ends at dstFlushed of the job at doneJobID, every job below doneJobID is finished, no job above it has an entry *)
Theorem mt_flush_in_order : forall cfg ops sched, 0 < c_chunk cfg -> ops_ok ops ->
  let s := run state (step cfg) sched (init cfg ops) in FlushOrd cfg s.
Proof. exact flush_in_order. Qed.
Print Assumptions mt_flush_in_order.

(* every entry of the flush log is a copy made by the application thread out of the error-free job at doneJobID *)
Theorem mt_flush_only_done_job : forall cfg ops sched t w s',
  0 < c_chunk cfg -> ops_ok ops -> let s := run state (step cfg) sched (init cfg ops) in
  step cfg t w s = Some s' ->
  g_out (gh s') = g_out (gh s) \/
  exists off len, t = 0%nat /\ g_out (gh s') = g_out (gh s) ++ [(fr (mt s), done (mt s), off, len)] /\
                  done (mt s) < next (mt s) /\ j_err (getj s (slot cfg (done (mt s)))) = false.
Proof. exact flush_only_done_job. Qed.
Print Assumptions mt_flush_only_done_job.

(* ---- mt_error_propagates ---- *)

(* a failed job stays in flight, failed and unflushed, and no flush-log entry is made for it, unless the step is one of the application
   thread inside ZSTDMT_waitForAllJobsCompleted / ZSTDMT_releaseAllJobResources *)
Theorem mt_error_sticky : forall cfg ops sched t w s' i,
  0 < c_chunk cfg -> ops_ok ops -> let s := run state (step cfg) sched (init cfg ops) in
  step cfg t w s = Some s' -> inflight s i -> j_err (getj s (slot cfg i)) = true ->
  (t = 0%nat /\ relphase (c_pc (cl s)) = true) \/
  (inflight s' i /\ j_err (getj s' (slot cfg i)) = true /\
   j_flushed (getj s' (slot cfg i)) = j_flushed (getj s (slot cfg i)) /\
   exists l, g_out (gh s') = g_out (gh s) ++ l /\ forall e, In e l -> out_id e <> i).
Proof. exact err_sticky. Qed.
Print Assumptions mt_error_sticky.

(* once the job at doneJobID has failed, no step of any thread hands output to the application *)
Theorem mt_error_blocks_output : forall cfg ops sched t w s',
  0 < c_chunk cfg -> ops_ok ops -> let s := run state (step cfg) sched (init cfg ops) in
  step cfg t w s = Some s' -> j_err (getj s (slot cfg (done (mt s)))) = true -> g_out (gh s') = g_out (gh s).
Proof. exact err_blocks_output. Qed.
Print Assumptions mt_error_blocks_output.

(* ZSTDMT_flushProduced seeing the error flag of the job at doneJobID moves the caller to ZSTDMT_waitForAllJobsCompleted (error path) and
   changes nothing else *)
Theorem mt_error_noticed : forall cfg ops sched w s',
  0 < c_chunk cfg -> ops_ok ops -> let s := run state (step cfg) sched (init cfg ops) in
  c_pc (cl s) = CFlush -> j_err (getj s (slot cfg (done (mt s)))) = true -> caller_step cfg w s = Some s' ->
  done (mt s) < next (mt s) /\ s' = set_cpc (CWait false) s /\
  c_pc (cl s') = CWait false /\ c_res (cl s') = c_res (cl s) /\ gh s' = gh s /\ mt s' = mt s /\ jobs s' = jobs s.
Proof. exact err_noticed. Qed.
Print Assumptions mt_error_noticed.

(* a step on the error path stays on it (the release index strictly increases, bounded by the table length) with no result recorded and
   nothing flushed, or ZSTD_compressStream2 returns an error; at that moment everything is released: no job in flight, the job table all
   zero (no output buffer held), allJobsCompleted set, the input buffer dropped, the pool queue empty, no pool thread inside a job *)
Theorem mt_error_path_reports : forall cfg ops sched w s',
  0 < c_chunk cfg -> ops_ok ops -> let s := run state (step cfg) sched (init cfg ops) in
  (c_pc (cl s) = CWait false \/ exists k, c_pc (cl s) = CRelAll false k) -> caller_step cfg w s = Some s' ->
  ((c_pc (cl s') = CWait false \/ c_pc (cl s') = CWaitZ false \/
    exists k', c_pc (cl s') = CRelAll false k' /\ (k' < length (jobs s))%nat /\ forall k, c_pc (cl s) = CRelAll false k -> (k < k')%nat) /\
   c_res (cl s') = c_res (cl s) /\ gh s' = gh s) \/
  (exists s1, Released s1 /\ c_res (cl s1) = c_res (cl s) /\ gh s1 = gh s /\ s' = finish_op cfg s1 RErr /\
              exists l, c_res (cl s') = c_res (cl s) ++ RErr :: l).
Proof. exact err_path_reports. Qed.
Print Assumptions mt_error_path_reports.

(* run level: once the caller is on the error path, under every continuation of the schedule either it is still waiting / releasing, no call
   has returned and no byte has been handed out since, or the first call result since is an error *)
Theorem mt_error_propagates : forall cfg ops sched1 sched2,
  0 < c_chunk cfg -> ops_ok ops ->
  let s := run state (step cfg) sched1 (init cfg ops) in
  let s2 := run state (step cfg) (sched1 ++ sched2) (init cfg ops) in
  on_err_path (c_pc (cl s)) = true ->
  (on_err_path (c_pc (cl s2)) = true /\ c_res (cl s2) = c_res (cl s) /\ g_out (gh s2) = g_out (gh s)) \/
  exists l, c_res (cl s2) = c_res (cl s) ++ RErr :: l.
Proof. exact MtErrC.mt_error_propagates. Qed.
Print Assumptions mt_error_propagates.

(* the serial state skips a failed job: JOB_ERROR marks the job and leads to ZSTDMT_serialState_ensureFinished, which is always enabled and
   leaves serial.nextJobID above the job without logging a serial section for it; a pool thread past ensureFinished and every job that has
   reported are behind serial.nextJobID (except the last empty block written by the caller) *)
Theorem mt_error_serial_skips : forall cfg ops sched,
  0 < c_chunk cfg -> ops_ok ops -> let s := run state (step cfg) sched (init cfg ops) in
  (forall t w c s', nth_error (ws s) t = Some w -> w_pc w = WJobErr -> step cfg (S t) c s = Some s' ->
     j_err (getj s' (w_slot w)) = true /\
     exists w', nth_error (ws s') t = Some w' /\ w_pc w' = WEnsure /\ w_slot w' = w_slot w) /\
  (forall t w, nth_error (ws s) t = Some w -> w_pc w = WEnsure ->
     exists i, inflight s i /\ w_slot w = slot cfg i /\
       forall c, exists s', step cfg (S t) c s = Some s' /\ i < s_next (sr s') /\ s_log (sr s') = s_log (sr s) /\
                            (s_next (sr s) <= i -> s_skip (sr s') = true)) /\
  (forall t w, nth_error (ws s) t = Some w -> postens (w_pc w) = true ->
     exists i, inflight s i /\ w_slot w = slot cfg i /\ i < s_next (sr s)) /\
  (forall i, inflight s i -> j_done (getj s (slot cfg i)) = true -> i < s_next (sr s) \/ (i + 1 = next (mt s) /\ sealed s)).
Proof. exact err_serial_skips. Qed.
Print Assumptions mt_error_serial_skips.

(* ZSTDMT_waitForAllJobsCompleted / ZSTDMT_releaseAllJobResources can always make progress (after an error, or entered from init): no
   deadlock in the wait-and-release phase, LDM included; a sleeping caller waits for a job held by a thread that can run *)
Theorem mt_release_no_deadlock : forall cfg ops sched,
  0 < c_chunk cfg -> ops_ok ops -> let s := run state (step cfg) sched (init cfg ops) in
  relphase (c_pc (cl s)) = true -> stuck cfg s = false.
Proof. exact release_no_deadlock. Qed.
Print Assumptions mt_release_no_deadlock.

Theorem mt_release_wait_has_runner : forall cfg ops sched,
  0 < c_chunk cfg -> ops_ok ops -> let s := run state (step cfg) sched (init cfg ops) in
  forall i, c_pc (cl s) = CWaitZ i ->
  exists t w, nth_error (ws s) t = Some w /\ step cfg (S t) 0 s <> None /\
              (w_pc w = WIdle /\ q (pl s) = Some (slot cfg (done (mt s))) \/
               active (w_pc w) = true /\ w_slot w = slot cfg (done (mt s))).
Proof. exact err_wait_has_runner. Qed.
Print Assumptions mt_release_wait_has_runner.

(* ---- mt_input_ranges_safe (hypothesis geo_ops: targetPrefixSize <= targetSectionSize, as ZSTDMT_initCStream_internal makes it) ---- *)

(* the geometry invariant of the round buffer and of the LDM window (MtGeo.GInv: capacity, live jobs behind the frontier, the frontier has
   not lapped an unfinished job, consecutive sources follow each other, the LDM window holds at most windowSize bytes and ends where the job
   of the next serial turn continues) and MtGeo.SrOk (ldmWindow = ldmState.window; serial.nextJobID <= nextJobID, except while
   ZSTDMT_initCStream_internal of a frame WITHOUT LDM stands at ZSTDMT_setNbSeq: ZSTDMT_serialState_reset resets serial.nextJobID after that
   call since fix 97c340a, nextJobID is already 0) hold in every reachable state *)
Theorem mt_buffer_geometry_invariant : forall cfg ops sched,
  0 < c_chunk cfg -> ops_ok ops -> geo_ops ops ->
  let s := run state (step cfg) sched (init cfg ops) in TInv cfg s /\ SrOk s /\ GInv cfg s.
Proof. exact ginv_reachable. Qed.
Print Assumptions mt_buffer_geometry_invariant.

(* whenever the application thread holds an input buffer [inBuff.start, + targetSectionSize) the buffer lies inside the round buffer and
   overlaps neither the source nor the prefix of any job in flight that its worker has not consumed completely *)
Theorem mt_input_ranges_safe : forall cfg ops sched,
  0 < c_chunk cfg -> ops_ok ops -> geo_ops ops ->
  let s := run state (step cfg) sched (init cfg ops) in
  alldone (mt s) = false -> relphase (awake (c_pc (cl s))) = false -> ihas (mt s) = true ->
  istart (mt s) + target (mt s) <= rcap (mt s) /\ ifill (mt s) <= target (mt s) /\
  forall i, inflight s i -> j_consumed (getj s (slot cfg i)) < j_size (getj s (slot cfg i)) ->
    j_src (getj s (slot cfg i)) + j_size (getj s (slot cfg i)) <= rcap (mt s) /\
    overlap (istart (mt s), target (mt s)) (j_src (getj s (slot cfg i)), j_size (getj s (slot cfg i))) = false /\
    overlap (istart (mt s), target (mt s)) (j_pstart (getj s (slot cfg i)), j_psize (getj s (slot cfg i))) = false.
Proof. exact input_ranges_safe. Qed.
Print Assumptions mt_input_ranges_safe.

(* ... nor the LDM window: ldmWindow (what ZSTDMT_waitForLdmComplete tests) always equals ldmState.window (what the next serial section
   searches), and while the application thread holds an input buffer the buffer overlaps neither part of it *)
Theorem mt_input_range_outside_ldm_window : forall cfg ops sched,
  0 < c_chunk cfg -> ops_ok ops -> geo_ops ops ->
  let s := run state (step cfg) sched (init cfg ops) in
  s_lw (sr s) = s_w (sr s) /\
  (alldone (mt s) = false -> relphase (awake (c_pc (cl s))) = false -> ldm (mt s) = true -> ihas (mt s) = true ->
   overlap_win (istart (mt s), target (mt s)) (s_w (sr s)) = false).
Proof. exact ldm_window_safe. Qed.
Print Assumptions mt_input_range_outside_ldm_window.

(* the prefix move at the wrap and everything else written in the current lap of the round buffer: an unfinished job in flight from an
   EARLIER lap is exactly one lap old and lies (prefix included) at or above roundBuff.pos, so nothing in [0, roundBuff.pos) - in
   particular the moved prefix [0, prefix.size) - overlaps it; an unfinished job of the current lap ends at or below roundBuff.pos *)
Theorem mt_prefix_move_safe : forall cfg ops sched,
  0 < c_chunk cfg -> ops_ok ops -> geo_ops ops ->
  let s := run state (step cfg) sched (init cfg ops) in
  alldone (mt s) = false -> relphase (awake (c_pc (cl s))) = false ->
  (0 < psize (mt s) -> pstart (mt s) + psize (mt s) = rpos (mt s)) /\
  forall i, inflight s i -> j_consumed (getj s (slot cfg i)) < j_size (getj s (slot cfg i)) ->
    let j := getj s (slot cfg i) in
    (j_lap j = lap (mt s) /\ j_src j + j_size j <= rpos (mt s)) \/
    (j_lap j + 1 = lap (mt s) /\ rpos (mt s) + j_psize j <= j_src j /\ (0 < j_psize j -> j_pstart j + j_psize j = j_src j) /\
     forall a n, a + n <= rpos (mt s) -> overlap (a, n) (j_src j, j_size j) = false /\ overlap (a, n) (j_pstart j, j_psize j) = false).
Proof. exact older_laps_above_frontier. Qed.
Print Assumptions mt_prefix_move_safe.

(* ---- termination under fairness (mt_terminates_fair) ---- *)
(* [state_from cfg s0 sigma n] = the state after the first n picks of the infinite schedule sigma from s0; [fair cfg sigma] = every thread
   0..nbWorkers is picked again and again (disabled picks are skipped). *)

(* under every fair schedule the application thread leaves ZSTDMT_waitForAllJobsCompleted / ZSTDMT_releaseAllJobResources (entered after a
   worker error or from ZSTDMT_initCStream_internal): no hypothesis on LDM, payloads or the number of workers *)
Theorem mt_release_terminates : forall cfg ops sched0 sigma,
  0 < c_chunk cfg -> ops_ok ops -> fair cfg sigma ->
  let s0 := run state (step cfg) sched0 (init cfg ops) in
  inrel s0 = true -> exists n, inrel (state_from cfg s0 sigma n) = false.
Proof. exact release_terminates. Qed.
Print Assumptions mt_release_terminates.

(* every fair schedule finishes every finite call program.  Hypotheses, each needed (the model livelocks without it): at least one pool
   thread; RSYNC_MIN_BLOCK_SIZE > 0; no job that completes without error is empty in any reachable state ([nonempty_jobs]: real zstd emits
   at least a block header; an empty completed job can never be flushed); no deadlock (discharged below for programs without LDM) *)
Theorem mt_terminates_fair : forall cfg ops sigma,
  0 < c_chunk cfg -> ops_ok ops ->
  0 < c_minblk cfg -> (1 <= c_nbw cfg)%nat -> nonempty_jobs cfg ops ->
  (forall sched, stuck cfg (run state (step cfg) sched (init cfg ops)) = false) ->
  fair cfg sigma ->
  exists n, caller_done (state_at cfg ops sigma n) = true.
Proof. exact fair_terminates. Qed.
Print Assumptions mt_terminates_fair.

Theorem mt_terminates_fair_noldm : forall cfg ops sigma,
  0 < c_chunk cfg -> ops_ok ops -> noldm_ops ops ->
  0 < c_minblk cfg -> (1 <= c_nbw cfg)%nat -> nonempty_jobs cfg ops ->
  fair cfg sigma ->
  exists n, caller_done (state_at cfg ops sigma n) = true.
Proof. exact fair_terminates_noldm. Qed.
Print Assumptions mt_terminates_fair_noldm.

(* the fairness hypothesis is satisfiable: round robin *)
Theorem mt_terminates_round_robin : forall cfg ops,
  0 < c_chunk cfg -> ops_ok ops -> noldm_ops ops ->
  0 < c_minblk cfg -> (1 <= c_nbw cfg)%nat -> nonempty_jobs cfg ops ->
  exists n, caller_done (state_at cfg ops (fun i : nat => (Nat.modulo i (S (c_nbw cfg)), 0%nat)) n) = true.
Proof. exact round_robin_terminates. Qed.
Print Assumptions mt_terminates_round_robin.

(* ---- mt_deadlock_free, complete ---- *)

(* in every reachable state, under every schedule, for every call program (long-distance matching included) and every payload oracle
   (worker-side failures included): either the application has finished its call program or some thread can take a step.
   Hypotheses: chunk size > 0, targetSectionSize > 0, targetPrefixSize <= targetSectionSize. *)
Theorem mt_deadlock_free_all : forall cfg ops sched,
  0 < c_chunk cfg -> ops_ok ops -> geo_ops ops -> stuck cfg (run state (step cfg) sched (init cfg ops)) = false.
Proof. exact deadlock_free_all. Qed.
Print Assumptions mt_deadlock_free_all.

(* the protocol BEFORE fix e0108a3 (ZSTDMT_serialState_update advancing serial.nextJobID on a skipped turn; ZSTDMT_serialState_ensureFinished
   not clearing ldmState.window) is refuted: a concrete configuration, call program, payload oracle (one failing job) and schedule of 67
   critical sections after which every thread of the old model is asleep (checked by vm_compute; findings C11-ldm-wait-after-worker-error,
   C11-serial-turn-skipped-after-error) *)
Theorem mt_old_protocol_refuted :
  exists cfg ops sched, 0 < c_chunk cfg /\ ops_ok ops /\ geo_ops ops /\ stuck_old cfg (run state (step_old cfg) sched (init cfg ops)) = true.
Proof. exact old_protocol_refuted. Qed.
Print Assumptions mt_old_protocol_refuted.

(* termination under fairness for every call program: the deadlock hypothesis of mt_terminates_fair discharged by mt_deadlock_free_all *)
Theorem mt_terminates_fair_all : forall cfg ops sigma,
  0 < c_chunk cfg -> ops_ok ops -> geo_ops ops ->
  0 < c_minblk cfg -> (1 <= c_nbw cfg)%nat -> nonempty_jobs cfg ops ->
  fair cfg sigma ->
  exists n, caller_done (state_at cfg ops sigma n) = true.
Proof. exact fair_terminates_all. Qed.
Print Assumptions mt_terminates_fair_all.

(* ---- third wave: the sequence pool follows the frame's LDM flag (the protocol of fix 97c340a) ---- *)

(* in every reachable state, under every schedule, for every call program (frames with and without LDM in any order on one context) and
   every payload oracle: (a) outside the two pool sections of ZSTDMT_initCStream_internal (ZSTDMT_setBufferSize, ZSTDMT_setNbSeq) the
   buffer size of the sequence pool is non-zero exactly when the frame uses long-distance matching; (b) a pool thread inside a job holds a
   sequence buffer only in an LDM frame; (c) a pool thread stands at the sequence pool's mutex (ZSTDMT_getSeq / ZSTDMT_releaseSeq) only
   while the pool is switched on and the frame uses LDM: the jobs of a frame without LDM neither lock the sequence pool nor take a
   buffer from it, whatever the context compressed before *)
Theorem mt_seq_pool_follows_ldm : forall cfg ops sched,
  0 < c_chunk cfg -> ops_ok ops -> let s := run state (step cfg) sched (init cfg ops) in
  (c_pc (cl s) <> CInitBuf -> c_pc (cl s) <> CInitSeq -> sp_on (pl s) = ldm (mt s)) /\
  (forall t w, nth_error (ws s) t = Some w -> active (w_pc w) = true -> w_seq w = true -> ldm (mt s) = true) /\
  (forall t w, nth_error (ws s) t = Some w -> w_pc w = WGetSeq \/ w_pc w = WRelSeq -> sp_on (pl s) = true /\ ldm (mt s) = true).
Proof. exact seq_pool_follows_ldm. Qed.
Print Assumptions mt_seq_pool_follows_ldm.

(* transition form, ANY state: a step of any thread leaves the LDM flag of the context alone unless it is a step of the application thread
   that ends at the ZSTDMT_setBufferSize section of ZSTDMT_initCStream_internal - where, by mt_release_only_when_idle, no pool thread holds a
   job and the queue is empty.  So the flag a job reads (serial section, ZSTDMT_getSeq, the wait for the LDM window) is constant during the job *)
Theorem mt_ldm_flag_changes_only_at_init : forall cfg t w s s',
  step cfg t w s = Some s' -> ldm (mt s') = ldm (mt s) \/ (t = 0%nat /\ c_pc (cl s') = CInitBuf).
Proof. exact ldm_flag_changes_only_at_init. Qed.
Print Assumptions mt_ldm_flag_changes_only_at_init.
