(* C11 - multithreaded compression (lib/compress/zstdmt_compress.c + the pool protocol it uses) under EVERY schedule.
   Model: ZV.Conc.MtModel (one step = one critical section; all interleavings; all call programs; all payload oracles).
   [reach cfg ops sched] = [run state (step cfg) sched (init cfg ops)] = the state after running schedule [sched] (ANY list of
   (thread, wake choice)) from a freshly created ZSTDMT_CCtx with the application's call program [ops].
   Hypotheses of the ring theorems: [0 < c_chunk cfg] (the chunk size 4*ZSTD_BLOCKSIZE_MAX) and [ops_ok ops] (every frame is
   initialised with a non-zero targetSectionSize; ZSTDMT_JOBSIZE_MIN in the code).
   Vocabulary (ZV.Conc.MtRing): [active pc] = the pool thread is inside ZSTDMT_compressionJob; [owned s k] = slot k is in the pool
   queue or an active pool thread works on it; [Stale j] = no error, cSize = 0, no checksum pending, consumed = src.size, no
   output buffer; [relphase pc] = the caller is inside ZSTDMT_waitForAllJobsCompleted / ZSTDMT_releaseAllJobResources. *)
From Coq Require Import List NArith Bool Sorting.Sorted.
Import ListNotations.
From ZV.Conc Require Import Sched MtModel MtProofs MtRing MtRingC MtRingT MtPool MtFrame MtSleep MtStep MtLive.
Local Open Scope N_scope.

(* mt_serial_order (1): serial sections (LDM sequence generation + checksum update) are executed in strictly increasing
   job-id order, every executed id is below serial.nextJobID *)
Theorem mt_serial_order : forall cfg ops sched,
  let s := run state (step cfg) sched (init cfg ops) in
  StronglySorted N.lt (log_ids (s_log (sr s))) /\ Forall (fun i => i < s_next (sr s)) (log_ids (s_log (sr s))).
Proof. exact serial_sections_in_job_order. Qed.
Print Assumptions mt_serial_order.

(* the ring / ownership invariant (MtRing.KInv) and the frame-state invariant (MtRingC.AInv) hold in every reachable state *)
Theorem mt_ring_invariant : forall cfg ops sched,
  0 < c_chunk cfg -> ops_ok ops -> KInv cfg (reach cfg ops sched) /\ AInv (reach cfg ops sched).
Proof. exact tinv_reachable. Qed.
Print Assumptions mt_ring_invariant.

(* job ids in the ring are consecutive: the jobs in flight are doneJobID .. nextJobID-1, at most jobIDMask+1 of them, slot
   (id & jobIDMask) carries job id, two jobs in flight never share a slot *)
Theorem mt_ring_ids_consecutive : forall cfg ops sched,
  0 < c_chunk cfg -> ops_ok ops -> let s := reach cfg ops sched in
  length (jobs s) = N.to_nat (2 ^ c_rlog cfg) /\
  done (mt s) <= next (mt s) /\ next (mt s) <= done (mt s) + 2 ^ c_rlog cfg /\
  (forall i, done (mt s) <= i < next (mt s) -> j_id (getj s (slot cfg i)) = i) /\
  (forall i i', done (mt s) <= i < next (mt s) -> done (mt s) <= i' < next (mt s) -> slot cfg i = slot cfg i' -> i = i').
Proof. exact ring_ids_consecutive. Qed.
Print Assumptions mt_ring_ids_consecutive.

(* no two pool threads work on the same job slot; none works on the slot of the job waiting in the pool queue *)
Theorem mt_workers_own_distinct_slots : forall cfg ops sched,
  0 < c_chunk cfg -> ops_ok ops -> let s := reach cfg ops sched in
  (forall t1 t2 w1 w2, nth_error (ws s) t1 = Some w1 -> nth_error (ws s) t2 = Some w2 ->
     active (w_pc w1) = true -> active (w_pc w2) = true -> w_slot w1 = w_slot w2 -> t1 = t2) /\
  (forall t w k, nth_error (ws s) t = Some w -> active (w_pc w) = true -> q (pl s) = Some k -> w_slot w <> k).
Proof. exact workers_own_distinct_slots. Qed.
Print Assumptions mt_workers_own_distinct_slots.

(* a slot held by a pool thread or the queue is in flight, carries that job's id, and neither completion test of the caller
   (jobCompleted; consumed == src.size with something produced) holds for it *)
Theorem mt_owned_slot_in_flight : forall cfg ops sched,
  0 < c_chunk cfg -> ops_ok ops -> let s := reach cfg ops sched in
  forall k, owned s k ->
  exists i, done (mt s) <= i < next (mt s) /\ k = slot cfg i /\ j_id (getj s k) = i /\ j_done (getj s k) = false /\
            (j_consumed (getj s k) < j_size (getj s k) \/
             (j_size (getj s k) = 0 /\ j_csize (getj s k) = 0 /\ j_ckneed (getj s k) = false)).
Proof. exact owned_slot_in_flight. Qed.
Print Assumptions mt_owned_slot_in_flight.

(* no job is lost: a job in flight that has not reported completion is in the pool queue or on a pool thread *)
Theorem mt_unfinished_job_has_owner : forall cfg ops sched,
  0 < c_chunk cfg -> ops_ok ops -> let s := reach cfg ops sched in
  forall i, done (mt s) <= i < next (mt s) -> j_done (getj s (slot cfg i)) = false -> owned s (slot cfg i).
Proof. exact unfinished_job_has_owner. Qed.
Print Assumptions mt_unfinished_job_has_owner.

(* mt_ring_safe: a slot is reused only after its job was flushed completely and released: outside the wait-and-release phase a
   slot with no job in flight is Stale, or it is slot(nextJobID) holding the freshly prepared job while the ring is not full
   (by mt_owned_slot_in_flight no pool thread holds such a slot) *)
Theorem mt_ring_slot_reuse : forall cfg ops sched,
  0 < c_chunk cfg -> ops_ok ops -> let s := reach cfg ops sched in
  relphase (awake (c_pc (cl s))) = false ->
  forall k, (k < N.to_nat (2 ^ c_rlog cfg))%nat -> (forall i, done (mt s) <= i < next (mt s) -> slot cfg i <> k) ->
  Stale (getj s k) \/
  (k = slot cfg (next (mt s)) /\ next (mt s) < done (mt s) + 2 ^ c_rlog cfg /\ j_id (getj s k) = next (mt s) /\
   j_consumed (getj s k) = 0 /\ j_csize (getj s k) = 0 /\ j_err (getj s k) = false).
Proof. exact ring_slot_reuse. Qed.
Print Assumptions mt_ring_slot_reuse.

(* reset / abort: the job table is cleared and the ring is reset only when no job is in flight, i.e. after every posted job
   has been waited for: no pool thread is inside a job, the pool queue is empty *)
Theorem mt_release_only_when_idle : forall cfg ops sched,
  0 < c_chunk cfg -> ops_ok ops -> let s := reach cfg ops sched in
  match awake (c_pc (cl s)) with CRelAll _ _ | CInitBuf | CInitSeq => True | _ => False end ->
  done (mt s) = next (mt s) /\ q (pl s) = None /\
  forall t w, nth_error (ws s) t = Some w -> active (w_pc w) = false.
Proof. exact release_only_when_idle. Qed.
Print Assumptions mt_release_only_when_idle.

(* doneJobID moves past a job in ZSTDMT_flushProduced only when the job is error-free, consumed and flushed completely, its
   checksum written, its worker has reported and nobody owns the slot *)
Theorem mt_job_leaves_ring_complete : forall cfg ops sched,
  0 < c_chunk cfg -> ops_ok ops -> let s := reach cfg ops sched in
  awake (c_pc (cl s)) = CRelBuf ->
  let j := getj s (slot cfg (done (mt s))) in
  done (mt s) < next (mt s) /\ j_err j = false /\ j_consumed j = j_size j /\ j_ckneed j = false /\ j_done j = true /\
  ~ owned s (slot cfg (done (mt s))).
Proof. exact job_leaves_ring_complete. Qed.
Print Assumptions mt_job_leaves_ring_complete.

(* the pool as zstdmt uses it (POOL_tryAdd, POOL_thread, queue of one job): numThreadsBusy counts exactly the pool threads between the pop
   of a job and the end of POOL_thread's bookkeeping, and a queued job always has a pool thread that is AWAKE at the queue mutex to take
   it: the wake-up of pthread_cond_signal(queuePopCond) is never lost (no hypothesis on the configuration or the program) *)
Theorem mt_pool_no_lost_wakeup : forall cfg ops sched,
  let s := reach cfg ops sched in
  length (ws s) = c_nbw cfg /\ busy (pl s) = nbusy (ws s) /\
  forall k, q (pl s) = Some k -> exists t w, nth_error (ws s) t = Some w /\ w_pc w = WIdle.
Proof. exact pool_no_lost_wakeup. Qed.
Print Assumptions mt_pool_no_lost_wakeup.

(* ---- no lost wake-up: in every reachable state the condition a sleeping thread waits for is still false ---- *)

(* the caller asleep on a job_cond (ZSTDMT_flushProduced / ZSTDMT_waitForAllJobsCompleted): the job is in flight, its worker has not made
   its final report (the one that signals the condition), and the job is in the pool queue or on a pool thread *)
Theorem mt_no_lost_wakeup_job_cond : forall cfg ops sched,
  0 < c_chunk cfg -> ops_ok ops -> let s := run state (step cfg) sched (init cfg ops) in
  (c_pc (cl s) = CFlushZ \/ exists i, c_pc (cl s) = CWaitZ i) ->
  done (mt s) < next (mt s) /\ j_done (getj s (slot cfg (done (mt s)))) = false /\ owned s (slot cfg (done (mt s))).
Proof. exact no_lost_wakeup_job_cond. Qed.
Print Assumptions mt_no_lost_wakeup_job_cond.

(* a pool thread asleep on serial.cond holds a job in flight whose turn has not come: serial.nextJobID is below its job id (every
   change of serial.nextJobID broadcasts) *)
Theorem mt_no_lost_wakeup_serial_cond : forall cfg ops sched,
  0 < c_chunk cfg -> ops_ok ops -> let s := run state (step cfg) sched (init cfg ops) in
  forall t w, nth_error (ws s) t = Some w -> w_pc w = WSerialZ ->
  exists i, done (mt s) <= i < next (mt s) /\ w_slot w = slot cfg i /\ j_id (getj s (w_slot w)) = i /\ s_next (sr s) < i.
Proof. exact no_lost_wakeup_serial_cond. Qed.
Print Assumptions mt_no_lost_wakeup_serial_cond.

(* the caller asleep on ldmWindowCond (ZSTDMT_waitForLdmComplete): the range it waits for still overlaps ldmWindow (every change of
   ldmWindow signals) *)
Theorem mt_no_lost_wakeup_ldm_cond : forall cfg ops sched,
  0 < c_chunk cfg -> ops_ok ops -> let s := run state (step cfg) sched (init cfg ops) in
  (c_pc (cl s) = CLdm1Z -> overlap_win (0, psize (mt s)) (s_lw (sr s)) = true) /\
  (c_pc (cl s) = CLdm2Z -> overlap_win (rpos (mt s), target (mt s)) (s_lw (sr s)) = true).
Proof. exact no_lost_wakeup_ldm_cond. Qed.
Print Assumptions mt_no_lost_wakeup_ldm_cond.

(* jobCompleted implies consumed == src.size for every job in flight *)
Theorem mt_reported_job_consumed : forall cfg ops sched,
  0 < c_chunk cfg -> ops_ok ops -> let s := run state (step cfg) sched (init cfg ops) in
  forall i, done (mt s) <= i < next (mt s) -> j_done (getj s (slot cfg i)) = true ->
  j_consumed (getj s (slot cfg i)) = j_size (getj s (slot cfg i)).
Proof. exact reported_job_consumed. Qed.
Print Assumptions mt_reported_job_consumed.

(* ---- transition form of slot-reuse safety ---- *)

(* one step of the application thread (one critical section plus the code up to its next lock, possibly running through the end of the
   call and into the next one) never rewrites the description - id, source, prefix, consumed, error, first/last flags, completion flag -
   of a job that is in flight before and after the step: a ring slot is recycled only after doneJobID has passed its job *)
Theorem mt_caller_keeps_jobs_in_flight : forall cfg ops sched w s',
  0 < c_chunk cfg -> ops_ok ops -> let s := run state (step cfg) sched (init cfg ops) in
  step cfg 0 w s = Some s' ->
  forall i, done (mt s) <= i < next (mt s) -> done (mt s') <= i < next (mt s') ->
  jcore (getj s' (slot cfg i)) = jcore (getj s (slot cfg i)).
Proof. exact reachable_caller_step_keeps_jobs. Qed.
Print Assumptions mt_caller_keeps_jobs_in_flight.

(* one step of a pool thread writes no job description but the one of the slot it holds (any state, any schedule) *)
Theorem mt_worker_writes_own_job : forall cfg t w0 s s' w,
  step cfg (S t) w0 s = Some s' -> nth_error (ws s) t = Some w -> forall k, k <> w_slot w -> getj s' k = getj s k.
Proof. exact worker_step_writes_own_job. Qed.
Print Assumptions mt_worker_writes_own_job.

(* ---- liveness ---- *)

(* mt_deadlock_free (PARTIAL: programs whose frames do not use long-distance matching; rsyncable, checksum, overlap, abort, reuse and
   worker-side errors are included): in every reachable state, under every schedule, either the application has finished its call program
   or some thread can take a step - no state in which every thread is asleep on a condition.  [stuck cfg s] = the caller is not done and
   [step cfg t 0 s = None] for every thread t. *)
Theorem mt_deadlock_free : forall cfg ops sched,
  0 < c_chunk cfg -> ops_ok ops -> noldm_ops ops -> stuck cfg (run state (step cfg) sched (init cfg ops)) = false.
Proof. exact deadlock_free. Qed.
Print Assumptions mt_deadlock_free.
