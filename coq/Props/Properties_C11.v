(* C11 - multithreaded compression (lib/compress/zstdmt_compress.c + the pool protocol it uses) under EVERY schedule.
   Model: ZV.Conc.MtModel (one step = one critical section; all interleavings; all call programs; all payload oracles).
   [run state (step cfg) sched (init cfg ops)] = the state after running schedule [sched] (ANY list of (thread, wake choice))
   from a freshly created ZSTDMT_CCtx with the application's call program [ops]. *)
From Coq Require Import List NArith Bool Sorting.Sorted.
Import ListNotations.
From ZV.Conc Require Import Sched MtModel MtProofs.
Local Open Scope N_scope.

(* mt_serial_order (1): serial sections (LDM sequence generation + checksum update) are executed in strictly increasing
   job-id order, every executed id is below serial.nextJobID *)
Theorem mt_serial_order : forall cfg ops sched,
  let s := run state (step cfg) sched (init cfg ops) in
  StronglySorted N.lt (log_ids (s_log (sr s))) /\ Forall (fun i => i < s_next (sr s)) (log_ids (s_log (sr s))).
Proof. exact serial_sections_in_job_order. Qed.
Print Assumptions mt_serial_order.
