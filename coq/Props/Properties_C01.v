(* Property C01 - theorem list (statements only; proofs live in the *Proofs.v files). *)
From Coq Require Import NArith ZArith List.
From ZV.Codec Require Import Bytes Fse Block TablesProofs.
Import ListNotations.
Local Open Scope N_scope.

(* every literal length < 2^17 and every match length in [3, 2^17+3) has a code in the specification tables *)
Theorem C01_code_tables_partition :
  (forall ll, ll < 131072 -> exists c, find_code spec_LL_base spec_LL_bits ll 0 = Some c) /\
  (forall ml, 3 <= ml -> ml < 131075 -> exists c, find_code spec_ML_base spec_ML_bits ml 0 = Some c).
Proof. exact code_tables_partition. Qed.
Print Assumptions C01_code_tables_partition.

(* the tables compiled into the current /repo are the specification's *)
Theorem C01_gen_tables_match_spec :
  ZV.Gen.Gen_Tables.LL_base = spec_LL_base /\ ZV.Gen.Gen_Tables.LL_bits = spec_LL_bits /\
  ZV.Gen.Gen_Tables.ML_base = spec_ML_base /\ ZV.Gen.Gen_Tables.ML_bits = spec_ML_bits.
Proof. pose proof gen_tables_match_spec as H. tauto. Qed.
Print Assumptions C01_gen_tables_match_spec.
