(* Property C01 - theorem list (statements only; proofs live in the *Proofs.v files). *)
From Coq Require Import NArith ZArith List Lia.
From ZV.Codec Require Import Bytes Fse Block TablesProofs.
Import ListNotations.
Local Open Scope N_scope.

(* every literal length < 2^17 and every match length in [3, 2^17+3) has a code in the specification tables *)
Theorem C01_code_tables_partition :
  (forall ll, ll < 131072 -> exists c, find_code spec_LL_base spec_LL_bits ll 0 = Some c) /\
  (forall ml, 3 <= ml -> ml < 131075 -> exists c, find_code spec_ML_base spec_ML_bits ml 0 = Some c).
Proof. exact code_tables_partition. Qed.
Print Assumptions C01_code_tables_partition.

(* the tables compiled into the current /repo are the specification's *)
Theorem C01_gen_tables_match_spec :
  ZV.Gen.Gen_Tables.LL_base = spec_LL_base /\ ZV.Gen.Gen_Tables.LL_bits = spec_LL_bits /\
  ZV.Gen.Gen_Tables.ML_base = spec_ML_base /\ ZV.Gen.Gen_Tables.ML_bits = spec_ML_bits.
Proof. pose proof gen_tables_match_spec as H. tauto. Qed.
Print Assumptions C01_gen_tables_match_spec.

(* ---- round trip of the serialiser side A (coq/Codec/Encode.v: ZSTD_writeFrameHeader, block framing,
        ZSTD_noCompressBlock, ZSTD_rleCompressBlock, ZSTD_writeEpilogue) through the reference decoder ---- *)
From ZV.Codec Require Import XXH64 Huf Frame Encode EncodeProofs.

(* every frame header the writer can produce parses back to the fields it was built from, for every window log,
   flag combination, dictionary ID and content size, whatever bytes follow *)
Theorem C01_frame_header_round_trip : forall p pledged dictID rest,
  params_ok p pledged dictID ->
  exists fh, parse_fheader (fp_magicless p) (enc_fheader p pledged dictID ++ rest) = Ok (fh, rest) /\ fh_expected p pledged dictID fh.
Proof. exact parse_enc_fheader. Qed.
Print Assumptions C01_frame_header_round_trip.

(* a frame assembled from ANY non-empty list of blocks decodes to the concatenated block contents and leaves the
   trailing input untouched, provided each block means its content to the decoder state (blocks_spec / ext) *)
Theorem C01_frame_assembly_round_trip : forall cfg d p dictID bs rest e' x',
  params_ok p (lenN (blocks_content bs)) dictID ->
  bs <> [] ->
  c_magicless cfg = fp_magicless p ->
  frame_window p (lenN (blocks_content bs)) <= c_window_max cfg ->
  dict_ok d p dictID ->
  blocks_spec (c_strict_window cfg) (frame_window p (lenN (blocks_content bs)))
              (N.min (N.min (frame_window p (lenN (blocks_content bs))) BLOCK_MAX) (c_block_max cfg))
              (dict_entropy d) (x_init d) bs = Ok (e', x') ->
  ext (x_init d) x' (blocks_content bs) ->
  exists t, decode_frame cfg d (enc_frame p dictID bs ++ rest) = Ok (blocks_content bs, t, rest) /\
            fh_expected p (lenN (blocks_content bs)) dictID (ft_header t).
Proof. exact decode_enc_frame. Qed.
Print Assumptions C01_frame_assembly_round_trip.

(* raw and RLE blocks always mean their content: unconditional round trip for every such block list *)
Theorem C01_raw_rle_frames_round_trip : forall cfg d p dictID bs rest,
  params_ok p (lenN (blocks_content bs)) dictID ->
  bs <> [] -> forallb simple_block bs = true ->
  Forall (block_fits (N.min (N.min (frame_window p (lenN (blocks_content bs))) BLOCK_MAX) (c_block_max cfg))) bs ->
  c_magicless cfg = fp_magicless p ->
  frame_window p (lenN (blocks_content bs)) <= c_window_max cfg ->
  dict_ok d p dictID ->
  exists t, decode_frame cfg d (enc_frame p dictID bs ++ rest) = Ok (blocks_content bs, t, rest).
Proof. exact decode_enc_frame_simple. Qed.
Print Assumptions C01_raw_rle_frames_round_trip.

(* the store-only compressor (what the library emits for incompressible input) is lossless for EVERY input,
   every block size, every frame parameter vector, with or without a dictionary attached *)
Theorem C01_store_compressor_lossless : forall cfg d p dictID bsize src rest,
  params_ok p (lenN src) dictID ->
  1 <= bsize -> bsize <= pow2 (fp_windowLog p) -> bsize <= BLOCK_MAX -> bsize <= c_block_max cfg ->
  c_magicless cfg = fp_magicless p ->
  frame_window p (lenN src) <= c_window_max cfg ->
  dict_ok d p dictID ->
  exists t, decode_frame cfg d (enc_store p dictID bsize src ++ rest) = Ok (src, t, rest).
Proof. exact decode_enc_store. Qed.
Print Assumptions C01_store_compressor_lossless.

(* non-vacuity: a concrete parameter vector and input meet the hypotheses, and the frame is the expected bytes *)
Example C01_store_example :
  let p := {| fp_windowLog := 19; fp_contentSize := true; fp_checksum := false; fp_noDictID := false; fp_magicless := false |} in
  params_ok p 3 0 /\ enc_store p 0 131072 [1; 2; 3] = [40; 181; 47; 253; 32; 3; 25; 0; 0; 1; 2; 3].
Proof. split; [unfold params_ok; cbn; lia|vm_compute; reflexivity]. Qed.

(* ---- compressed blocks: sequences section (FSE on the decoding table, backward bitstream), raw / RLE literals,
        sequence execution (coq/Codec/EncodeSeq.v, LzContent.v) ---- *)
From ZV.Codec Require Import Block LzContent EncodeSeq EncodeSeqProofs.

(* closing a backward bitstream and re-opening it gives back exactly the bits written, for every bit list *)
Theorem C01_bitstream_round_trip : forall s, rbits_open (pack_rbits s) = Some s.
Proof. exact rbits_open_pack. Qed.
Print Assumptions C01_bitstream_round_trip.

(* FSE: whatever the decoding table, if the table-search encoder finds a state for a symbol, the decoder in that state
   emits the symbol and returns to the state the encoder started from *)
Theorem C01_fse_step_round_trip : forall t x sym st bits s,
  enc_step t x sym = Some (st, bits) -> fse_peek t st = sym /\ fse_update t st (bits ++ s) = Some (x, s).
Proof. exact enc_step_sound. Qed.
Print Assumptions C01_fse_step_round_trip.

(* the decoding loop over the encoding of ANY sequence list, with ANY three tables, does exactly what executing the
   sequence values does (bit-level round trip of ZSTD_encodeSequences / ZSTD_decodeSequence, every length) *)
Theorem C01_sequence_stream_round_trip : forall strict window blockMax tll tof tml qs st bits,
  enc_seqs tll tof tml qs = Some (st, bits) ->
  forall rep x lits acc x' lits' rep',
  exec_seqs strict window blockMax qs rep x lits = Ok (x', lits', rep') ->
  exists sq, seq_loop (length qs) strict window blockMax tll tof tml (es_ll st) (es_of st) (es_ml st) bits rep x lits acc
             = Ok (x', lits', rep', sq).
Proof. exact seq_loop_enc. Qed.
Print Assumptions C01_sequence_stream_round_trip.

(* the sequence-execution engine of the decoder (chunked copies through the mark accelerator) computes the naive
   byte-by-byte LZ77 copy, for every history, offset and length *)
Theorem C01_match_copy_is_lz77 : forall fuel x off ml, sinv x -> 1 <= off -> off <= x_avail x -> ml <= N.of_nat fuel * off ->
  sinv (copy_match fuel x off ml) /\
  x_hist (copy_match fuel x off ml) = copy_naive (N.to_nat ml) (N.to_nat off) (x_hist x).
Proof. exact copy_match_spec. Qed.
Print Assumptions C01_match_copy_is_lz77.

(* a compressed block assembled from any literals section, any table descriptions and the encoded sequences decodes to
   the execution of the sequences followed by the remaining literals *)
Theorem C01_compressed_block_round_trip :
  forall strict window blockMax e x litsec lits huf' lmode modes dll dof dml tll tof tml qs stream x1 lits1 rep1,
  (forall tail, decode_literals blockMax (e_huf e) (litsec ++ tail) = Ok (lits, huf', lenN litsec, lmode)) ->
  qs <> [] -> lenN qs < 98048 ->
  N.land modes 3 = 0 ->
  (forall tail, seq_table (N.shiftr modes 6) MaxLL LLFSELog 6 spec_LL_default (e_ll e) (dll ++ tail) = Ok (tll, tail)) ->
  (forall tail, seq_table (N.land (N.shiftr modes 4) 3) MaxOff OffFSELog 5 spec_OF_default (e_of e) (dof ++ tail) = Ok (tof, tail)) ->
  (forall tail, seq_table (N.land (N.shiftr modes 2) 3) MaxML MLFSELog 6 spec_ML_default (e_ml e) (dml ++ tail) = Ok (tml, tail)) ->
  table_wf tll -> table_wf tof -> table_wf tml ->
  enc_seq_stream tll tof tml qs = Some stream ->
  exec_seqs strict window blockMax qs (e_rep e) (x_block_start x) lits = Ok (x1, lits1, rep1) ->
  x_blk x1 + lenN lits1 <= blockMax ->
  exists bt, decode_cblock strict window blockMax e x (enc_cblock_parts litsec (lenN qs) modes dll dof dml stream)
             = Ok ({| e_huf := huf'; e_ll := Some tll; e_of := Some tof; e_ml := Some tml; e_rep := rep1 |},
                   push_fwd x1 lits1 (lenN lits1), bt).
Proof. exact decode_enc_cblock. Qed.
Print Assumptions C01_compressed_block_round_trip.

(* the basic block encoder (raw literals, predefined tables) never fails on sequences within the format's ranges:
   tANS completeness of the three predefined tables (exhaustive sweep over their finite state x symbol spaces) *)
Theorem C01_basic_block_encoder_total : forall qs, qs <> [] -> Forall seq_in_range qs ->
  exists st bits, enc_seqs dflt_LL dflt_OF dflt_ML qs = Some (st, bits).
Proof. exact enc_seqs_dflt_total. Qed.
Print Assumptions C01_basic_block_encoder_total.

(* content: a block made by the basic encoder from a parse of [regen] over ANY history decodes to exactly [regen] *)
Theorem C01_basic_block_regenerates_parse : forall strict window blockMax e x lits qs regen x1 lits1 rep1,
  sinv x ->
  blockMax <= BLOCK_MAX -> lenN lits <= blockMax ->
  qs <> [] -> lenN qs < 98048 -> Forall seq_in_range qs ->
  exec_seqs strict window blockMax qs (e_rep e) (x_block_start x) lits = Ok (x1, lits1, rep1) ->
  x_blk x1 + lenN lits1 <= blockMax ->
  parses qs (e_rep e) (x_hist x) lits regen ->
  exists payload e' x' bt,
    enc_cblock_basic lits qs = Some payload /\
    decode_cblock strict window blockMax e x payload = Ok (e', x', bt) /\ ext x x' regen.
Proof. exact cblock_basic_regenerates. Qed.
Print Assumptions C01_basic_block_regenerates_parse.

(* an LZ compressor model end to end: frame header + one basic compressed block + epilogue around a parse of [regen]
   decodes to [regen] and leaves the trailing input untouched *)
Theorem C01_lz_frame_round_trip : forall cfg d p dictID lits qs regen rest x1 lits1 rep1,
  let win := frame_window p (lenN regen) in
  let blockMax := N.min (N.min win BLOCK_MAX) (c_block_max cfg) in
  params_ok p (lenN regen) dictID ->
  c_magicless cfg = fp_magicless p -> win <= c_window_max cfg -> dict_ok d p dictID ->
  lenN lits <= blockMax -> qs <> [] -> lenN qs < 98048 -> Forall seq_in_range qs ->
  exec_seqs (c_strict_window cfg) win blockMax qs (e_rep (dict_entropy d)) (x_block_start (x_init d)) lits = Ok (x1, lits1, rep1) ->
  x_blk x1 + lenN lits1 <= blockMax ->
  parses qs (e_rep (dict_entropy d)) (x_hist (x_init d)) lits regen ->
  exists payload, enc_cblock_basic lits qs = Some payload /\
    (lenN payload <= blockMax ->
     exists t, decode_frame cfg d (enc_frame p dictID [EBComp payload regen] ++ rest) = Ok (regen, t, rest)).
Proof. exact decode_enc_frame_one_cblock. Qed.
Print Assumptions C01_lz_frame_round_trip.


(* ---- non-vacuity: "abc" + a 9-byte match at distance 3 is a parse of "abcabcabcabc"; it meets every hypothesis of the
        theorems above, the model frame is the 22 bytes below (the real zstd decoder accepts exactly these bytes in the
        correspondence run), and R decodes it back ---- *)
Definition ex_lits : list N := [97; 98; 99].
Definition ex_qs : list eseq := [{| q_ll := 3; q_ml := 9; q_ofv := 6 |}].
Definition ex_regen : list N := [97; 98; 99; 97; 98; 99; 97; 98; 99; 97; 98; 99].

Example ex1 : Forall seq_in_range ex_qs.
Proof. constructor; [|constructor]. unfold seq_in_range, ex_qs; cbn [q_ll q_ml q_ofv]. change (2 ^ 29) with 536870912. lia. Qed.

Example ex2 : lz_exec ex_qs (1, 4, 8) [] ex_lits = Some (rev ex_regen, [], (3, 1, 4)).
Proof. timeout 60 vm_compute. reflexivity. Qed.

Definition ex_x := x_block_start (x_init None).
Example ex3 : exists x1 lits1 rep1, exec_seqs true 12 12 ex_qs (1, 4, 8) ex_x ex_lits = Ok (x1, lits1, rep1) /\ x_blk x1 + lenN lits1 <= 12.
Proof.
  assert (H : match exec_seqs true 12 12 ex_qs (1, 4, 8) ex_x ex_lits with Ok (x1, l1, _) => (x_blk x1 + lenN l1 <=? 12) | _ => false end = true).
  { timeout 60 vm_compute. reflexivity. }
  destruct (exec_seqs true 12 12 ex_qs (1, 4, 8) ex_x ex_lits) as [[[x1 l1] r1]|]; [|discriminate].
  exists x1, l1, r1. split; [reflexivity|]. apply N.leb_le. exact H.
Qed.

Definition ex_p := {| fp_windowLog := 19; fp_contentSize := true; fp_checksum := true; fp_noDictID := false; fp_magicless := false |}.
Definition ex_payload : bytes := match enc_cblock_basic ex_lits ex_qs with Some p => p | None => [] end.
Example ex4 : enc_cblock_basic ex_lits ex_qs = Some ex_payload /\ lenN ex_payload <= 12.
Proof. split; [timeout 60 vm_compute; reflexivity|]. timeout 60 vm_compute. discriminate. Qed.

Example ex5 : enc_frame ex_p 0 [EBComp ex_payload ex_regen]
  = [40; 181; 47; 253; 36; 12; 77; 0; 0; 24; 97; 98; 99; 1; 0; 22; 110; 8; 127; 7; 121; 150].
Proof. timeout 120 vm_compute. reflexivity. Qed.

Example ex6 : match decode_frame default_config None (enc_frame ex_p 0 [EBComp ex_payload ex_regen]) with Ok (out, _, rest) => (out, rest) | Err _ _ => ([], [1]) end = (ex_regen, []).
Proof. timeout 120 vm_compute. reflexivity. Qed.

(* ---- Huffman-compressed literals (coq/Codec/EncodeHuf.v: HUF_compress1X / 4X_usingCTable, literals section header) ---- *)
From ZV.Codec Require Import EncodeHuf EncodeHufProofs.

(* one stream: the code of every symbol is its path in the decoding tree; any symbol list, any tree *)
Theorem C01_huffman_stream_round_trip : forall t syms bytes,
  enc_huf1 t syms = Some bytes -> huf_decode1 t (lenN syms) bytes = Ok syms.
Proof. exact huf_decode1_enc. Qed.
Print Assumptions C01_huffman_stream_round_trip.

(* four streams with the 6-byte jump table *)
Theorem C01_huffman_4streams_round_trip : forall t syms bytes,
  6 <= lenN syms -> enc_huf4 t syms = Some bytes ->
  (forall part b, enc_huf1 t part = Some b -> lenN b < 65536) ->
  huf_decode4 t (lenN syms) bytes = Ok syms.
Proof. exact huf_decode4_enc. Qed.
Print Assumptions C01_huffman_4streams_round_trip.

(* a whole Huffman-compressed literals section, every size format, with tree description or treeless: it is a literals
   section in the sense required by C01_compressed_block_round_trip (same conclusion shape, any trailing bytes) *)
Theorem C01_huffman_literals_section_round_trip : forall blockMax prev ltype sf treedesc ht lits tail sec,
  (ltype = 2 \/ (ltype = 3 /\ prev = Some ht /\ treedesc = [])) -> sf < 4 ->
  lenN lits <= blockMax ->
  (sf = 0 \/ 6 <= lenN lits) ->
  (forall part b, enc_huf1 (h_tree ht) part = Some b -> lenN b < 65536) ->
  (ltype = 2 -> forall streams, read_huf_table LitHufLog (treedesc ++ streams) = Ok (ht, lenN treedesc)) ->
  enc_lits_huf ltype sf treedesc (h_tree ht) lits = Some sec ->
  decode_literals blockMax prev (sec ++ tail) = Ok (lits, Some ht, lenN sec, ltype + (if sf =? 0 then 0 else 4)).
Proof. exact decode_lits_huf. Qed.
Print Assumptions C01_huffman_literals_section_round_trip.

(* ---- the LZ compressor model end to end: any split of the input into raw / RLE / compressed blocks, any parse per
        compressed block whose validity is a check on numbers and plain lists (EncodeLzFrame.pblocks_run), any frame
        parameters, any dictionary content: the frame decodes to what the parses stand for ---- *)
From ZV.Codec Require Import EncodeLzFrame EncodeLzFrameProofs TableWf.

Theorem C01_lz_compressor_model_lossless : forall cfg d p dictID pbs ebs z rest,
  let content := blocks_content ebs in
  let win := frame_window p (lenN content) in
  let blockMax := N.min (N.min win BLOCK_MAX) (c_block_max cfg) in
  pbs <> [] ->
  pblocks_run (c_strict_window cfg) win blockMax (z_init d) pbs = Some (ebs, z) ->
  params_ok p (lenN content) dictID -> c_magicless cfg = fp_magicless p -> win <= c_window_max cfg -> dict_ok d p dictID ->
  (exists t, decode_frame cfg d (enc_frame p dictID ebs ++ rest) = Ok (content, t, rest) /\ fh_expected p (lenN content) dictID (ft_header t)) /\
  z_hist z = rev content ++ rev' (dict_content d) /\ z_pos z = lenN content.
Proof. exact lz_model_lossless. Qed.
Print Assumptions C01_lz_compressor_model_lossless.

(* every decoding table built from normalised counts has 2^log cells (hypothesis table_wf of the block theorem) *)
Theorem C01_built_tables_are_well_formed : forall log counts t, build_dtable log counts = Ok t -> table_wf t /\ ft_log t = log.
Proof. exact build_dtable_wf. Qed.
Print Assumptions C01_built_tables_are_well_formed.

(* ---- valid parses round-trip: validity stated ON THE BYTES of the source (coq/Codec/LzParse.v: every match repeats the bytes
        found at its offset, offsets resolve through the repeat-offset rule), any cut of the source into raw / RLE / parsed
        blocks, any dictionary content in front; the only other hypothesis is that the number-level checks of the format pass
        (pblocks_run = Some: window rule, length ranges, block sizes).  This is the statement "decompress(compress(x)) = x" for
        a compressor whose match finder is ANY procedure returning valid parses ---- *)
From ZV.Codec Require Import LzParse LzParseProofs.

Theorem C01_valid_parses_round_trip : forall cfg d p dictID x sbs ebs z rest,
  let full := dict_content d ++ x in
  let win := frame_window p (lenN x) in
  let blockMax := N.min (N.min win BLOCK_MAX) (c_block_max cfg) in
  sbs <> [] ->
  sblocks_ok full (lenN (dict_content d)) (e_rep (dict_entropy d)) sbs ->
  pblocks_run (c_strict_window cfg) win blockMax (z_init d) (to_pblocks full (lenN (dict_content d)) sbs) = Some (ebs, z) ->
  params_ok p (lenN x) dictID -> c_magicless cfg = fp_magicless p -> win <= c_window_max cfg -> dict_ok d p dictID ->
  exists t, decode_frame cfg d (enc_frame p dictID ebs ++ rest) = Ok (x, t, rest).
Proof. exact valid_parses_round_trip. Qed.
Print Assumptions C01_valid_parses_round_trip.

(* non-vacuity: "abcabcabcabc" as one parsed block (3 literals + a 9-byte overlapping match at offset 3) meets sblocks_ok and the
   number-level checks *)
Example C01_valid_parse_example :
  let x := [97; 98; 99; 97; 98; 99; 97; 98; 99; 97; 98; 99] in
  let sbs := [SLz 12 [{| s_ll := 3; s_ml := 9; s_off := 3; s_ofv := 6 |}]] in
  sblocks_ok x 0 (1, 4, 8) sbs /\
  (exists ebs z, pblocks_run true 12 12 {| z_hist := []; z_rep := (1, 4, 8); z_pos := 0 |} (to_pblocks x 0 sbs) = Some (ebs, z)).
Proof.
  cbv zeta. split.
  - cbn [sblocks_ok sb_size]. split; [vm_compute; discriminate|]. split; [discriminate|].
    exists 12, (3, 1, 4). split; [|split; [vm_compute; discriminate|reflexivity]].
    cbn [parse_ok]. exists (3, 1, 4). split; [reflexivity|]. split; [|split; reflexivity].
    unfold match_ok. cbn [s_ml s_ll s_off]. split; [vm_compute; discriminate|]. split; [vm_compute; discriminate|]. split; [vm_compute; discriminate|].
    cbn [s_ml s_ll s_off]. intros i Hi. assert (Hc : i = 0 \/ i = 1 \/ i = 2 \/ i = 3 \/ i = 4 \/ i = 5 \/ i = 6 \/ i = 7 \/ i = 8) by lia.
    destruct Hc as [->|[->|[->|[->|[->|[->|[->|[->| ->]]]]]]]]; reflexivity.
  - assert (H : match pblocks_run true 12 12 {| z_hist := []; z_rep := (1, 4, 8); z_pos := 0 |}
                        (to_pblocks [97; 98; 99; 97; 98; 99; 97; 98; 99; 97; 98; 99] 0 [SLz 12 [{| s_ll := 3; s_ml := 9; s_off := 3; s_ofv := 6 |}]])
                with Some _ => true | None => false end = true) by (timeout 60 vm_compute; reflexivity).
    destruct (pblocks_run _ _ _ _ _) as [[ebs z]|]; [eauto|discriminate].
Qed.

(* ---- FSE table descriptions (coq/Codec/EncodeFse.v: FSE_writeNCount): whatever normalised distribution the table builder chose,
        the description the writer model emits is read back by the reference decoder as the same accuracy log and counts, whatever
        follows it; hence a table in FSE_Compressed_Mode is the table built from those counts (hypothesis of
        C01_compressed_block_round_trip for mode 2) ---- *)
From ZV.Codec Require Import EncodeFse EncodeFseProofs.

Theorem C01_fse_table_description_round_trip : forall maxSV maxLog log counts d tail,
  write_ncount log counts = Some d ->
  log <= maxLog -> lenN counts <= maxSV + 1 -> lenN counts <= 256 -> Forall (fun c => (-1 <= c)%Z) counts ->
  read_ncount maxSV maxLog (d ++ tail) = Ok (log, counts, lenN d).
Proof. exact read_write_ncount. Qed.
Print Assumptions C01_fse_table_description_round_trip.

Theorem C01_fse_compressed_mode_table : forall maxSV maxLog deflog defnorm prev log counts d t tail,
  write_ncount log counts = Some d -> build_dtable log counts = Ok t ->
  log <= maxLog -> lenN counts <= maxSV + 1 -> lenN counts <= 256 -> Forall (fun c => (-1 <= c)%Z) counts ->
  seq_table 2 maxSV maxLog deflog defnorm prev (d ++ tail) = Ok (t, tail).
Proof. exact seq_table_compressed. Qed.
Print Assumptions C01_fse_compressed_mode_table.

(* non-vacuity: the predefined literal-length distribution has a description under the writer model *)
Example C01_ncount_example : exists d, write_ncount 6 spec_LL_default = Some d /\ lenN d = 20.
Proof. eexists. split; [timeout 60 vm_compute; reflexivity|reflexivity]. Qed.

(* ---- Huffman tree descriptions (coq/Codec/EncodeHufDesc.v: HUF_writeCTable_wksp, HUF_compressWeights with the two
        interleaved FSE states of FSE_compress_usingCTable): the reference decoder reads back exactly the weights that were
        written, in both representations; what it then does with them (weights_finish: the checks on the builder's CHOICE of
        weights and the implied last weight) is the same as for any other description of those weights ---- *)
From ZV.Codec Require Import EncodeHufDesc EncodeHufDescProofs.

Theorem C01_huffman_direct_weights_round_trip : forall maxLog ws tail,
  1 <= lenN ws <= 128 -> Forall (fun w => w < 16) ws ->
  read_huf_weights maxLog (enc_weights_direct ws ++ tail) = weights_finish maxLog ws (lenN (enc_weights_direct ws)).
Proof. exact read_direct_weights. Qed.
Print Assumptions C01_huffman_direct_weights_round_trip.

Theorem C01_huffman_fse_weights_round_trip : forall maxLog log counts ws enc tail t,
  enc_weights_fse log counts ws = Some enc -> build_dtable log counts = Ok t -> nb_pos t ->
  log <= 6 -> lenN counts <= 256 -> Forall (fun c => (-1 <= c)%Z) counts -> (length ws <= 260)%nat ->
  read_huf_weights maxLog (enc ++ tail) = weights_finish maxLog ws (lenN enc).
Proof. exact read_fse_weights. Qed.
Print Assumptions C01_huffman_fse_weights_round_trip.

(* ---- composition of all the parts: a block with every entropy feature on (Huffman-compressed literals whose tree
        description is FSE-compressed; three FSE_Compressed_Mode sequence tables), for ANY weights and normalised
        distributions the description writers and the decoder's checks accept, decodes to the execution of its sequences.
        The hypotheses are instantiated on every compressed block of every emitted frame by the per-run A-tie, which reads the
        choices back with R and regenerates the block from them. ---- *)
From ZV.Codec Require Import EncodeBlockFull.
Theorem C01_fully_compressed_block_round_trip : forall strict window blockMax e x wlog wcounts ws treedesc wt all hlog sf lits litsec lllog llcounts dll tll oflog ofcounts dof tof mllog mlcounts dml tml qs stream x1 lits1 rep1,
  (* the Huffman tree: any weights the description writer and the decoder's checks accept *)
  enc_weights_fse wlog wcounts ws = Some treedesc -> build_dtable wlog wcounts = Ok wt -> nb_pos wt ->
  wlog <= 6 -> lenN wcounts <= 256 -> Forall (fun c => (-1 <= c)%Z) wcounts -> (length ws <= 260)%nat ->
  weights_finish LitHufLog ws (lenN treedesc) = Ok (all, hlog, lenN treedesc) ->
  (* the literals section *)
  sf < 4 -> lenN lits <= blockMax -> (sf = 0 \/ 6 <= lenN lits) ->
  (forall part b, enc_huf1 (huf_tree all hlog) part = Some b -> lenN b < 65536) ->
  enc_lits_huf 2 sf treedesc (huf_tree all hlog) lits = Some litsec ->
  (* the three tables: any normalised distributions the description writer accepts *)
  write_ncount lllog llcounts = Some dll -> build_dtable lllog llcounts = Ok tll -> lllog <= LLFSELog -> lenN llcounts <= MaxLL + 1 -> Forall (fun c => (-1 <= c)%Z) llcounts ->
  write_ncount oflog ofcounts = Some dof -> build_dtable oflog ofcounts = Ok tof -> oflog <= OffFSELog -> lenN ofcounts <= MaxOff + 1 -> Forall (fun c => (-1 <= c)%Z) ofcounts ->
  write_ncount mllog mlcounts = Some dml -> build_dtable mllog mlcounts = Ok tml -> mllog <= MLFSELog -> lenN mlcounts <= MaxML + 1 -> Forall (fun c => (-1 <= c)%Z) mlcounts ->
  (* the sequences *)
  qs <> [] -> lenN qs < 98048 ->
  enc_seq_stream tll tof tml qs = Some stream ->
  exec_seqs strict window blockMax qs (e_rep e) (x_block_start x) lits = Ok (x1, lits1, rep1) ->
  x_blk x1 + lenN lits1 <= blockMax ->
  exists bt, decode_cblock strict window blockMax e x (enc_cblock_parts litsec (lenN qs) 168 dll dof dml stream)
             = Ok ({| e_huf := Some {| h_log := hlog; h_tree := huf_tree all hlog; h_weights := all |};
                      e_ll := Some tll; e_of := Some tof; e_ml := Some tml; e_rep := rep1 |},
                   push_fwd x1 lits1 (lenN lits1), bt).
Proof. exact fully_compressed_block_round_trip. Qed.
Print Assumptions C01_fully_compressed_block_round_trip.

(* ---- frames built by the serialiser model, back to back with anything R decodes: the stream decodes to the concatenation ---- *)
From ZV.Codec Require Import MultiFrameProofs.
Theorem C01_model_frame_then_stream : forall cfg d p dictID bs rest e' x' c items,
  params_ok p (lenN (blocks_content bs)) dictID -> bs <> [] -> c_magicless cfg = fp_magicless p ->
  frame_window p (lenN (blocks_content bs)) <= c_window_max cfg -> dict_ok d p dictID ->
  blocks_spec (c_strict_window cfg) (frame_window p (lenN (blocks_content bs)))
              (N.min (N.min (frame_window p (lenN (blocks_content bs))) BLOCK_MAX) (c_block_max cfg))
              (dict_entropy d) (x_init d) bs = Ok (e', x') ->
  ext (x_init d) x' (blocks_content bs) ->
  R cfg d rest = Ok (c, items) ->
  exists t, R cfg d (enc_frame p dictID bs ++ rest) = Ok (blocks_content bs ++ c, FZstd t (lenN (blocks_content bs)) :: items).
Proof. exact R_model_frame_then_stream. Qed.
Print Assumptions C01_model_frame_then_stream.

(* ---- tANS completeness, in general: for EVERY decoding table built from a normalised distribution (every count >= -1,
        counts summing to 2^log, table log 5..9 = every FSE table of the format), every symbol of non-zero probability and
        every state: some cell of that symbol has an interval containing the state, i.e. the FSE encoder is total.
        (The positions visited by the symbol spreading depend only on (log, number of low-probability symbols); that they are
        pairwise distinct, stay below the low-probability area and return to 0 is a finite sweep over all 992 (log, high)
        pairs; occupancy of the table, the per-symbol counters of the cells and the tiling of [0, 2^log) by the intervals
        of the counters c .. 2c-1 are proved symbolically.) ---- *)
From ZV.Codec Require Import FseTotal.
Theorem C01_fse_encoder_total : forall log counts t s,
  build_dtable log counts = Ok t -> In log [5; 6; 7; 8; 9] -> Forall (fun c => (-1 <= c)%Z) counts ->
  forall c, nth_error counts (N.to_nat s) = Some c -> c <> 0%Z ->
  (exists st, enc_init t s = Some st) /\ forall x, x < 2 ^ log -> exists r, enc_step t x s = Some r.
Proof. exact build_dtable_total. Qed.
Print Assumptions C01_fse_encoder_total.

(* ... hence the sequences bitstream encoder never fails on three such tables when every code it has to emit has a non-zero
   count: the hypothesis [enc_seq_stream ... = Some stream] of C01_fully_compressed_block_round_trip is implied by checkable
   conditions on the chosen distributions *)
Theorem C01_sequence_encoder_total : forall lllog llc tll oflog ofc tof mllog mlc tml,
  build_dtable lllog llc = Ok tll -> build_dtable oflog ofc = Ok tof -> build_dtable mllog mlc = Ok tml ->
  In lllog [5; 6; 7; 8; 9] -> In oflog [5; 6; 7; 8; 9] -> In mllog [5; 6; 7; 8; 9] ->
  Forall (fun c => (-1 <= c)%Z) llc -> Forall (fun c => (-1 <= c)%Z) ofc -> Forall (fun c => (-1 <= c)%Z) mlc ->
  forall qs, qs <> [] -> Forall (codes_present llc ofc mlc) qs ->
  exists st bits, enc_seqs tll tof tml qs = Some (st, bits).
Proof. exact enc_seqs_total. Qed.
Print Assumptions C01_sequence_encoder_total.

(* the hypotheses are met by the predefined literal-length distribution: symbol 35 (count -1) from every state *)
Example C01_fse_total_example :
  exists t, build_dtable 6 Gen_Tables.LL_defaultNorm = Ok t /\ (exists r, enc_step t 17 35 = Some r) /\ nth_error Gen_Tables.LL_defaultNorm 35 = Some (-1)%Z.
Proof. vm_compute. eexists. repeat split; eexists; reflexivity. Qed.
