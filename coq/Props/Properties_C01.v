(* Property C01 - theorem list (statements only; proofs live in the *Proofs.v files). *)
From Coq Require Import NArith ZArith List Lia.
From ZV.Codec Require Import Bytes Fse Block TablesProofs.
Import ListNotations.
Local Open Scope N_scope.

(* every literal length < 2^17 and every match length in [3, 2^17+3) has a code in the specification tables *)
Theorem C01_code_tables_partition :
  (forall ll, ll < 131072 -> exists c, find_code spec_LL_base spec_LL_bits ll 0 = Some c) /\
  (forall ml, 3 <= ml -> ml < 131075 -> exists c, find_code spec_ML_base spec_ML_bits ml 0 = Some c).
Proof. exact code_tables_partition. Qed.
Print Assumptions C01_code_tables_partition.

(* the tables compiled into the current /repo are the specification's *)
Theorem C01_gen_tables_match_spec :
  ZV.Gen.Gen_Tables.LL_base = spec_LL_base /\ ZV.Gen.Gen_Tables.LL_bits = spec_LL_bits /\
  ZV.Gen.Gen_Tables.ML_base = spec_ML_base /\ ZV.Gen.Gen_Tables.ML_bits = spec_ML_bits.
Proof. pose proof gen_tables_match_spec as H. tauto. Qed.
Print Assumptions C01_gen_tables_match_spec.

(* ---- round trip of the serialiser side A (coq/Codec/Encode.v: ZSTD_writeFrameHeader, block framing,
        ZSTD_noCompressBlock, ZSTD_rleCompressBlock, ZSTD_writeEpilogue) through the reference decoder ---- *)
From ZV.Codec Require Import XXH64 Huf Frame Encode EncodeProofs.

(* every frame header the writer can produce parses back to the fields it was built from, for every window log,
   flag combination, dictionary ID and content size, whatever bytes follow *)
Theorem C01_frame_header_round_trip : forall p pledged dictID rest,
  params_ok p pledged dictID ->
  exists fh, parse_fheader (fp_magicless p) (enc_fheader p pledged dictID ++ rest) = Ok (fh, rest) /\ fh_expected p pledged dictID fh.
Proof. exact parse_enc_fheader. Qed.
Print Assumptions C01_frame_header_round_trip.

(* a frame assembled from ANY non-empty list of blocks decodes to the concatenated block contents and leaves the
   trailing input untouched, provided each block means its content to the decoder state (blocks_spec / ext) *)
Theorem C01_frame_assembly_round_trip : forall cfg d p dictID bs rest e' x',
  params_ok p (lenN (blocks_content bs)) dictID ->
  bs <> [] ->
  c_magicless cfg = fp_magicless p ->
  frame_window p (lenN (blocks_content bs)) <= c_window_max cfg ->
  dict_ok d p dictID ->
  blocks_spec (c_strict_window cfg) (frame_window p (lenN (blocks_content bs)))
              (N.min (N.min (frame_window p (lenN (blocks_content bs))) BLOCK_MAX) (c_block_max cfg))
              (dict_entropy d) (x_init d) bs = Ok (e', x') ->
  ext (x_init d) x' (blocks_content bs) ->
  exists t, decode_frame cfg d (enc_frame p dictID bs ++ rest) = Ok (blocks_content bs, t, rest).
Proof. exact decode_enc_frame. Qed.
Print Assumptions C01_frame_assembly_round_trip.

(* raw and RLE blocks always mean their content: unconditional round trip for every such block list *)
Theorem C01_raw_rle_frames_round_trip : forall cfg d p dictID bs rest,
  params_ok p (lenN (blocks_content bs)) dictID ->
  bs <> [] -> forallb simple_block bs = true ->
  Forall (block_fits (N.min (N.min (frame_window p (lenN (blocks_content bs))) BLOCK_MAX) (c_block_max cfg))) bs ->
  c_magicless cfg = fp_magicless p ->
  frame_window p (lenN (blocks_content bs)) <= c_window_max cfg ->
  dict_ok d p dictID ->
  exists t, decode_frame cfg d (enc_frame p dictID bs ++ rest) = Ok (blocks_content bs, t, rest).
Proof. exact decode_enc_frame_simple. Qed.
Print Assumptions C01_raw_rle_frames_round_trip.

(* the store-only compressor (what the library emits for incompressible input) is lossless for EVERY input,
   every block size, every frame parameter vector, with or without a dictionary attached *)
Theorem C01_store_compressor_lossless : forall cfg d p dictID bsize src rest,
  params_ok p (lenN src) dictID ->
  1 <= bsize -> bsize <= pow2 (fp_windowLog p) -> bsize <= BLOCK_MAX -> bsize <= c_block_max cfg ->
  c_magicless cfg = fp_magicless p ->
  frame_window p (lenN src) <= c_window_max cfg ->
  dict_ok d p dictID ->
  exists t, decode_frame cfg d (enc_store p dictID bsize src ++ rest) = Ok (src, t, rest).
Proof. exact decode_enc_store. Qed.
Print Assumptions C01_store_compressor_lossless.

(* non-vacuity: a concrete parameter vector and input meet the hypotheses, and the frame is the expected bytes *)
Example C01_store_example :
  let p := {| fp_windowLog := 19; fp_contentSize := true; fp_checksum := false; fp_noDictID := false; fp_magicless := false |} in
  params_ok p 3 0 /\ enc_store p 0 131072 [1; 2; 3] = [40; 181; 47; 253; 32; 3; 25; 0; 0; 1; 2; 3].
Proof. split; [unfold params_ok; cbn; lia|vm_compute; reflexivity]. Qed.
