(* Property C10 - theorem list: streaming calls always progress, a completed flush is decodable, a completed end
   closes the frame, driving ZSTD_e_end terminates.  Statements are about the executable models of
   ZSTD_compressStream2 (coq/Stream/CStreamModel.v, block compressor universally quantified) and of the decoder
   stage machines (coq/Stream/DStreamModel.v).  The per-run correspondence ties the models to the current sources. *)
From Coq Require Import NArith ZArith List Bool.
From ZV.Codec Require Import Bytes.
From ZV.Stream Require Import DStreamModel CStreamModel CStreamProofs.
Import ListNotations.
Local Open Scope N_scope.

(* ---------------- (a) progress: ZSTD_compressStream2, every reachable state, every block compressor ---------------- *)

(* the initial state satisfies the per-call invariant SI ... *)
Theorem C10_invariant_initially : forall (CS : Type) (compress_chunk : CS -> bytes -> bool -> CS * bytes) (P : kparams) (cs : CS),
  SI CS compress_chunk P cs [] (k_new cs).
Proof. exact SI_new. Qed.
Print Assumptions C10_invariant_initially.

(* ... and every state reached by any call history satisfies it (so the per-call theorems below hold after any history) *)
Theorem C10_invariant_reachable : forall (CS : Type) (cs_begin : CS -> fconf -> N -> CS)
    (compress_chunk : CS -> bytes -> bool -> CS * bytes) (P : kparams) (X : bytes) (cs : CS) (calls : list kcall)
    (k' : kstate CS) (pos' : N) (emitted' : bytes),
  calls_ok calls ->
  krun CS cs_begin compress_chunk P (k_new cs) X 0 calls [] = Some (k', pos', emitted') ->
  exists (cs0 : CS) (chunks : list (bytes * bool)), SI CS compress_chunk P cs0 chunks k'.
Proof. exact cstream_reachable_SI. Qed.
Print Assumptions C10_invariant_reachable.

(* a successful call that is given input and output room consumes input, or produces output, or completes the frame *)
Theorem C10_cstream_progress : forall (CS : Type) (cs_begin : CS -> fconf -> N -> CS)
    (compress_chunk : CS -> bytes -> bool -> CS * bytes) (P : kparams) (fc : fconf) (cs0 : CS) (chunks : list (bytes * bool))
    (k : kstate CS) (inp : list N) (ocap : N) (dir : directive) (r : N),
  SI CS compress_chunk P cs0 chunks k -> 1 <= fc_maxBlock fc -> inp <> [] -> 0 < ocap ->
  let o := kstep CS cs_begin compress_chunk P fc k inp ocap dir in
  ko_ret o = Some r ->
  (0 < ko_consumed o)%Z \/ ko_out o <> [] \/ (k_stage (ko_k o) = KInit /\ k_frameEnded (ko_k o) = true).
Proof. exact cstream_progress. Qed.
Print Assumptions C10_cstream_progress.

(* an ZSTD_e_end call that does not complete the frame has filled the whole output buffer it was given *)
Theorem C10_cstream_end_fills_output : forall (CS : Type) (cs_begin : CS -> fconf -> N -> CS)
    (compress_chunk : CS -> bytes -> bool -> CS * bytes) (P : kparams) (fc : fconf) (cs0 : CS) (chunks : list (bytes * bool))
    (k : kstate CS) (inp : bytes) (ocap r : N),
  SI CS compress_chunk P cs0 chunks k -> 1 <= fc_maxBlock fc ->
  let o := kstep CS cs_begin compress_chunk P fc k inp ocap DirEnd in
  ko_ret o = Some r -> r <> 0 -> lenN (ko_out o) = ocap.
Proof. exact cstream_end_fills_output. Qed.
Print Assumptions C10_cstream_end_fills_output.

(* driving ZSTD_e_end with >= 1 byte of output room per call finishes (0 or an error) after finitely many calls *)
Theorem C10_cstream_terminates : forall (CS : Type) (cs_begin : CS -> fconf -> N -> CS)
    (compress_chunk : CS -> bytes -> bool -> CS * bytes) (P : kparams) (fc : fconf) (caps : nat -> N),
  1 <= fc_maxBlock fc -> kp_stableIn P = false -> (forall i : nat, 1 <= caps i) ->
  forall (k : kstate CS) (R : bytes) (cs0 : CS) (chunks : list (bytes * bool)) (i : nat),
  SI CS compress_chunk P cs0 chunks k ->
  exists n : nat,
    match kend_run CS cs_begin compress_chunk P fc k R caps i n with
    | EMore _ _ => False
    | _ => True
    end.
Proof. exact cstream_terminates. Qed.
Print Assumptions C10_cstream_terminates.

(* ---------------- (b) flush / end completion ---------------- *)

(* flush returned 0: nothing is pending on either side; in a live frame the whole offered input was consumed *)
Theorem C10_cstream_flush_complete : forall (CS : Type) (cs_begin : CS -> fconf -> N -> CS)
    (compress_chunk : CS -> bytes -> bool -> CS * bytes) (P : kparams) (fc : fconf) (cs0 : CS) (chunks : list (bytes * bool))
    (k : kstate CS) (inp : bytes) (ocap : N),
  SI CS compress_chunk P cs0 chunks k -> 1 <= fc_maxBlock fc ->
  let o := kstep CS cs_begin compress_chunk P fc k inp ocap DirFlush in
  ko_ret o = Some 0 ->
  k_inPend (ko_k o) = [] /\ k_outPend (ko_k o) = [] /\
  (k_stage (ko_k o) = KLoad -> k_held (ko_k o) = [] /\ ko_consumed o = Z.of_N (lenN inp)).
Proof. exact cstream_flush_complete. Qed.
Print Assumptions C10_cstream_flush_complete.

(* end returned 0: the closing chunk (last block + epilogue) went out, nothing is pending, the session is reset *)
Theorem C10_cstream_end_complete : forall (CS : Type) (cs_begin : CS -> fconf -> N -> CS)
    (compress_chunk : CS -> bytes -> bool -> CS * bytes) (P : kparams) (fc : fconf) (cs0 : CS) (chunks : list (bytes * bool))
    (k : kstate CS) (inp : bytes) (ocap : N),
  SI CS compress_chunk P cs0 chunks k -> 1 <= fc_maxBlock fc ->
  let o := kstep CS cs_begin compress_chunk P fc k inp ocap DirEnd in
  ko_ret o = Some 0 ->
  exists (cs1 : CS) (chunks2 : list (bytes * bool)),
    SI CS compress_chunk P cs1 chunks2 (ko_k o) /\ complete chunks2 /\
    k_stage (ko_k o) = KInit /\ k_frameEnded (ko_k o) = true /\ k_inPend (ko_k o) = [] /\ k_outPend (ko_k o) = [].
Proof. exact cstream_end_complete. Qed.
Print Assumptions C10_cstream_end_complete.

(* whole histories: when the last call is a flush that returned 0, the input consumed so far is exactly what went through
   the block compressor and the bytes emitted so far are exactly what it produced; hence, given the per-chunk
   decodability of the block compressor (hypothesis, discharged per run), the emitted prefix decodes to the consumed input *)
Theorem C10_flush_complete_decodable : forall (CS : Type) (cs_begin : CS -> fconf -> N -> CS)
    (compress_chunk : CS -> bytes -> bool -> CS * bytes) (Dp : bytes -> option bytes),
  (forall (cs : CS) (fc : fconf) (pl : N) (chunks : list (bytes * bool)),
     nolast chunks -> Dp (outs CS compress_chunk (cs_begin cs fc pl) chunks) = Some (chunks_in chunks)) ->
  forall (P : kparams) (X : bytes) (cs : CS) (calls : list kcall) (c : kcall) (k' : kstate CS) (pos' : N) (emitted' : bytes)
    (k1 : kstate CS) (pos1 : N) (em1 : bytes),
  calls_ok (calls ++ [c]) -> kc_dir c = DirFlush ->
  krun CS cs_begin compress_chunk P (k_new cs) X 0 calls [] = Some (k1, pos1, em1) ->
  ko_ret (kstep CS cs_begin compress_chunk P (kc_fc c) k1 (tk (kc_n c) (dr pos1 X)) (kc_cap c) DirFlush) = Some 0 ->
  krun CS cs_begin compress_chunk P (k_new cs) X 0 (calls ++ [c]) [] = Some (k', pos', emitted') ->
  k_stage k' = KLoad ->
  exists (dones : list (CS * list (bytes * bool))) (cs0 : CS) (chunks : list (bytes * bool)),
    tk pos' X = frames_in CS dones ++ chunks_in chunks /\
    emitted' = frames_out CS compress_chunk dones ++ outs CS compress_chunk cs0 chunks /\
    nolast chunks /\ (dones = [] -> Dp emitted' = Some (tk pos' X)).
Proof. exact flush_complete_decodable. Qed.
Print Assumptions C10_flush_complete_decodable.

(* whole histories ending with a completed frame: the emitted bytes are a concatenation of frames, each decoding to its
   part of the consumed input (given per-frame decodability of the block compressor's output) *)
Theorem C10_end_complete_roundtrip : forall (CS : Type) (cs_begin : CS -> fconf -> N -> CS)
    (compress_chunk : CS -> bytes -> bool -> CS * bytes) (D : bytes -> option bytes),
  (forall (cs : CS) (fc : fconf) (pl : N) (chunks : list (bytes * bool)),
     complete chunks -> D (outs CS compress_chunk (cs_begin cs fc pl) chunks) = Some (chunks_in chunks)) ->
  forall (P : kparams) (X : bytes) (cs : CS) (calls : list kcall) (k' : kstate CS) (pos' : N) (emitted' : bytes),
  calls_ok calls ->
  krun CS cs_begin compress_chunk P (k_new cs) X 0 calls [] = Some (k', pos', emitted') ->
  k_stage k' = KInit -> k_frameEnded k' = true -> k_held k' = [] ->
  exists frames : list (bytes * bytes),
    tk pos' X = concat (map fst frames) /\ emitted' = concat (map snd frames) /\
    forall io, In io frames -> D (snd io) = Some (fst io).
Proof. exact C02_stream_roundtrip. Qed.
Print Assumptions C10_end_complete_roundtrip.

(* ---------------- (c) decoder size hints: the buffer-less API ---------------- *)
From ZV.Stream Require Import C10Hints C10HintsProofs.

(* the layout-only frame size used below is what the model of ZSTD_findFrameCompressedSize returns *)
Theorem C10_frame_extent_is_findFrameCompressedSize : forall (ml : bool) (src : bytes) (n : N),
  find_csize ml src = Some n -> frame_extent ml src = Some n.
Proof. exact find_csize_extent. Qed.
Print Assumptions C10_frame_extent_is_findFrameCompressedSize.

(* ZSTD_decompressBegin + ZSTD_decompressContinue fed exactly ZSTD_nextSrcSizeToDecompress bytes, for every block decoder
   and every byte string that starts with a frame layout of n bytes (any header form, raw / RLE / compressed blocks,
   empty blocks, checksum or not, skippable frames of any payload size), the reader seeing nothing beyond those n bytes:
   either the decoder reports an error, or it finishes at offset n exactly, having asked for sizes that sum to n;
   it never asks for a byte beyond the frame (RBeyond), and the reader's fuel n + 2 is never exhausted *)
Theorem C10_bufferless_hints_exact : forall (H : Type) (b_init : H) (b_raw : H -> bytes -> H) (b_rle : H -> N -> N -> H)
    (b_cblock : N -> N -> H -> bytes -> res (H * bytes)) (b_hash : bytes -> N) (P : dparams) (src : bytes) (n : N),
  wf_bytes src -> frame_extent (dp_magicless P) src = Some n ->
  match hread H b_init b_raw b_rle b_cblock b_hash P src n with
  | RDone p asked => p = n /\ sumN asked = n
  | RFail _ => True
  | RBeyond _ _ | RShort _ | RFuel => False
  end.
Proof. exact bufferless_read_exact. Qed.
Print Assumptions C10_bufferless_hints_exact.

(* ---------------- (c) decoder size hints: ZSTD_decompressStream ---------------- *)
From ZV.Stream Require Import C10StreamHints.

(* ZSTD_decompressStream in buffered-output mode, every call with a fresh output buffer of cap >= ZSTD_BLOCKSIZE_MAX bytes,
   fed exactly ZSTD_startingInputLength bytes and then exactly its last return value, the reader seeing nothing beyond
   the n bytes of the frame layout at the head of src (any header form, any block sequence, checksum or not, skippable
   frames of any payload size), for every block decoder: either the decoder reports an error, or it returns 0 exactly at
   offset n; every call consumed all the bytes it was given (no RShort), no hint reaches beyond the frame (no RBeyond),
   the hints sum to n, and the reader's fuel n + 2 is never exhausted *)
Theorem C10_stream_hints_exact : forall (H : Type) (b_init : H) (b_raw : H -> bytes -> H) (b_rle : H -> N -> N -> H)
    (b_cblock : N -> N -> H -> bytes -> res (H * bytes)) (b_hash : bytes -> N) (P : dparams) (src : bytes) (n cap : N),
  wf_bytes src -> dp_stableOut P = false -> BLOCKMAX <= cap ->
  frame_extent (dp_magicless P) src = Some n ->
  match sread H b_init b_raw b_rle b_cblock b_hash P src cap n with
  | RDone p asked => p = n /\ sumN asked = n
  | RFail _ => True
  | RBeyond _ _ | RShort _ | RFuel => False
  end.
Proof. exact stream_read_exact. Qed.
Print Assumptions C10_stream_hints_exact.

(* ---------------- (a) progress: ZSTD_decompressStream, every history ---------------- *)
From ZV.Stream Require Import C10DProgress.

(* the invariant DInv of the streaming state between calls holds of a fresh context ... *)
Theorem C10_dstream_invariant_initially : forall (H : Type) (b_init : H) (P : dparams), DInv H P (z_new H b_init P).
Proof. exact DInv_new. Qed.
Print Assumptions C10_dstream_invariant_initially.

(* ... one call (buffered output mode, a fresh output buffer of cap bytes), from any state satisfying DInv, for every block
   decoder: the call fails, or it keeps DInv and - when it was given at least one byte of input and one byte of output
   room - it consumed input or produced output *)
Theorem C10_dstream_progress : forall (H : Type) (b_init : H) (b_raw : H -> bytes -> H) (b_rle : H -> N -> N -> H)
    (b_cblock : N -> N -> H -> bytes -> res (H * bytes)) (b_hash : bytes -> N) (P : dparams) (z : zstate H) (inp : bytes) (cap : N),
  dp_stableOut P = false -> DInv H P z ->
  let o := dstep H b_init b_raw b_rle b_cblock b_hash P z inp cap 0 in
  match o_ret o with
  | MErr _ => True
  | MOk _ => DInv H P (o_z o) /\ (inp <> [] -> 0 < cap -> 0 < o_consumed o \/ o_out o <> [])
  end.
Proof. exact dstream_call. Qed.
Print Assumptions C10_dstream_progress.

(* hence every successful call of every call history (any segmentation of any byte string, valid or not, any output
   capacities) that was given input and output room made progress *)
Theorem C10_dstream_progress_all_histories : forall (H : Type) (b_init : H) (b_raw : H -> bytes -> H) (b_rle : H -> N -> N -> H)
    (b_cblock : N -> N -> H -> bytes -> res (H * bytes)) (b_hash : bytes -> N) (P : dparams) (src : bytes) (calls : list dcall),
  dp_stableOut P = false ->
  all_progress H b_init b_raw b_rle b_cblock b_hash P (z_new H b_init P) src calls.
Proof. exact dstream_progress_from_new. Qed.
Print Assumptions C10_dstream_progress_all_histories.

(* round 3: the same without the buffered-output hypothesis and for any output buffer {dst, osize, opos}: buffered mode or
   ZSTD_d_stableOutBuffer (the block is decoded straight into the caller's buffer, no zdss_flush stage; a caller that comes
   back with another buffer is refused with dstBuffer_wrong, a failure), room = osize - opos *)
Theorem C10_dstream_progress_any_mode : forall (H : Type) (b_init : H) (b_raw : H -> bytes -> H) (b_rle : H -> N -> N -> H)
    (b_cblock : N -> N -> H -> bytes -> res (H * bytes)) (b_hash : bytes -> N) (P : dparams) (z : zstate H) (inp : bytes) (osize opos : N),
  DInv H P z ->
  let o := dstep H b_init b_raw b_rle b_cblock b_hash P z inp osize opos in
  match o_ret o with
  | MErr _ => True
  | MOk _ => DInv H P (o_z o) /\ (inp <> [] -> opos < osize -> 0 < o_consumed o \/ o_out o <> [])
  end.
Proof. exact dstream_call_gen. Qed.
Print Assumptions C10_dstream_progress_any_mode.

(* ... hence for every call history (any segmentation of any byte string, any output buffers, either output mode) *)
Theorem C10_dstream_progress_all_histories_any_mode : forall (H : Type) (b_init : H) (b_raw : H -> bytes -> H) (b_rle : H -> N -> N -> H)
    (b_cblock : N -> N -> H -> bytes -> res (H * bytes)) (b_hash : bytes -> N) (P : dparams) (src : bytes) (calls : list gcall),
  all_progress_gen H b_init b_raw b_rle b_cblock b_hash P (z_new H b_init P) src calls.
Proof. exact dstream_progress_gen_from_new. Qed.
Print Assumptions C10_dstream_progress_all_histories_any_mode.
(* non-vacuity in stable-output mode: C10DProgress.ex_stable_out (two successful calls on the one buffer; a call that comes
   back with another position or size is refused) *)

(* ---------------- recommended buffer sizes (regenerated constants) ---------------- *)
From ZV.Gen Require Import Gen_Stream.
From ZV.Stream Require Import C10Sizes.

(* ZSTD_DStreamOutSize() >= one maximal block (the premise of C10_stream_hints_exact), ZSTD_DStreamInSize() >= one maximal
   block + the preloaded next block header *)
Theorem C10_DStream_sizes_suffice : BLOCKMAX <= s_DStreamOutSize /\ BLOCKMAX + BHS <= s_DStreamInSize.
Proof. exact (conj dstream_out_size_suffices dstream_in_size_suffices). Qed.
Print Assumptions C10_DStream_sizes_suffice.

(* with ZSTD_CStreamOutSize() bytes of room every block passes the "compress straight into the caller's buffer" test of
   ZSTD_compressStream_generic (fits_bound = oSize >= ZSTD_compressBound(iSize)): nothing is left in outBuff *)
Theorem C10_CStreamOutSize_direct : forall n cap : N, n <= BLOCKMAX -> s_CStreamOutSize <= cap -> fits_bound cap n = true.
Proof. exact cstream_out_size_direct. Qed.
Print Assumptions C10_CStreamOutSize_direct.

(* ---------------- (a), (b) at the level of the public entry points: ZSTD_compressStream2 / ZSTD_compressStream /
   ZSTD_flushStream / ZSTD_endStream mixed in one history, stable or buffered input (coq/Stream/C10Api.v) ---------------- *)
From ZV.Stream Require Import C10Api C10ApiProofs.

(* the invariant AInv of API-level histories holds of a fresh context ... *)
Theorem C10_api_invariant_initially : forall (CS : Type) (cs_begin : CS -> fconf -> N -> CS)
    (compress_chunk : CS -> bytes -> bool -> CS * bytes) (P : kparams) (X : bytes) (cs : CS),
  AInv CS cs_begin compress_chunk P X (a_new cs) [] [] cs [].
Proof. exact AInv_new. Qed.
Print Assumptions C10_api_invariant_initially.

(* ... and of every state reached by any history of the four entry points over one input array (any sizes, capacities,
   directives; the wrappers present the recorded stable buffer or {NULL,0,0} as inBuffer_forEndFlush decides, and
   ZSTD_keepCallerPosition gives back what they could not compress of the bytes already reported as consumed) *)
Theorem C10_api_invariant_reachable : forall (CS : Type) (cs_begin : CS -> fconf -> N -> CS)
    (compress_chunk : CS -> bytes -> bool -> CS * bytes) (P : kparams) (X : bytes) (ops : list aop) (a : astate CS) (em : bytes)
    (dones : list (CS * list (bytes * bool))) (cs0 : CS) (chunks : list (bytes * bool)) (a' : astate CS) (em' : bytes),
  AInv CS cs_begin compress_chunk P X a em dones cs0 chunks -> ops_ok ops ->
  arun CS cs_begin compress_chunk P X a ops em = Some (a', em') ->
  exists (dones' : list (CS * list (bytes * bool))) (cs0' : CS) (chunks' : list (bytes * bool)),
    AInv CS cs_begin compress_chunk P X a' em' dones' cs0' chunks'.
Proof. exact api_invariant. Qed.
Print Assumptions C10_api_invariant_reachable.

(* fix 13b2cf8 as a theorem: in every reachable state, when the wrappers present {NULL,0,0} no input that was reported as
   consumed is still owed (with the decision of the old code, wview_applied_only, this is false: ex_old_wrapper_view) *)
Theorem C10_wrappers_keep_deferred_input : forall (CS : Type) (cs_begin : CS -> fconf -> N -> CS)
    (compress_chunk : CS -> bytes -> bool -> CS * bytes) (P : kparams) (X : bytes) (a : astate CS) (em : bytes)
    (dones : list (CS * list (bytes * bool))) (cs0 : CS) (chunks : list (bytes * bool)),
  AInv CS cs_begin compress_chunk P X a em dones cs0 chunks -> wview (a_k a) = false -> k_held (a_k a) = [].
Proof. exact wrappers_keep_deferred. Qed.
Print Assumptions C10_wrappers_keep_deferred_input.

(* a ZSTD_compressStream2 / ZSTD_compressStream call given input and room takes input - counting input that an earlier
   call reported as consumed and that is only compressed now - or produces output, or completes the frame *)
Theorem C10_api_call_progress : forall (CS : Type) (cs_begin : CS -> fconf -> N -> CS)
    (compress_chunk : CS -> bytes -> bool -> CS * bytes) (P : kparams) (X : bytes) (a : astate CS) (em : bytes)
    (dones : list (CS * list (bytes * bool))) (cs0 : CS) (chunks : list (bytes * bool)) (fc : fconf) (n cap : N) (dir : directive) (r : N),
  AInv CS cs_begin compress_chunk P X a em dones cs0 chunks -> 1 <= fc_maxBlock fc ->
  tk n (dr (a_pos a) X) <> [] -> 0 < cap ->
  let o := a_call CS cs_begin compress_chunk P fc X a n cap dir in
  ao_ret o = Some r ->
  (0 < ao_consumed o + Z.of_N (lenN (k_held (a_k a))))%Z \/ ao_out o <> [] \/
  (k_stage (a_k (ao_a o)) = KInit /\ k_frameEnded (a_k (ao_a o)) = true).
Proof. exact api_call_progress. Qed.
Print Assumptions C10_api_call_progress.

(* ZSTD_flushStream returned 0: nothing pending in inBuff / outBuff and, in a live frame, nothing owed
   (stableIn_notConsumed = 0): fixes 13b2cf8 and 62dea3d as a theorem *)
Theorem C10_flushStream_complete : forall (CS : Type) (cs_begin : CS -> fconf -> N -> CS)
    (compress_chunk : CS -> bytes -> bool -> CS * bytes) (P : kparams) (X : bytes) (a : astate CS) (em : bytes)
    (dones : list (CS * list (bytes * bool))) (cs0 : CS) (chunks : list (bytes * bool)) (fc : fconf) (cap : N),
  AInv CS cs_begin compress_chunk P X a em dones cs0 chunks -> 1 <= fc_maxBlock fc ->
  let o := a_flushStream CS cs_begin compress_chunk P fc X a cap in
  ao_ret o = Some 0 ->
  k_inPend (a_k (ao_a o)) = [] /\ k_outPend (a_k (ao_a o)) = [] /\
  (k_stage (a_k (ao_a o)) = KLoad -> k_held (a_k (ao_a o)) = []).
Proof. exact api_flushStream_complete. Qed.
Print Assumptions C10_flushStream_complete.

(* an unfinished ZSTD_endStream call (return value <> 0) has filled the whole output buffer it was given *)
Theorem C10_endStream_fills_output : forall (CS : Type) (cs_begin : CS -> fconf -> N -> CS)
    (compress_chunk : CS -> bytes -> bool -> CS * bytes) (P : kparams) (X : bytes) (a : astate CS) (em : bytes)
    (dones : list (CS * list (bytes * bool))) (cs0 : CS) (chunks : list (bytes * bool)) (fc : fconf) (cap ck r : N),
  AInv CS cs_begin compress_chunk P X a em dones cs0 chunks -> 1 <= fc_maxBlock fc ->
  let o := a_endStream CS cs_begin compress_chunk P fc X a cap ck in
  ao_ret o = Some r -> r <> 0 -> lenN (ao_out o) = cap.
Proof. exact api_endStream_fills_output. Qed.
Print Assumptions C10_endStream_fills_output.

(* ZSTD_endStream returned 0: the frame is closed, the session reset, nothing owed *)
Theorem C10_endStream_complete : forall (CS : Type) (cs_begin : CS -> fconf -> N -> CS)
    (compress_chunk : CS -> bytes -> bool -> CS * bytes) (P : kparams) (X : bytes) (a : astate CS) (em : bytes)
    (dones : list (CS * list (bytes * bool))) (cs0 : CS) (chunks : list (bytes * bool)) (fc : fconf) (cap ck : N),
  AInv CS cs_begin compress_chunk P X a em dones cs0 chunks -> 1 <= fc_maxBlock fc ->
  let o := a_endStream CS cs_begin compress_chunk P fc X a cap ck in
  ao_ret o = Some 0 ->
  k_stage (a_k (ao_a o)) = KInit /\ k_frameEnded (a_k (ao_a o)) = true /\ k_held (a_k (ao_a o)) = [].
Proof. exact api_endStream_complete. Qed.
Print Assumptions C10_endStream_complete.

(* whole API-level histories, part (b): in any reachable state that a completed flush leaves (live frame, nothing pending,
   nothing owed - see C10_flushStream_complete / C10_cstream_flush_complete) the input up to the position the caller holds
   is exactly what went through the block compressor and the emitted bytes are exactly its output; so, given the
   decodability of the block compressor (hypothesis, discharged per run), the emitted prefix decodes to that input *)
Theorem C10_api_flushed_prefix_decodable : forall (CS : Type) (cs_begin : CS -> fconf -> N -> CS)
    (compress_chunk : CS -> bytes -> bool -> CS * bytes) (Dp : bytes -> option bytes),
  (forall (cs : CS) (fc : fconf) (pl : N) (chunks : list (bytes * bool)),
     nolast chunks -> Dp (outs CS compress_chunk (cs_begin cs fc pl) chunks) = Some (chunks_in chunks)) ->
  forall (P : kparams) (X : bytes) (a : astate CS) (em : bytes) (dones : list (CS * list (bytes * bool))) (cs0 : CS)
    (chunks : list (bytes * bool)),
  AInv CS cs_begin compress_chunk P X a em dones cs0 chunks ->
  k_stage (a_k a) = KLoad -> k_inPend (a_k a) = [] -> k_outPend (a_k a) = [] -> k_held (a_k a) = [] ->
  tk (a_pos a) X = frames_in CS dones ++ chunks_in chunks /\
  em = frames_out CS compress_chunk dones ++ outs CS compress_chunk cs0 chunks /\
  nolast chunks /\ (dones = [] -> Dp em = Some (tk (a_pos a) X)).
Proof. exact api_flushed_prefix_decodable. Qed.
Print Assumptions C10_api_flushed_prefix_decodable.

(* ... and in any reachable state a completed end leaves, the emitted bytes are a concatenation of frames each decoding
   to its part of the input up to the position the caller holds *)
Theorem C10_api_ended_roundtrip : forall (CS : Type) (cs_begin : CS -> fconf -> N -> CS)
    (compress_chunk : CS -> bytes -> bool -> CS * bytes) (D : bytes -> option bytes),
  (forall (cs : CS) (fc : fconf) (pl : N) (chunks : list (bytes * bool)),
     complete chunks -> D (outs CS compress_chunk (cs_begin cs fc pl) chunks) = Some (chunks_in chunks)) ->
  forall (P : kparams) (X : bytes) (a : astate CS) (em : bytes) (dones : list (CS * list (bytes * bool))) (cs0 : CS)
    (chunks : list (bytes * bool)),
  AInv CS cs_begin compress_chunk P X a em dones cs0 chunks ->
  k_stage (a_k a) = KInit -> k_frameEnded (a_k a) = true -> k_held (a_k a) = [] ->
  exists frames : list (bytes * bytes),
    tk (a_pos a) X = concat (map fst frames) /\ em = concat (map snd frames) /\
    forall io, In io frames -> D (snd io) = Some (fst io).
Proof. exact api_ended_roundtrip. Qed.
Print Assumptions C10_api_ended_roundtrip.

(* fix 177647f: ZSTD_CCtx_reset(session_only) leaves nothing owed *)
Theorem C10_reset_forgets_deferred_input : forall (CS : Type) (a : astate CS),
  k_held (a_k (a_reset a)) = [] /\ k_stage (a_k (a_reset a)) = KInit.
Proof. exact api_reset_forgets. Qed.
Print Assumptions C10_reset_forgets_deferred_input.

(* non-vacuity and the three repaired defects on a concrete instance: the store compressor (a chunk is emitted as it is),
   stable input, blocks of 4 bytes.  10 bytes are deferred by a ZSTD_e_continue call; ZSTD_flushStream through 3 bytes of
   room compresses one block and owes 6 bytes again; the next ZSTD_flushStream completes; ZSTD_endStream closes the frame:
   the 10 bytes come out *)
Definition ex_begin (_ : unit) (_ : fconf) (_ : N) : unit := tt.
Definition ex_chunk (_ : unit) (c : bytes) (_ : bool) : unit * bytes := (tt, c).
Definition exP : kparams := {| kp_stableIn := true; kp_stableOut := false; kp_magicless := false |}.
Definition exfc : fconf := {| fc_windowLog := 10; fc_maxBlock := 4; fc_pledge := 18446744073709551615 |}.
Definition exX : bytes := [1;2;3;4;5;6;7;8;9;10;11;12].
Definition ex_run (ops : list aop) := arun unit ex_begin ex_chunk exP exX (a_new tt) ops [].
Example ex_api_history :
  (match ex_run [OCall 10 100 DirContinue exfc; OFlush 3 exfc] with
   | Some (a, em) => Some (k_stage (a_k a), a_pos a, k_held (a_k a), em) | None => None end)
    = Some (KFlush, 10, [5;6;7;8;9;10], [1;2;3]) /\
  (match ex_run [OCall 10 100 DirContinue exfc; OFlush 3 exfc; OFlush 100 exfc] with
   | Some (a, em) => Some (k_stage (a_k a), a_pos a, k_held (a_k a), em) | None => None end)
    = Some (KLoad, 10, [], [1;2;3;4;5;6;7;8;9;10]) /\
  (match ex_run [OCall 10 100 DirContinue exfc; OFlush 3 exfc; OFlush 100 exfc; OEnd 100 0 exfc] with
   | Some (a, em) => Some (k_stage (a_k a), k_frameEnded (a_k a), a_pos a, em) | None => None end)
    = Some (KInit, true, 10, [1;2;3;4;5;6;7;8;9;10]).
Proof. vm_compute. repeat split. Qed.
(* 13b2cf8: after the deferred call the old decision (appliedParams only) presents {NULL,0,0} although 10 bytes are owed *)
Example ex_old_wrapper_view :
  match ex_run [OCall 10 100 DirContinue exfc] with
  | Some (a, _) => wview_applied_only (a_k a) = false /\ wview (a_k a) = true /\ k_held (a_k a) = [1;2;3;4;5;6;7;8;9;10]
  | None => False
  end.
Proof. vm_compute. repeat split. Qed.
(* 177647f: a reset that keeps stableIn_notConsumed makes the next frame (2 new bytes, ZSTD_e_end) carry the 10 abandoned bytes *)
Example ex_old_reset :
  match ex_run [OCall 10 100 DirContinue exfc] with
  | Some (a, _) =>
      ao_out (a_call unit ex_begin ex_chunk exP exfc exX (a_reset_keeps_held a) 2 100 DirEnd) = [1;2;3;4;5;6;7;8;9;10;11;12] /\
      ao_out (a_call unit ex_begin ex_chunk exP exfc exX (a_reset a) 2 100 DirEnd) = [11;12]
  | None => False
  end.
Proof. vm_compute. repeat split. Qed.

(* the input size hint after any API-level history from a fresh context: in a frame in progress ZSTD_nextInputSizeHint -
   the value ZSTD_compressStream returns - is at least 1 and at most one block + 1 (the + 1: inBuffTarget = blockSize + 1
   when the pledged size is exactly one block); in particular it never wraps around (cf. d436c52) *)
Theorem C10_api_hint_bounds : forall (CS : Type) (cs_begin : CS -> fconf -> N -> CS)
    (compress_chunk : CS -> bytes -> bool -> CS * bytes) (P : kparams) (X : bytes) (cs : CS) (ops : list aop)
    (a' : astate CS) (em' : bytes),
  ops_ok ops -> arun CS cs_begin compress_chunk P X (a_new cs) ops [] = Some (a', em') ->
  k_stage (a_k a') <> KInit -> 1 <= k_hint (a_k a') <= k_blockSize (a_k a') + 1.
Proof. exact api_hint_bounds. Qed.
Print Assumptions C10_api_hint_bounds.

(* the hypothesis "frame in progress" of C10_api_hint_bounds cannot be dropped (observation O1 of docs/C10.md): on a context
   that never initialised a frame, stable input, ZSTD_compressStream of 3 bytes defers the frame start, reports the 3 bytes
   consumed and returns 0 as the preferred size of the next input (ZSTD_nextInputSizeHint reads the zeroed blockSize) *)
Example ex_hint_zero_while_deferred :
  (let o := a_stream unit ex_begin ex_chunk exP exfc exX (a_new tt) 3 100 in (ao_ret o, ao_consumed o, k_stage (a_k (ao_a o))))
    = (Some 0, 3%Z, KInit).
Proof. vm_compute. reflexivity. Qed.

(* ---------------- round 3: ZSTD_checkBufferStability never refuses a caller that keeps its buffer (coq/Stream/C10Stab.v) ---------------- *)
From ZV.Stream Require Import C10Stab C10StabProofs.

(* the layer of C10Stab.v adds the recorded expectedInBuffer.pos and the check to the API model and nothing else: a step
   that is not refused is the step of C10Api.v *)
Theorem C10_stability_layer_conservative : forall (CS : Type) (cs_begin : CS -> fconf -> N -> CS)
    (compress_chunk : CS -> bytes -> bool -> CS * bytes) (v : checkver) (kv : keepver) (P : kparams) (X : bytes) (s : sstate CS) (op : aop),
  so_refused (sstep CS cs_begin compress_chunk v kv P X s op) = false ->
  so_o (sstep CS cs_begin compress_chunk v kv P X s op) = astep CS cs_begin compress_chunk P X (s_a s) op /\
  (forall r, ao_ret (astep CS cs_begin compress_chunk P X (s_a s) op) = Some r ->
             s_a (so_s (sstep CS cs_begin compress_chunk v kv P X s op)) = ao_a (astep CS cs_begin compress_chunk P X (s_a s) op)).
Proof. exact sstep_astep. Qed.
Print Assumptions C10_stability_layer_conservative.

(* every history of ZSTD_compressStream2 / ZSTD_compressStream / ZSTD_flushStream / ZSTD_endStream calls over one input
   array (stable or buffered input, any sizes, capacities, directives), from any state that satisfies the API invariant and
   in which none of the three controls (refuses_any: ZSTD_checkBufferStability in a frame in progress; same source and
   pos == expectedInBuffer.size in the init stage while input is deferred - fix 0548f83 -, for a caller's call and for a
   wrapper's call) would refuse: no call is refused with stabilityCondition_notRespected, and the controls still accept the
   caller afterwards (i.e. in a frame in progress whose applied mode is stable, once a real buffer is recorded,
   expectedInBuffer.pos is the position the caller holds; while input is deferred a real buffer is recorded and the caller
   and the recorded position stand at expectedInBuffer.size) *)
Theorem C10_stable_caller_never_refused : forall (CS : Type) (cs_begin : CS -> fconf -> N -> CS)
    (compress_chunk : CS -> bytes -> bool -> CS * bytes) (P : kparams) (X : bytes) (ops : list aop) (s : sstate CS) (em : bytes)
    (dones : list (CS * list (bytes * bool))) (cs0 : CS) (chunks : list (bytes * bool)) (s' : sstate CS) (b : bool),
  AInv CS cs_begin compress_chunk P X (s_a s) em dones cs0 chunks -> refuses_any CheckNow s = false -> ops_ok ops ->
  srun CS cs_begin compress_chunk CheckNow KeepNow P X s ops = Some (s', b) -> b = false /\ refuses_any CheckNow s' = false.
Proof. exact stable_caller_never_refused. Qed.
Print Assumptions C10_stable_caller_never_refused.

Theorem C10_stable_caller_never_refused_from_new : forall (CS : Type) (cs_begin : CS -> fconf -> N -> CS)
    (compress_chunk : CS -> bytes -> bool -> CS * bytes) (P : kparams) (X : bytes) (cs : CS) (ops : list aop) (s' : sstate CS) (b : bool),
  ops_ok ops -> srun CS cs_begin compress_chunk CheckNow KeepNow P X (s_new cs) ops = Some (s', b) -> b = false.
Proof. exact stable_caller_never_refused_from_new. Qed.
Print Assumptions C10_stable_caller_never_refused_from_new.

(* the two repairs that make it true, on the store compressor of the examples above (stable input, blocks of 4 bytes);
   the tuple is (expectedInBuffer.pos, position of the caller, recorded buffer is {NULL,0,0}, some call was refused).
   9a6b24a: ZSTD_flushStream starts the frame, then the caller shows its buffer - refused by the check without noBufferYet;
   62dea3d: 10 bytes deferred, ZSTD_flushStream through 3 bytes of room goes back over them and compresses one block:
   without "expectedInBuffer.pos = callerPos" the recorded position stays at 4 and the caller's next call is refused *)
Definition ex_srun (v : checkver) (kv : keepver) (ops : list aop) :=
  match srun unit ex_begin ex_chunk v kv exP exX (s_new tt) ops with
  | Some (s, b) => Some (s_epos s, a_pos (s_a s), a_null (s_a s), b)
  | None => None
  end.
Example ex_stability :
  ex_srun CheckNow KeepNow [OFlush 100 exfc; OCall 4 100 DirContinue exfc] = Some (4, 4, false, false) /\
  ex_srun CheckPre9a6b24a KeepNow [OFlush 100 exfc; OCall 4 100 DirContinue exfc] = Some (0, 0, true, true) /\
  ex_srun CheckNow KeepNow [OCall 10 100 DirContinue exfc; OFlush 3 exfc; OCall 2 100 DirContinue exfc] = Some (12, 12, false, false) /\
  ex_srun CheckNow KeepNoPos [OCall 10 100 DirContinue exfc; OFlush 3 exfc; OCall 2 100 DirContinue exfc] = Some (4, 10, false, true).
Proof. vm_compute. repeat split. Qed.

(* ---------------- round 3: driving ZSTD_endStream terminates, in every input mode (coq/Stream/C10Term.v) ---------------- *)
From ZV.Stream Require Import C10Term.

(* from every state of an API-level history (stable or buffered input; bytes deferred, handed back, or still presented by the
   recorded buffer), ZSTD_endStream calls with at least one byte of output room each reach the return value 0 (or an error)
   after finitely many calls: aend_run does not come back with AEMore for some number of calls *)
Theorem C10_api_endStream_terminates : forall (CS : Type) (cs_begin : CS -> fconf -> N -> CS)
    (compress_chunk : CS -> bytes -> bool -> CS * bytes) (P : kparams) (X : bytes) (fc : fconf) (ck : N) (caps : nat -> N),
  1 <= fc_maxBlock fc -> (forall i, 1 <= caps i) ->
  forall (a : astate CS) (em : bytes) (dones : list (CS * list (bytes * bool))) (cs0 : CS) (chunks : list (bytes * bool)) (i : nat),
  AInv CS cs_begin compress_chunk P X a em dones cs0 chunks ->
  exists n, match aend_run CS cs_begin compress_chunk P fc X a caps ck i n with AEMore _ => False | _ => True end.
Proof. exact api_endStream_terminates. Qed.
Print Assumptions C10_api_endStream_terminates.

(* the same for ZSTD_compressStream2(ZSTD_e_end) calls that present all that remains of the input array: theorem
   C10_cstream_terminates without its hypothesis "buffered input" (at the level of API histories) *)
Theorem C10_api_end_call_terminates : forall (CS : Type) (cs_begin : CS -> fconf -> N -> CS)
    (compress_chunk : CS -> bytes -> bool -> CS * bytes) (P : kparams) (X : bytes) (fc : fconf) (caps : nat -> N),
  1 <= fc_maxBlock fc -> (forall i, 1 <= caps i) ->
  forall (a : astate CS) (em : bytes) (dones : list (CS * list (bytes * bool))) (cs0 : CS) (chunks : list (bytes * bool)) (i : nat),
  AInv CS cs_begin compress_chunk P X a em dones cs0 chunks ->
  exists n, match acend_run CS cs_begin compress_chunk P fc X a caps i n with AEMore _ => False | _ => True end.
Proof. exact api_end_call_terminates. Qed.
Print Assumptions C10_api_end_call_terminates.

(* 10 bytes deferred in stable-input mode (store compressor, blocks of 4 bytes): ZSTD_endStream with 1 byte of room per call
   needs 10 calls (9 are not enough), with 3 bytes of room 4 calls *)
Example ex_endStream_terminates :
  match ex_run [OCall 10 100 DirContinue exfc] with
  | Some (a, _) =>
      aend_run unit ex_begin ex_chunk exP exfc exX a (fun _ => 1) 0 0 10 = AEDone 10 /\
      aend_run unit ex_begin ex_chunk exP exfc exX a (fun _ => 3) 0 0 4 = AEDone 4 /\
      acend_run unit ex_begin ex_chunk exP exfc exX a (fun _ => 5) 0 3 = AEDone 3 /\
      (match aend_run unit ex_begin ex_chunk exP exfc exX a (fun _ => 1) 0 0 9 with AEMore _ => True | _ => False end)
  | None => False
  end.
Proof. vm_compute. repeat split. Qed.
