(* Property C05 - theorem list: what acceptance by the strict reference decoder R entails.
   (The per-run correspondence then shows that R accepts every frame the real compressor emits.) *)
From Coq Require Import NArith ZArith List Bool.
From ZV.Codec Require Import Bytes XXH64 Block Frame LzProofs FrameProofs TablesProofs.
Import ListNotations.
Local Open Scope N_scope.

(* A frame R accepts is truthful and within limits: its content has exactly the sum of the blocks'
   regenerated sizes; every block regenerates at most min(window, 128 KiB, maxBlockSize) bytes; a declared
   content size equals the content length; a present checksum is the low 32 bits of XXH64(content, 0);
   the window does not exceed the accepted limit; a non-zero dictionary ID names the dictionary in use;
   and the bytes consumed are a prefix of the input of the recorded compressed size. *)
Theorem C05_accepted_frame_is_truthful : forall cfg d f out t rest,
  decode_frame cfg d f = Ok (out, t, rest) ->
  lenN out = sum_rsize (ft_blocks t) /\
  Forall (fun b => bt_rsize b <= N.min (N.min (fh_window (ft_header t)) BLOCK_MAX) (c_block_max cfg)) (ft_blocks t) /\
  (forall v, fh_fcs (ft_header t) = Some v -> v = lenN out) /\
  (fh_checksum (ft_header t) = true -> c_check cfg = true -> ft_checksum t = Some (low32 (xxh64 out 0))) /\
  (fh_checksum (ft_header t) = false -> ft_checksum t = None) /\
  fh_window (ft_header t) <= c_window_max cfg /\
  (forall dc, d = Some dc -> fh_dictid (ft_header t) = 0 \/ fh_dictid (ft_header t) = d_id dc) /\
  exists consumed, f = consumed ++ rest /\ ft_csize t = lenN consumed.
Proof. exact decode_frame_sound. Qed.
Print Assumptions C05_accepted_frame_is_truthful.

(* every match R executes in strict mode obeys the window rule of the format *)
Theorem C05_executed_offsets_within_window : forall window blockMax x lits ll ml off x' lits',
  exec_seq true window blockMax x lits ll ml off = Ok (x', lits') ->
  exists la, splitN ll lits = Some (la, lits') /\
    let x1 := push_fwd x la ll in
    1 <= off /\ off <= x_avail x1 /\ (off <= x_pos x1 -> off <= window) /\ (x_pos x1 < off -> x_pos x1 <= window).
Proof.
  intros window blockMax x lits ll ml off x' lits' H.
  destruct (exec_seq_offset_ok _ _ _ _ _ _ _ _ _ _ H) as (la & Hs & Ho).
  exists la. split; [exact Hs|]. exact (offset_ok_strict _ _ _ Ho).
Qed.
Print Assumptions C05_executed_offsets_within_window.

(* the decoder-side tables of the current /repo are the specification's, and its hard-coded default
   decoding tables are what the specified construction yields (so frames using predefined mode mean the same
   thing to R and to libzstd) *)
Theorem C05_default_tables_are_the_specified_ones :
  dtable_of 6 spec_LL_default spec_LL_base spec_LL_bits = Some ZV.Gen.Gen_Tables.LL_defaultDTable /\
  dtable_of 6 spec_ML_default spec_ML_base spec_ML_bits = Some ZV.Gen.Gen_Tables.ML_defaultDTable /\
  dtable_of 5 spec_OF_default ZV.Gen.Gen_Tables.OF_base ZV.Gen.Gen_Tables.OF_bits = Some ZV.Gen.Gen_Tables.OF_defaultDTable.
Proof. exact default_dtables_correct. Qed.
Print Assumptions C05_default_tables_are_the_specified_ones.

(* ---- conformance of what the serialiser model A produces (coq/Codec/Encode*.v; tied byte-for-byte to the frames the
        real compressor emits by the per-run A-tie): a frame assembled by the LZ compressor model from parses that pass the
        number-level validity check IN STRICT MODE (window rule enforced) is accepted by the strict reference decoder, i.e. it
        is a conformant frame, and it is truthful: declared content size = content length, stored checksum = XXH64 low bits ---- *)
From ZV.Codec Require Import Encode EncodeProofs EncodeSeq EncodeLzFrame EncodeLzFrameProofs.

Theorem C05_model_frames_are_conformant_and_truthful : forall cfg d p dictID pbs ebs z rest,
  let content := blocks_content ebs in
  let win := frame_window p (lenN content) in
  let blockMax := N.min (N.min win BLOCK_MAX) (c_block_max cfg) in
  c_strict_window cfg = true -> c_check cfg = true ->
  pbs <> [] ->
  pblocks_run true win blockMax (z_init d) pbs = Some (ebs, z) ->
  params_ok p (lenN content) dictID -> c_magicless cfg = fp_magicless p -> win <= c_window_max cfg -> dict_ok d p dictID ->
  exists t, decode_frame cfg d (enc_frame p dictID ebs ++ rest) = Ok (content, t, rest) /\
            (forall v, fh_fcs (ft_header t) = Some v -> v = lenN content) /\
            (fh_checksum (ft_header t) = true -> ft_checksum t = Some (low32 (xxh64 content 0))) /\
            Forall (fun b => bt_rsize b <= blockMax) (ft_blocks t).
Proof. exact lz_model_conformant. Qed.
Print Assumptions C05_model_frames_are_conformant_and_truthful.
