(* Property C05 - theorem list: what acceptance by the strict reference decoder R entails.
   (The per-run correspondence then shows that R accepts every frame the real compressor emits.) *)
From Coq Require Import NArith ZArith List Bool.
From ZV.Codec Require Import Bytes XXH64 Block Frame LzProofs FrameProofs TablesProofs.
Import ListNotations.
Local Open Scope N_scope.

(* A frame R accepts is truthful and within limits: its content has exactly the sum of the blocks'
   regenerated sizes; every block regenerates at most min(window, 128 KiB, maxBlockSize) bytes; a declared
   content size equals the content length; a present checksum is the low 32 bits of XXH64(content, 0);
   the window does not exceed the accepted limit; a non-zero dictionary ID names the dictionary in use;
   and the bytes consumed are a prefix of the input of the recorded compressed size. *)
Theorem C05_accepted_frame_is_truthful : forall cfg d f out t rest,
  decode_frame cfg d f = Ok (out, t, rest) ->
  lenN out = sum_rsize (ft_blocks t) /\
  Forall (fun b => bt_rsize b <= N.min (N.min (fh_window (ft_header t)) BLOCK_MAX) (c_block_max cfg)) (ft_blocks t) /\
  (forall v, fh_fcs (ft_header t) = Some v -> v = lenN out) /\
  (fh_checksum (ft_header t) = true -> c_check cfg = true -> ft_checksum t = Some (low32 (xxh64 out 0))) /\
  (fh_checksum (ft_header t) = false -> ft_checksum t = None) /\
  fh_window (ft_header t) <= c_window_max cfg /\
  (forall dc, d = Some dc -> fh_dictid (ft_header t) = 0 \/ fh_dictid (ft_header t) = d_id dc) /\
  exists consumed, f = consumed ++ rest /\ ft_csize t = lenN consumed.
Proof. exact decode_frame_sound. Qed.
Print Assumptions C05_accepted_frame_is_truthful.

(* every match R executes in strict mode obeys the window rule of the format *)
Theorem C05_executed_offsets_within_window : forall window blockMax x lits ll ml off x' lits',
  exec_seq true window blockMax x lits ll ml off = Ok (x', lits') ->
  exists la, splitN ll lits = Some (la, lits') /\
    let x1 := push_fwd x la ll in
    1 <= off /\ off <= x_avail x1 /\ (off <= x_pos x1 -> off <= window) /\ (x_pos x1 < off -> x_pos x1 <= window).
Proof.
  intros window blockMax x lits ll ml off x' lits' H.
  destruct (exec_seq_offset_ok _ _ _ _ _ _ _ _ _ _ H) as (la & Hs & Ho).
  exists la. split; [exact Hs|]. exact (offset_ok_strict _ _ _ Ho).
Qed.
Print Assumptions C05_executed_offsets_within_window.

(* the decoder-side tables of the current /repo are the specification's, and its hard-coded default
   decoding tables are what the specified construction yields (so frames using predefined mode mean the same
   thing to R and to libzstd) *)
Theorem C05_default_tables_are_the_specified_ones :
  dtable_of 6 spec_LL_default spec_LL_base spec_LL_bits = Some ZV.Gen.Gen_Tables.LL_defaultDTable /\
  dtable_of 6 spec_ML_default spec_ML_base spec_ML_bits = Some ZV.Gen.Gen_Tables.ML_defaultDTable /\
  dtable_of 5 spec_OF_default ZV.Gen.Gen_Tables.OF_base ZV.Gen.Gen_Tables.OF_bits = Some ZV.Gen.Gen_Tables.OF_defaultDTable.
Proof. exact default_dtables_correct. Qed.
Print Assumptions C05_default_tables_are_the_specified_ones.

(* ---- conformance of what the serialiser model A produces (coq/Codec/Encode*.v; tied byte-for-byte to the frames the
        real compressor emits by the per-run A-tie): a frame assembled by the LZ compressor model from parses that pass the
        number-level validity check IN STRICT MODE (window rule enforced) is accepted by the strict reference decoder, i.e. it
        is a conformant frame, and it is truthful: declared content size = content length, stored checksum = XXH64 low bits ---- *)
From ZV.Codec Require Import Encode EncodeProofs EncodeSeq EncodeLzFrame EncodeLzFrameProofs.

Theorem C05_model_frames_are_conformant_and_truthful : forall cfg d p dictID pbs ebs z rest,
  let content := blocks_content ebs in
  let win := frame_window p (lenN content) in
  let blockMax := N.min (N.min win BLOCK_MAX) (c_block_max cfg) in
  c_strict_window cfg = true -> c_check cfg = true ->
  pbs <> [] ->
  pblocks_run true win blockMax (z_init d) pbs = Some (ebs, z) ->
  params_ok p (lenN content) dictID -> c_magicless cfg = fp_magicless p -> win <= c_window_max cfg -> dict_ok d p dictID ->
  exists t, decode_frame cfg d (enc_frame p dictID ebs ++ rest) = Ok (content, t, rest) /\
            (forall v, fh_fcs (ft_header t) = Some v -> v = lenN content) /\
            (fh_checksum (ft_header t) = true -> ft_checksum t = Some (low32 (xxh64 content 0))) /\
            Forall (fun b => bt_rsize b <= blockMax) (ft_blocks t).
Proof. exact lz_model_conformant. Qed.
Print Assumptions C05_model_frames_are_conformant_and_truthful.

(* ---- round 2: more of what acceptance by R entails (coq/Codec/C05LastBlock.v): the rules the driver checks on the
        trace of every emitted frame are consequences of acceptance ---- *)
From ZV.Codec Require Import C05LastBlock.

(* the last-block flag is set exactly once, on the final block; a frame has at least one block *)
Theorem C05_last_block_flag_exactly_once : forall cfg d f out t rest,
  decode_frame cfg d f = Ok (out, t, rest) ->
  exists pre b, ft_blocks t = pre ++ [b] /\ bt_last b = true /\ Forall (fun b => bt_last b = false) pre.
Proof. exact accepted_frame_last_block. Qed.
Print Assumptions C05_last_block_flag_exactly_once.

(* the Block_Size field of every block is within Block_Maximum_Size = min(Window_Size, 128 KiB) (and maxBlockSize) *)
Theorem C05_block_size_fields_within_limit : forall cfg d f out t rest,
  decode_frame cfg d f = Ok (out, t, rest) ->
  Forall (fun b => bt_csize b <= N.min (N.min (fh_window (ft_header t)) BLOCK_MAX) (c_block_max cfg)) (ft_blocks t).
Proof. exact accepted_frame_block_size_fields. Qed.
Print Assumptions C05_block_size_fields_within_limit.

(* ---- round 2: the window rule follows from the compressor's window mechanism (coq/Codec/C05Window.v).
        The three functions every match finder relies on - ZSTD_checkDictValidity, ZSTD_window_enforceMaxDist,
        ZSTD_getLowestMatchIndex - are the models of coq/Index/Window.v (U32 arithmetic written out; tied to the real
        static functions by property C15's unit harness).  [block_prepare] is the window part of one iteration of the
        block loop of ZSTD_compress_frameChunk. ---- *)
From ZV.Index Require Window.
From ZV.Codec Require C05Window.

Section C05_round2.
Import ZV.Index.Window ZV.Codec.C05Window.
Local Open Scope Z_scope.

(* one block: for EVERY window state, loadedDictEnd (0, or the index s where the frame's content starts), block
   position and size below the 32-bit index limit and windowLog 10..31 - including the states in which the U32 sum
   loadedDictEnd + maxDist wraps - any index m that a match finder may take at position curr of the block
   (getLowestMatchIndex <= m < curr) gives an offset curr - m that obeys the format's rule with curr - s bytes decoded:
   offsets into the frame are <= Window_Size, offsets past the start of the frame (into the dictionary) occur only while
   at most Window_Size bytes are decoded.  The state handed to the next block satisfies the same assumptions. *)
Theorem C05_block_offsets_obey_window_rule : forall w lde s ip bs wl,
  10 <= wl <= 31 ->
  let maxDist := u32 (Z.shiftl 1 wl) in
  let i0 := ip - base w in
  seg_ok w lde s i0 -> 0 <= bs -> i0 + bs < two32 ->
  let '(w3, lde3) := block_prepare w lde ip bs maxDist in
  maxDist = 2 ^ wl /\
  base w3 = base w /\ seg_ok w3 lde3 s (i0 + bs) /\ lowLimit w <= lowLimit w3 <= i0 /\
  (lde3 <> 0 -> i0 + bs <= s + maxDist) /\
  forall curr m, i0 <= curr < i0 + bs ->
    getLowestMatchIndex w3 lde3 curr wl <= m < curr ->
    window_rule maxDist (curr - s) (curr - m).
Proof. exact block_prepare_sound. Qed.
Print Assumptions C05_block_offsets_obey_window_rule.

(* every block of a frame segment, for every list of block sizes *)
Theorem C05_frame_offsets_obey_window_rule : forall wl s, 10 <= wl <= 31 ->
  forall blocks w lde ip,
  seg_ok w lde s (ip - base w) ->
  Forall (fun bs => 0 <= bs) blocks ->
  ip - base w + fold_right Z.add 0 blocks < two32 ->
  Forall (block_rule s wl) (blocks_prepare w lde ip (u32 (Z.shiftl 1 wl)) blocks).
Proof. exact blocks_prepare_sound. Qed.
Print Assumptions C05_frame_offsets_obey_window_rule.

(* the long-distance matcher enforces the distance from the END of each chunk with its own loadedDictEnd and takes
   candidates >= lowLimit: same rule *)
Theorem C05_ldm_offsets_obey_window_rule : forall w lde s chunkStart n wl,
  10 <= wl <= 31 ->
  let maxDist := u32 (Z.shiftl 1 wl) in
  let i0 := chunkStart - base w in
  seg_ok w lde s i0 -> 0 <= n -> i0 + n < two32 -> lde + maxDist < two32 ->
  let '(w3, lde3, _) := window_enforceMaxDist w (chunkStart + n) maxDist (Some lde) None in
  base w3 = base w /\ lowLimit w <= lowLimit w3 /\
  forall curr m, i0 <= curr < i0 + n -> lowLimit w3 <= m < curr ->
    window_rule maxDist (curr - s) (curr - m).
Proof. exact ldm_chunk_sound. Qed.
Print Assumptions C05_ldm_offsets_obey_window_rule.

(* [window_rule] is exactly the window clause of the strict offset test of the reference decoder *)
Theorem C05_window_rule_is_the_decoders_test :
  (forall window x off, offset_ok true window x off =
     ((1 <=? off)%N && ((off <=? x_avail x)%N && window_clause window (x_pos x) off))) /\
  (forall maxDist pos off, 0 <= maxDist -> 0 <= pos -> 0 <= off ->
     window_rule maxDist pos off -> window_clause (Z.to_N maxDist) (Z.to_N pos) (Z.to_N off) = true).
Proof. split; [exact offset_ok_clause|exact window_rule_clause]. Qed.
Print Assumptions C05_window_rule_is_the_decoders_test.

(* the assumptions are satisfiable: dictionary of 1000 bytes in the external segment, content from index 1002,
   windowLog 10, blocks of 1024, 1024 and 500 bytes: valid, then dropped, then the window slides *)
Example C05_window_example :
  let w := mkWindow 5002 4000 0 1002 2 0 in
  seg_ok w 1002 1002 (5002 - base w) /\
  map (fun e => let '(w3, lde3, _, _) := e in (lowLimit w3, lde3)) (blocks_prepare w 1002 5002 (u32 (Z.shiftl 1 10)) [1024; 1024; 500])
  = [(2, 1002); (1002, 0); (2026, 0)].
Proof. exact blocks_prepare_example. Qed.
End C05_round2.
