(* C16 - parameter interface contract: bounds, stickiness, reset, stage rules.
   Theorems about the executable model ZV.Params.ParamModel over the tables regenerated from the current /repo
   (ZV.Gen.Gen_Bounds).  Only `exact lemma` here; proofs are in Params/ParamProofs.v (and CParamsAdjustProofs.v). *)
From Coq Require Import ZArith List Bool.
From ZV.Gen Require Import Gen_Bounds.
From ZV.Params Require Import BoundsModel ParamModel ParamProofs CParamsAdjust CParamsAdjustProofs.
Import ListNotations.
Local Open Scope Z_scope.

(* ---- compression context ---- *)
Theorem set_in_bounds_accepted_readback : forall c p v,
  c_stage c = S_init -> in_cbounds p v -> nbw_static_refused c p v = false ->
  exists c', cctx_set c (cparam_id p) v = (c', Ok)
          /\ cctx_get c' (cparam_id p) = (Ok, cnorm p v)
          /\ in_cbounds p (cnorm p v)
          /\ (forall q, q <> p -> c_params c' q = c_params c q)
          /\ c_stage c' = c_stage c /\ c_dict c' = c_dict c /\ c_static c' = c_static c.
Proof. exact set_in_bounds_accepted_readback_l. Qed.
Print Assumptions set_in_bounds_accepted_readback.

Theorem normal_form_is_identity_but_level_and_jobSize : forall p v,
  p <> C_compressionLevel -> p <> C_jobSize -> cnorm p v = v.
Proof. exact cnorm_identity. Qed.
Print Assumptions normal_form_is_identity_but_level_and_jobSize.

Theorem set_out_of_bounds_rejected_or_clamped : forall c p v c' r,
  ~ in_cbounds p v -> cctx_set c (cparam_id p) v = (c', r) ->
  (exists e, r = Err e /\ c' = c)
  \/ (r = Ok /\ (in_cbounds p (c_params c' p) \/ (v = 0 /\ zero_is_default p = true /\ c_params c' p = 0))).
Proof. exact set_out_of_bounds_rejected_or_clamped_l. Qed.
Print Assumptions set_out_of_bounds_rejected_or_clamped.

Theorem out_of_bounds_policy : forall c p v lo hi,
  c_stage c = S_init -> nbw_static_refused c p v = false ->
  cbounds p = Some (lo, hi) -> ~ (lo <= v <= hi) ->
  match cpolicy p with
  | P_reject =>
      if zero_is_default p && Z.eqb v 0
      then snd (cctx_set c (cparam_id p) v) = Ok /\ c_params (fst (cctx_set c (cparam_id p) v)) p = 0
      else cctx_set c (cparam_id p) v = (c, Err E_outOfBound)
  | P_clamp =>
      snd (cctx_set c (cparam_id p) v) = Ok /\
      lo <= c_params (fst (cctx_set c (cparam_id p) v)) p <= hi /\
      (v > hi -> c_params (fst (cctx_set c (cparam_id p) v)) p = hi) /\
      (v < lo -> p <> C_jobSize -> c_params (fst (cctx_set c (cparam_id p) v)) p = lo)
  | P_flag => snd (cctx_set c (cparam_id p) v) = Ok /\ c_params (fst (cctx_set c (cparam_id p) v)) p = 1
  | P_raise_reject =>
      if Z.eqb v 0
      then snd (cctx_set c (cparam_id p) v) = Ok /\ c_params (fst (cctx_set c (cparam_id p) v)) p = 0
      else if v <? lo
           then snd (cctx_set c (cparam_id p) v) = Ok /\ c_params (fst (cctx_set c (cparam_id p) v)) p = lo
           else cctx_set c (cparam_id p) v = (c, Err E_outOfBound)
  end.
Proof. exact out_of_bounds_policy_l. Qed.
Print Assumptions out_of_bounds_policy.

Theorem rejected_set_changes_nothing : forall c id v, snd (cctx_set c id v) <> Ok -> fst (cctx_set c id v) = c.
Proof. exact rejected_set_changes_nothing_l. Qed.
Print Assumptions rejected_set_changes_nothing.

Theorem accepted_set_changes_only_that_param : forall c id v c',
  cctx_set c id v = (c', Ok) ->
  exists p, cparam_of_id id = Some p
         /\ (forall q, q <> p -> c_params c' q = c_params c q)
         /\ cvalue_ok p (c_params c' p)
         /\ c_stage c' = c_stage c /\ c_dict c' = c_dict c /\ c_static c' = c_static c.
Proof. exact accepted_set_changes_only_that_param_l. Qed.
Print Assumptions accepted_set_changes_only_that_param.

Theorem sticky_across_frames : forall ops w o,
  Forall (fun x => touches_cparams o x = false) ops ->
  c_params (get_c (run w ops) o) = c_params (get_c w o).
Proof. exact sticky_across_frames_l. Qed.
Print Assumptions sticky_across_frames.

Theorem frames_reflect_parameters : forall ops w o,
  Forall (fun x => touches_cparams o x = false) ops ->
  let w' := run w ops in
  exists dflag,
    snd (step w' (OCFrame o)) =
      (Ok, [c_params (get_c w o) C_checksumFlag; c_params (get_c w o) C_contentSizeFlag; dflag; c_params (get_c w o) C_format])
    /\ (dflag = 0 \/ dflag = c_params (get_c w o) C_dictIDFlag).
Proof. exact frames_reflect_parameters_l. Qed.
Print Assumptions frames_reflect_parameters.

Theorem simple_api_ignores_parameters : forall w o, step w (OCSimple o) = (w, (Ok, [0; 1; 0; 0])).
Proof. exact simple_api_ignores_parameters_l. Qed.
Print Assumptions simple_api_ignores_parameters.

Theorem reset_parameters_restores_defaults : forall c dir,
  is_params dir = true -> (c_stage c = S_init \/ is_session dir = true) ->
  cctx_reset c dir = (mkC cparams_default S_init CD_none (c_static c), Ok).
Proof. exact reset_parameters_restores_defaults_l. Qed.
Print Assumptions reset_parameters_restores_defaults.

Theorem defaults_documented : forall p,
  cparams_default p =
  match p with
  | C_compressionLevel => z_ZSTD_CLEVEL_DEFAULT
  | C_contentSizeFlag | C_dictIDFlag => 1
  | _ => 0
  end.
Proof. exact defaults_documented_l. Qed.
Print Assumptions defaults_documented.

Theorem reset_session_keeps_parameters : forall c dir,
  is_session dir = true -> is_params dir = false ->
  cctx_reset c dir = (mkC (c_params c) S_init (c_dict c) (c_static c), Ok).
Proof. exact reset_session_keeps_parameters_l. Qed.
Print Assumptions reset_session_keeps_parameters.

Theorem midframe_gating : forall c id v,
  c_stage c = S_mid ->
  match cparam_of_id id with
  | Some p =>
      if is_update_authorized p
      then cctx_set c id v =
           match cstored C_rsyncable p v with
           | Some v' => (mkC (cupd (c_params c) p v') S_mid (c_dict c) (c_static c), Ok)
           | None => (c, Err E_outOfBound)
           end
      else cctx_set c id v = (c, Err E_stage_wrong)
  | None => cctx_set c id v = (c, Err E_stage_wrong)
  end.
Proof. exact midframe_gating_l. Qed.
Print Assumptions midframe_gating.

Theorem authorized_exactly_seven : forall p,
  is_update_authorized p = true <->
  In p [C_compressionLevel; C_hashLog; C_chainLog; C_searchLog; C_minMatch; C_targetLength; C_strategy].
Proof. exact authorized_exactly_seven_l. Qed.
Print Assumptions authorized_exactly_seven.

Theorem reset_parameters_midframe_refused : forall c dir,
  c_stage c = S_mid -> is_params dir = true -> is_session dir = false ->
  cctx_reset c dir = (c, Err E_stage_wrong).
Proof. exact reset_parameters_midframe_refused_l. Qed.
Print Assumptions reset_parameters_midframe_refused.

Theorem reset_unknown_directive_is_noop : forall c dir,
  is_params dir = false -> is_session dir = false -> cctx_reset c dir = (c, Ok).
Proof. exact reset_unknown_directive_l. Qed.
Print Assumptions reset_unknown_directive_is_noop.

(* ---- the CCtxParams object ---- *)
Theorem params_set_in_bounds_readback : forall s p v, in_cbounds p v ->
  cparams_set_id s (cparam_id p) v = (cupd s p (cnorm p v), Ok)
  /\ cparams_get_id (cupd s p (cnorm p v)) (cparam_id p) = (Ok, cnorm p v).
Proof. exact params_set_in_bounds_l. Qed.
Print Assumptions params_set_in_bounds_readback.

Theorem params_rejected_set_changes_nothing : forall s id v,
  snd (cparams_set_id s id v) <> Ok -> fst (cparams_set_id s id v) = s.
Proof. exact params_rejected_set_changes_nothing_l. Qed.
Print Assumptions params_rejected_set_changes_nothing.

Theorem get_unknown_unsupported : forall s id, cparam_of_id id = None -> cparams_get_id s id = (Err E_unsupported, 0).
Proof. exact get_unknown_unsupported_l. Qed.
Print Assumptions get_unknown_unsupported.

(* ---- every history ---- *)
Theorem history_cparams_within_bounds : forall ops, Forall op_wf ops ->
  forall o p, cvalue_ok p (c_params (get_c (run world_new ops) o) p) /\ cvalue_ok p (w_p (run world_new ops) p).
Proof. exact history_cparams_within_bounds_l. Qed.
Print Assumptions history_cparams_within_bounds.

(* ---- decompression context ---- *)
Theorem d_set_in_bounds_accepted_readback : forall d p v,
  d_stage d = S_init -> in_dbounds p v -> drefmulti_static_refused d p = false ->
  exists d', dctx_set d (dparam_id p) v = (d', Ok) /\ dctx_get d' (dparam_id p) = (Ok, v)
          /\ (forall q, q <> p -> dctx_get_p d' q = dctx_get_p d q)
          /\ d_stage d' = d_stage d /\ d_dict d' = d_dict d /\ d_static d' = d_static d.
Proof. exact d_set_in_bounds_accepted_readback_l. Qed.
Print Assumptions d_set_in_bounds_accepted_readback.

Theorem d_set_out_of_bounds_rejected : forall d p v,
  ~ in_dbounds p v ->
  (exists e, dctx_set d (dparam_id p) v = (d, Err e))
  \/ (v = 0 /\ (p = D_windowLogMax \/ p = D_maxBlockSize) /\
      dctx_set d (dparam_id p) v = (dctx_with d p (dnorm p 0), Ok)).
Proof. exact d_set_out_of_bounds_rejected_l. Qed.
Print Assumptions d_set_out_of_bounds_rejected.

Theorem d_rejected_set_changes_nothing : forall d id v, snd (dctx_set d id v) <> Ok -> fst (dctx_set d id v) = d.
Proof. exact d_rejected_set_changes_nothing_l. Qed.
Print Assumptions d_rejected_set_changes_nothing.

Theorem d_midframe_all_refused : forall d, d_stage d = S_mid ->
  (forall id v, dctx_set d id v = (d, Err E_stage_wrong))
  /\ (forall size, dctx_set_max_window_size d size = (d, Err E_stage_wrong))
  /\ (forall k, dctx_refddict d k = (d, Err E_stage_wrong))
  /\ (forall dir, is_params dir = true -> is_session dir = false -> dctx_reset d dir = (d, Err E_stage_wrong)).
Proof. exact d_midframe_all_refused_l. Qed.
Print Assumptions d_midframe_all_refused.

Theorem d_reset_parameters_restores_defaults : forall d dir,
  is_params dir = true -> (d_stage d = S_init \/ is_session dir = true) ->
  dctx_reset d dir = (mkD 0 (2 ^ z_ZSTD_WINDOWLOG_LIMIT_DEFAULT + 1) 0 0 0 0 0 S_init false (d_static d), Ok)
  /\ dctx_get_p (fst (dctx_reset d dir)) D_windowLogMax = z_ZSTD_WINDOWLOG_LIMIT_DEFAULT.
Proof. exact d_reset_parameters_restores_defaults_l. Qed.
Print Assumptions d_reset_parameters_restores_defaults.

Theorem d_reset_session_keeps_parameters : forall d dir,
  is_session dir = true -> is_params dir = false -> dctx_reset d dir = (dctx_set_stage d S_init, Ok).
Proof. exact d_reset_session_keeps_parameters_l. Qed.
Print Assumptions d_reset_session_keeps_parameters.

Theorem d_set_max_window_size : forall d size lo hi,
  d_stage d = S_init -> dbounds D_windowLogMax = Some (lo, hi) ->
  (2 ^ lo <= size <= 2 ^ hi ->
     snd (dctx_set_max_window_size d size) = Ok
     /\ d_maxWindowSize (fst (dctx_set_max_window_size d size)) = size
     /\ lo <= dctx_get_p (fst (dctx_set_max_window_size d size)) D_windowLogMax <= hi)
  /\ (~ (2 ^ lo <= size <= 2 ^ hi) -> dctx_set_max_window_size d size = (d, Err E_outOfBound)).
Proof. exact d_set_max_window_size_l. Qed.
Print Assumptions d_set_max_window_size.

Theorem history_dparams_within_bounds : forall ops o p,
  let d := get_d (run world_new ops) o in
  (in_dbounds p (dctx_get_p d p) \/ (p = D_maxBlockSize /\ dctx_get_p d p = 0))
  /\ 0 < d_maxWindowSize d mod 2 ^ 32.
Proof. exact history_dparams_within_bounds_l. Qed.
Print Assumptions history_dparams_within_bounds.

Theorem d_sticky_across_frames : forall ops w o,
  Forall (fun x => touches_dparams o x = false) ops ->
  dparams_of (get_d (run w ops) o) = dparams_of (get_d w o).
Proof. exact d_sticky_across_frames_l. Qed.
Print Assumptions d_sticky_across_frames.

(* ---- the regenerated tables (re-checked against the current headers on every run) ---- *)
Theorem bounds_table_sane : forall p,
  exists lo hi, cbounds p = Some (lo, hi) /\ lo <= hi /\ - 2 ^ 31 <= lo /\ hi < 2 ^ 31
             /\ cvalue_ok p (cdefault p) /\ cbounds_documented p = Some (lo, hi).
Proof. exact bounds_table_sane_c. Qed.
Print Assumptions bounds_table_sane.

Theorem d_bounds_table_sane : forall p,
  exists lo hi, dbounds p = Some (lo, hi) /\ lo <= hi /\ - 2 ^ 31 <= lo /\ hi < 2 ^ 31
             /\ (lo <= ddefault p <= hi \/ (p = D_maxBlockSize /\ ddefault p = 0)) /\ dbounds_documented p = Some (lo, hi).
Proof. exact bounds_table_sane_d. Qed.
Print Assumptions d_bounds_table_sane.

Theorem bounds_table_rows_modelled :
  (forall id lo hi, In (id, lo, hi) cparam_bounds -> exists p, id = cparam_id p)
  /\ (forall id lo hi, In (id, lo, hi) dparam_bounds -> exists p, id = dparam_id p)
  /\ length cparam_bounds = length all_cparams /\ length dparam_bounds = length all_dparams.
Proof. exact bounds_table_rows_modelled_l. Qed.
Print Assumptions bounds_table_rows_modelled.

Theorem parameter_ids_distinct : (forall p, cparam_of_id (cparam_id p) = Some p) /\ (forall p, dparam_of_id (dparam_id p) = Some p).
Proof. exact (conj cparam_of_id_id dparam_of_id_id). Qed.
Print Assumptions parameter_ids_distinct.

(* ---- level -> compression parameters: the table and the adjustment never leave the advertised bounds ---- *)
Theorem cparams_adjust_in_bounds : forall c srcSize dictSize mode useRow,
  check_cparams c = true -> 0 <= dictSize < 2 ^ 63 ->
  check_cparams (adjust_cparams c srcSize dictSize mode useRow) = true.
Proof. exact cparams_adjust_in_bounds_l. Qed.
Print Assumptions cparams_adjust_in_bounds.

Theorem adjustCParams_public_in_bounds : forall c srcSize dictSize, 0 <= dictSize < 2 ^ 63 ->
  check_cparams (adjust_cparams_public c srcSize dictSize) = true.
Proof. exact adjust_public_in_bounds_l. Qed.
Print Assumptions adjustCParams_public_in_bounds.

Theorem getCParams_in_bounds : forall level srcSizeHint dictSize mode,
  0 <= dictSize < 2 ^ 63 ->
  check_cparams (get_cparams level srcSizeHint dictSize mode) = true.
Proof. exact getCParams_in_bounds_l. Qed.
Print Assumptions getCParams_in_bounds.

Theorem getCParams_public_in_bounds : forall level srcSizeHint dictSize, 0 <= dictSize < 2 ^ 63 ->
  check_cparams (get_cparams_public level srcSizeHint dictSize) = true.
Proof. exact getCParams_public_in_bounds_l. Qed.
Print Assumptions getCParams_public_in_bounds.

Theorem level_table_in_bounds : forall t r, 0 <= t <= 3 -> 0 <= r <= 22 -> check_cparams (table_lookup t r) = true.
Proof. exact table_lookup_ok. Qed.
Print Assumptions level_table_in_bounds.

(* ---- fresh objects; finding F22 (fixed by 32f35e7) kept as the refutation for the old static initialisation ---- *)
Theorem fresh_objects_hold_defaults :
  (forall o, c_params (cctx_new o) = cparams_default) /\ w_p world_new = cparams_default
  /\ (forall o, c_params (get_c world_new o) = cparams_default)
  /\ (forall o, dparams_of (get_d world_new o) = [0; 2 ^ z_ZSTD_WINDOWLOG_LIMIT_DEFAULT + 1; 0; 0; 0; 0; 0]).
Proof. exact fresh_objects_hold_defaults_l. Qed.
Print Assumptions fresh_objects_hold_defaults.

Theorem static_cctx_fresh_params_refuted :
  c_params (cctx_new_prefix true) C_contentSizeFlag <> cparams_default C_contentSizeFlag
  /\ c_params (cctx_new_prefix true) C_compressionLevel <> cparams_default C_compressionLevel
  /\ c_params (fst (cctx_reset (cctx_new_prefix true) z_ZSTD_reset_parameters)) = cparams_default.
Proof. exact static_cctx_fresh_params_refuted_l. Qed.
Print Assumptions static_cctx_fresh_params_refuted.

(* ---- finding F2 (fixed by 8508394), kept as the refutation of the invariant for the old code ---- *)
Theorem rsyncable_clamp_refuted :
  exists v s', ~ in_cbounds C_rsyncable v
            /\ cparams_set_prefix cparams_default C_rsyncable v = (s', Ok)
            /\ ~ cvalue_ok C_rsyncable (s' C_rsyncable).
Proof. exact rsyncable_clamp_refuted_l. Qed.
Print Assumptions rsyncable_clamp_refuted.
