(* C16 - parameter interface contract: bounds, stickiness, reset, stage rules.
   Theorems about the executable model ZV.Params.ParamModel over the tables regenerated from the current /repo
   (ZV.Gen.Gen_Bounds).  Only `exact lemma` here; proofs are in Params/ParamProofs.v (and CParamsAdjustProofs.v). *)
From Coq Require Import ZArith List Bool.
From ZV.Gen Require Import Gen_Bounds.
From ZV.Params Require Import BoundsModel CParamsAdjust CParamsAdjustProofs ParamModel ParamProofs ParamProofs2 ParamProofs3 SessionModel SessionProofs InitModel InitProofs.
Import ListNotations.
Local Open Scope Z_scope.

(* ---- compression context ---- *)
Theorem set_in_bounds_accepted_readback : forall c p v,
  c_stage c = S_init -> in_cbounds p v -> nbw_static_refused c p v = false ->
  exists c', cctx_set c (cparam_id p) v = (c', Ok)
          /\ cctx_get c' (cparam_id p) = (Ok, cnorm p v)
          /\ in_cbounds p (cnorm p v)
          /\ (forall q, q <> p -> c_params c' q = c_params c q)
          /\ c_stage c' = c_stage c /\ c_dict c' = c_dict c /\ c_static c' = c_static c.
Proof. exact set_in_bounds_accepted_readback_l. Qed.
Print Assumptions set_in_bounds_accepted_readback.

Theorem normal_form_is_identity_but_level_and_jobSize : forall p v,
  p <> C_compressionLevel -> p <> C_jobSize -> cnorm p v = v.
Proof. exact cnorm_identity. Qed.
Print Assumptions normal_form_is_identity_but_level_and_jobSize.

Theorem set_out_of_bounds_rejected_or_clamped : forall c p v c' r,
  ~ in_cbounds p v -> cctx_set c (cparam_id p) v = (c', r) ->
  (exists e, r = Err e /\ c' = c)
  \/ (r = Ok /\ (in_cbounds p (c_params c' p) \/ (v = 0 /\ zero_is_default p = true /\ c_params c' p = 0))).
Proof. exact set_out_of_bounds_rejected_or_clamped_l. Qed.
Print Assumptions set_out_of_bounds_rejected_or_clamped.

Theorem out_of_bounds_policy : forall c p v lo hi,
  c_stage c = S_init -> nbw_static_refused c p v = false ->
  cbounds p = Some (lo, hi) -> ~ (lo <= v <= hi) ->
  match cpolicy p with
  | P_reject =>
      if zero_is_default p && Z.eqb v 0
      then snd (cctx_set c (cparam_id p) v) = Ok /\ c_params (fst (cctx_set c (cparam_id p) v)) p = 0
      else cctx_set c (cparam_id p) v = (c, Err E_outOfBound)
  | P_clamp =>
      snd (cctx_set c (cparam_id p) v) = Ok /\
      lo <= c_params (fst (cctx_set c (cparam_id p) v)) p <= hi /\
      (v > hi -> c_params (fst (cctx_set c (cparam_id p) v)) p = hi) /\
      (v < lo -> p <> C_jobSize -> c_params (fst (cctx_set c (cparam_id p) v)) p = lo)
  | P_flag => snd (cctx_set c (cparam_id p) v) = Ok /\ c_params (fst (cctx_set c (cparam_id p) v)) p = 1
  | P_raise_reject =>
      if Z.eqb v 0
      then snd (cctx_set c (cparam_id p) v) = Ok /\ c_params (fst (cctx_set c (cparam_id p) v)) p = 0
      else if v <? lo
           then snd (cctx_set c (cparam_id p) v) = Ok /\ c_params (fst (cctx_set c (cparam_id p) v)) p = lo
           else cctx_set c (cparam_id p) v = (c, Err E_outOfBound)
  end.
Proof. exact out_of_bounds_policy_l. Qed.
Print Assumptions out_of_bounds_policy.

Theorem rejected_set_changes_nothing : forall c id v, snd (cctx_set c id v) <> Ok -> fst (cctx_set c id v) = c.
Proof. exact rejected_set_changes_nothing_l. Qed.
Print Assumptions rejected_set_changes_nothing.

Theorem accepted_set_changes_only_that_param : forall c id v c',
  cctx_set c id v = (c', Ok) ->
  exists p, cparam_of_id id = Some p
         /\ (forall q, q <> p -> c_params c' q = c_params c q)
         /\ cvalue_ok p (c_params c' p)
         /\ c_stage c' = c_stage c /\ c_dict c' = c_dict c /\ c_static c' = c_static c.
Proof. exact accepted_set_changes_only_that_param_l. Qed.
Print Assumptions accepted_set_changes_only_that_param.

Theorem sticky_across_frames : forall ops w o,
  Forall (fun x => touches_cparams o x = false) ops ->
  c_params (get_c (run w ops) o) = c_params (get_c w o).
Proof. exact sticky_across_frames_l. Qed.
Print Assumptions sticky_across_frames.

Theorem frames_reflect_parameters : forall ops w o,
  Forall (fun x => touches_cparams o x = false) ops ->
  let w' := run w ops in
  exists dflag,
    snd (step w' (OCFrame o)) =
      (Ok, [ (if negb (c_params (get_c w o) C_checksumFlag =? 0) then 1 else 0);
             (if negb (c_params (get_c w o) C_contentSizeFlag =? 0) then 1 else 0);
             dflag; c_params (get_c w o) C_format ])
    /\ (dflag = 0 \/ dflag = c_params (get_c w o) C_dictIDFlag).
Proof. exact frames_reflect_parameters_l. Qed.
Print Assumptions frames_reflect_parameters.

(* round 3: since fix 38ec6ea the single-call function closes a streaming session left open (stage = init); everything else
   - requested parameters, attached dictionary, every other object - is untouched, and in the init stage the world is the same *)
Theorem simple_api_ignores_parameters : forall w o,
  let w' := fst (step w (OCSimple o)) in
  snd (step w (OCSimple o)) = (Ok, [0; 1; 0; 0])
  /\ c_params (get_c w' o) = c_params (get_c w o) /\ c_dict (get_c w' o) = c_dict (get_c w o)
  /\ c_static (get_c w' o) = c_static (get_c w o)
  /\ c_stage (get_c w' o) = S_init
  /\ get_c w' (negb o) = get_c w (negb o) /\ w_p w' = w_p w /\ w_d0 w' = w_d0 w /\ w_d1 w' = w_d1 w
  /\ (c_stage (get_c w o) = S_init -> w' = w).
Proof. exact simple_api_ignores_parameters_l. Qed.
Print Assumptions simple_api_ignores_parameters.

Theorem reset_parameters_restores_defaults : forall c dir,
  is_params dir = true -> (c_stage c = S_init \/ is_session dir = true) ->
  cctx_reset c dir = (mkC cparams_default S_init CD_none (c_static c), Ok).
Proof. exact reset_parameters_restores_defaults_l. Qed.
Print Assumptions reset_parameters_restores_defaults.

Theorem defaults_documented : forall p,
  cparams_default p =
  match p with
  | C_compressionLevel => z_ZSTD_CLEVEL_DEFAULT
  | C_contentSizeFlag | C_dictIDFlag => 1
  | _ => 0
  end.
Proof. exact defaults_documented_l. Qed.
Print Assumptions defaults_documented.

Theorem reset_session_keeps_parameters : forall c dir,
  is_session dir = true -> is_params dir = false ->
  cctx_reset c dir = (mkC (c_params c) S_init (c_dict c) (c_static c), Ok).
Proof. exact reset_session_keeps_parameters_l. Qed.
Print Assumptions reset_session_keeps_parameters.

Theorem midframe_gating : forall c id v,
  c_stage c = S_mid ->
  match cparam_of_id id with
  | Some p =>
      if is_update_authorized p
      then cctx_set c id v =
           match cstored C_rsyncable p v with
           | Some v' => (mkC (cupd (c_params c) p v') S_mid (c_dict c) (c_static c), Ok)
           | None => (c, Err E_outOfBound)
           end
      else cctx_set c id v = (c, Err E_stage_wrong)
  | None => cctx_set c id v = (c, Err E_stage_wrong)
  end.
Proof. exact midframe_gating_l. Qed.
Print Assumptions midframe_gating.

Theorem authorized_exactly_seven : forall p,
  is_update_authorized p = true <->
  In p [C_compressionLevel; C_hashLog; C_chainLog; C_searchLog; C_minMatch; C_targetLength; C_strategy].
Proof. exact authorized_exactly_seven_l. Qed.
Print Assumptions authorized_exactly_seven.

Theorem reset_parameters_midframe_refused : forall c dir,
  c_stage c = S_mid -> is_params dir = true -> is_session dir = false ->
  cctx_reset c dir = (c, Err E_stage_wrong).
Proof. exact reset_parameters_midframe_refused_l. Qed.
Print Assumptions reset_parameters_midframe_refused.

Theorem reset_unknown_directive_is_noop : forall c dir,
  is_params dir = false -> is_session dir = false -> cctx_reset c dir = (c, Ok).
Proof. exact reset_unknown_directive_l. Qed.
Print Assumptions reset_unknown_directive_is_noop.

(* ---- the CCtxParams object ---- *)
Theorem params_set_in_bounds_readback : forall s p v, in_cbounds p v ->
  cparams_set_id s (cparam_id p) v = (cupd s p (cnorm p v), Ok)
  /\ cparams_get_id (cupd s p (cnorm p v)) (cparam_id p) = (Ok, cnorm p v).
Proof. exact params_set_in_bounds_l. Qed.
Print Assumptions params_set_in_bounds_readback.

Theorem params_rejected_set_changes_nothing : forall s id v,
  snd (cparams_set_id s id v) <> Ok -> fst (cparams_set_id s id v) = s.
Proof. exact params_rejected_set_changes_nothing_l. Qed.
Print Assumptions params_rejected_set_changes_nothing.

Theorem get_unknown_unsupported : forall s id, cparam_of_id id = None -> cparams_get_id s id = (Err E_unsupported, 0).
Proof. exact get_unknown_unsupported_l. Qed.
Print Assumptions get_unknown_unsupported.

(* ---- every history ---- *)
Theorem history_cparams_within_bounds : forall ops, Forall op_wf ops ->
  forall o p, cvalue_ok p (c_params (get_c (run world_new ops) o) p) /\ cvalue_ok p (w_p (run world_new ops) p).
Proof. exact history_cparams_within_bounds_l. Qed.
Print Assumptions history_cparams_within_bounds.

(* ---- decompression context ---- *)
Theorem d_set_in_bounds_accepted_readback : forall d p v,
  d_stage d = S_init -> in_dbounds p v -> drefmulti_static_refused d p = false ->
  exists d', dctx_set d (dparam_id p) v = (d', Ok) /\ dctx_get d' (dparam_id p) = (Ok, v)
          /\ (forall q, q <> p -> dctx_get_p d' q = dctx_get_p d q)
          /\ d_stage d' = d_stage d /\ d_dict d' = d_dict d /\ d_static d' = d_static d.
Proof. exact d_set_in_bounds_accepted_readback_l. Qed.
Print Assumptions d_set_in_bounds_accepted_readback.

Theorem d_set_out_of_bounds_rejected : forall d p v,
  ~ in_dbounds p v ->
  (exists e, dctx_set d (dparam_id p) v = (d, Err e))
  \/ (v = 0 /\ (p = D_windowLogMax \/ p = D_maxBlockSize) /\
      dctx_set d (dparam_id p) v = (dctx_with d p (dnorm p 0), Ok)).
Proof. exact d_set_out_of_bounds_rejected_l. Qed.
Print Assumptions d_set_out_of_bounds_rejected.

Theorem d_rejected_set_changes_nothing : forall d id v, snd (dctx_set d id v) <> Ok -> fst (dctx_set d id v) = d.
Proof. exact d_rejected_set_changes_nothing_l. Qed.
Print Assumptions d_rejected_set_changes_nothing.

Theorem d_midframe_all_refused : forall d, d_stage d = S_mid ->
  (forall id v, dctx_set d id v = (d, Err E_stage_wrong))
  /\ (forall size, dctx_set_max_window_size d size = (d, Err E_stage_wrong))
  /\ (forall k, dctx_refddict d k = (d, Err E_stage_wrong))
  /\ (forall dir, is_params dir = true -> is_session dir = false -> dctx_reset d dir = (d, Err E_stage_wrong)).
Proof. exact d_midframe_all_refused_l. Qed.
Print Assumptions d_midframe_all_refused.

Theorem d_reset_parameters_restores_defaults : forall d dir,
  is_params dir = true -> (d_stage d = S_init \/ is_session dir = true) ->
  dctx_reset d dir = (mkD 0 (2 ^ z_ZSTD_WINDOWLOG_LIMIT_DEFAULT + 1) 0 0 0 0 0 S_init (dd_drop (d_dict d)) (d_static d), Ok)
  /\ dctx_get_p (fst (dctx_reset d dir)) D_windowLogMax = z_ZSTD_WINDOWLOG_LIMIT_DEFAULT.
Proof. exact d_reset_parameters_restores_defaults_l. Qed.
Print Assumptions d_reset_parameters_restores_defaults.

Theorem d_reset_session_keeps_parameters : forall d dir,
  is_session dir = true -> is_params dir = false -> dctx_reset d dir = (dctx_set_stage d S_init, Ok).
Proof. exact d_reset_session_keeps_parameters_l. Qed.
Print Assumptions d_reset_session_keeps_parameters.

Theorem d_set_max_window_size : forall d size lo hi,
  d_stage d = S_init -> dbounds D_windowLogMax = Some (lo, hi) ->
  (2 ^ lo <= size <= 2 ^ hi ->
     snd (dctx_set_max_window_size d size) = Ok
     /\ d_maxWindowSize (fst (dctx_set_max_window_size d size)) = size
     /\ lo <= dctx_get_p (fst (dctx_set_max_window_size d size)) D_windowLogMax <= hi)
  /\ (~ (2 ^ lo <= size <= 2 ^ hi) -> dctx_set_max_window_size d size = (d, Err E_outOfBound)).
Proof. exact d_set_max_window_size_l. Qed.
Print Assumptions d_set_max_window_size.

Theorem history_dparams_within_bounds : forall ops o p,
  let d := get_d (run world_new ops) o in
  (in_dbounds p (dctx_get_p d p) \/ (p = D_maxBlockSize /\ dctx_get_p d p = 0))
  /\ 0 < d_maxWindowSize d mod 2 ^ 32.
Proof. exact history_dparams_within_bounds_l. Qed.
Print Assumptions history_dparams_within_bounds.

Theorem d_sticky_across_frames : forall ops w o,
  Forall (fun x => touches_dparams o x = false) ops ->
  dparams_of (get_d (run w ops) o) = dparams_of (get_d w o).
Proof. exact d_sticky_across_frames_l. Qed.
Print Assumptions d_sticky_across_frames.

(* ---- the regenerated tables (re-checked against the current headers on every run) ---- *)
Theorem bounds_table_sane : forall p,
  exists lo hi, cbounds p = Some (lo, hi) /\ lo <= hi /\ - 2 ^ 31 <= lo /\ hi < 2 ^ 31
             /\ cvalue_ok p (cdefault p) /\ cbounds_documented p = Some (lo, hi).
Proof. exact bounds_table_sane_c. Qed.
Print Assumptions bounds_table_sane.

Theorem d_bounds_table_sane : forall p,
  exists lo hi, dbounds p = Some (lo, hi) /\ lo <= hi /\ - 2 ^ 31 <= lo /\ hi < 2 ^ 31
             /\ (lo <= ddefault p <= hi \/ (p = D_maxBlockSize /\ ddefault p = 0)) /\ dbounds_documented p = Some (lo, hi).
Proof. exact bounds_table_sane_d. Qed.
Print Assumptions d_bounds_table_sane.

Theorem bounds_table_rows_modelled :
  (forall id lo hi, In (id, lo, hi) cparam_bounds -> exists p, id = cparam_id p)
  /\ (forall id lo hi, In (id, lo, hi) dparam_bounds -> exists p, id = dparam_id p)
  /\ length cparam_bounds = length all_cparams /\ length dparam_bounds = length all_dparams.
Proof. exact bounds_table_rows_modelled_l. Qed.
Print Assumptions bounds_table_rows_modelled.

Theorem parameter_ids_distinct : (forall p, cparam_of_id (cparam_id p) = Some p) /\ (forall p, dparam_of_id (dparam_id p) = Some p).
Proof. exact (conj cparam_of_id_id dparam_of_id_id). Qed.
Print Assumptions parameter_ids_distinct.

(* ---- level -> compression parameters: the table and the adjustment never leave the advertised bounds ---- *)
Theorem cparams_adjust_in_bounds : forall c srcSize dictSize mode useRow,
  check_cparams c = true -> 0 <= dictSize < 2 ^ 63 ->
  check_cparams (adjust_cparams c srcSize dictSize mode useRow) = true.
Proof. exact cparams_adjust_in_bounds_l. Qed.
Print Assumptions cparams_adjust_in_bounds.

Theorem adjustCParams_public_in_bounds : forall c srcSize dictSize, 0 <= dictSize < 2 ^ 63 ->
  check_cparams (adjust_cparams_public c srcSize dictSize) = true.
Proof. exact adjust_public_in_bounds_l. Qed.
Print Assumptions adjustCParams_public_in_bounds.

Theorem getCParams_in_bounds : forall level srcSizeHint dictSize mode,
  0 <= dictSize < 2 ^ 63 ->
  check_cparams (get_cparams level srcSizeHint dictSize mode) = true.
Proof. exact getCParams_in_bounds_l. Qed.
Print Assumptions getCParams_in_bounds.

Theorem getCParams_public_in_bounds : forall level srcSizeHint dictSize, 0 <= dictSize < 2 ^ 63 ->
  check_cparams (get_cparams_public level srcSizeHint dictSize) = true.
Proof. exact getCParams_public_in_bounds_l. Qed.
Print Assumptions getCParams_public_in_bounds.

Theorem level_table_in_bounds : forall t r, 0 <= t <= 3 -> 0 <= r <= 22 -> check_cparams (table_lookup t r) = true.
Proof. exact table_lookup_ok. Qed.
Print Assumptions level_table_in_bounds.

(* ---- fresh objects; finding F22 (fixed by 32f35e7) kept as the refutation for the old static initialisation ---- *)
Theorem fresh_objects_hold_defaults :
  (forall o, c_params (cctx_new o) = cparams_default) /\ w_p world_new = cparams_default
  /\ (forall o, c_params (get_c world_new o) = cparams_default)
  /\ (forall o, dparams_of (get_d world_new o) = [0; 2 ^ z_ZSTD_WINDOWLOG_LIMIT_DEFAULT + 1; 0; 0; 0; 0; 0]).
Proof. exact fresh_objects_hold_defaults_l. Qed.
Print Assumptions fresh_objects_hold_defaults.

Theorem static_cctx_fresh_params_refuted :
  c_params (cctx_new_prefix true) C_contentSizeFlag <> cparams_default C_contentSizeFlag
  /\ c_params (cctx_new_prefix true) C_compressionLevel <> cparams_default C_compressionLevel
  /\ c_params (fst (cctx_reset (cctx_new_prefix true) z_ZSTD_reset_parameters)) = cparams_default.
Proof. exact static_cctx_fresh_params_refuted_l. Qed.
Print Assumptions static_cctx_fresh_params_refuted.

(* ---- finding F2 (fixed by 8508394), kept as the refutation of the invariant for the old code ---- *)
Theorem rsyncable_clamp_refuted :
  exists v s', ~ in_cbounds C_rsyncable v
            /\ cparams_set_prefix cparams_default C_rsyncable v = (s', Ok)
            /\ ~ cvalue_ok C_rsyncable (s' C_rsyncable).
Proof. exact rsyncable_clamp_refuted_l. Qed.
Print Assumptions rsyncable_clamp_refuted.

(* ================================================================== round 2 ================================================== *)
(* ---- composite setters: ZSTD_CCtx_setCParams / setFParams / setParams ---- *)
Theorem setCParams_exact : forall c cp,
  cctx_set_cparams c cp =
    if check_cparams cp then
      match c_stage c with
      | S_init => (mkC (cpar_store (c_params c) cp) S_init (c_dict c) (c_static c), Ok)
      | S_mid => (c, Err E_stage_wrong)
      end
    else (c, Err E_outOfBound).
Proof. exact set_cparams_char. Qed.
Print Assumptions setCParams_exact.

Theorem setFParams_exact : forall c fp,
  cctx_set_fparams c fp =
    match c_stage c with
    | S_init => (mkC (fpar_store (c_params c) fp) S_init (c_dict c) (c_static c), Ok)
    | S_mid => (c, Err E_stage_wrong)
    end.
Proof. exact set_fparams_char. Qed.
Print Assumptions setFParams_exact.

Theorem setParams_exact : forall c cp fp,
  cctx_set_params c cp fp =
    if check_cparams cp then
      match c_stage c with
      | S_init => (mkC (cpar_store (fpar_store (c_params c) fp) cp) S_init (c_dict c) (c_static c), Ok)
      | S_mid => (c, Err E_stage_wrong)
      end
    else (c, Err E_outOfBound).
Proof. exact set_params_char. Qed.
Print Assumptions setParams_exact.

Theorem composite_all_or_nothing : forall c cp fp,
  (snd (cctx_set_cparams c cp) <> Ok -> fst (cctx_set_cparams c cp) = c)
  /\ (snd (cctx_set_fparams c fp) <> Ok -> fst (cctx_set_fparams c fp) = c)
  /\ (snd (cctx_set_params c cp fp) <> Ok -> fst (cctx_set_params c cp fp) = c).
Proof. exact composite_all_or_nothing_l. Qed.
Print Assumptions composite_all_or_nothing.

Theorem composite_is_sequence_of_setParameter : forall c cp fp, c_stage c = S_init -> check_cparams cp = true ->
  set_each c (cpar_sets cp) = (fst (cctx_set_cparams c cp), [Ok; Ok; Ok; Ok; Ok; Ok; Ok])
  /\ set_each c (fpar_sets fp) = (fst (cctx_set_fparams c fp), [Ok; Ok; Ok])
  /\ set_each c (fpar_sets fp ++ cpar_sets cp) = (fst (cctx_set_params c cp fp), [Ok; Ok; Ok; Ok; Ok; Ok; Ok; Ok; Ok; Ok]).
Proof. exact composite_is_sequence_l. Qed.
Print Assumptions composite_is_sequence_of_setParameter.

Theorem composite_cells : forall s cp fp q,
  cpar_store s cp q =
    match q with
    | C_windowLog => wlog cp | C_chainLog => clog cp | C_hashLog => hlog cp | C_searchLog => slog cp
    | C_minMatch => mmatch cp | C_targetLength => tlen cp | C_strategy => strat cp
    | _ => s q
    end
  /\ fpar_store s fp q =
    match q with
    | C_contentSizeFlag => flag (f_cs fp) | C_checksumFlag => flag (f_ck fp)
    | C_dictIDFlag => if f_nd fp =? 0 then 1 else 0
    | _ => s q
    end.
Proof. exact composite_cells_l. Qed.
Print Assumptions composite_cells.

(* ---- ZSTD_CCtxParams_init_advanced ---- *)
Theorem init_advanced_all_or_nothing : forall s cp fp,
  snd (cparams_init_advanced s cp fp) <> Ok -> fst (cparams_init_advanced s cp fp) = s.
Proof. exact init_advanced_all_or_nothing_l. Qed.
Print Assumptions init_advanced_all_or_nothing.

Theorem init_advanced_cells : forall s cp fp q, check_cparams cp = true ->
  fst (cparams_init_advanced s cp fp) q =
  match q with
  | C_compressionLevel => 0
  | C_windowLog => wlog cp | C_chainLog => clog cp | C_hashLog => hlog cp | C_searchLog => slog cp
  | C_minMatch => mmatch cp | C_targetLength => tlen cp | C_strategy => strat cp
  | C_contentSizeFlag => f_cs fp | C_checksumFlag => f_ck fp | C_dictIDFlag => if f_nd fp =? 0 then 1 else 0
  | C_useRowMatchFinder => resolve_row z_ZSTD_ps_auto cp
  | C_useBlockSplitter => resolve_split z_ZSTD_ps_auto cp
  | C_enableLongDistanceMatching => resolve_ldm z_ZSTD_ps_auto cp
  | C_maxBlockSize => z_ZSTD_BLOCKSIZE_MAX
  | C_searchForExternalRepcodes => z_ZSTD_ps_disable
  | _ => 0
  end.
Proof. exact init_advanced_cells_l. Qed.
Print Assumptions init_advanced_cells.

Theorem header_checksum_bit_refuted : hdr_checksum_bit true (-1) = 0 /\ hdr_checksum_bit false (-1) = 1
  /\ forall v, hdr_checksum_bit false v = if v =? 0 then 0 else 1.
Proof. exact header_checksum_bit_l. Qed.
Print Assumptions header_checksum_bit_refuted.

(* ---- decoder side: dictionary calls ---- *)
Theorem d_dict_calls_midframe_refused : forall d k, d_stage d = S_mid ->
  dctx_refddict d k = (d, Err E_stage_wrong) /\ dctx_load d k = (d, Err E_stage_wrong)
  /\ dctx_refprefix d k = (d, Err E_stage_wrong).
Proof. exact d_dict_calls_midframe_refused_l. Qed.
Print Assumptions d_dict_calls_midframe_refused.

Theorem d_dict_calls_replace : forall d k, d_stage d = S_init ->
  (let d' := fst (dctx_refddict d k) in
   snd (dctx_refddict d k) = Ok /\ dsame d d' /\ d_stage d' = S_init
   /\ dd_kind (d_dict d') = (if k =? 0 then DK_none else DK_ref k) /\ dd_uses (d_dict d') = (if k =? 0 then 0 else 2))
  /\ (let d' := fst (dctx_load d k) in
      snd (dctx_load d k) = Ok /\ dsame d d' /\ d_stage d' = S_init
      /\ dd_kind (d_dict d') = (if k =? 0 then DK_none else DK_local k) /\ dd_uses (d_dict d') = (if k =? 0 then 0 else 2)
      /\ dd_set (d_dict d') = dd_set (d_dict d))
  /\ (let d' := fst (dctx_refprefix d k) in
      snd (dctx_refprefix d k) = Ok /\ dsame d d' /\ d_stage d' = S_init
      /\ dd_kind (d_dict d') = (if k =? 0 then DK_none else DK_pfx k) /\ dd_uses (d_dict d') = 1
      /\ dd_set (d_dict d') = dd_set (d_dict d)).
Proof. exact d_dict_calls_replace_l. Qed.
Print Assumptions d_dict_calls_replace.

Theorem d_refddict_set : forall d k, d_stage d = S_init -> k <> 0 ->
  dd_set (d_dict (fst (dctx_refddict d k))) =
    if d_refMultipleDDicts d =? 1 then Some (k :: match dd_set (d_dict d) with Some l => l | None => [] end)
    else dd_set (d_dict d).
Proof. exact d_refddict_set_l. Qed.
Print Assumptions d_refddict_set.

Theorem d_prefix_first_frame : forall d k fid, d_stage d = S_init -> dd_set (d_dict d) = None ->
  let d1 := fst (dctx_refprefix d k) in
  d_next_use d1 fid = (if k =? 0 then DK_none else DK_pfx k)
  /\ dd_uses (d_after_header d1 fid) = 0 /\ dd_set (d_after_header d1 fid) = None.
Proof. exact d_prefix_first_frame_l. Qed.
Print Assumptions d_prefix_first_frame.

Theorem d_prefix_single_use : forall ops w o,
  Forall (fun x => d_attach o x = false) ops -> d_spent (get_d w o) ->
  d_spent (get_d (run w ops) o) /\ forall fmt fid, snd (dd_stream_header false (get_d (run w ops) o) fmt fid) = DK_none.
Proof. exact d_spent_history_l. Qed.
Print Assumptions d_prefix_single_use.

Theorem d_dict_sticky : forall ops w o k,
  Forall (fun x => d_drop o x = false) ops -> d_holds (get_d w o) k ->
  d_holds (get_d (run w ops) o) k /\ forall fid, d_next_use (get_d (run w ops) o) fid = k.
Proof. exact d_dict_sticky_l. Qed.
Print Assumptions d_dict_sticky.

Theorem d_reset_dict_rules : forall d dir,
  (is_session dir = true -> is_params dir = false -> d_dict (fst (dctx_reset d dir)) = d_dict d)
  /\ (is_params dir = true -> (d_stage d = S_init \/ is_session dir = true) ->
      dd_kind (d_dict (fst (dctx_reset d dir))) = DK_none /\ dd_uses (d_dict (fst (dctx_reset d dir))) = 0
      /\ dd_set (d_dict (fst (dctx_reset d dir))) = None).      (* round 3, fix b70602d: the DDict set is dropped too *)
Proof. exact d_reset_dict_rules_l. Qed.
Print Assumptions d_reset_dict_rules.

(* ---- ZSTD_d_refMultipleDDicts ---- *)
Theorem d_multi_reached : forall d a b, d_stage d = S_init -> d_refMultipleDDicts d = 1 -> d_format d = 0 ->
  dd_set (d_dict d) = None -> ((a = 1 /\ b = 2) \/ (a = 2 /\ b = 1)) ->
  d_multi (fst (dctx_refddict (fst (dctx_refddict d a)) b)).
Proof. exact d_multi_reached_l. Qed.
Print Assumptions d_multi_reached.

Theorem d_multi_decodes : forall d, d_multi d ->
  (forall f, f = 0 \/ f = 1 \/ f = 2 ->
     snd (dctx_dec_stream d f) = Ok /\ d_multi (fst (dctx_dec_stream d f))
     /\ (f <> 0 -> d_next_use d f = DK_ref f))
  /\ (forall fs, (forall f, In f fs -> f = 0 \/ f = 1 \/ f = 2) ->
        snd (dctx_dec_oneshot d fs) = Ok /\ d_multi (fst (dctx_dec_oneshot d fs))).
Proof. exact d_multi_decodes_l. Qed.
Print Assumptions d_multi_decodes.

Theorem d_multi_history : forall ops w o,
  Forall (fun x => d_drop o x = false) ops -> d_multi (get_d w o) ->
  let d := get_d (run w ops) o in
  d_multi d /\ (forall f, f = 1 \/ f = 2 -> snd (dctx_dec_stream d f) = Ok /\ d_next_use d f = DK_ref f /\ snd (dctx_dec_oneshot d [f]) = Ok).
Proof. exact d_multi_history_l. Qed.
Print Assumptions d_multi_history.

Theorem stale_dictid_selection_refuted :
  snd (dctx_dec_stream_gen true f29_ctx 2) <> Ok /\ snd (dctx_dec_stream f29_ctx_now 2) = Ok.
Proof. exact stale_dictid_selection_refuted_l. Qed.
Print Assumptions stale_dictid_selection_refuted.

Theorem oneshot_stale_tables_refuted :
  snd (dctx_dec_oneshot_gen true f30_ctx [1]) <> Ok /\ snd (dctx_dec_oneshot f30_ctx [1]) = Ok /\ d_multi f30_ctx.
Proof. exact oneshot_stale_tables_refuted_l. Qed.
Print Assumptions oneshot_stale_tables_refuted.

(* ---- ZSTD_CCtx_setPledgedSrcSize ---- *)
Theorem pledge_call : forall w o v,
  (c_stage (xget_c w o) = S_mid -> xstep w (XPledge o v) = (w, (Err E_stage_wrong, [])))
  /\ (c_stage (xget_c w o) = S_init ->
      xstep w (XPledge o v) = (put_s w o (set_pledge (get_s w o) (u64 (v + 1))), (Ok, []))).
Proof. exact pledge_call_l. Qed.
Print Assumptions pledge_call.

Theorem pledge_unknown_is_default : u64 (z_ZSTD_CONTENTSIZE_UNKNOWN + 1) = 0 /\ s_pledge sess_new = 0.
Proof. exact (conj pledge_unknown_is_zero eq_refl). Qed.
Print Assumptions pledge_unknown_is_default.

Theorem pledge_sticky : forall ops w o,
  Forall (fun x => touches_pledge o x = false) ops ->
  s_pledge (get_s (xrun w ops) o) = s_pledge (get_s w o).
Proof. exact pledge_sticky_l. Qed.
Print Assumptions pledge_sticky.

Theorem pledge_single_frame : forall w o,
  s_pledge (get_s (fst (xstep w (XB (OCFrame o)))) o) = 0
  /\ s_pledge (get_s (fst (xstep w (XFxWin o))) o) = 0
  /\ s_pledge (get_s (fst (xstep w (XB (OCSimple o)))) o) = 0
  /\ (fst (snd (xstep w (XB (OCEnd o)))) = Ok -> s_pledge (get_s (fst (xstep w (XB (OCEnd o)))) o) = 0)
  /\ (forall dir, is_session dir = true -> s_pledge (get_s (fst (xstep w (XB (OCReset o dir)))) o) = 0).
Proof. exact pledge_single_frame_l. Qed.
Print Assumptions pledge_single_frame.

Theorem pledge_kept_by_parameter_reset : forall w o dir, is_session dir = false ->
  s_pledge (get_s (fst (xstep w (XB (OCReset o dir)))) o) = s_pledge (get_s w o).
Proof. exact pledge_kept_by_parameter_reset_l. Qed.
Print Assumptions pledge_kept_by_parameter_reset.

Theorem pledge_overriding_rules : forall w o,
  let cs := c_params (xget_c w o) C_contentSizeFlag in
  (exists did use, s_last (get_s (fst (xstep w (XB (OCFrame o)))) o) = Some (mkFI (fcs_of cs sz_oneshot) did use))
  /\ (exists did use, s_last (get_s (fst (xstep w (XFxWin o))) o) = Some (mkFI (fcs_of cs sz_fxwin) did use))
  /\ (c_stage (xget_c w o) = S_init ->
      exists did use, s_last (get_s (fst (xstep w (XB (OCEnd o)))) o) = Some (mkFI (fcs_of cs 0) did use))
  /\ s_last (get_s (fst (xstep w (XB (OCSimple o)))) o) = Some (mkFI sz_oneshot 0 0).
Proof. exact overriding_rules_l. Qed.
Print Assumptions pledge_overriding_rules.

Theorem streamed_frame_carries_pledge : forall w o, c_stage (xget_c w o) = S_init ->
  let s := get_s w o in
  let s' := get_s (fst (xstep w (XB (OCBegin o)))) o in
  fi_fcs (s_cur s') = (if negb (c_params (xget_c w o) C_contentSizeFlag =? 0) && negb (s_pledge s =? 0) then s_pledge s - 1 else -1)
  /\ s_pledge s' = s_pledge s /\ s_fed s' = sz_chunk.
Proof. exact streamed_frame_carries_pledge_l. Qed.
Print Assumptions streamed_frame_carries_pledge.

Theorem pledge_controlled_at_end : forall w o,
  c_stage (xget_c w o) = S_mid -> s_pledge (get_s w o) <> 0 -> s_fed (get_s w o) + 1 <> s_pledge (get_s w o) ->
  fst (snd (xstep w (XB (OCEnd o)))) = Err E_other
  /\ (mt_frame (get_s w o) = false -> fst (xstep w (XB (OCEnd o))) = put_s w o (get_s w o)).
Proof. exact pledge_controlled_at_end_l. Qed.
Print Assumptions pledge_controlled_at_end.

Theorem pledge_met_frame_ends : forall w o,
  c_stage (xget_c w o) = S_mid -> (s_pledge (get_s w o) = 0 \/ s_fed (get_s w o) + 1 = s_pledge (get_s w o)) ->
  fst (snd (xstep w (XB (OCEnd o)))) = Ok
  /\ s_last (get_s (fst (xstep w (XB (OCEnd o)))) o) = Some (s_cur (get_s w o))
  /\ c_stage (xget_c (fst (xstep w (XB (OCEnd o)))) o) = S_init.
Proof. exact pledge_met_frame_ends_l. Qed.
Print Assumptions pledge_met_frame_ends.

Theorem oneshot_pledge_leak_refuted :
  let h := [XB (OCSimple false); XB (OCBegin false)] in
  fst (snd (xstep_gen true true true (xrun_gen true true true xworld_new h) (XB (OCEnd false)))) = Err E_other
  /\ fst (snd (xstep (xrun xworld_new h) (XB (OCEnd false)))) = Ok.
Proof. exact oneshot_pledge_leak_refuted_l. Qed.
Print Assumptions oneshot_pledge_leak_refuted.

(* ---- applied parameters, mid-frame updates, the multi-threaded frame ---- *)
Theorem applied_changes_only_at_frame_start : forall ops w o,
  Forall (fun x => touches_applied o x = false) ops ->
  s_applied (get_s (xrun w ops) o) = s_applied (get_s w o) /\ s_mt (get_s (xrun w ops) o) = s_mt (get_s w o).
Proof. exact applied_sticky_l. Qed.
Print Assumptions applied_changes_only_at_frame_start.

Theorem applied_unchanged_midframe : forall w o b, c_stage (xget_c w o) = S_mid -> (b = OCBegin o \/ b = OCEnd o) ->
  s_applied (get_s (fst (xstep w (XB b))) o) = s_applied (get_s w o)
  /\ mt_wlog (get_s (fst (xstep w (XB b))) o) = mt_wlog (get_s w o).
Proof. exact applied_unchanged_midframe_l. Qed.
Print Assumptions applied_unchanged_midframe.

Theorem applied_at_frame_start : forall w o,
  let c := xget_c w o in
  let s := get_s w o in
  (c_stage c = S_init -> s_applied (get_s (fst (xstep w (XB (OCBegin o)))) o) = frame_resolve c (s_pledge s) false)
  /\ (c_stage c = S_init -> s_applied (get_s (fst (xstep w (XB (OCEnd o)))) o) = frame_resolve c (u64 1) false)
  /\ s_applied (get_s (fst (xstep w (XB (OCFrame o)))) o) = frame_resolve c (u64 (sz_oneshot + 1)) true
  /\ s_applied (get_s (fst (xstep w (XB (OCFail o)))) o) = frame_resolve c (u64 (sz_oneshot + 1)) true
  /\ s_applied (get_s (fst (xstep w (XFxWin o))) o) = frame_resolve c (u64 (sz_fxwin + 1)) true
  /\ s_applied (get_s (fst (xstep w (XB (OCSimple o)))) o) = simple_applied.
Proof. exact applied_at_frame_start_l. Qed.
Print Assumptions applied_at_frame_start.

Theorem applied_equals_requested : forall c pledge stable,
  let s := c_params c in
  let a := frame_resolve c pledge stable in
  let src := u64 (pledge - 1) in
  (forall p, copied_cell p = true -> a p = Some (s p))
  /\ a C_compressionLevel = Some (match c_dict c with CD_cdict => lvl_cdict | _ => s C_compressionLevel end)
  /\ a C_nbWorkers = Some (if src <=? z_ZSTDMT_JOBSIZE_MIN then 0 else s C_nbWorkers)
  /\ a C_maxBlockSize = Some (if s C_maxBlockSize =? 0 then z_ZSTD_BLOCKSIZE_MAX else s C_maxBlockSize)
  /\ a C_stableInBuffer = Some (if stable then 1 else s C_stableInBuffer)
  /\ a C_stableOutBuffer = Some (if stable then 1 else s C_stableOutBuffer)
  /\ (a C_contentSizeFlag = Some (s C_contentSizeFlag) \/ (pledge = 0 /\ a C_contentSizeFlag = Some 0))
  /\ (uses_cdict (c_dict c) = false ->
      let level := s C_compressionLevel in
      let dictSize := match c_dict c with CD_prefix => sz_prefix | _ => 0 end in
      let cp := cparams_from_store s level src dictSize z_ZSTD_cpm_noAttachDict in
      a C_windowLog = Some (wlog cp) /\ a C_chainLog = Some (clog cp) /\ a C_hashLog = Some (hlog cp)
      /\ a C_searchLog = Some (slog cp) /\ a C_minMatch = Some (mmatch cp) /\ a C_targetLength = Some (tlen cp)
      /\ a C_strategy = Some (strat cp)
      /\ a C_useRowMatchFinder = Some (resolve_row (s C_useRowMatchFinder) cp)
      /\ a C_useBlockSplitter = Some (resolve_split (s C_useBlockSplitter) cp)
      /\ a C_enableLongDistanceMatching = Some (resolve_ldm (s C_enableLongDistanceMatching) cp)).
Proof. exact frame_resolve_cells_l. Qed.
Print Assumptions applied_equals_requested.

Theorem mt_update_exact : forall c x,
  (mt_frame x = true -> s_changed x = true -> forall m, s_mt x = Some m ->
     s_mt (mt_update c x) = Some (mt_rederived c m) /\ s_changed (mt_update c x) = false)
  /\ ((mt_frame x = false \/ s_changed x = false) -> mt_update c x = x).
Proof. exact mt_update_exact_l. Qed.
Print Assumptions mt_update_exact.

Theorem changed_raised_only_by_accepted_midframe_set : forall w x o,
  s_changed (get_s w o) = false -> s_changed (get_s (fst (xstep w x)) o) = true ->
  exists id v, x = XB (OCSet o id v) /\ c_stage (xget_c w o) = S_mid /\ is_auth_id id = true /\ fst (snd (xstep w x)) = Ok.
Proof. exact changed_raised_only_by_midframe_set_l. Qed.
Print Assumptions changed_raised_only_by_accepted_midframe_set.

Theorem midframe_update_reaches_mt : forall w o p v m,
  let c := xget_c w o in let s := get_s w o in
  c_stage c = S_mid -> is_update_authorized p = true -> in_cbounds p v ->
  mt_frame s = true -> s_mt s = Some m ->
  let w1 := fst (xstep w (XB (OCSet o (cparam_id p) v))) in
  let w2 := fst (xstep w1 (XB (OCBegin o))) in
  c_params (xget_c w1 o) p = cnorm p v
  /\ s_applied (get_s w1 o) = s_applied s /\ s_mt (get_s w1 o) = Some m /\ s_changed (get_s w1 o) = true
  /\ s_applied (get_s w2 o) = s_applied s
  /\ s_mt (get_s w2 o) = Some (mt_rederived (xget_c w1 o) m) /\ s_changed (get_s w2 o) = false
  /\ wlog (mt_cp (mt_rederived (xget_c w1 o) m)) = wlog (mt_cp m).
Proof. exact midframe_update_reaches_mt_l. Qed.
Print Assumptions midframe_update_reaches_mt.

Theorem mt_kept_without_update : forall w o, c_stage (xget_c w o) = S_mid -> s_changed (get_s w o) = false ->
  s_mt (get_s (fst (xstep w (XB (OCBegin o)))) o) = s_mt (get_s w o).
Proof. exact mt_kept_without_update_l. Qed.
Print Assumptions mt_kept_without_update.

Theorem mt_at_frame_start : forall w o n, c_stage (xget_c w o) = S_init ->
  let c := xget_c w o in let s := get_s w o in
  frame_resolve c (s_pledge s) false C_nbWorkers = Some n -> 0 < n ->
  let s' := get_s (fst (xstep w (XB (OCBegin o)))) o in
  s_mt s' =
    Some (mkMT (match c_dict c with CD_cdict => lvl_cdict | _ => c_params c C_compressionLevel end)
               (cparams_from_store (c_params c) (match c_dict c with CD_cdict => lvl_cdict | _ => c_params c C_compressionLevel end)
                                   (u64 (s_pledge s - 1)) (match c_dict c with CD_prefix => sz_prefix | _ => 0 end) z_ZSTD_cpm_noAttachDict))
  /\ s_changed s' = false.
Proof. exact mt_at_frame_start_l. Qed.
Print Assumptions mt_at_frame_start.

Theorem refused_midframe_set_changes_nothing : forall w o id v,
  fst (snd (xstep w (XB (OCSet o id v)))) <> Ok ->
  xget_c (fst (xstep w (XB (OCSet o id v)))) o = xget_c w o /\ get_s (fst (xstep w (XB (OCSet o id v)))) o = get_s w o.
Proof. exact refused_midframe_set_changes_nothing_l. Qed.
Print Assumptions refused_midframe_set_changes_nothing.

Theorem refused_set_raised_flag_refuted :
  let h := [XB (OCSet false z_ZSTD_c_nbWorkers 1); XB (OCRefPrefix false 1); XB (OCBegin false)] in
  let bad := XB (OCSet false z_ZSTD_c_hashLog 99) in
  let w_old := xrun_gen false true true xworld_new h in
  let w_now := xrun xworld_new h in
  fst (snd (xstep_gen false true true w_old bad)) = Err E_outOfBound
  /\ s_changed (get_s (fst (xstep_gen false true true w_old bad)) false) = true
  /\ s_mt (get_s (fst (xstep_gen false true true (fst (xstep_gen false true true w_old bad)) (XB (OCBegin false)))) false)
     <> s_mt (get_s w_old false)
  /\ s_changed (get_s (fst (xstep w_now bad)) false) = false
  /\ s_mt (get_s (fst (xstep (fst (xstep w_now bad)) (XB (OCBegin false)))) false) = s_mt (get_s w_now false).
Proof. exact refused_set_raised_flag_refuted_l. Qed.
Print Assumptions refused_set_raised_flag_refuted.

Theorem flag_survived_frame_refuted :
  let prev := [XB (OCBegin false); XB (OCSet false z_ZSTD_c_compressionLevel 3); XB (OCEnd false)] in
  let next := [XB (OCSet false z_ZSTD_c_nbWorkers 1); XB (OCRefPrefix false 1); XB (OCBegin false)] in
  let fresh := XB (OCSet false z_ZSTD_c_compressionLevel 3) :: next in
  (forall p, c_params (xget_c (xrun xworld_new (prev ++ next)) false) p = c_params (xget_c (xrun xworld_new fresh) false) p)
  /\ s_mt (get_s (xrun_gen false false true xworld_new (prev ++ next)) false) <> s_mt (get_s (xrun_gen false false true xworld_new fresh) false)
  /\ s_mt (get_s (xrun xworld_new (prev ++ next)) false) = s_mt (get_s (xrun xworld_new fresh) false).
Proof. exact flag_survived_frame_refuted_l. Qed.
Print Assumptions flag_survived_frame_refuted.

(* ---- dictionaries of a compression context ---- *)
Theorem c_dict_calls_midframe_refused : forall c k, c_stage c = S_mid ->
  cctx_load c k = (c, Err E_stage_wrong) /\ cctx_refcdict c k = (c, Err E_stage_wrong) /\ cctx_refprefix c k = (c, Err E_stage_wrong).
Proof. exact c_dict_calls_midframe_refused_l. Qed.
Print Assumptions c_dict_calls_midframe_refused.

Theorem c_dict_calls_replace : forall c k, c_stage c = S_init ->
  (c_params (fst (cctx_load c k)) = c_params c /\ c_stage (fst (cctx_load c k)) = S_init
   /\ c_dict (fst (cctx_load c k)) = (if (k =? 0) || c_static c then CD_none else CD_local false)
   /\ (snd (cctx_load c k) = Ok <-> (k = 0 \/ c_static c = false)))
  /\ (cctx_refcdict c k = (mkC (c_params c) S_init (if k =? 0 then CD_none else CD_cdict) (c_static c), Ok))
  /\ (cctx_refprefix c k = (mkC (c_params c) S_init (if k =? 0 then CD_none else CD_prefix) (c_static c), Ok)).
Proof. exact c_dict_calls_replace_l. Qed.
Print Assumptions c_dict_calls_replace.

Theorem frame_uses_attached : forall w o, exists fcs did,
  s_last (get_s (fst (xstep w (XB (OCFrame o)))) o) = Some (mkFI fcs did (next_use w o)).
Proof. exact frame_uses_attached_l. Qed.
Print Assumptions frame_uses_attached.

Theorem attach_sets_next_use : forall w o k, c_stage (xget_c w o) = S_init -> k <> 0 ->
  next_use (fst (xstep w (XB (OCRefCDict o k)))) o = k
  /\ next_use (fst (xstep w (XB (OCRefPrefix o k)))) o = 2 + k
  /\ (c_static (xget_c w o) = false -> next_use (fst (xstep w (XB (OCLoad o k)))) o = k)
  /\ next_use (fst (xstep w (XB (OCRefCDict o 0)))) o = 0 /\ next_use (fst (xstep w (XB (OCRefPrefix o 0)))) o = 0
  /\ next_use (fst (xstep w (XB (OCLoad o 0)))) o = 0.
Proof. exact attach_sets_next_use_l. Qed.
Print Assumptions attach_sets_next_use.

Theorem c_prefix_single_use : forall w o b, c_dict (xget_c w o) = CD_prefix ->
  (b = OCFrame o \/ b = OCFail o \/ (c_stage (xget_c w o) = S_init /\ (b = OCBegin o \/ b = OCEnd o))) ->
  c_dict (xget_c (fst (xstep w (XB b))) o) = CD_none
  /\ fi_use (s_cur (get_s (fst (xstep w (XB b))) o)) = 2 + s_dk (get_s w o)
  /\ next_use w o = 2 + s_dk (get_s w o).
Proof. exact c_prefix_single_use_l. Qed.
Print Assumptions c_prefix_single_use.

Theorem c_nodict_until_next_attach : forall ops w o,
  Forall (fun x => c_attach o x = false) ops -> c_dict (xget_c w o) = CD_none ->
  c_dict (xget_c (xrun w ops) o) = CD_none /\ next_use (xrun w ops) o = 0.
Proof. exact c_nodict_history_l. Qed.
Print Assumptions c_nodict_until_next_attach.

Theorem c_dict_sticky : forall ops w o k,
  Forall (fun x => c_drop o x = false) ops -> c_holds w o k ->
  c_holds (xrun w ops) o k /\ next_use (xrun w ops) o = k.
Proof. exact c_dict_sticky_l. Qed.
Print Assumptions c_dict_sticky.

Theorem c_reset_dict_rules : forall w o dir,
  (is_session dir = true -> is_params dir = false ->
     c_dict (xget_c (fst (xstep w (XB (OCReset o dir)))) o) = c_dict (xget_c w o) /\ next_use (fst (xstep w (XB (OCReset o dir)))) o = next_use w o)
  /\ (is_params dir = true -> (c_stage (xget_c w o) = S_init \/ is_session dir = true) ->
      c_dict (xget_c (fst (xstep w (XB (OCReset o dir)))) o) = CD_none /\ next_use (fst (xstep w (XB (OCReset o dir)))) o = 0).
Proof. exact c_reset_dict_rules_l. Qed.
Print Assumptions c_reset_dict_rules.

(* ---- the extended model refines the base model ---- *)
Theorem extended_history_is_base_history : forall ops w, xw_base (xrun w ops) = run (xw_base w) (ximages w ops).
Proof. exact xrun_image. Qed.
Print Assumptions extended_history_is_base_history.

Theorem x_history_within_bounds : forall ops, Forall xop_wf ops ->
  forall o,
  (forall p, cvalue_ok p (c_params (xget_c (xrun xworld_new ops) o) p) /\ cvalue_ok p (w_p (xw_base (xrun xworld_new ops)) p))
  /\ (forall p, let d := get_d (xw_base (xrun xworld_new ops)) o in
                (in_dbounds p (dctx_get_p d p) \/ (p = D_maxBlockSize /\ dctx_get_p d p = 0)) /\ 0 < d_maxWindowSize d mod 2 ^ 32).
Proof. exact x_history_within_bounds_l. Qed.
Print Assumptions x_history_within_bounds.

Theorem x_sticky_across_frames : forall ops w o,
  Forall (fun x => xtouches_cparams o x = false) ops -> c_params (xget_c (xrun w ops) o) = c_params (xget_c w o).
Proof. exact x_sticky_across_frames_l. Qed.
Print Assumptions x_sticky_across_frames.

(* ================================================================== round 3 ================================================================== *)
(* ---- a parameter reset drops every referenced DDict, for ever (finding C16-ddictset-survives-parameter-reset, fix b70602d) ---- *)
Theorem d_forgot_history : forall ops w o k,
  Forall (fun x => d_refs o k x = false) ops -> d_forgot (get_d w o) k -> d_forgot (get_d (run w ops) o) k.
Proof. exact d_forgot_history_l. Qed.
Print Assumptions d_forgot_history.

Theorem d_forgot_never_used : forall d k, d_forgot d k ->
  (forall fmt fid, snd (dd_stream_header false d fmt fid) <> DK_ref k)
  /\ snd (dd_get (d_dict d)) <> DK_ref k
  /\ (forall fid, dd_switched (Z.eqb (d_refMultipleDDicts d) 1) (d_dict d) fid = true -> fid <> k).
Proof. exact d_forgot_never_used_l. Qed.
Print Assumptions d_forgot_never_used.

Theorem d_param_reset_forgets : forall w o dir ops k,
  is_params dir = true -> (d_stage (get_d w o) = S_init \/ is_session dir = true) ->
  Forall (fun x => d_refs o k x = false) ops ->
  let d := get_d (run (fst (step w (ODReset o dir))) ops) o in
  d_forgot d k /\ (forall fmt fid, snd (dd_stream_header false d fmt fid) <> DK_ref k) /\ snd (dd_get (d_dict d)) <> DK_ref k.
Proof. exact d_param_reset_forgets_l. Qed.
Print Assumptions d_param_reset_forgets.

Theorem ddictset_survived_reset_refuted :
  snd (dctx_dec_oneshot (r3_after_reset dctx_reset_keepset) [1]) = Ok
  /\ snd (dctx_dec_stream (r3_after_reset dctx_reset_keepset) 1) = Ok
  /\ snd (dctx_dec_oneshot (r3_after_reset dctx_reset) [1]) <> Ok
  /\ snd (dctx_dec_stream (r3_after_reset dctx_reset) 1) <> Ok
  /\ d_forgot (r3_after_reset dctx_reset) 1.
Proof. exact ddictset_survived_reset_refuted_l. Qed.
Print Assumptions ddictset_survived_reset_refuted.

(* ---- ZSTD_decompress_usingDict with raw dictionary bytes (finding C16-refmulti-select-bypasses-dictid-check, fix 9260ac3) ---- *)
Theorem dictid_check_sound : forall sw loaded fid, dd_id_check false sw loaded fid = true -> fid = 0 \/ loaded = fid.
Proof. exact dd_id_check_sound. Qed.
Print Assumptions dictid_check_sound.

Theorem d_rawdict_verdict : forall d k f, d_format d = 0 ->
  snd (dctx_dec_raw d k f) = (if dkind_matches (if k =? 0 then DK_none else DK_local k) f then Ok else Err E_other)
  /\ dsame d (fst (dctx_dec_raw d k f)) /\ d_stage (fst (dctx_dec_raw d k f)) = S_init.
Proof. exact d_rawdict_verdict_l. Qed.
Print Assumptions d_rawdict_verdict.

Theorem select_vouched_for_loaded_dict_refuted :
  dd_id_check true (dd_switched true (d_dict r3_multi1) 1) 2 1 = true
  /\ dd_id_check false (dd_switched true (d_dict r3_multi1) 1) 2 1 = false
  /\ snd (dctx_dec_raw r3_multi1 2 1) <> Ok /\ snd (dctx_dec_raw r3_multi1 1 1) = Ok.
Proof. exact select_vouched_for_loaded_dict_refuted_l. Qed.
Print Assumptions select_vouched_for_loaded_dict_refuted.

(* ---- a loaded dictionary stays in force, also next to a set of referenced DDicts (finding
   C16-refmulti-select-destroys-loaded-dictionary, fix d0ddbff) ---- *)
Theorem d_loaded_sticky : forall ops w o k,
  Forall (fun x => d_drop o x = false) ops -> d_loaded (get_d w o) k ->
  d_loaded (get_d (run w ops) o) k /\ forall fid, d_next_use (get_d (run w ops) o) fid = DK_local k.
Proof. exact d_loaded_sticky_l. Qed.
Print Assumptions d_loaded_sticky.

Theorem d_load_gives_loaded : forall d k, d_stage d = S_init -> k <> 0 -> d_loaded (fst (dctx_load d k)) k.
Proof. exact ParamProofs3.d_load_gives_loaded. Qed.
Print Assumptions d_load_gives_loaded.

Theorem selection_destroyed_loaded_dictionary_refuted :
  dd_kind (dd_select_any true (dd_with_last (d_dict r3_loaded2) 1) 1) = DK_ref 1
  /\ dd_kind (dd_select true (dd_with_last (d_dict r3_loaded2) 1) 1) = DK_local 2
  /\ d_loaded r3_loaded2 2 /\ dd_set (d_dict r3_loaded2) = Some [1]
  /\ snd (dctx_dec_stream (fst (dctx_dec_stream r3_loaded2 1)) 2) = Ok.
Proof. exact selection_destroyed_loaded_dictionary_refuted_l. Qed.
Print Assumptions selection_destroyed_loaded_dictionary_refuted.

(* ---- a single-use dictionary is used up by the frame start that succeeds, not by one that fails (fix b15fdb6) ---- *)
Theorem fx_single_use_rule : forall d k, fx_fmt_ok d k = true -> dd_uses (dd_fx_pre false d (fx_fid k)) = 1 ->
  let pre := dd_fx_pre false d (fx_fid k) in
  (fx_starts d k = false -> d_dict (dctx_fx d k) = pre)
  /\ (fx_starts d k = true -> d_dict (dctx_fx d k) = mkDD 0 (dd_kind pre) (dd_set pre) (dd_last pre))
  /\ d_stage (dctx_fx d k) = S_init.
Proof. exact fx_single_use_rule_l. Qed.
Print Assumptions fx_single_use_rule.

Theorem oneshot_single_use_rule : forall d fs, dd_uses (d_dict d) = 1 -> not_ref (d_dict d) ->
  let r := dctx_dec_oneshot d fs in
  (snd r = Ok -> dd_uses (d_dict (fst r)) = 0)
  /\ (snd r <> Ok -> dd_uses (d_dict (fst r)) = 1)
  /\ dd_kind (d_dict (fst r)) = dd_kind (d_dict d) /\ dd_set (d_dict (fst r)) = dd_set (d_dict d) /\ d_stage (fst r) = S_init.
Proof. exact oneshot_single_use_rule_l. Qed.
Print Assumptions oneshot_single_use_rule.

Theorem stream_single_use_rule : forall d f, d_format d = 0 -> dd_uses (dd_fx_pre false d (frame_fid f)) = 1 ->
  let pre := dd_fx_pre false d (frame_fid f) in
  let r := dctx_dec_stream d f in
  (snd r = Ok <-> dkind_matches (dd_kind pre) f = true)
  /\ (snd r = Ok -> d_dict (fst r) = mkDD 0 (dd_kind pre) (dd_set pre) (dd_last pre))
  /\ (snd r <> Ok -> d_dict (fst r) = pre)
  /\ d_stage (fst r) = S_init.
Proof. exact stream_single_use_rule_l. Qed.
Print Assumptions stream_single_use_rule.

(* ---- the deprecated stream initialisers (InitModel.v): ZSTD_initCStream* / ZSTD_resetCStream ---- *)
Theorem init_chain_leaves_init_stage : forall w o y l, init_chain o y = Some l ->
  fst (ystep w y) = fst (xseq w (reset_session o :: l)) /\ c_stage (xget_c (fst (ystep w y)) o) = S_init.
Proof. exact init_chain_leaves_init_stage_l. Qed.
Print Assumptions init_chain_leaves_init_stage.

Theorem init_cstream_exact : forall w o level,
  let c := xget_c w o in
  let c0 := mkC (c_params c) S_init CD_none (c_static c) in
  vw (fst (ystep w (YInit o level))) o = (fst (cctx_set c0 (cparam_id C_compressionLevel) level), 0)
  /\ fst (snd (ystep w (YInit o level))) = snd (cctx_set c0 (cparam_id C_compressionLevel) level).
Proof. exact init_cstream_exact_l. Qed.
Print Assumptions init_cstream_exact.

Theorem init_cstream_sticky : forall w o level,
  let c := xget_c w o in
  let c' := xget_c (fst (ystep w (YInit o level))) o in
  (forall q, q <> C_compressionLevel -> c_params c' q = c_params c q)
  /\ c_stage c' = S_init /\ c_dict c' = CD_none /\ c_static c' = c_static c
  /\ s_pledge (get_s (fst (ystep w (YInit o level))) o) = 0.
Proof. exact init_cstream_sticky_l. Qed.
Print Assumptions init_cstream_sticky.

Theorem init_advanced_refused : forall w o k cp fp pss, check_cparams cp = false ->
  let c := xget_c w o in
  vw (fst (ystep w (YInitAdv o k cp fp pss))) o = (mkC (c_params c) S_init (c_dict c) (c_static c), u64 (adv_pledged fp pss + 1))
  /\ fst (snd (ystep w (YInitAdv o k cp fp pss))) = Err E_outOfBound.
Proof. exact init_advanced_refused_l. Qed.
Print Assumptions init_advanced_refused.

Theorem init_advanced_accepted : forall w o k cp fp pss, check_cparams cp = true ->
  let c := xget_c w o in
  let c1 := mkC (store_zstd_params (c_params c) cp fp) S_init (c_dict c) (c_static c) in
  vw (fst (ystep w (YInitAdv o k cp fp pss))) o = (fst (cctx_load c1 k), u64 (adv_pledged fp pss + 1))
  /\ fst (snd (ystep w (YInitAdv o k cp fp pss))) = snd (cctx_load c1 k).
Proof. exact init_advanced_accepted_l. Qed.
Print Assumptions init_advanced_accepted.

Theorem init_advanced_vs_documented_setParams : forall c cp fp, c_stage c = S_init -> check_cparams cp = true ->
  flag01 (f_cs fp) -> flag01 (f_ck fp) -> flag01 (f_nd fp) ->
  snd (cctx_set_params c cp fp) = Ok
  /\ (forall q, q <> C_compressionLevel -> store_zstd_params (c_params c) cp fp q = c_params (fst (cctx_set_params c cp fp)) q)
  /\ c_params (fst (cctx_set_params c cp fp)) C_compressionLevel = c_params c C_compressionLevel
  /\ store_zstd_params (c_params c) cp fp C_compressionLevel = 0.
Proof. exact store_vs_setparams_l. Qed.
Print Assumptions init_advanced_vs_documented_setParams.

Theorem reset_cstream_exact : forall w o pss,
  let c := xget_c w o in
  vw (fst (ystep w (YResetCS o pss))) o = (mkC (c_params c) S_init (c_dict c) (c_static c), u64 (pss0 pss + 1))
  /\ fst (snd (ystep w (YResetCS o pss))) = Ok.
Proof. exact reset_cstream_exact_l. Qed.
Print Assumptions reset_cstream_exact.

Theorem init_cdict_advanced_exact : forall w o k fp pss,
  let c := xget_c w o in
  vw (fst (ystep w (YInitCDictAdv o k fp pss))) o
    = (mkC (store_fparams (c_params c) fp) S_init (if k =? 0 then CD_none else CD_cdict) (c_static c), u64 (pss + 1))
  /\ fst (snd (ystep w (YInitCDictAdv o k fp pss))) = Ok.
Proof. exact init_cdict_advanced_exact_l. Qed.
Print Assumptions init_cdict_advanced_exact.
