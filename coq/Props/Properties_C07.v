(* C07 - compressed output is a pure function of input, parameters, dictionary and calls (PARTIAL).
   Only statements + Print Assumptions; proofs live in coq/Det/*Proofs.v. *)
From Coq Require Import ZArith NArith Bool List.
From ZV.Index Require Import Window Overflow.
From ZV.Det Require Import ResetModel ResetProofs CwkspClean CwkspProofs RowSalt RowSaltProofs OptStats OptStatsProofs
                           MtPartition MtProofs.
Import ListNotations.
Local Open Scope Z_scope.

Theorem reset_makes_history_unreachable : forall ops p,
  run_wf m_fresh ops -> reset_fits (run m_fresh ops) p ->
  let r := reset (run m_fresh ops) p in
  (lowLimit (m_window r) = E r /\ dictLimit (m_window r) = E r /\ m_nextToUpdate r = E r /\
   m_loadedDictEnd r = 0 /\ m_dms r = false /\ m_litLengthSum r = 0) /\
  (forall v, In v (tables r) -> 0 <= v < lowLimit (m_window r)) /\
  (forall mem0, (r_buflow p <= length mem0)%nat -> observe r = observe (reset m_fresh (fresh_params p mem0))).
Proof. exact reset_unreachable. Qed.
Print Assumptions reset_makes_history_unreachable.

Theorem reset_mode_restarts_indices : forall m p, needs_index_reset m p = true -> reset_fits m p ->
  let r := reset m p in
  E r = START /\ lowLimit (m_window r) = START /\ (forall v, In v (tables r) -> v = 0).
Proof. exact reset_mode_restarts. Qed.
Print Assumptions reset_mode_restarts_indices.

Theorem cwksp_invariant_all_sequences : forall ops, WInv (wrun ws_null ops).
Proof. intros ops. apply wrun_inv. exact inv_null. Qed.
Print Assumptions cwksp_invariant_all_sequences.

Theorem cwksp_tables_clean : forall ops,
  let w := wstep (wrun ws_null ops) WCleanTables in
  (forall a, objectEnd w <= a < tableEnd w -> clean_cell (mem w a) = true) /\
  (forall a, initOnceStart w <= a < IAS w -> defined_cell (mem w a) = true) /\
  tableEnd w <= tableValidEnd w.
Proof. exact tables_clean_after_clean. Qed.
Print Assumptions cwksp_tables_clean.

Theorem cwksp_tables_zero_after_index_reset : forall ops t1 t2 t3,
  let w := wrun (wrun ws_null ops) [WMarkDirty; WClearTables; WTable t1; WTable t2; WTable t3; WCleanTables] in
  forall a, objectEnd w <= a < tableEnd w -> mem w a = Zero.
Proof. exact tables_zero_after_dirty_clean. Qed.
Print Assumptions cwksp_tables_zero_after_index_reset.

Theorem hash_salt_relabels_rows : forall w hBits x y salt,
  (row_of (hashS w hBits x salt) = row_of (hashS w hBits y salt) <-> row_of (hashS w hBits x 0) = row_of (hashS w hBits y 0))%N.
Proof. exact salt_preserves_row_collisions. Qed.
Print Assumptions hash_salt_relabels_rows.

Theorem hash_salt_harmless : forall (w hBits : N) (mix : Z -> N) (x : Z) (ys : list Z) (s s' : N)
                                    (stale stale' : list slot) (low : Z) (n : nat),
  all_below low stale -> all_below low stale' ->
  candidates (tag_of (hashS w hBits (mix x) s)) low n
             (map (fun y => (tag_of (hashS w hBits (mix y) s), y)) ys ++ stale) =
  candidates (tag_of (hashS w hBits (mix x) s')) low n
             (map (fun y => (tag_of (hashS w hBits (mix y) s'), y)) ys ++ stale').
Proof. exact RowSaltProofs.hash_salt_harmless. Qed.
Print Assumptions hash_salt_harmless.

Theorem opt_stats_reseeded : forall s1 s2 src cl lvl dict,
  opt_view cl (rescaleFreqs (opt_invalidate s1) src cl lvl dict) =
  opt_view cl (rescaleFreqs (opt_invalidate s2) src cl lvl dict).
Proof. exact OptStatsProofs.opt_stats_reseeded. Qed.
Print Assumptions opt_stats_reseeded.

Theorem mt_partition_schedule_independent : forall t ops envs s',
  0 < t -> Forall (fun o => 0 <= fst o) ops ->
  run_ops t mt_init ops envs = Some s' ->
  sfeed t (nonempty_sizes (jobs s'), 0) (filled s') = spec_sections t ops.
Proof. exact MtProofs.mt_partition_schedule_independent. Qed.
Print Assumptions mt_partition_schedule_independent.

Theorem mt_flush_in_order : forall outs evs,
  let s := frun outs evs in
  fout s = concat (firstn (fdone s) outs) ++ firstn (fpos s) (nth (fdone s) outs []).
Proof. exact flush_in_order. Qed.
Print Assumptions mt_flush_in_order.

Theorem mt_output_schedule_independent : forall (cj : job -> list Z) (jobs1 jobs2 : list job) evs1 evs2,
  jobs1 = jobs2 ->
  fdone (frun (map cj jobs1) evs1) = length jobs1 -> fdone (frun (map cj jobs2) evs2) = length jobs2 ->
  fout (frun (map cj jobs1) evs1) = fout (frun (map cj jobs2) evs2).
Proof. exact MtProofs.mt_output_schedule_independent. Qed.
Print Assumptions mt_output_schedule_independent.
