(* C07 - compressed output is a pure function of input, parameters, dictionary and calls (PARTIAL).
   Only statements + Print Assumptions; proofs live in coq/Det/*Proofs.v. *)
From Coq Require Import ZArith NArith Bool List.
From ZV.Index Require Import Window Overflow.
From ZV.Det Require Import ResetModel ResetProofs CwkspClean CwkspProofs RowSalt RowSaltProofs OptStats OptStatsProofs
                           MtPartition MtProofs FrameRel FrameRelProofs CwkspRefine StreamPartition StreamPartitionProofs
                           BlockState BlockStateProofs DictMode DictModeProofs
                           ApiState ApiStateProofs RawFallback RawFallbackProofs WindowContigProofs.
From ZV.Det Require StableIn StableInProofs.
From ZV.Det Require Import MtParams MtParamsProofs.
Import ListNotations.
Local Open Scope Z_scope.

Theorem reset_makes_history_unreachable : forall ops p,
  run_wf m_fresh ops -> reset_fits (run m_fresh ops) p ->
  let r := reset (run m_fresh ops) p in
  (lowLimit (m_window r) = E r /\ dictLimit (m_window r) = E r /\ m_nextToUpdate r = E r /\
   m_loadedDictEnd r = 0 /\ m_dms r = false /\ m_litLengthSum r = 0) /\
  (forall v, In v (tables r) -> 0 <= v < lowLimit (m_window r)) /\
  (forall mem0, (r_buflow p <= length mem0)%nat -> observe r = observe (reset m_fresh (fresh_params p mem0))).
Proof. exact reset_unreachable. Qed.
Print Assumptions reset_makes_history_unreachable.

Theorem reset_mode_restarts_indices : forall m p, needs_index_reset m p = true -> reset_fits m p ->
  let r := reset m p in
  E r = START /\ lowLimit (m_window r) = START /\ (forall v, In v (tables r) -> v = 0).
Proof. exact reset_mode_restarts. Qed.
Print Assumptions reset_mode_restarts_indices.

Theorem cwksp_invariant_all_sequences : forall ops, WInv (wrun ws_null ops).
Proof. intros ops. apply wrun_inv. exact inv_null. Qed.
Print Assumptions cwksp_invariant_all_sequences.

Theorem cwksp_tables_clean : forall ops,
  let w := wstep (wrun ws_null ops) WCleanTables in
  (forall a, objectEnd w <= a < tableEnd w -> clean_cell (mem w a) = true) /\
  (forall a, initOnceStart w <= a < IAS w -> defined_cell (mem w a) = true) /\
  tableEnd w <= tableValidEnd w.
Proof. exact tables_clean_after_clean. Qed.
Print Assumptions cwksp_tables_clean.

Theorem cwksp_tables_zero_after_index_reset : forall ops t1 t2 t3,
  let w := wrun (wrun ws_null ops) [WMarkDirty; WClearTables; WTable t1; WTable t2; WTable t3; WCleanTables] in
  forall a, objectEnd w <= a < tableEnd w -> mem w a = Zero.
Proof. exact tables_zero_after_dirty_clean. Qed.
Print Assumptions cwksp_tables_zero_after_index_reset.

Theorem hash_salt_relabels_rows : forall w hBits x y salt,
  (row_of (hashS w hBits x salt) = row_of (hashS w hBits y salt) <-> row_of (hashS w hBits x 0) = row_of (hashS w hBits y 0))%N.
Proof. exact salt_preserves_row_collisions. Qed.
Print Assumptions hash_salt_relabels_rows.

Theorem hash_salt_harmless : forall (w hBits : N) (mix : Z -> N) (x : Z) (ys : list Z) (s s' : N)
                                    (stale stale' : list slot) (low : Z) (n : nat),
  all_below low stale -> all_below low stale' ->
  candidates (tag_of (hashS w hBits (mix x) s)) low n
             (map (fun y => (tag_of (hashS w hBits (mix y) s), y)) ys ++ stale) =
  candidates (tag_of (hashS w hBits (mix x) s')) low n
             (map (fun y => (tag_of (hashS w hBits (mix y) s'), y)) ys ++ stale').
Proof. exact RowSaltProofs.hash_salt_harmless. Qed.
Print Assumptions hash_salt_harmless.

Theorem opt_stats_reseeded : forall s1 s2 src cl lvl dict,
  opt_view cl (rescaleFreqs (opt_invalidate s1) src cl lvl dict) =
  opt_view cl (rescaleFreqs (opt_invalidate s2) src cl lvl dict).
Proof. exact OptStatsProofs.opt_stats_reseeded. Qed.
Print Assumptions opt_stats_reseeded.

Theorem mt_partition_schedule_independent : forall t ops envs s',
  0 < t -> Forall (fun o => 0 <= fst o) ops ->
  run_ops t mt_init ops envs = Some s' ->
  sfeed t (nonempty_sizes (jobs s'), 0) (filled s') = spec_sections t ops.
Proof. exact MtProofs.mt_partition_schedule_independent. Qed.
Print Assumptions mt_partition_schedule_independent.

Theorem mt_flush_in_order : forall outs evs,
  let s := frun outs evs in
  fout s = concat (firstn (fdone s) outs) ++ firstn (fpos s) (nth (fdone s) outs []).
Proof. exact flush_in_order. Qed.
Print Assumptions mt_flush_in_order.

Theorem mt_output_schedule_independent : forall (cj : job -> list Z) (jobs1 jobs2 : list job) evs1 evs2,
  jobs1 = jobs2 ->
  fdone (frun (map cj jobs1) evs1) = length jobs1 -> fdone (frun (map cj jobs2) evs2) = length jobs2 ->
  fout (frun (map cj jobs1) evs1) = fout (frun (map cj jobs2) evs2).
Proof. exact MtProofs.mt_output_schedule_independent. Qed.
Print Assumptions mt_output_schedule_independent.

(* ---------- continuation round ---------- *)

(* a used context and a brand-new one stay observationally equal during the WHOLE frame that follows the reset *)
Theorem frame_after_reset_history_independent : forall ops p mem0 fops,
  run_wf m_fresh ops -> reset_fits (run m_fresh ops) p -> (r_buflow p <= length mem0)%nat ->
  frame_wf (r_ntab p) (r_buflow p) 0 fops ->
  observe (run_frame (reset (run m_fresh ops) p) fops) =
  observe (run_frame (reset m_fresh (fresh_params p mem0)) fops).
Proof. exact FrameRelProofs.frame_after_reset_history_independent. Qed.
Print Assumptions frame_after_reset_history_independent.

Theorem frame_after_reset_two_histories : forall ops1 ops2 p1 p2 fops,
  run_wf m_fresh ops1 -> run_wf m_fresh ops2 ->
  reset_fits (run m_fresh ops1) p1 -> reset_fits (run m_fresh ops2) p2 ->
  r_ntab p1 = r_ntab p2 -> r_buflow p1 = r_buflow p2 ->
  frame_wf (r_ntab p1) (r_buflow p1) 0 fops ->
  observe (run_frame (reset (run m_fresh ops1) p1) fops) = observe (run_frame (reset (run m_fresh ops2) p2) fops).
Proof. exact FrameRelProofs.frame_after_reset_two_histories. Qed.
Print Assumptions frame_after_reset_two_histories.

(* the byte-level workspace model computes the watermark formula the cell-level reset model assumes *)
Theorem cwksp_reset_watermark_formula : forall ops0 ir t1 t2 t3 tops,
  forallb is_top tops = true ->
  let w := wrun ws_null ops0 in
  let w1 := wrun w (table_seq ir t1 t2 t3) in
  let w2 := wrun w1 tops in
  (ir = false -> 1 <= phase w) -> 1 <= phase w1 ->
  tableEnd w2 = tableEnd w1 /\ objectEnd w2 = objectEnd w1 /\
  tableValidEnd w2 = Z.min (Z.max (if ir then objectEnd w1 else tableValidEnd w) (tableEnd w1)) (allocStart w2).
Proof. exact reset_watermark_formula. Qed.
Print Assumptions cwksp_reset_watermark_formula.

(* buffered streaming: the chunks handed to the block compressor are a function of the input pieces only *)
Theorem stream_partition_is_spec : forall B IS ps envs s',
  0 < B -> pieces_ok ps -> no_shortcut envs ->
  s_run B IS B (s_init B []) ps envs = Some s' ->
  (s_chunks s', s_filled s') = sp_run B ps.
Proof. exact StreamPartitionProofs.stream_partition_is_spec. Qed.
Print Assumptions stream_partition_is_spec.

Theorem stream_partition_capacity_independent : forall B IS1 IS2 ps envs1 envs2 s1 s2,
  0 < B -> pieces_ok ps -> no_shortcut envs1 -> no_shortcut envs2 ->
  s_run B IS1 B (s_init B []) ps envs1 = Some s1 -> s_run B IS2 B (s_init B []) ps envs2 = Some s2 ->
  s_chunks s1 = s_chunks s2 /\ s_filled s1 = s_filled s2.
Proof. exact StreamPartitionProofs.stream_partition_capacity_independent. Qed.
Print Assumptions stream_partition_capacity_independent.

Theorem stream_continue_pieces_merge : forall B cl b n1 n2, 0 < B -> 0 <= b -> 0 <= n1 -> 0 <= n2 ->
  sp_piece B (sp_piece B (cl, b) (n1, s_continue)) (n2, s_continue) = sp_piece B (cl, b) (n1 + n2, s_continue).
Proof. exact continue_pieces_merge. Qed.
Print Assumptions stream_continue_pieces_merge.

Theorem stream_continue_flush_merge : forall B cl b n1 n2, 0 < B -> 0 <= b -> 0 <= n1 -> 0 <= n2 ->
  sp_piece B (sp_piece B (cl, b) (n1, s_continue)) (n2, s_flush) = sp_piece B (cl, b) (n1 + n2, s_flush).
Proof. exact continue_flush_merge. Qed.
Print Assumptions stream_continue_flush_merge.

Theorem stream_continue_end_merge : forall B cl b n1 n2, 0 < B -> 0 <= b < B -> 0 <= n1 -> 0 <= n2 ->
  (0 < n2 \/ (b + n1) mod B <> 0 \/ b + n1 = 0) ->
  sp_piece B (sp_piece B (cl, b) (n1, s_continue)) (n2, s_end) = sp_piece B (cl, b) (n1 + n2, s_end).
Proof. exact continue_end_merge. Qed.
Print Assumptions stream_continue_end_merge.

(* the parts of the context a reset overwrites with constants *)
Theorem block_state_reset_forgets : forall s1 s2, reset_cbstate s1 = reset_cbstate s2.
Proof. exact BlockStateProofs.block_state_reset_forgets. Qed.
Print Assumptions block_state_reset_forgets.

Theorem ldm_reset_forgets : forall s1 s2 tb nb, reset_ldm s1 tb nb = reset_ldm s2 tb nb.
Proof. exact BlockStateProofs.ldm_reset_forgets. Qed.
Print Assumptions ldm_reset_forgets.

(* MT: two arbitrary schedules / worker counts: same job sizes, same overlaps (once everything buffered is posted) *)
Theorem mt_two_schedules : forall t ops envs1 envs2 s1 s2,
  0 < t -> Forall (fun o => 0 <= fst o) ops ->
  run_ops t mt_init ops envs1 = Some s1 -> run_ops t mt_init ops envs2 = Some s2 ->
  MtPartition.filled s1 = 0 -> MtPartition.filled s2 = 0 ->
  nonempty_sizes (jobs s1) = nonempty_sizes (jobs s2).
Proof. exact MtProofs.mt_two_schedules. Qed.
Print Assumptions mt_two_schedules.

Theorem mt_prefixes_two_schedules : forall t p0 ptarget ops envs1 envs2 s1 s2,
  0 < t -> Forall (fun o => 0 <= fst o) ops ->
  run_ops t mt_init ops envs1 = Some s1 -> run_ops t mt_init ops envs2 = Some s2 ->
  MtPartition.filled s1 = 0 -> MtPartition.filled s2 = 0 ->
  job_prefixes p0 ptarget (nonempty_sizes (jobs s1)) = job_prefixes p0 ptarget (nonempty_sizes (jobs s2)).
Proof. exact MtProofs.mt_prefixes_two_schedules. Qed.
Print Assumptions mt_prefixes_two_schedules.

(* what a frame does with a digested dictionary is decided by the CDict, this frame's parameters and pledged size *)
Theorem dict_force_load_never_uses_tables : forall cd pledged fw, dict_mode cd pledged dictForceLoad fw = DLoad.
Proof. exact force_load_never_uses_tables. Qed.
Print Assumptions dict_force_load_never_uses_tables.

Theorem dict_force_copy_never_attaches : forall cd pledged fw, cd_dds cd = false -> dict_mode cd pledged dictForceCopy fw <> DAttach.
Proof. exact force_copy_never_attaches. Qed.
Print Assumptions dict_force_copy_never_attaches.

Theorem dict_attach_is_downward_closed : forall cd p1 p2 pref fw,
  0 <= p1 <= p2 -> p2 < CONTENTSIZE_UNKNOWN ->
  dict_mode cd p2 pref fw = DAttach -> dict_mode cd p1 pref fw = DAttach.
Proof. exact attach_is_downward_closed. Qed.
Print Assumptions dict_attach_is_downward_closed.

(* ---------------------------------------------------------------------------------------------------------------
   round 2: the session-level API state, the block emission decision, the placement of the input *)

(* for EVERY sequence of API calls the sequence collector of ZSTD_generateSequences is off again when the call returns *)
Theorem api_collector_off_after_every_history : forall ops, a_collect (arun a_fresh ops) = false.
Proof. exact collector_off_after_every_history. Qed.
Print Assumptions api_collector_off_after_every_history.

(* ... which was false before 74b576b (finding generateSequences-collector-survives) *)
Theorem api_collector_survived_before_fix :
  a_collect (arun_old a_fresh [AGenSeq; AResetSession; AResetParams; ACompress2]) = true.
Proof. exact collector_survived_before_fix. Qed.
Print Assumptions api_collector_survived_before_fix.

(* ZSTD_CCtx_reset(session_only) + ZSTD_CCtx_reset(parameters) after ANY history of API calls: the state that selects
   parameters, dictionaries, prefix and side channels of the next frames is that of a new context *)
(* round 3: restated with the ghost field a_buf (cctx->bufferedPolicy, which the resets do not touch and no step reads):
   equal in every other field, after EVERY continuation k; in particular the fields of the lock-step, the parameters and
   the dictionary view of the next frame *)
Theorem api_full_reset_erases_history : forall hist k,
  eqb_upto_buf (arun a_fresh (hist ++ [AResetSession; AResetParams] ++ k)) (arun a_fresh k) /\
  api_fields (arun a_fresh (hist ++ [AResetSession; AResetParams] ++ k)) = api_fields (arun a_fresh k) /\
  a_params (arun a_fresh (hist ++ [AResetSession; AResetParams] ++ k)) = a_params (arun a_fresh k) /\
  frame_view (arun a_fresh (hist ++ [AResetSession; AResetParams] ++ k)) = frame_view (arun a_fresh k).
Proof. intros hist k. split; [exact (full_reset_erases_api_history hist k) | exact (full_reset_erases_api_fields hist k)]. Qed.
Print Assumptions api_full_reset_erases_history.

(* for every history: a digested local dictionary is cctx->cdict and belongs to the loaded content *)
Theorem api_local_cdict_is_the_cdict : forall ops c,
  a_lcd (arun a_fresh ops) = Some c -> a_cdict (arun a_fresh ops) = Some c /\ a_ldict (arun a_fresh ops) = Some (fst c).
Proof. intros ops c. exact (local_cdict_is_the_cdict ops c). Qed.
Print Assumptions api_local_cdict_is_the_cdict.

(* the ONLY call that can leave the digested local dictionary behind the parameters is a ZSTD_CCtx_setParameter that
   changes them while it exists (ZSTD_CCtx_setParametersUsingCCtxParams is refused then): without such a call, for every
   history, the frame uses (loaded content, CURRENT parameters) *)
Theorem api_local_cdict_follows_parameters : forall ops d,
  harmless_run a_fresh ops -> a_ldict (arun a_fresh ops) = Some d -> a_prefix (arun a_fresh ops) = None ->
  frame_view (arun a_fresh ops) = VCDict d (a_params (arun a_fresh ops)).
Proof. exact frame_uses_current_parameters. Qed.
Print Assumptions api_local_cdict_follows_parameters.

Example api_harmless_satisfiable :
  harmless_run a_fresh [ASet true 5; ALoad 7; ACompress2; ASet true 5; AStreamCall; AStreamEnd; AGenSeq] /\
  frame_view (arun a_fresh [ASet true 5; ALoad 7; ACompress2; ASet true 5; AStreamCall; AStreamEnd; AGenSeq]) = VCDict 7 5.
Proof. simpl. repeat split; auto. Qed.

(* the recorded finding localdict-cdict-stale-params *)
Theorem api_local_cdict_stale_after_setParameter :
  frame_view (arun a_fresh [ALoad 7; ASet true 1; ACompress2; ASet true 2]) = VCDict 7 1 /\
  frame_view (arun a_fresh [ALoad 7; ASet true 2]) = VCDict 7 2.
Proof. exact local_cdict_stale_after_setParameter. Qed.
Print Assumptions api_local_cdict_stale_after_setParameter.

(* one block, any capacities: a tighter buffer changes the bytes of an emitted block ONLY by storing it raw where a
   roomy buffer compresses it, and only for capacities in [srcSize + 3, need + 3) *)
Theorem block_differs_only_by_raw_fallback : forall csize need srcSize strat cap big,
  0 <= csize <= need -> 0 <= srcSize -> need + blockHeaderSize <= big -> srcSize + blockHeaderSize <= big ->
  fst (emit_block csize need srcSize strat cap) <> 0 ->
  emit_block csize need srcSize strat cap <> emit_block csize need srcSize strat big ->
  emit_block csize need srcSize strat cap = (1, srcSize + blockHeaderSize) /\
  fst (emit_block csize need srcSize strat big) = 2 /\
  srcSize + blockHeaderSize <= cap < need + blockHeaderSize.
Proof. exact differing_success_is_the_raw_fallback. Qed.
Print Assumptions block_differs_only_by_raw_fallback.

(* blocks whose minimal gain (srcSize >> 6) + 2 covers the slack K of the entropy stage do not depend on the capacity *)
Theorem block_with_enough_gain_capacity_independent : forall K csize need srcSize strat cap big,
  0 <= csize <= need -> 0 <= srcSize -> need <= csize + K -> K <= minGain srcSize strat ->
  need + blockHeaderSize <= big -> srcSize + blockHeaderSize <= big ->
  fst (emit_block csize need srcSize strat cap) <> 0 ->
  emit_block csize need srcSize strat cap = emit_block csize need srcSize strat big.
Proof. exact blocks_with_enough_gain_are_immune. Qed.
Print Assumptions block_with_enough_gain_capacity_independent.

Example block_hypotheses_satisfiable :
  (0 <= 900 <= 911) /\ (911 <= 900 + 11) /\ (11 <= minGain 1000 3) /\ (emit_block 900 911 1000 3 1003 = emit_block 900 911 1000 3 5000).
Proof. repeat split; try reflexivity; vm_compute; congruence. Qed.

(* the recorded finding block-raw-fallback-outcap (numbers of the 37-byte repro) *)
Theorem block_raw_fallback_depends_on_capacity :
  emit_block 32 41 37 1 (50 - 6) = (2, 35) /\ emit_block 32 41 37 1 (46 - 6) = (1, 40) /\ emit_block 32 41 37 1 (45 - 6) = (0, 0).
Proof. exact raw_fallback_depends_on_capacity. Qed.
Print Assumptions block_raw_fallback_depends_on_capacity.

(* ZSTD_c_deterministicRefPrefix (forceNonContiguous): for every window and every two placements of the input that do not
   overlap the old segment, the finders see the same window *)
Theorem window_forced_noncontiguous_ignores_placement : forall w s1 s2 m, m <> 0 ->
  clear_of_old_segment w s1 m -> clear_of_old_segment w s2 m ->
  geom (fst (window_update w s1 m true)) s1 = geom (fst (window_update w s2 m true)) s2.
Proof. exact forced_noncontiguous_ignores_placement. Qed.
Print Assumptions window_forced_noncontiguous_ignores_placement.

(* the recorded finding dict-contiguous-with-src: without the switch the placement decides prefix vs extDict *)
Theorem window_placement_matters_without_the_switch :
  geom (fst (window_update w_dict 6000 500 false)) 6000 <> geom (fst (window_update w_dict 9000 500 false)) 9000 /\
  geom (fst (window_update w_dict 6000 500 true)) 6000 = geom (fst (window_update w_dict 9000 500 true)) 9000.
Proof. exact placement_matters_without_the_switch. Qed.
Print Assumptions window_placement_matters_without_the_switch.

(* ================= round 3 ================= *)
(* 38. since 38ec6ea: after EVERY history, a single-call / buffer-less entry point (ZSTD_compressCCtx, _usingDict, _usingCDict,
   _advanced, ZSTD_compressBegin...) leaves the streaming session closed, and the streaming call that follows starts a new
   frame with the dictionary view of that moment *)
Theorem api_simple_call_closes_stream : forall ops,
  a_stage (arun a_fresh (ops ++ [ASimple])) = SInit /\
  fst (astep (arun a_fresh (ops ++ [ASimple])) AStreamCall) = frame_start (arun a_fresh (ops ++ [ASimple])).
Proof. intros ops. split; [exact (simple_call_closes_stream ops) | exact (stream_after_simple_starts_a_frame ops)]. Qed.
Print Assumptions api_simple_call_closes_stream.

(* 39. for EVERY history of the 14 API calls (incl. ZSTD_copyCCtx INTO the context): an open streaming session has the
   stream buffers of the reset that started it (cctx->bufferedPolicy == ZSTDb_buffered) *)
Theorem api_open_stream_has_buffers : forall ops,
  a_stage (arun a_fresh ops) = SLoad -> a_buf (arun a_fresh ops) = true.
Proof. exact open_stream_has_buffers. Qed.
Print Assumptions api_open_stream_has_buffers.
Example api_open_stream_reachable :
  a_stage (arun a_fresh [ASimple; ACopyInto; AStreamCall; ASet true 4]) = SLoad.
Proof. reflexivity. Qed.

(* 40. false before d3967a5 (finding copyCCtx-into-open-stream-keeps-stage) and, for the single-call entry points, before
   38ec6ea: stage 'load' without buffers *)
Theorem api_copy_into_open_stream_broke_it_before_fix :
  (let s := arun_pred39 a_fresh [AStreamCall; ACopyInto] in a_stage s = SLoad /\ a_buf s = false) /\
  (let s := fst (astep_pre38 (arun a_fresh [AStreamCall]) ASimple) in a_stage s = SLoad /\ a_buf s = false).
Proof. split; [exact copy_into_open_stream_broke_it_before_d3967a5 | exact simple_call_broke_it_before_38ec6ea]. Qed.
Print Assumptions api_copy_into_open_stream_broke_it_before_fix.

(* 41. stable input buffer (ZSTD_c_stableInBuffer = 1; deferred frame start, since 0548f83): for EVERY block size and EVERY sequence
   of ZSTD_compressStream2 calls and ZSTD_CCtx_reset(session_only) - any buffers, sizes, positions, directives, respected contract or not - from a new session, every
   ACCEPTED call hands the block compressor only bytes inside the buffer that very call was given (zstd.h: "ALWAYS memory safe"):
   the frame is a function of bytes the caller passed *)
Theorem stable_input_reads_only_the_callers_buffer : forall bs os, 0 < bs -> StableInProofs.all_in_bounds bs StableIn.s_fresh os.
Proof. exact StableInProofs.stable_input_reads_in_bounds. Qed.
Print Assumptions stable_input_reads_only_the_callers_buffer.

(* 42. ... and in order: while bytes are pending, an accepted call that reads something resumes exactly at the first pending byte
   of the buffer shown before *)
Theorem stable_input_resumes_at_the_pending_byte : forall bs s c lo hi, 0 < bs -> StableInProofs.SInv s -> 0 < StableIn.s_nc s ->
  snd (StableIn.step bs s c) = StableIn.Read lo hi -> lo < hi -> lo = StableIn.s_esrc s + StableIn.s_epos s - StableIn.s_nc s.
Proof. exact StableInProofs.stable_input_resumes_where_it_stopped. Qed.
Print Assumptions stable_input_resumes_at_the_pending_byte.
Example stable_input_hypotheses_satisfiable :
  let s := fst (StableIn.step 131072 StableIn.s_fresh (StableIn.mkC 7000 1000 0 StableIn.DContinue)) in
  StableInProofs.SInv s /\ 0 < StableIn.s_nc s /\ snd (StableIn.step 131072 s (StableIn.mkC 7000 200000 1000 StableIn.DContinue)) = StableIn.Read 7000 138072.
Proof.
  split; [| split].
  - vm_compute. split; [discriminate | right; discriminate].
  - vm_compute. reflexivity.
  - vm_compute. reflexivity.
Qed.

(* 42b. ZSTD_CCtx_reset(session_only) in the middle of a deferred start forgets the deferred bytes (177647f): whatever the state,
   the next call is accepted with ANY buffer and reads nothing in front of its own position *)
Theorem stable_input_reset_forgets_deferred_input : forall bs s c, 0 < bs -> 0 <= StableIn.c_pos c <= StableIn.c_size c ->
  exists lo hi, snd (StableIn.step bs (StableIn.sreset s) c) = StableIn.Read lo hi /\ (lo = hi \/ StableIn.c_src c + StableIn.c_pos c <= lo).
Proof. exact StableInProofs.reset_forgets_deferred_input. Qed.
Print Assumptions stable_input_reset_forgets_deferred_input.

(* 43. before 0548f83 (finding stablein-deferral-end-skips-stability-check): the call that ends the deferral was accepted with
   another buffer, and the 1000 bytes in front of it were compressed; the repaired code refuses it and accepts the honest call *)
Theorem stable_input_read_in_front_of_the_buffer_before_fix :
  let s1 := fst (StableIn.step_old 131072 StableIn.s_fresh (StableIn.mkC 100000 1000 0 StableIn.DContinue)) in
  snd (StableIn.step_old 131072 s1 (StableIn.mkC 500000 5000 0 StableIn.DEnd)) = StableIn.Read 499000 505000 /\
  snd (StableIn.step 131072 s1 (StableIn.mkC 500000 5000 0 StableIn.DEnd)) = StableIn.Refused /\
  snd (StableIn.step 131072 s1 (StableIn.mkC 100000 6000 1000 StableIn.DEnd)) = StableIn.Read 100000 106000.
Proof. exact StableInProofs.stable_input_read_out_of_bounds_before_0548f83. Qed.
Print Assumptions stable_input_read_in_front_of_the_buffer_before_fix.

(* 44. multithreading, mid-frame parameter updates (ZSTD_CCtx_setParameter accepted while nbWorkers >= 1): for EVERY schedule and every
   sequence of input calls and updates, the job-creation machine goes through the states of the same calls WITHOUT the updates - the
   partition theorems 22-24 apply unchanged, a schedule can only change which parameters a section gets *)
Theorem mt_param_updates_keep_the_partition : forall target ops s envs,
  option_map p_mt (prun target s ops envs) = run_ops target (p_mt s) (erase ops) envs.
Proof. exact param_updates_keep_the_partition. Qed.
Print Assumptions mt_param_updates_keep_the_partition.

(* 45. ... and it does (finding mt-jobtable-full-pending-section-gets-new-params, second symptom of mt-jobtable-full-last-job): one
   complete section with e_continue, an update 0 -> 7, one more byte with e_end; the jobs table full during the first call only:
   same job sizes, the first section gets the old parameters under one schedule and the new ones under the other.  A piece that
   does not end on a section boundary is immune *)
Theorem mt_param_update_depends_on_the_schedule :
  (let ops := [PCall 4 e_continue; PSet 7; PCall 1 e_end] in
   option_map tagged_sizes (prun 4 p_init ops (repeat free_env 6)) = Some [(4, 0); (1, 7)] /\
   option_map tagged_sizes (prun 4 p_init ops (full_env :: repeat free_env 6)) = Some [(4, 7); (1, 7)]) /\
  (let ops := [PCall 5 e_continue; PSet 7; PCall 1 e_end] in
   option_map tagged_sizes (prun 4 p_init ops (repeat free_env 8)) = Some [(4, 0); (2, 7)] /\
   option_map tagged_sizes (prun 4 p_init ops (full_env :: repeat free_env 8)) = Some [(4, 0); (2, 7)]).
Proof. split; [exact mt_param_update_schedule_dependent | exact mt_param_update_unaligned_piece_immune]. Qed.
Print Assumptions mt_param_update_depends_on_the_schedule.
