(* C19 — the zstd command-line tool never loses or silently damages user data.
   Theorems about the executable models ZV.Cli.{FsModel,FioModel,SparseModel};
   statements only, proofs in ZV.Cli.{FioProofs,SparseProofs}. *)
From Coq Require Import NArith List Bool.
From ZV.Cli Require Import FsModel FioModel FioSpec SparseModel FioProofs SparseProofs.
Import ListNotations.
Local Open Scope N_scope.

(* Killing the process after any number k of operations: every source still holds its
   bytes, or its destination exists, is closed, and holds bytes that stand for the source. *)
Theorem crash_safe : forall rel i s0 vs, wf i ->
  forall src f0, In src (i_srcs i) -> s0 src = Reg f0 -> verdict_sound rel i (f_bytes f0) (vs src) ->
  forall k, safe rel src (f_bytes f0) (dst_of i src) (run (firstn k (fio_ops i s0 vs)) s0).
Proof. exact crash_safe_thm. Qed.
Print Assumptions crash_safe.

(* The same after SIGINT at any point (INThandler removes the registered artefact and exits). *)
Theorem sigint_safe : forall rel i s0 vs, wf i ->
  forall src f0, In src (i_srcs i) -> s0 src = Reg f0 -> verdict_sound rel i (f_bytes f0) (vs src) ->
  forall k, safe rel src (f_bytes f0) (dst_of i src) (run (sigint_ops k (fio_ops i s0 vs)) s0).
Proof. exact sigint_safe_thm. Qed.
Print Assumptions sigint_safe.

(* Without -f (and without an interactive "y"), a pre-existing regular file that is not a source
   being removed by --rm is never unlinked, truncated or written -- in every intermediate state,
   also after SIGINT. *)
Theorem no_clobber : forall i s0 vs p f,
  i_force i = false -> i_confirm i = false -> s0 p = Reg f ->
  (~ In p (i_srcs i) \/ eff_rm i = false) ->
  all_pref (fun s h => s p = Reg f /\ unlinked h s p = Reg f) (fio_ops i s0 vs) s0 None.
Proof. exact no_clobber_thm. Qed.
Print Assumptions no_clobber.

(* Test mode, stdout output, several inputs into one output: no source is ever removed. *)
Theorem removeSrc_disabled_when_output_cannot_stand_for_source : forall i s vs,
  is_test i = true \/ out_stdout i = true \/ is_concat i = true ->
  Forall (fun o => is_unlink_src o = false) (fio_ops i s vs).
Proof. exact removeSrc_disabled_thm. Qed.
Print Assumptions removeSrc_disabled_when_output_cannot_stand_for_source.

(* One source, one destination file: exit status 0 comes with the complete closed output of a
   successful codec run; otherwise the status is 1 and no output file of this run is left. *)
Theorem failure_leaves_no_artefact : forall i s vs src d,
  i_srcs i = [src] -> dst_of i src = Some d -> src <> d ->
  (forall n, snd (codec i (DOwn d) (vs src)) <> Throw n) ->
  let ops := fio_ops i s vs in
  (exit_code ops = Some 0 /\
   exists chunks, codec i (DOwn d) (vs src) = (chunks, Ret0) /\ run ops s d = Reg (mkFile (concat chunks) true)) \/
  (exit_code ops = Some 1 /\
   (run ops s d = Absent \/ Forall (fun o => modifies o = None) ops)).
Proof. exact failure_leaves_no_artefact_thm. Qed.
Print Assumptions failure_leaves_no_artefact.

Theorem same_file_refused : forall i rm s src v ops r,
  file_ops i rm s src (DOwn src) v = (ops, r) ->
  r = FFail /\ Forall (fun o => modifies o = None) ops.
Proof. exact same_file_refused_thm. Qed.
Print Assumptions same_file_refused.

(* FIO_decompressFrames: status 0 iff the input is non-empty, every frame decodes and nothing
   else follows; the status is never anything but 0 or 1. *)
Theorem frames_loop_verdict : forall items,
  (snd (frames_loop false items true) = Ret0 <-> (items <> [] /\ forallb is_ok_item items = true)) /\
  (snd (frames_loop false items true) = Ret0 \/ snd (frames_loop false items true) = Ret1).
Proof. exact frames_loop_verdict_thm. Qed.
Print Assumptions frames_loop_verdict.

(* What is written starts with the payload of the leading good frames and, on success, is exactly it. *)
Theorem frames_loop_output : forall pass items first,
  exists rest, fst (frames_loop pass items first) = ok_payload items ++ rest /\
               (forallb is_ok_item items = true -> rest = []).
Proof. exact frames_loop_output_thm. Qed.
Print Assumptions frames_loop_output.

(* AIO_fwriteSparse / AIO_fwriteSparseEnd: for every content and every segmentation into write
   jobs (each at most 1 GB) and frames, the sparse writer's file equals the plain writer's. *)
Theorem sparse_equiv : forall frames,
  (forall fr ch, In fr frames -> In ch fr -> len ch <= GB1) ->
  s_data (s_run (sparse_frames_ops frames) empty_file) = concat (map (@concat N) frames) /\
  s_data (s_run (sparse_frames_ops frames) empty_file)
    = s_data (s_run (concat (map plain_ops frames)) empty_file).
Proof. exact sparse_equiv_thm. Qed.
Print Assumptions sparse_equiv.
