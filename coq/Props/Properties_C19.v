(* C19 — the zstd command-line tool never loses or silently damages user data.
   Theorems about the executable models ZV.Cli.{FsModel,FioModel,SparseModel};
   statements only, proofs in ZV.Cli.{FioProofs,SparseProofs}.

   Quantifiers: i = the invocation (mode, file arguments incl. stdin, -c / -o / -O, -f, the --rm / --keep flags in
   order, the first byte of the answer typed at a prompt, -r, --exclude-compressed, -D, --patch-from), ls = directory listings (for -r),
   s0 = the initial file system (regular files, directories, symbolic links), vs = how the environment behaves on
   each file: what libzstd produces / reports, and which of fopen / open(O_CREAT) / fwrite / fclose / remove fail. *)
From Coq Require Import NArith List Bool.
From ZV.Cli Require Import FsModel FioModel FioSpec SparseModel FioProofs FioProofsR3 SparseProofs.
Import ListNotations.
Local Open Scope N_scope.

(* Killing the process after any number k of operations, under any combination of injected I/O faults: every
   source that is a regular file (directly or through a symbolic link) still holds its bytes under its key, or its
   destination exists, is closed, and holds bytes that stand for the source. *)
Theorem crash_safe : forall rel i ls s0 vs, wf i (eff_srcs i ls s0) s0 ->
  forall src f0, In src (eff_srcs i ls s0) -> look s0 src = Reg f0 -> verdict_sound rel i (f_bytes f0) (vs src) ->
  forall k, safe rel (target s0 src) (f_bytes f0) (dst_of i (eff_srcs i ls s0) src)
                 (run (firstn k (fio_ops i ls s0 vs)) s0).
Proof. exact crash_safe_thm. Qed.
Print Assumptions crash_safe.

(* The same after SIGINT at any point (INThandler removes the registered artefact and exits). *)
Theorem sigint_safe : forall rel i ls s0 vs, wf i (eff_srcs i ls s0) s0 ->
  forall src f0, In src (eff_srcs i ls s0) -> look s0 src = Reg f0 -> verdict_sound rel i (f_bytes f0) (vs src) ->
  forall k, safe rel (target s0 src) (f_bytes f0) (dst_of i (eff_srcs i ls s0) src)
                 (run (sigint_ops k (fio_ops i ls s0 vs)) s0).
Proof. exact sigint_safe_thm. Qed.
Print Assumptions sigint_safe.

(* Without -f (and without an interactive "y"), a pre-existing regular file that is not a source being removed by
   --rm is never unlinked, truncated or written -- whether a destination name is that file or a symbolic link to
   it -- in every intermediate state, also after SIGINT, under any injected fault. *)
Theorem no_clobber : forall i ls s0 vs p f,
  i_force i = false -> confirm i = false -> s0 p = Reg f ->
  (~ In p (eff_srcs i ls s0) \/ eff_rm i (eff_srcs i ls s0) = false) ->
  all_pref (fun s h => s p = Reg f /\ unlinked h s p = Reg f) (fio_ops i ls s0 vs) s0 None.
Proof. exact no_clobber_thm. Qed.
Print Assumptions no_clobber.

(* A source is removed only if it is one of the processed names, the last of --rm / --keep is --rm, the mode is not
   test, the output is neither stdout nor one file for several sources, no two sources share a name in the flat
   output directory (eff_rm, 175caff), and the source is not stdin. *)
Theorem src_removed_only_if : forall i ls s vs q,
  In (OUnlinkSrc q) (fio_ops i ls s vs) ->
  In q (eff_srcs i ls s) /\ eff_rm i (eff_srcs i ls s) = true /\ is_concat i (eff_srcs i ls s) = false /\
  is_stdin q = false.
Proof. exact src_removed_only_if_thm. Qed.
Print Assumptions src_removed_only_if.

(* Test mode, stdout output, several inputs into one output, --keep after --rm: no source is ever removed. *)
Theorem removeSrc_disabled_when_output_cannot_stand_for_source : forall i ls s vs,
  is_test i = true \/ out_stdout i (eff_srcs i ls s) = true \/ is_concat i (eff_srcs i ls s) = true \/
  last_flag (i_rmk i) = false ->
  Forall (fun o => is_unlink_src o = false) (fio_ops i ls s vs).
Proof. exact removeSrc_disabled_thm. Qed.
Print Assumptions removeSrc_disabled_when_output_cannot_stand_for_source.

(* --output-dir-flat with two sources whose names after the last '/' are equal (FIO_keepSourcesOnCollision, 175caff):
   no source is removed, whatever --rm, -f, the mode, the codec and the faults are. *)
Theorem flat_collision_keeps_sources : forall i ls s vs,
  flat_collision i (eff_srcs i ls s) = true ->
  Forall (fun o => is_unlink_src o = false) (fio_ops i ls s vs).
Proof. exact flat_collision_keeps_sources_thm. Qed.
Print Assumptions flat_collision_keeps_sources.

(* Compression into a flat output directory WITHOUT the hypothesis that the destinations of distinct sources are
   distinct (wf_shared_dst = wf minus that clause; -f allowed): after any k operations, and after SIGINT at any point,
   every regular source still holds its bytes or its destination is closed and holds data standing for it. Either the
   names collide and --rm is off, or they do not and the destinations are distinct. *)
Theorem crash_safe_flat_compress : forall rel i ls s0 vs d,
  i_mode i = Compress -> eff_out i (eff_srcs i ls s0) = OutDir d -> wf_shared_dst i (eff_srcs i ls s0) s0 ->
  forall src f0, In src (eff_srcs i ls s0) -> look s0 src = Reg f0 -> verdict_sound rel i (f_bytes f0) (vs src) ->
  forall k, safe rel (target s0 src) (f_bytes f0) (dst_of i (eff_srcs i ls s0) src) (run (firstn k (fio_ops i ls s0 vs)) s0) /\
            safe rel (target s0 src) (f_bytes f0) (dst_of i (eff_srcs i ls s0) src) (run (sigint_ops k (fio_ops i ls s0 vs)) s0).
Proof. exact crash_safe_flat_compress_thm. Qed.
Print Assumptions crash_safe_flat_compress.

(* removeSrcFile off for whatever reason (a flat-directory collision in either mode, --keep last, ...), destinations
   possibly shared, no hypothesis on the codec: every regular source is recoverable in every state, also after SIGINT. *)
Theorem rm_off_sources_intact : forall rel i ls s0 vs,
  wf_shared_dst i (eff_srcs i ls s0) s0 -> eff_rm i (eff_srcs i ls s0) = false -> is_concat i (eff_srcs i ls s0) = false ->
  forall src f0, In src (eff_srcs i ls s0) -> look s0 src = Reg f0 ->
  forall k, safe rel (target s0 src) (f_bytes f0) (dst_of i (eff_srcs i ls s0) src) (run (firstn k (fio_ops i ls s0 vs)) s0) /\
            safe rel (target s0 src) (f_bytes f0) (dst_of i (eff_srcs i ls s0) src) (run (sigint_ops k (fio_ops i ls s0 vs)) s0).
Proof. exact rm_off_sources_intact_thm. Qed.
Print Assumptions rm_off_sources_intact.

(* a937acd: a destination name that denotes a regular file which is (UTIL_isSameFile) an output this command has
   completed for ANOTHER input (own_refused) is never replaced: the segment of that source creates, removes and writes
   nothing -- whatever -f, the answer at the prompt, --rm and the faults are -- and does not report success (unless the
   source is skipped by --exclude-compressed before the destination is even looked at). *)
Theorem own_output_not_replaced : forall i rm own s src p v ops r,
  own_refused own s src p = true ->
  file_ops (inv_for i own s src (DOwn p)) rm s src (DOwn p) v = (ops, r) ->
  Forall nomod ops /\ r <> FThrow 0 /\ (r = FOk -> i_excl i = true).
Proof. exact own_output_not_replaced_thm. Qed.
Print Assumptions own_output_not_replaced.

(* crash_safe and sigint_safe WITHOUT the hypothesis that the destinations of distinct sources are distinct
   (wf_shared_dst = wf minus that clause), for every mode and naming rule (default names such as a.zst + a.zstd,
   --output-dir-flat, -r), with -f and --rm, under any fault combination: after any k operations, and after SIGINT at any
   point, every regular source still holds its bytes or its destination is closed and holds data standing for it.
   This is the repair a937acd (an output of this command is never replaced on behalf of another input) as a theorem:
   it is false for the model of the code before that commit (zstd -d -f --rm a.zst a.zstd). *)
Theorem crash_safe_shared_dst : forall rel i ls s0 vs, wf_shared_dst i (eff_srcs i ls s0) s0 ->
  forall src f0, In src (eff_srcs i ls s0) -> look s0 src = Reg f0 -> verdict_sound rel i (f_bytes f0) (vs src) ->
  forall k, safe rel (target s0 src) (f_bytes f0) (dst_of i (eff_srcs i ls s0) src) (run (firstn k (fio_ops i ls s0 vs)) s0) /\
            safe rel (target s0 src) (f_bytes f0) (dst_of i (eff_srcs i ls s0) src) (run (sigint_ops k (fio_ops i ls s0 vs)) s0).
Proof. exact crash_safe_shared_dst_thm. Qed.
Print Assumptions crash_safe_shared_dst.

(* The prompts (UTIL_requireUserConfirmation as repaired in f7ae77e): unless the answer starts with 'y' or 'Y' -- a NUL
   byte, end of input and every other byte included -- a pre-existing regular file is never unlinked, truncated or
   written, in every intermediate state, also after SIGINT, under any fault. *)
Theorem no_clobber_unless_y : forall i ls s0 vs p f,
  i_force i = false -> i_answer i <> Some 121 -> i_answer i <> Some 89 -> s0 p = Reg f ->
  (~ In p (eff_srcs i ls s0) \/ eff_rm i (eff_srcs i ls s0) = false) ->
  all_pref (fun s h => s p = Reg f /\ unlinked h s p = Reg f) (fio_ops i ls s0 vs) s0 None.
Proof. exact no_clobber_unless_y_thm. Qed.
Print Assumptions no_clobber_unless_y.

(* Several sources into one -o file, the "Proceed? (y/n)" prompt answered with anything but y / Y: nothing is opened. *)
Theorem concat_prompt_unless_y : forall i names s vs p,
  i_force i = false -> i_answer i <> Some 121 -> i_answer i <> Some 89 ->
  is_concat i names = true -> eff_out i names = OutFile p -> dict_check i s vs = None ->
  fio_main i names s vs = [OExit 1].
Proof. exact concat_prompt_unless_y_thm. Qed.
Print Assumptions concat_prompt_unless_y.

(* One source, one destination file, any fault except a failing remove() of the artefact itself: exit status 0 comes
   with the complete closed output (or with a source skipped by --exclude-compressed); every other run ends with a
   non-zero status and no output file of this run -- a write error (EXM_THROW) included -- unless the failure is
   reported after the destination was completed (fclose / remove of the source failed), and then the source is kept. *)
Theorem failure_leaves_no_artefact : forall i ls s vs src d,
  eff_srcs i ls s = [src] -> dst_of i [src] src = Some d -> src <> d -> is_lnk (s d) = false ->
  v_art_unlink_ok (vs src) = true -> snd (codec i (DOwn d) (vs src)) <> Throw 0 ->
  let ops := fio_ops i ls s vs in
  (exit_code ops = Some 0 /\
   ((exists chunks, codec i (DOwn d) (vs src) = (chunks, Ret0) /\ run ops s d = Reg (mkFile (concat chunks) true)) \/
    (Forall nomod ops /\ i_excl i = true))) \/
  (exists n, n <> 0 /\ exit_code ops = Some n /\
     (run ops s d = Absent \/ Forall nomod ops \/
      (exists chunks, codec i (DOwn d) (vs src) = (chunks, Ret0) /\
                      run ops s d = Reg (mkFile (concat chunks) true) /\ run ops s src = s src))).
Proof. exact failure_leaves_no_artefact_thm. Qed.
Print Assumptions failure_leaves_no_artefact.

(* Source and destination are the same file, also when one is a symbolic link to the other: refused, nothing is
   created, removed or written. *)
Theorem same_file_refused : forall i rm s src dst v ops r,
  same_file s src dst = true ->
  file_ops i rm s src (DOwn dst) v = (ops, r) ->
  Forall nomod ops /\ (r = FFail \/ (r = FOk /\ i_excl i = true)).
Proof. exact same_file_refused_thm. Qed.
Print Assumptions same_file_refused.

(* -f over a destination name that is a symbolic link to a regular file: the link is unlinked and a new file is
   created under the link's name; no operation names the link's target. *)
Theorem overwrite_replaces_link : forall s v osrc p q f m oo t,
  s p = Lnk q -> s q = Reg f -> v_ovw_unlink_ok v = true ->
  open_dst true s v osrc p m = (oo, Some t) ->
  oo = [OUnlinkDst p; OCreat p m] /\ t = p.
Proof. exact overwrite_replaces_link_thm. Qed.
Print Assumptions overwrite_replaces_link.

(* -t and -c (and a lone stdin source): no file is created, written, closed or removed, whatever --rm, -f, the
   inputs (multi-frame, corrupted, garbage) and the faults are. *)
Theorem test_and_stdout_modify_nothing : forall i ls s vs,
  is_test i = true \/ out_stdout i (eff_srcs i ls s) = true ->
  Forall nomod (fio_ops i ls s vs).
Proof. exact test_and_stdout_modify_nothing_thm. Qed.
Print Assumptions test_and_stdout_modify_nothing.

(* A missing (31), non-regular (32) or unreadable (33) dictionary / --patch-from reference ends the run with that
   status before any source or destination is touched. *)
Theorem dict_failure_touches_nothing : forall i ls s vs names n,
  pre i ls s = inr names -> dict_check i s vs = Some n ->
  fio_ops i ls s vs = [OExit n] /\ n <> 0.
Proof. exact dict_failure_touches_nothing_thm. Qed.
Print Assumptions dict_failure_touches_nothing.

(* zstd -d of one source into its own destination, with or without -f and --rm, no injected fault: the destination
   is exactly the payload of the frames and the status is 0 iff the input is non-empty and every frame (skippable
   ones included) decodes with nothing after the last one; only then does --rm remove the source. In every other
   case the status is 1, no output is left and the source is untouched. *)
Theorem decompress_outcome : forall i ls s vs src d f,
  i_mode i = Decompress -> eff_srcs i ls s = [src] -> dst_of i [src] src = Some d -> src <> d ->
  s src = Reg f -> is_stdin src = false -> no_fault (vs src) -> dict_check i s vs = None ->
  (s d = Absent \/ (exists fd, s d = Reg fd) /\ ovw i = true) -> parent d = None ->
  let ops := fio_ops i ls s vs in
  let items := v_items (vs src) in
  if negb (is_nil items) && forallb is_ok_item items then
    exit_code ops = Some 0 /\ run ops s d = Reg (mkFile (concat (ok_payload items)) true) /\
    run ops s src = (if eff_rm i [src] then Absent else s src)
  else
    exit_code ops = Some 1 /\ run ops s d = Absent /\ run ops s src = s src.
Proof. exact decompress_outcome_thm. Qed.
Print Assumptions decompress_outcome.

(* Several sources, each with its own destination (default names, -O, -r), any faults: the final state of a regular
   source and of its destination is decided by its own segment alone, whatever happens to the sources processed
   before and after it (one that fails in the middle included): untouched, or destination complete (source kept or
   removed), or destination absent and source kept. Exit status 0 implies that every such destination is complete
   (or its source was skipped by --exclude-compressed): any failure anywhere shows in the status. *)
Theorem per_source_outcome : forall i ls s0 vs,
  wf i (eff_srcs i ls s0) s0 -> is_concat i (eff_srcs i ls s0) = false ->
  dict_check i s0 vs = None -> (forall p, v_out (vs p) <> Throw 0) ->
  forall src d f0, In src (eff_srcs i ls s0) -> dst_of i (eff_srcs i ls s0) src = Some d -> s0 src = Reg f0 ->
  v_art_unlink_ok (vs src) = true ->
  let ops := fio_ops i ls s0 vs in
  let fin := run ops s0 in
  ( (fin src = s0 src /\ fin d = s0 d) \/
    (exists chunks, codec i (DOwn d) (vs src) = (chunks, Ret0) /\ fin d = Reg (mkFile (concat chunks) true) /\
                    (fin src = s0 src \/ fin src = Absent)) \/
    (fin d = Absent /\ fin src = s0 src) ) /\
  (exit_code ops = Some 0 ->
     (exists chunks, codec i (DOwn d) (vs src) = (chunks, Ret0) /\ fin d = Reg (mkFile (concat chunks) true)) \/
     (i_excl i = true /\ fin src = s0 src /\ fin d = s0 d)).
Proof. exact per_source_outcome_thm. Qed.
Print Assumptions per_source_outcome.

(* FIO_decompressFrames: status 0 iff the input is non-empty, every frame decodes and nothing
   else follows; the status is never anything but 0 or 1. *)
Theorem frames_loop_verdict : forall items,
  (snd (frames_loop false items true) = Ret0 <-> (items <> [] /\ forallb is_ok_item items = true)) /\
  (snd (frames_loop false items true) = Ret0 \/ snd (frames_loop false items true) = Ret1).
Proof. exact frames_loop_verdict_thm. Qed.
Print Assumptions frames_loop_verdict.

(* What is written starts with the payload of the leading good frames and, on success, is exactly it. *)
Theorem frames_loop_output : forall pass items first,
  exists rest, fst (frames_loop pass items first) = ok_payload items ++ rest /\
               (forallb is_ok_item items = true -> rest = []).
Proof. exact frames_loop_output_thm. Qed.
Print Assumptions frames_loop_output.

(* AIO_fwriteSparse / AIO_fwriteSparseEnd: for every content and every segmentation into write
   jobs (each at most 1 GB) and frames, the sparse writer's file equals the plain writer's. *)
Theorem sparse_equiv : forall frames,
  (forall fr ch, In fr frames -> In ch fr -> len ch <= GB1) ->
  s_data (s_run (sparse_frames_ops frames) empty_file) = concat (map (@concat N) frames) /\
  s_data (s_run (sparse_frames_ops frames) empty_file)
    = s_data (s_run (concat (map plain_ops frames)) empty_file).
Proof. exact sparse_equiv_thm. Qed.
Print Assumptions sparse_equiv.

(* With write jobs of at most 1 GB the `unsigned storedSkips` accumulator stays below 3 GB < 2^32 between the jobs of a
   frame: the arithmetic mod 2^32 (written explicitly in the model) never wraps, however long the zero run is. *)
Theorem sparse_skips_bounded : forall chunks sk f c,
  Inv f sk c -> sk <= SK_MAX -> (forall ch, In ch chunks -> len ch <= GB1) ->
  Forall (fun x => x <= SK_MAX /\ x < M32) (skips_trace chunks sk).
Proof. exact sparse_skips_bounded_thm. Qed.
Print Assumptions sparse_skips_bounded.

(* A zero run of n GB for ANY n (beyond 4 GiB = the range of storedSkips), written in 1 GB jobs and followed by a last
   job: the file is n GB of zeros followed by that job's bytes. *)
Theorem sparse_equiv_over_4GiB : forall (n : nat) tail,
  len tail <= GB1 ->
  s_data (s_run (sparse_frames_ops [repeat (zeros GB1) n ++ [tail]]) empty_file) = zeros (N.of_nat n * GB1) ++ tail.
Proof. exact sparse_equiv_over_4GiB_thm. Qed.
Print Assumptions sparse_equiv_over_4GiB.

(* Whatever prefs->sparseFileSupport is (--sparse, --no-sparse, automatic, stdout, compression), the bytes are the same. *)
Theorem sparse_setting_irrelevant : forall v frames,
  (forall fr ch, In fr frames -> In ch fr -> len ch <= GB1) ->
  s_data (s_run (dst_writer_ops v frames) empty_file) = concat (map (@concat N) frames).
Proof. exact sparse_setting_irrelevant_thm. Qed.
Print Assumptions sparse_setting_irrelevant.

(* zstdcli.c / FIO_openDstFile: compression and --no-sparse never seek; --sparse is never switched off (stdout included);
   the automatic setting is switched off by stdout and by a destination that did not pre-exist as a regular file. *)
Theorem sparse_setting :
  (forall a, sparse_init true a = 0) /\
  (forall so r, sparse_open 0 so r = 0) /\ (forall so r, sparse_open 2 so r = 2) /\
  (forall r, sparse_open 1 true r = 0) /\ sparse_open 1 false true = 1 /\ sparse_open 1 false false = 0.
Proof. exact sparse_setting_thm. Qed.
Print Assumptions sparse_setting.
