(* Property C04 - theorem list.  The specification side of "every decoding path yields the specified output":
   the specified output is a FUNCTION of the frame (R is a Gallina function), it does not depend on how many
   bytes follow the frame in the input (the basis of segmentation independence), and the three hard-coded
   default decoding tables of the implementation are the ones the specified construction yields. *)
From Coq Require Import NArith ZArith List Bool.
From ZV.Codec Require Import Bytes XXH64 Fse Block Frame FrameProofs PrefixProofs TablesProofs.
Import ListNotations.
Local Open Scope N_scope.

Theorem C04_default_tables_are_the_specified_ones :
  dtable_of 6 spec_LL_default spec_LL_base spec_LL_bits = Some ZV.Gen.Gen_Tables.LL_defaultDTable /\
  dtable_of 6 spec_ML_default spec_ML_base spec_ML_bits = Some ZV.Gen.Gen_Tables.ML_defaultDTable /\
  dtable_of 5 spec_OF_default ZV.Gen.Gen_Tables.OF_base ZV.Gen.Gen_Tables.OF_bits = Some ZV.Gen.Gen_Tables.OF_defaultDTable.
Proof. exact default_dtables_correct. Qed.
Print Assumptions C04_default_tables_are_the_specified_ones.

Theorem C04_tables_of_the_implementation_are_the_specified_ones :
  ZV.Gen.Gen_Tables.LL_base = spec_LL_base /\ ZV.Gen.Gen_Tables.LL_bits = spec_LL_bits /\
  ZV.Gen.Gen_Tables.ML_base = spec_ML_base /\ ZV.Gen.Gen_Tables.ML_bits = spec_ML_bits /\
  (forall c, c < 32 -> of_row_ok c = true).
Proof. exact impl_tables_match_spec. Qed.
Print Assumptions C04_tables_of_the_implementation_are_the_specified_ones.

(* what R regenerates from a frame does not depend on the bytes that follow it: decoding any prefix of the
   input that still contains the whole frame gives the same content (and a correspondingly shorter remainder) *)
Theorem C04_output_independent_of_trailing_input : forall cfg d q z out t rest,
  decode_frame cfg d (q ++ z) = Ok (out, t, rest) ->
  match decode_frame cfg d q with
  | Ok (o2, t2, r2) => o2 = out /\ rest = r2 ++ z
  | Err _ _ => True
  end.
Proof. exact decode_frame_prefix. Qed.
Print Assumptions C04_output_independent_of_trailing_input.

(* what "the content the specification defines" is for a match: R's execution engine (chunked copies through its mark
   accelerator) computes the byte-by-byte LZ77 copy from the history, for every offset (overlapping or not) and length *)
From ZV.Codec Require Import LzContent.
Theorem C04_sequence_execution_is_lz77 : forall fuel x off ml, sinv x -> 1 <= off -> off <= x_avail x -> ml <= N.of_nat fuel * off ->
  sinv (copy_match fuel x off ml) /\
  x_hist (copy_match fuel x off ml) = copy_naive (N.to_nat ml) (N.to_nat off) (x_hist x).
Proof. exact copy_match_spec. Qed.
Print Assumptions C04_sequence_execution_is_lz77.

(* several frames back to back, skippable frames in between: what the specification makes of a stream is the concatenation
   of what it makes of its frames (ZSTD_decompress semantics); a skippable frame contributes nothing *)
From ZV.Codec Require Import Encode MultiFrameProofs.
Theorem C04_frame_then_stream : forall cfg d f rest out t c items,
  f <> [] -> decode_frame cfg d (f ++ rest) = Ok (out, t, rest) -> skip_test cfg (f ++ rest) = None ->
  R cfg d rest = Ok (c, items) ->
  R cfg d (f ++ rest) = Ok (out ++ c, FZstd t (lenN out) :: items).
Proof. exact R_frame_then_stream. Qed.
Print Assumptions C04_frame_then_stream.

Theorem C04_skippable_frame_then_stream : forall cfg d variant payload rest c items,
  c_magicless cfg = false -> variant < 16 -> lenN payload < 2 ^ 32 ->
  R cfg d rest = Ok (c, items) ->
  R cfg d (enc_skippable variant payload ++ rest) = Ok (c, FSkip (lenN payload) :: items).
Proof. exact R_skippable_then_stream. Qed.
Print Assumptions C04_skippable_frame_then_stream.
