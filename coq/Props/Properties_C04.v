(* Property C04 - theorem list.  The specification side of "every decoding path yields the specified output":
   the specified output is a FUNCTION of the frame (R is a Gallina function), it does not depend on how many
   bytes follow the frame in the input (the basis of segmentation independence), and the three hard-coded
   default decoding tables of the implementation are the ones the specified construction yields. *)
From Coq Require Import NArith ZArith List Bool.
From ZV.Codec Require Import Bytes XXH64 Fse Block Frame FrameProofs PrefixProofs TablesProofs.
Import ListNotations.
Local Open Scope N_scope.

Theorem C04_default_tables_are_the_specified_ones :
  dtable_of 6 spec_LL_default spec_LL_base spec_LL_bits = Some ZV.Gen.Gen_Tables.LL_defaultDTable /\
  dtable_of 6 spec_ML_default spec_ML_base spec_ML_bits = Some ZV.Gen.Gen_Tables.ML_defaultDTable /\
  dtable_of 5 spec_OF_default ZV.Gen.Gen_Tables.OF_base ZV.Gen.Gen_Tables.OF_bits = Some ZV.Gen.Gen_Tables.OF_defaultDTable.
Proof. exact default_dtables_correct. Qed.
Print Assumptions C04_default_tables_are_the_specified_ones.

Theorem C04_tables_of_the_implementation_are_the_specified_ones :
  ZV.Gen.Gen_Tables.LL_base = spec_LL_base /\ ZV.Gen.Gen_Tables.LL_bits = spec_LL_bits /\
  ZV.Gen.Gen_Tables.ML_base = spec_ML_base /\ ZV.Gen.Gen_Tables.ML_bits = spec_ML_bits /\
  (forall c, c < 32 -> of_row_ok c = true).
Proof. exact impl_tables_match_spec. Qed.
Print Assumptions C04_tables_of_the_implementation_are_the_specified_ones.

(* what R regenerates from a frame does not depend on the bytes that follow it: decoding any prefix of the
   input that still contains the whole frame gives the same content (and a correspondingly shorter remainder) *)
Theorem C04_output_independent_of_trailing_input : forall cfg d q z out t rest,
  decode_frame cfg d (q ++ z) = Ok (out, t, rest) ->
  match decode_frame cfg d q with
  | Ok (o2, t2, r2) => o2 = out /\ rest = r2 ++ z
  | Err _ _ => True
  end.
Proof. exact decode_frame_prefix. Qed.
Print Assumptions C04_output_independent_of_trailing_input.

(* what "the content the specification defines" is for a match: R's execution engine (chunked copies through its mark
   accelerator) computes the byte-by-byte LZ77 copy from the history, for every offset (overlapping or not) and length *)
From ZV.Codec Require Import LzContent.
Theorem C04_sequence_execution_is_lz77 : forall fuel x off ml, sinv x -> 1 <= off -> off <= x_avail x -> ml <= N.of_nat fuel * off ->
  sinv (copy_match fuel x off ml) /\
  x_hist (copy_match fuel x off ml) = copy_naive (N.to_nat ml) (N.to_nat off) (x_hist x).
Proof. exact copy_match_spec. Qed.
Print Assumptions C04_sequence_execution_is_lz77.

(* several frames back to back, skippable frames in between: what the specification makes of a stream is the concatenation
   of what it makes of its frames (ZSTD_decompress semantics); a skippable frame contributes nothing *)
From ZV.Codec Require Import Encode MultiFrameProofs.
Theorem C04_frame_then_stream : forall cfg d f rest out t c items,
  f <> [] -> decode_frame cfg d (f ++ rest) = Ok (out, t, rest) -> skip_test cfg (f ++ rest) = None ->
  R cfg d rest = Ok (c, items) ->
  R cfg d (f ++ rest) = Ok (out ++ c, FZstd t (lenN out) :: items).
Proof. exact R_frame_then_stream. Qed.
Print Assumptions C04_frame_then_stream.

Theorem C04_skippable_frame_then_stream : forall cfg d variant payload rest c items,
  c_magicless cfg = false -> variant < 16 -> lenN payload < 2 ^ 32 ->
  R cfg d rest = Ok (c, items) ->
  R cfg d (enc_skippable variant payload ++ rest) = Ok (c, FSkip (lenN payload) :: items).
Proof. exact R_skippable_then_stream. Qed.
Print Assumptions C04_skippable_frame_then_stream.

(* ---- round 2: the specified content does not depend on which of the equivalent spellings of a field the producer chose
   (the bundled compressor always writes the shortest; the independent frame writer of the check, zv/props/c04_enc.py, writes them all) ---- *)
From Coq Require Import Lia.
From ZV.Codec Require Import Block C04Forms.

(* Number_of_Sequences on one, two or three bytes: every admissible form reads back the count (the two-byte form overlaps the one-byte form,
   0 included: 80 00) *)
Theorem C04_number_of_sequences_any_form : forall f n t, nbseq_form_ok f n -> read_nbseq (nbseq_form f n ++ t) = Ok (n, t).
Proof. exact read_nbseq_any_form. Qed.
Print Assumptions C04_number_of_sequences_any_form.
Example C04_nbseq_forms_satisfiable :
  nbseq_form_ok 1 5 /\ nbseq_form_ok 2 5 /\ nbseq_form_ok 2 0 /\ nbseq_form_ok 3 32512 /\ nbseq_form 2 0 = [128; 0] /\ nbseq_form 2 5 = [128; 5].
Proof. unfold nbseq_form_ok. repeat split; try lia; reflexivity. Qed.

(* raw / RLE literals: a header of any width that can hold the size regenerates the same literals *)
Theorem C04_raw_literals_any_header_width : forall blockMax huf w lits tail,
  lit_hdr_w_ok w (lenN lits) -> lenN lits <= blockMax ->
  decode_literals blockMax huf (lit_hdr_w 0 w (lenN lits) ++ lits ++ tail) = Ok (lits, huf, w + lenN lits, 0).
Proof. exact decode_lits_raw_any_width. Qed.
Print Assumptions C04_raw_literals_any_header_width.
Theorem C04_rle_literals_any_header_width : forall blockMax huf w v n tail,
  lit_hdr_w_ok w n -> n <= blockMax ->
  decode_literals blockMax huf (lit_hdr_w 1 w n ++ [v] ++ tail) = Ok (repeatN v n [], huf, w + 1, 1).
Proof. exact decode_lits_rle_any_width. Qed.
Print Assumptions C04_rle_literals_any_header_width.
Example C04_literals_widths_satisfiable : lit_hdr_w_ok 1 5 /\ lit_hdr_w_ok 2 5 /\ lit_hdr_w_ok 3 5 /\ lit_hdr_w 0 3 5 = [92; 0; 0].
Proof. unfold lit_hdr_w_ok. repeat split; try lia; reflexivity. Qed.

(* Repeat_Mode re-uses the table in force whatever produced it - also an RLE table, also the predefined one - and reads nothing *)
Theorem C04_repeat_mode_reuses_the_table_in_force : forall maxSV maxLog deflog defnorm t src,
  seq_table 3 maxSV maxLog deflog defnorm (Some t) src = Ok (t, src).
Proof. exact seq_table_repeat. Qed.
Print Assumptions C04_repeat_mode_reuses_the_table_in_force.
Theorem C04_repeat_mode_after_rle_mode : forall maxSV maxLog deflog defnorm s tail src2, s <= maxSV ->
  exists t, seq_table 1 maxSV maxLog deflog defnorm None ([s] ++ tail) = Ok (t, tail) /\
            seq_table 3 maxSV maxLog deflog defnorm (Some t) src2 = Ok (rle_table s, src2).
Proof. exact seq_table_repeat_after_rle. Qed.
Print Assumptions C04_repeat_mode_after_rle_mode.

(* a compressed block without sequences in every spelling (literals header width x Number_of_Sequences 00 / 80 00) regenerates exactly its
   literals and leaves tables, repeat offsets and Huffman tree as they were *)
Theorem C04_literals_only_block_any_spelling : forall strict window blockMax e x w f lits,
  lit_hdr_w_ok w (lenN lits) -> (f = 1 \/ f = 2) -> lenN lits <= blockMax ->
  exists bt,
    decode_cblock strict window blockMax e x (lit_hdr_w 0 w (lenN lits) ++ lits ++ nbseq_form f 0) =
      Ok (e, push_fwd {| x_hist := x_hist x; x_marks := x_marks x; x_avail := x_avail x; x_pos := x_pos x; x_blk := 0 |} lits (lenN lits), bt)
    /\ bt_rsize bt = lenN lits /\ bt_seqs bt = [].
Proof. exact decode_cblock_literals_only. Qed.
Print Assumptions C04_literals_only_block_any_spelling.

(* Frame_Content_Size of a single-segment frame on 1, 2, 4 or 8 bytes: same window, same declared size *)
Theorem C04_content_size_field_any_width : forall k v rest, ss_width_ok k v ->
  exists h, parse_fheader false (ss_header k v ++ rest) = Ok (h, rest) /\
            fh_window h = v /\ fh_fcs h = Some v /\ fh_single h = true /\ fh_checksum h = false /\ fh_dictid h = 0.
Proof. exact parse_ss_header. Qed.
Print Assumptions C04_content_size_field_any_width.
Example C04_content_size_widths_satisfiable : ss_width_ok 1 7 /\ ss_width_ok 4 7 /\ ss_width_ok 8 7 /\ ss_width_ok 2 300.
Proof. unfold ss_width_ok. repeat split; lia. Qed.

From ZV.Codec Require Import EncodeProofs.
(* whole frames: header of any admissible parameter vector, any non-empty list of raw blocks, RLE blocks and literals-only compressed blocks
   in any spelling (stored and regenerated sizes within Block_Maximum_Size), optional checksum, any bytes after the frame, with or without a
   dictionary: R regenerates the concatenation of the blocks' contents and stops exactly at the end of the frame *)
Theorem C04_frames_of_spelled_blocks_decode : forall cfg d p dictID bs rest,
  params_ok p (lenN (blocks_content bs)) dictID ->
  bs <> [] -> Forall spelled_block bs ->
  Forall (block_fits2 (N.min (N.min (frame_window p (lenN (blocks_content bs))) BLOCK_MAX) (c_block_max cfg))) bs ->
  c_magicless cfg = fp_magicless p ->
  frame_window p (lenN (blocks_content bs)) <= c_window_max cfg ->
  dict_ok d p dictID ->
  exists t, decode_frame cfg d (enc_frame p dictID bs ++ rest) = Ok (blocks_content bs, t, rest).
Proof. exact decode_frame_spelled_blocks. Qed.
Print Assumptions C04_frames_of_spelled_blocks_decode.

(* non-vacuity: a concrete frame (window 512 KiB, no content size) with a literals-only block spelt with the 3-byte header and 80 00, then an
   empty RLE block, meets every hypothesis; the frame is the expected bytes and R (extracted from this very term) decodes it *)
Example C04_spelled_frame_example :
  let p := {| fp_windowLog := 19; fp_contentSize := false; fp_checksum := false; fp_noDictID := false; fp_magicless := false |} in
  let bs := [lit_only_block 3 2 [7; 8; 9]; EBRle 5 0] in
  params_ok p (lenN (blocks_content bs)) 0 /\ Forall spelled_block bs /\
  Forall (block_fits2 (N.min (N.min (frame_window p (lenN (blocks_content bs))) BLOCK_MAX) (c_block_max default_config))) bs /\
  enc_frame p 0 bs = [40; 181; 47; 253; 0; 72; 68; 0; 0; 60; 0; 0; 7; 8; 9; 128; 0; 3; 0; 0; 5] /\
  blocks_content bs = [7; 8; 9].
Proof.
  cbv zeta. split; [unfold params_ok; cbn; lia|]. split.
  - constructor; [apply SB_lit; [unfold lit_hdr_w_ok; cbn; lia|right; reflexivity]|constructor; [apply SB_rle|constructor]].
  - split; [|split; vm_compute; reflexivity].
    constructor; [|constructor; [|constructor]]; unfold block_fits2; vm_compute; split; intro; discriminate.
Qed.
