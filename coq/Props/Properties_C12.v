(* C12 - thread pool (lib/common/pool.c): each accepted job runs exactly once; join, resize, free are safe.
   Model: ZV.Conc.PoolModel (atomic sections between synchronisation operations, all interleavings).
   [reach fx bodies progs n q sched] = the state after running schedule [sched] (ANY list of (thread, wake choice))
   from POOL_create(n, q) with client programs [progs] (client 0 creates/frees the pool) and job table [bodies];
   fx = true is the current code (POOL_thread broadcasts queuePushCond), fx = false the code before the F5 repair. *)
From Coq Require Import List Arith Bool.
Import ListNotations.
From ZV.Conc Require Import Sched PoolModel PoolLemmas PoolInvDefs PoolInv3 PoolInv4 PoolTheorems.

Theorem pool_ring_inv : forall fx bodies progs n q sched,
  progs <> [] -> 1 <= n ->
  let s := reach fx bodies progs n q sched in
  Ring (sp s) (pending (sg s)) /\ (qempty (sp s) = true <-> pending (sg s) = []).
Proof. exact ring_inv. Qed.
Print Assumptions pool_ring_inv.

Theorem pool_exactly_once : forall fx bodies progs n q sched k,
  progs <> [] -> 1 <= n ->
  let s := reach fx bodies progs n q sched in
  let total := cnt k (pending (sg s)) + cnt k (running s) + cnt k (done (sg s)) in
  (k < next (sg s) -> total = 1) /\ (next (sg s) <= k -> total = 0) /\
  cnt k (started (sg s)) <= 1 /\ cnt k (done (sg s)) <= cnt k (started (sg s)).
Proof. exact exactly_once. Qed.
Print Assumptions pool_exactly_once.

Theorem pool_joinJobs_post : forall fx bodies progs n q sched t th,
  progs <> [] -> 1 <= n ->
  let s := reach fx bodies progs n q sched in
  nth_error (st s) t = Some th -> t_pc th = JUnlock ->
  pending (sg s) = [] /\ running s = [] /\ forall k, k < next (sg s) -> cnt k (done (sg s)) = 1.
Proof. exact joinJobs_post. Qed.
Print Assumptions pool_joinJobs_post.

Theorem pool_tryAdd_refusal_lossless : forall cfg tid w s s' th j,
  step cfg tid w s = Some s' -> nth_error (st s) tid = Some th -> t_pc th = PLock KTry j ->
  (is_full (sp s) = true ->
     sp s' = set_owner (Some tid) (sp s) /\ pending (sg s') = pending (sg s) /\ next (sg s') = next (sg s) /\
     done (sg s') = done (sg s) /\ started (sg s') = started (sg s) /\ refused (sg s') = refused (sg s) ++ [j]) /\
  (is_full (sp s) = false -> shutdown (sp s) = false ->
     pending (sg s') = pending (sg s) ++ [(next (sg s), j)] /\ next (sg s') = S (next (sg s)) /\ refused (sg s') = refused (sg s)).
Proof. exact tryAdd_refusal_lossless. Qed.
Print Assumptions pool_tryAdd_refusal_lossless.
