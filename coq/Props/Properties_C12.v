(* C12 - thread pool (lib/common/pool.c): each accepted job runs exactly once; join, resize, free are safe.

   Model: ZV.Conc.PoolModel - one [step] = the atomic section of one thread between two synchronisation
   operations (mutex lock/unlock, cond wait/signal/broadcast, thread join); ALL interleavings.
   [reach fx bodies progs n q sched] = the state after running schedule [sched] - ANY list of (thread, wake choice);
   picks of disabled threads are skipped - from POOL_create(n, q), with client programs [progs] over
   {add, tryAdd, joinJobs, resize} (client 0 created the pool; after its operations it joins the other client
   threads and calls POOL_free) and job table [bodies] (what each job posts while it runs).
   fx = true : the current code (POOL_thread broadcasts queuePushCond);  fx = false : the code before the F5 repair.
   Every theorem holds for every n >= 1, q >= 0, every non-empty [progs], every [bodies], every [sched].
   Round 2: the wake choice of a POOL_resize step is also its FAILURE POINT (PoolModel.created: 0 = nothing fails, 1 = the
   allocation of the thread array fails, k+2 = the (k+1)-th pthread_create fails), so "every [sched]" includes every allocation /
   thread-creation failure inside every POOL_resize; the last section states what such a resize does. *)
From Coq Require Import List Arith Bool.
Import ListNotations.
From ZV.Conc Require Import Sched PoolModel PoolLemmas PoolInvDefs PoolInv3 PoolInv4 PoolInv9 PoolTheorems PoolLive PoolExamples.
From ZV.Conc Require Import PoolSafety PoolTermDefs PoolTermStep PoolTerm PoolFair PoolFairEx PoolLimit PoolFault.
From ZV.Conc Require PoolShared.
From ZV.Conc Require Import PoolAbs PoolLift PoolInv11.

(* the circular buffer agrees with the FIFO list of accepted-but-not-started jobs (both queueSize > 1 and the
   hand-off pool queueSize = 1); queueEmpty is exact *)
Theorem pool_ring_inv : forall fx bodies progs n q sched,
  progs <> [] -> 1 <= n ->
  let s := reach fx bodies progs n q sched in
  Ring (sp s) (pending (sg s)) /\ (qempty (sp s) = true <-> pending (sg s) = []).
Proof. exact ring_inv. Qed.
Print Assumptions pool_ring_inv.

(* every ticket (= enqueued job) is in exactly one of pending / running / done; tickets never issued are nowhere;
   the job function is started at most once per ticket; finished implies started *)
Theorem pool_exactly_once : forall fx bodies progs n q sched k,
  progs <> [] -> 1 <= n ->
  let s := reach fx bodies progs n q sched in
  let total := cnt k (pending (sg s)) + cnt k (running s) + cnt k (done (sg s)) in
  (k < next (sg s) -> total = 1) /\ (next (sg s) <= k -> total = 0) /\
  cnt k (started (sg s)) <= 1 /\ cnt k (done (sg s)) <= cnt k (started (sg s)).
Proof. exact exactly_once. Qed.
Print Assumptions pool_exactly_once.

(* POOL_joinJobs: at the moment it is about to return, every job accepted so far has finished *)
Theorem pool_joinJobs_post : forall fx bodies progs n q sched t th,
  progs <> [] -> 1 <= n ->
  let s := reach fx bodies progs n q sched in
  nth_error (st s) t = Some th -> t_pc th = JUnlock ->
  pending (sg s) = [] /\ running s = [] /\ forall k, k < next (sg s) -> cnt k (done (sg s)) = 1.
Proof. exact joinJobs_post. Qed.
Print Assumptions pool_joinJobs_post.

(* POOL_tryAdd: a refusal loses / duplicates nothing; an acceptance enqueues exactly the posted job *)
Theorem pool_tryAdd_refusal_lossless : forall cfg tid w s s' th j,
  step cfg tid w s = Some s' -> nth_error (st s) tid = Some th -> t_pc th = PLock KTry j ->
  (is_full (sp s) = true ->
     sp s' = set_owner (Some tid) (sp s) /\ pending (sg s') = pending (sg s) /\ next (sg s') = next (sg s) /\
     done (sg s') = done (sg s) /\ started (sg s') = started (sg s) /\ refused (sg s') = refused (sg s) ++ [j]) /\
  (is_full (sp s) = false -> shutdown (sp s) = false ->
     pending (sg s') = pending (sg s) ++ [(next (sg s), j)] /\ next (sg s') = S (next (sg s)) /\ refused (sg s') = refused (sg s)).
Proof. exact tryAdd_refusal_lossless. Qed.
Print Assumptions pool_tryAdd_refusal_lossless.

(* POOL_free: when it has returned (main client done) every thread has terminated and every accepted job has
   been started and finished exactly once - also the jobs that were still queued or posted during POOL_free *)
Theorem pool_free_all_done : forall bodies progs n q sched m,
  progs <> [] -> 1 <= n ->
  let s := reach true bodies progs n q sched in
  nth_error (st s) 0 = Some m -> t_pc m = Done ->
  all_done s = true /\ pending (sg s) = [] /\ running s = [] /\
  forall k, k < next (sg s) -> cnt k (done (sg s)) = 1 /\ cnt k (started (sg s)) = 1.
Proof. exact free_all_done. Qed.
Print Assumptions pool_free_all_done.

(* no lost wake-up on queuePopCond, resize never strands queued jobs (work conservation): before shutdown,
   min(pending jobs, threadLimit - numThreadsBusy) workers are awake and about to look at the queue, or the
   signal of add_internal / the broadcast of POOL_resize that wakes them is about to be delivered *)
Theorem pool_resize_no_strand : forall bodies progs n q sched,
  progs <> [] -> 1 <= n ->
  let s := reach true bodies progs n q sched in
  shutdown (sp s) = false ->
  1 <= sumf nrb (st s) \/
  Nat.min (length (pending (sg s))) (limit (sp s) - busy (sp s)) <= sumf nanb (st s) + sumf npsig (st s).
Proof. exact no_lost_wakeup_workers. Qed.
Print Assumptions pool_resize_no_strand.

(* no lost wake-up on queuePushCond (repaired code): a thread asleep in POOL_add still faces a full queue (and no
   shutdown), a thread asleep in POOL_joinJobs still faces a non-empty queue or a busy worker - or a broadcast on
   queuePushCond is about to be delivered, or a worker is busy and will broadcast when its job finishes.
   Hence a blocked POOL_add proceeds once capacity exists (pool_add_returns_when_capacity of the design). *)
Theorem pool_no_lost_wakeup_pushers : forall bodies progs n q sched t x,
  progs <> [] -> 1 <= n ->
  let s := reach true bodies progs n q sched in
  nth_error (st s) t = Some x -> pw_ok (sp s) (sumf npendb (st s)) x = true.
Proof. exact no_lost_wakeup_pushers. Qed.
Print Assumptions pool_no_lost_wakeup_pushers.

(* deadlock freedom / no lost wake-up on queuePushCond, for the repaired code: a state in which no thread can
   run although some thread is unfinished exists only if a worker is blocked in a BLOCKING POOL_add issued by
   the very job it is running (a client error: the job waits for a free slot of its own pool) - and never once
   POOL_free has set shutdown: destroying the pool always terminates and joins every worker *)
Theorem pool_deadlock_free : forall bodies progs n q sched,
  progs <> [] -> 1 <= n ->
  let cfg := mkcfg true progs bodies in
  let s := reach true bodies progs n q sched in
  stuck cfg s = true -> self_blocked s = true /\ shutdown (sp s) = false.
Proof. exact deadlock_free. Qed.
Print Assumptions pool_deadlock_free.

(* finding F5 kept as a refutation: with signal instead of broadcast the same statement is false *)
Theorem pool_lost_wakeup_refuted :
  exists bodies progs n q sched,
    progs <> [] /\ 1 <= n /\
    let s := reach false bodies progs n q sched in
    stuck (mkcfg false progs bodies) s = true /\ self_blocked s = false.
Proof. exact lost_wakeup_refuted. Qed.
Print Assumptions pool_lost_wakeup_refuted.

(* ---------------------------------------------------------------------------------------------------------
   Liveness (ZV.Conc.PoolTermDefs / PoolTermStep / PoolTerm / PoolFair).
   [weights_ok progs n bodies JW]: JW j pays for one execution of job j including everything the job posts; such a JW
   exists whenever the posting relation between job ids is not recursive ([dag]).  [mu] is a natural-number potential of
   the whole state (steps every thread can still take + the price of every wake-up it can still cause). *)

(* every step of every thread strictly decreases the potential (repaired and unrepaired code) *)
Theorem pool_step_decreases_potential : forall cfg P tid w s s',
  TermInv cfg P s -> 2 * wT P <= wB P -> WOK cfg P -> step cfg tid w s = Some s' -> mu cfg P s' < mu cfg P s.
Proof. exact mu_dec. Qed.
Print Assumptions pool_step_decreases_potential.

(* no livelock: EVERY schedule performs at most [mu init] steps (picks of disabled threads do not count); in particular no
   sleeper is woken and sent back to sleep for ever, POOL_joinJobs / POOL_add / POOL_free cannot spin *)
Theorem pool_steps_bounded : forall fx bodies progs n q JW sched,
  progs <> [] -> 1 <= n -> weights_ok progs n bodies JW ->
  let cfg := mkcfg fx progs bodies in
  nsteps cfg sched (init progs n q) <= mu cfg (run_parm progs n JW) (init progs n q).
Proof. exact steps_bounded. Qed.
Print Assumptions pool_steps_bounded.

Theorem pool_weights_exist : forall progs n bodies, dag bodies -> exists JW, weights_ok progs n bodies JW.
Proof. exact dag_weights. Qed.
Print Assumptions pool_weights_exist.

(* a state in which no thread can run is: everything terminated, POOL_free returned, every accepted job started and
   finished exactly once - or a job is blocked in a blocking POOL_add on its own pool (before POOL_free) *)
Theorem pool_complete_run : forall bodies progs n q sched,
  progs <> [] -> 1 <= n ->
  let cfg := mkcfg true progs bodies in
  let s := reach true bodies progs n q sched in
  enabled_list cfg s = [] ->
  (all_done s = true /\ pending (sg s) = [] /\ running s = [] /\
   forall k, k < next (sg s) -> cnt k (done (sg s)) = 1 /\ cnt k (started (sg s)) = 1)
  \/ (self_blocked s = true /\ shutdown (sp s) = false).
Proof. exact complete_run. Qed.
Print Assumptions pool_complete_run.

(* jobs that post with POOL_tryAdd only can never wedge the pool *)
Theorem pool_tryonly_never_self_blocked : forall fx bodies progs n q sched,
  tryonly bodies -> self_blocked (reach fx bodies progs n q sched) = false.
Proof. exact tryonly_never_self_blocked. Qed.
Print Assumptions pool_tryonly_never_self_blocked.

(* a scheduler that picks every thread id below the thread bound again and again never stalls *)
Theorem pool_fair_scheduler_never_stalls : forall fx bodies progs n q sigma,
  progs <> [] -> 1 <= n -> fair (max_threads progs n) sigma -> non_stalling fx bodies progs n q sigma.
Proof. exact fair_non_stalling. Qed.
Print Assumptions pool_fair_scheduler_never_stalls.

(* LIVENESS: under every infinite schedule that does not stall for ever (whenever some thread can run, some later pick can
   run - implied by weak fairness and by the fairness above) the run reaches, after finitely many picks, a state where
   everything has terminated and every accepted job has been executed exactly once (or a job self-blocked) *)
Theorem pool_non_stalling_run_completes : forall bodies progs n q JW sigma,
  progs <> [] -> 1 <= n -> weights_ok progs n bodies JW ->
  non_stalling true bodies progs n q sigma ->
  exists i, let s := state_at true bodies progs n q sigma i in
    (all_done s = true /\ pending (sg s) = [] /\ running s = [] /\
     forall k, k < next (sg s) -> cnt k (done (sg s)) = 1 /\ cnt k (started (sg s)) = 1)
    \/ (self_blocked s = true /\ shutdown (sp s) = false).
Proof. exact non_stalling_run_completes. Qed.
Print Assumptions pool_non_stalling_run_completes.

Theorem pool_fair_run_completes : forall bodies progs n q JW sigma,
  progs <> [] -> 1 <= n -> weights_ok progs n bodies JW -> tryonly bodies ->
  fair (max_threads progs n) sigma ->
  exists i, let s := state_at true bodies progs n q sigma i in
    all_done s = true /\ pending (sg s) = [] /\ running s = [] /\
    forall k, k < next (sg s) -> cnt k (done (sg s)) = 1 /\ cnt k (started (sg s)) = 1.
Proof. exact fair_run_completes. Qed.
Print Assumptions pool_fair_run_completes.

(* ---------------------------------------------------------------------------------------------------------
   Thread limit (POOL_create "at most numThreads threads", POOL_resize "expands or shrinks the number of threads") *)

(* the only step that raises numThreadsBusy is a worker's pop, by one, and only while fewer than threadLimit threads are
   busy: after a shrink no job is STARTED beyond the new limit (jobs already running finish normally) *)
Theorem pool_thread_limit_respected : forall cfg tid w s s',
  step cfg tid w s = Some s' -> busy (sp s) < busy (sp s') ->
  busy (sp s') = S (busy (sp s)) /\ busy (sp s') <= limit (sp s') /\ limit (sp s') = limit (sp s) /\
  exists th, nth_error (st s) tid = Some th /\ t_pc th = WLock.
Proof. exact limit_respected. Qed.
Print Assumptions pool_thread_limit_respected.

Theorem pool_busy_le_capacity : forall bodies progs n q sched,
  progs <> [] -> 1 <= n ->
  let s := reach true bodies progs n q sched in
  busy (sp s) <= cap (sp s) /\ 1 <= limit (sp s) <= cap (sp s).
Proof. exact busy_le_capacity. Qed.
Print Assumptions pool_busy_le_capacity.

(* ---------------------------------------------------------------------------------------------------------
   Round 2: allocation / pthread_create failure inside POOL_resize (POOL_resize_internal, numThreads > threadCapacity) *)

(* when a failure strikes: the allocation (w = 1) or one of the d = numThreads - threadCapacity calls of pthread_create *)
Theorem pool_resize_failure_point : forall w d,
  created w d < d <-> (w = 1 /\ 0 < d) \/ (exists k, w = S (S k) /\ k < d).
Proof. exact created_lt_iff. Qed.
Print Assumptions pool_resize_failure_point.

(* a growing POOL_resize that fails after m threads were created: threadCapacity grows by exactly m (the threads that exist:
   POOL_free joins them), threadLimit, the queue, numThreadsBusy, shutdown and the job bookkeeping are untouched, the m new
   workers stand at the top of POOL_thread; the caller still broadcasts queuePopCond and unlocks (next pcs RBcast, RUnlock) *)
Theorem pool_resize_failure_frame : forall cfg tid w s s' th n,
  step cfg tid w s = Some s' -> nth_error (st s) tid = Some th -> t_pc th = RLock n -> cap (sp s) < n ->
  created w (n - cap (sp s)) < n - cap (sp s) ->
  let m := created w (n - cap (sp s)) in
  sp s' = set_cap (cap (sp s) + m) (set_owner (Some tid) (sp s)) /\ sg s' = sg s /\
  st s' = upd tid (set_pc RBcast th) (st s) ++ repeat new_worker m.
Proof. exact resize_failure_frame. Qed.
Print Assumptions pool_resize_failure_frame.

Theorem pool_resize_success_frame : forall cfg tid w s s' th n,
  step cfg tid w s = Some s' -> nth_error (st s) tid = Some th -> t_pc th = RLock n -> cap (sp s) < n ->
  created w (n - cap (sp s)) = n - cap (sp s) ->
  sp s' = set_cap_limit n (set_owner (Some tid) (sp s)) /\ sg s' = sg s /\
  st s' = upd tid (set_pc RBcast th) (st s) ++ repeat new_worker (n - cap (sp s)).
Proof. exact resize_success_frame. Qed.
Print Assumptions pool_resize_success_frame.

(* in every reachable state, whatever resizes failed on the way: threadCapacity = number of worker threads that exist (POOL_join's
   loop bound covers every thread ever created), the workers are the threads behind the clients, 1 <= threadLimit <= threadCapacity *)
Theorem pool_capacity_is_worker_count : forall bodies progs n q sched,
  progs <> [] -> 1 <= n ->
  let s := reach true bodies progs n q sched in
  length (st s) = length progs + cap (sp s) /\
  (forall t th, nth_error (st s) t = Some th -> t_worker th = negb (t <? length progs)) /\
  1 <= limit (sp s) <= cap (sp s).
Proof. exact capacity_is_worker_count. Qed.
Print Assumptions pool_capacity_is_worker_count.

(* the failure branch is reachable and such a run completes: POOL_resize(3) on a 1-thread pool, 2nd pthread_create fails *)
Example pool_resize_failure_run :
  let s := reach true rf_bodies rf_progs 1 1 (rf_prefix ++ rr 40 3) in
  all_done s = true /\ cap (sp s) = 2 /\ limit (sp s) = 1 /\ map snd (done (sg s)) = [0; 1].
Proof. exact resize_failure_run_completes. Qed.


(* ====================================================================================================================
   Round 3.  (a) What ONE step of the fine-grained model does to the pool as its clients see it (PoolAbs.v).
             (b) SEVERAL CLIENTS - compression contexts, each driven by its own application thread - ON ONE POOL, the
                 way ZSTDMT uses a pool shared through ZSTD_CCtx_refThreadPool (PoolShared.v): a client posts with
                 POOL_tryAdd and SPINS while the pool refuses (APost), or accepts the refusal (ATry), resizes the pool
                 (AResize; what ZSTDMT_resize did to a provided pool before 3b19e13), waits for ITS OWN jobs (AWait =
                 ZSTDMT_waitForAllJobsCompleted: start of a frame, ZSTDMT_freeCCtx on a provided pool since f02e35a).
                 One step of that model = one critical section of pool.c.
   view = (queued tickets in FIFO order, running tickets, log of finished tickets, numThreadsBusy, threadLimit,
   threadCapacity, isQueueFull); PoolAbs.vtrans = the six pool transitions on a view: nothing / push of a ticket at the tail
   while not full / pop of the head while numThreadsBusy < threadLimit / completion of a running job / numThreadsBusy-- /
   resize. *)

(* every step of every thread of PoolModel, in every state reachable from POOL_create, is one of the six pool transitions *)
Theorem pool_step_is_pool_transition : forall fx bodies progs n q sched tid w s',
  progs <> [] -> 1 <= n ->
  let s := reach fx bodies progs n q sched in
  step (mkcfg fx progs bodies) tid w s = Some s' -> vtrans (view_of s) (view_of s').
Proof. exact reach_step_is_pool_transition. Qed.
Print Assumptions pool_step_is_pool_transition.

(* isQueueFull evaluated on head / tail / queueEmpty / numThreadsBusy / threadLimit is the predicate on the abstract queue that
   PoolShared.afull uses (queue of queueSize-1 entries; hand-off pool: all allowed threads busy, or an entry waits) *)
Theorem pool_full_is_queue_full : forall fx bodies progs n q sched,
  progs <> [] -> 1 <= n ->
  let s := reach fx bodies progs n q sched in
  is_full (sp s) = if 1 <? qsize (sp s) then length (pending (sg s)) =? qsize (sp s) - 1
                   else (busy (sp s) =? limit (sp s)) || negb (length (pending (sg s)) =? 0).
Proof. exact reach_full_is_abstract_full. Qed.
Print Assumptions pool_full_is_queue_full.

(* every step of the several-clients model is one of the SAME six transitions: both models refine one transition system *)
Theorem shared_step_is_pool_transition : forall a s s',
  PoolShared.astep a s = Some s' -> vtrans (aview s) (aview s').
Proof. exact astep_is_pool_transition. Qed.
Print Assumptions shared_step_is_pool_transition.

(* exactly once, for any number of clients, any programs, any schedule: every ticket issued is in exactly one of
   queued / running / finished, a ticket never issued is nowhere *)
Theorem shared_exactly_once : forall progs threads q sched, 1 <= threads ->
  let s := PoolShared.arun sched (PoolShared.ainit progs threads q) in
  forall k,
    (k < PoolShared.a_next s ->
       count_occ Nat.eq_dec (map fst (PoolShared.a_pend s ++ PoolShared.running s ++ PoolShared.a_done s)) k = 1) /\
    (PoolShared.a_next s <= k ->
       count_occ Nat.eq_dec (map fst (PoolShared.a_pend s ++ PoolShared.running s ++ PoolShared.a_done s)) k = 0).
Proof. exact PoolShared.shared_exactly_once_lemma. Qed.
Print Assumptions shared_exactly_once.

(* a step either changes NOTHING (the refused POOL_tryAdd of a spinning client) or makes the measure amu smaller *)
Theorem shared_step_stutters_or_decreases : forall a s s',
  PoolShared.astep a s = Some s' -> s' = s \/ PoolShared.amu s' < PoolShared.amu s.
Proof. exact PoolShared.astep_decreases. Qed.
Print Assumptions shared_step_stutters_or_decreases.

(* progress: in a reachable state that is not final (a program not finished, a job queued or a worker not idle) SOME actor has an
   enabled step that makes the measure smaller - a saturated pool never wedges its clients: when every tryAdd is refused a
   worker can finish or pop *)
Theorem shared_progress : forall progs threads q sched, 1 <= threads ->
  let s := PoolShared.areach progs threads q sched in
  PoolShared.afinal s = false ->
  exists a s', PoolShared.astep a s = Some s' /\ PoolShared.amu s' < PoolShared.amu s.
Proof. exact PoolShared.shared_progress_lemma. Qed.
Print Assumptions shared_progress.

(* LIVENESS WITH SPINNING CLIENTS: under every fair infinite schedule (every actor is picked again and again) the run reaches a
   final state - every client program finished (so every spinning POOL_tryAdd was accepted and every wait returned), nothing
   queued, every worker idle - in which every ticket ever issued has been executed exactly once *)
Theorem shared_fair_run_completes : forall sigma progs threads q, 1 <= threads -> PoolShared.afair sigma ->
  exists n, let s := PoolShared.arun_inf sigma n (PoolShared.ainit progs threads q) in
    PoolShared.afinal s = true /\
    forall k, (k < PoolShared.a_next s -> count_occ Nat.eq_dec (map fst (PoolShared.a_done s)) k = 1)
           /\ (PoolShared.a_next s <= k -> count_occ Nat.eq_dec (map fst (PoolShared.a_done s)) k = 0).
Proof. exact PoolShared.shared_fair_run_completes_lemma. Qed.
Print Assumptions shared_fair_run_completes.

(* ... but the NUMBER of steps is not bounded: while the pool is full a spinning client can be scheduled any number of times
   (this is the busy spin of ZSTD_compressStream2 on a saturated shared pool; compare pool_steps_bounded for the blocking API) *)
Theorem shared_spin_unbounded : forall s c r,
  c < length (PoolShared.a_progs s) -> nth c (PoolShared.a_progs s) [] = PoolShared.APost :: r -> PoolShared.afull s = true ->
  forall n, PoolShared.arun (repeat c n) s = s.
Proof. exact PoolShared.spin_unbounded_lemma. Qed.
Print Assumptions shared_spin_unbounded.

(* a client whose program ends with the wait for its own jobs: from the step that ends the wait on, for ever and whatever the
   other clients post, none of its jobs is queued or running (ZSTDMT_freeCCtx may free the job descriptions: f02e35a) *)
Theorem shared_wait_then_quiescent : forall c s s' sched,
  c < length (PoolShared.a_progs s) -> nth c (PoolShared.a_progs s) [] = [PoolShared.AWait] ->
  PoolShared.astep c s = Some s' ->
  let s'' := PoolShared.arun sched s' in
  nth c (PoolShared.a_progs s'') [] = [] /\ PoolShared.owned c (PoolShared.a_pend s'' ++ PoolShared.running s'') = [].
Proof. exact PoolShared.shared_wait_then_quiescent_lemma. Qed.
Print Assumptions shared_wait_then_quiescent.

(* whoever lowered threadLimit: numThreadsBusy only grows by the pop of the queue's head, by one, below the limit *)
Theorem shared_pop_below_limit : forall a s s',
  PoolShared.astep a s = Some s' -> PoolShared.a_busy s < PoolShared.a_busy s' ->
  PoolShared.a_busy s' = S (PoolShared.a_busy s) /\ PoolShared.a_busy s < PoolShared.a_limit s /\
  PoolShared.a_limit s' = PoolShared.a_limit s /\
  exists e, PoolShared.a_pend s = e :: PoolShared.a_pend s' /\ In e (PoolShared.running s').
Proof. exact PoolShared.pop_below_limit_lemma. Qed.
Print Assumptions shared_pop_below_limit.

(* the hypotheses are satisfiable: a fair scheduler exists; two contexts on a pool of one thread (the second also resizes it)
   complete under it; on the way the second context faces a full pool and can be refused any number of times *)
Example shared_fair_scheduler_exists : PoolShared.afair PoolShared.sq_sigma.
Proof. exact PoolShared.sq_sigma_fair. Qed.

Example shared_example_completes :
  let s := PoolShared.arun_inf PoolShared.sq_sigma 400 (PoolShared.ainit PoolShared.ex_progs 1 0) in
  PoolShared.afinal s = true /\ map fst (PoolShared.a_done s) = [0; 1; 2; 3] /\ length (PoolShared.a_work s) = 2.
Proof. exact PoolShared.ex_completes. Qed.

Example shared_example_spins :
  let s := PoolShared.areach PoolShared.ex_progs 1 0 [0] in
  PoolShared.afull s = true /\
  nth 1 (PoolShared.a_progs s) [] = [PoolShared.APost; PoolShared.AResize 2; PoolShared.APost; PoolShared.AWait] /\
  forall n, PoolShared.arun (repeat 1 n) s = s.
Proof. exact PoolShared.ex_spins. Qed.


(* ====================================================================================================================
   Round 3, after the repair baece04 (POOL_resize also broadcasts queuePushCond; model: pc RBcastPush).
   "A blocking post returns once capacity exists": in every reachable state of the current code a thread asleep in POOL_add
   still faces a full queue (and shutdown is not set), or a broadcast of queuePushCond is among the coming operations of
   some thread (npb2 counts the threads at WBcast1 / WBcast2 / RBcast / RBcastPush / FUnlock / FBcastPush).  Compared with
   pool_no_lost_wakeup_pushers the escape "or a worker is busy" is gone: the poster does not depend on the end of a running
   job any more.  Before the repair this failed (real code: a POOL_add blocked for ever after POOL_resize(2) created an idle
   thread, docs/C12.md 9.1). *)
Theorem pool_blocked_add_has_reason : forall bodies progs n q sched t x j,
  progs <> [] -> 1 <= n ->
  let s := reach true bodies progs n q sched in
  nth_error (st s) t = Some x -> t_pc x = PAsleep j ->
  (is_full (sp s) = true /\ shutdown (sp s) = false) \/ 1 <= sumf npb2 (st s).
Proof. exact blocked_add_has_reason. Qed.
Print Assumptions pool_blocked_add_has_reason.

(* the finding's situation is reachable and the resize wakes the poster: pool(1 thread, hand-off), client 0 blocks posting its
   second job, client 1 raises threadLimit to 2 - queue not full, poster asleep, one broadcast pending; two steps later it is awake *)
Example pool_resize_wakes_blocked_add :
  let s := reach true [[]; []] rw_progs 1 0 rw_sched in
  let s2 := reach true [[]; []] rw_progs 1 0 (rw_sched ++ [(1,0); (1,0)]) in
  t_pc (nth 0 (st s) dthread) = PAsleep 1 /\ is_full (sp s) = false /\ shutdown (sp s) = false /\ busy (sp s) = 1 /\ sumf npb2 (st s) = 1 /\
  t_pc (nth 0 (st s2) dthread) = PLock KAdd 1.
Proof. exact resize_wakes_blocked_add. Qed.
