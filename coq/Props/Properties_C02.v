(* Property C02 - theorem list: streaming round trip under any call history and buffer segmentation.
   Compressor side (coq/Stream/CStreamProofs.v, block compressor universally quantified): partition and round trip of
   every history of ZSTD_compressStream2 calls.  Decoder side (coq/Stream/DStream*.v, block decoder universally
   quantified, then instantiated with the reference decoder R): ZSTD_decompressStream refines one-shot decoding for
   every history / segmentation.  The per-run correspondence (zv/props/c02.py) ties the two state-machine models to
   the current sources. *)
From Coq Require Import NArith ZArith List Bool.
From ZV.Codec Require Import Bytes.
From ZV.Stream Require Import DStreamModel CStreamModel CStreamProofs StreamInst.
From ZV.Stream Require Import DStreamSpec DStreamCont DStreamProofs DStreamSpecLink DStreamRefine.
From ZV.Stream Require Import WindowModel WindowProofs.
From ZV.Codec Require Import Frame Encode.
From ZV.Stream Require Import StoreStream StoreStreamProofs StoreStreamE2E.
From ZV.Stream Require Import StreamInstProofs.
From ZV.Stream Require Import StreamInstDict DStreamDict DictUseModel DictUseProofs.
From ZV.Stream Require Import DictIdModel DictIdProofs.
Import ListNotations.
Local Open Scope N_scope.

(* for EVERY history of (slice, capacity, directive) calls: the bytes handed to the block compressor are, frame by frame
   and chunk by chunk in order, exactly the input reported consumed (minus what is still buffered), and the bytes
   emitted are exactly the concatenation of the block compressor's outputs (minus what is still in outBuff) *)
Theorem C02_cstream_partition :
  forall (CS : Type) (cs_begin : CS -> fconf -> N -> CS) (compress_chunk : CS -> bytes -> bool -> CS * bytes)
         (P : kparams) (X : bytes) (cs : CS) (calls : list kcall) (k' : kstate CS) (pos' : N) (emitted' : bytes),
  calls_ok calls ->
  krun CS cs_begin compress_chunk P (k_new cs) X 0 calls [] = Some (k', pos', emitted') ->
  exists frames : list (CS * list (bytes * bool)),
    tk pos' X = frames_in CS frames ++ k_inPend k' ++ k_held k' /\
    frames_out CS compress_chunk frames = emitted' ++ k_outPend k' /\
    (forall f, In f frames -> begun CS cs_begin f) /\
    (forall pre f post, frames = pre ++ f :: post -> post <> [] -> snd f = [] \/ complete (snd f)).
Proof. exact cstream_partition. Qed.
Print Assumptions C02_cstream_partition.

(* round trip: if every completed chunk list of the block compressor decodes (under D) to its input - the single assumed
   property of the block compressor, discharged per run by the reference decoder R on the real output - then after ANY
   history that ends with a completed frame the emitted bytes are a concatenation of frames each of which decodes to the
   corresponding part of the consumed input, and together they cover exactly the consumed input *)
Theorem C02_cstream_roundtrip :
  forall (CS : Type) (cs_begin : CS -> fconf -> N -> CS) (compress_chunk : CS -> bytes -> bool -> CS * bytes)
         (D : bytes -> option bytes),
  (forall cs fc pl chunks, complete chunks -> D (outs CS compress_chunk (cs_begin cs fc pl) chunks) = Some (chunks_in chunks)) ->
  forall (P : kparams) (X : bytes) (cs : CS) (calls : list kcall) (k' : kstate CS) (pos' : N) (emitted' : bytes),
  calls_ok calls ->
  krun CS cs_begin compress_chunk P (k_new cs) X 0 calls [] = Some (k', pos', emitted') ->
  k_stage k' = KInit -> k_frameEnded k' = true -> k_held k' = [] ->
  exists frames : list (bytes * bytes),
    tk pos' X = concat (map fst frames) /\ emitted' = concat (map snd frames) /\
    forall io, In io frames -> D (snd io) = Some (fst io).
Proof. exact C02_stream_roundtrip. Qed.
Print Assumptions C02_cstream_roundtrip.

(* ZSTD_e_end returned 0: the closing chunk (epilogue) went out, nothing is pending on either side, the context is back
   in the init stage - the precondition of the round-trip theorem is what "end returned 0" means *)
Theorem C02_cstream_end_complete :
  forall (CS : Type) (cs_begin : CS -> fconf -> N -> CS) (compress_chunk : CS -> bytes -> bool -> CS * bytes)
         (P : kparams) (fc : fconf) (cs0 : CS) (chunks : list (bytes * bool)) (k : kstate CS) (inp : bytes) (ocap : N),
  SI CS compress_chunk P cs0 chunks k -> 1 <= fc_maxBlock fc ->
  let o := kstep CS cs_begin compress_chunk P fc k inp ocap DirEnd in
  ko_ret o = Some 0 ->
  exists cs1 chunks2, SI CS compress_chunk P cs1 chunks2 (ko_k o) /\ complete chunks2 /\
    k_stage (ko_k o) = KInit /\ k_frameEnded (ko_k o) = true /\ k_inPend (ko_k o) = [] /\ k_outPend (ko_k o) = [].
Proof. exact cstream_end_complete. Qed.
Print Assumptions C02_cstream_end_complete.

(* every state reached by a history satisfies the per-call invariant SI (so the per-call theorems apply to it) *)
Theorem C02_cstream_reachable_invariant :
  forall (CS : Type) (cs_begin : CS -> fconf -> N -> CS) (compress_chunk : CS -> bytes -> bool -> CS * bytes)
         (P : kparams) (X : bytes) (cs : CS) (calls : list kcall) (k' : kstate CS) (pos' : N) (emitted' : bytes),
  calls_ok calls ->
  krun CS cs_begin compress_chunk P (k_new cs) X 0 calls [] = Some (k', pos', emitted') ->
  exists cs0 chunks, SI CS compress_chunk P cs0 chunks k'.
Proof. exact cstream_reachable_SI. Qed.
Print Assumptions C02_cstream_reachable_invariant.

(* PARTIAL (the ZSTD_e_end shortcut is excluded by [noshort]): what the block compressor is handed and the input side
   of the buffering state after a load/compress iteration do not depend on the output capacity *)
Theorem C02_cstream_out_capacity_independent_partial :
  forall (CS : Type) (compress_chunk : CS -> bytes -> bool -> CS * bytes)
         (P : kparams) (dir : directive) (k : kstate CS) (gin : bytes) (gip : N) (o1 o2 : bytes) (c1 c2 : N),
  noshort CS dir k ->
  let r1 := g_load CS compress_chunk P dir (g_mk k gin gip o1 c1) in
  let r2 := g_load CS compress_chunk P dir (g_mk k gin gip o2 c2) in
  in_side_res CS r1 <> None -> in_side_res CS r2 <> None -> in_side_res CS r1 = in_side_res CS r2.
Proof. exact cstream_out_capacity_independent_partial. Qed.
Print Assumptions C02_cstream_out_capacity_independent_partial.

(* ================= decoder side ================= *)

(* dstream_refines_oneshot.  For EVERY stream [src] the executable one-shot specification (strict decoding of each
   frame, skippable frames, multi-frame; DStreamModel.spec_decode) accepts with content [content], for EVERY list of
   calls (bytes offered, output capacity) - i.e. every segmentation of input and output - of the ZSTD_decompressStream
   model in buffered-output mode starting from a fresh context:
   (1) what the calls hand out is, in order, a prefix of [content], what they take in a prefix of [src];
   (2) no call fails, except with the two caller-induced no-forward-progress errors;
   (3) a call returns 0 only at the end of a frame with the output of every frame so far handed over (the rest of the
       stream is again a valid stream regenerating the rest of the content; the context is in stage zdss_init);
   (4) if such a call also exhausted the input, everything was regenerated: streaming output = one-shot output.
   Header loading split at any byte, the single-pass shortcut, the inBuff loader, the outBuff ring with its restart rule,
   streamed raw blocks, the hostage byte and checksum / content-size checks are all inside the model.
   Block decoder abstract; its two hypotheses (it ignores the window size; it refuses an empty compressed block) are
   proved for R below.  Side conditions on the decoder parameters: not ZSTD_d_stableOutBuffer, 2^10 <= maxWindowSize,
   maxWindowSize + 2*128K + 64 < 2^64-1 (true for every value ZSTD_d_windowLogMax accepts). *)
Theorem C02_dstream_refines_oneshot :
  forall (H : Type) (b_init : H) (b_raw : H -> bytes -> H) (b_rle : H -> N -> N -> H)
         (b_cblock : N -> N -> H -> bytes -> res (H * bytes)) (b_hash : bytes -> N) (P : dparams),
  dp_stableOut P = false -> OBMAX P < UNKNOWN -> MINW <= dp_maxWindow P ->
  (forall w1 w2 bm h s, b_cblock w1 bm h s = b_cblock w2 bm h s) ->
  (forall w bm h, exists c s, b_cblock w bm h [] = Err c s) ->
  forall (src content : bytes) (calls : list dcall) outs z' rest,
  bytes_ok src ->
  spec_decode H b_init b_raw b_rle b_cblock b_hash P src = MOk content ->
  drun H b_init b_raw b_rle b_cblock b_hash P (z_new H b_init P) src calls [] = (outs, z', rest) ->
  exists crest' taken,
    content = emitted outs ++ crest' /\ src = taken ++ rest /\
    Forall (ok_ret H) outs /\
    (last_ret H None outs = Some (MOk 0) -> SValid H b_init b_raw b_rle b_cblock b_hash P rest crest' /\ z_stage z' = ZInit) /\
    (last_ret H None outs = Some (MOk 0) -> rest = [] -> emitted outs = content).
Proof. exact dstream_refines_spec. Qed.
Print Assumptions C02_dstream_refines_oneshot.

(* the same for the instance the correspondence runs execute (block decoding, history, checksum = reference decoder R) *)
Theorem C02_dstream_refines_oneshot_R :
  forall (P : dparams),
  dp_stableOut P = false -> OBMAX P < UNKNOWN -> MINW <= dp_maxWindow P ->
  forall (src content : bytes) (calls : list dcall) outs z' rest,
  bytes_ok src ->
  Rspec_decode P src = MOk content ->
  drun RH r_init r_raw r_rle r_cblock r_hash P (Rz_new P) src calls [] = (outs, z', rest) ->
  exists crest' taken,
    content = emitted outs ++ crest' /\ src = taken ++ rest /\
    Forall (ok_ret RH) outs /\
    (last_ret RH None outs = Some (MOk 0) -> SValid RH r_init r_raw r_rle r_cblock r_hash P rest crest' /\ z_stage z' = ZInit) /\
    (last_ret RH None outs = Some (MOk 0) -> rest = [] -> emitted outs = content).
Proof. exact Rdstream_refines_spec. Qed.
Print Assumptions C02_dstream_refines_oneshot_R.

(* one call of ZSTD_decompressStream from any state satisfying the between-calls invariant CI (every state reached by a
   history on a valid stream does): the call succeeds (or reports no-forward-progress), emits the next bytes of the
   content, consumes at most what was offered, re-establishes CI, and returns 0 only at a flushed frame end *)
Theorem C02_dstream_call :
  forall (H : Type) (b_init : H) (b_raw : H -> bytes -> H) (b_rle : H -> N -> N -> H)
         (b_cblock : N -> N -> H -> bytes -> res (H * bytes)) (b_hash : bytes -> N) (P : dparams),
  dp_stableOut P = false -> OBMAX P < UNKNOWN -> MINW <= dp_maxWindow P ->
  (forall w1 w2 bm h s, b_cblock w1 bm h s = b_cblock w2 bm h s) ->
  forall (z : zstate H) (inp : bytes) (cap : N) (fut crest : bytes),
  bytes_ok (inp ++ fut) -> CI H b_init b_raw b_rle b_cblock b_hash P z (inp ++ fut) crest ->
  CallPost H b_init b_raw b_rle b_cblock b_hash P inp fut crest (dstep H b_init b_raw b_rle b_cblock b_hash P z inp cap 0).
Proof. exact dstep_spec. Qed.
Print Assumptions C02_dstream_call.

(* buffer-less API: one ZSTD_decompressContinue call at any position of a valid stream, fed a legal size (exactly
   the expected size, or any non-empty part of a raw block), succeeds whenever the destination has room for what it
   regenerates, emits the next part of the content and reaches the next position *)
Theorem C02_dcontinue_position :
  forall (H : Type) (b_init : H) (b_raw : H -> bytes -> H) (b_rle : H -> N -> N -> H)
         (b_cblock : N -> N -> H -> bytes -> res (H * bytes)) (b_hash : bytes -> N)
         (P : dparams) (c : cstate H) (rest crest : bytes) (n : N),
  Pos H b_init b_raw b_rle b_cblock b_hash P c rest crest -> c_expected c <> 0 -> legal H c n ->
  Step H b_init b_raw b_rle b_cblock b_hash P c n rest crest.
Proof. exact dcontinue_pos. Qed.
Print Assumptions C02_dcontinue_position.

(* the executable one-shot specification accepts only streams that are valid in the declarative sense used above *)
Theorem C02_spec_decode_sound :
  forall (H : Type) (b_init : H) (b_raw : H -> bytes -> H) (b_rle : H -> N -> N -> H)
         (b_cblock : N -> N -> H -> bytes -> res (H * bytes)) (b_hash : bytes -> N),
  (forall w1 w2 bm h s, b_cblock w1 bm h s = b_cblock w2 bm h s) ->
  (forall w bm h, exists c s, b_cblock w bm h [] = Err c s) ->
  forall (P : dparams) (src content : bytes),
  spec_decode H b_init b_raw b_rle b_cblock b_hash P src = MOk content ->
  SValid H b_init b_raw b_rle b_cblock b_hash P src content.
Proof. exact spec_decode_svalid. Qed.
Print Assumptions C02_spec_decode_sound.

(* ================= the compressor's match-state window ================= *)

(* window_sound.  ZSTD_window_update + the maximum-distance rule of the block loop, for EVERY sequence of source segments
   (any addresses: contiguous or not, overlapping or re-using earlier places - the streaming compressor's wrapping input
   buffer, user round buffers of the buffer-less API, separate allocations): after the sequence every index a match finder
   may use (lowLimit <= i < nextSrc - base) names a byte of the logical history, and the memory at the address the index
   stands for (dictBase + i below dictLimit, base + i above) still holds exactly that byte - no valid index points at
   memory that later input has overwritten. *)
Theorem C02_window_sound :
  forall (a0 : Z) (bs maxDist : N) (segs : list seg),
  let '(w, m, h) := w_run a0 bs maxDist segs in
  forall i, w_lowLimit w <= i < w_end w -> exists b, h i = Some b /\ m (w_addr w i) = Some b.
Proof. exact window_sound. Qed.
Print Assumptions C02_window_sound.

(* the external-dictionary segment left by ZSTD_window_update never overlaps the segment just added *)
Theorem C02_window_extdict_disjoint :
  forall (w : wstate) (ip : Z) (n : N) (force : bool),
  1 <= n -> let w' := fst (w_update w ip n force) in
  forall i, w_lowLimit w' <= i < w_dictLimit w' ->
    (w_dictBase w' + Z.of_N i < ip \/ ip + Z.of_N n <= w_dictBase w' + Z.of_N i)%Z.
Proof. exact window_extdict_disjoint. Qed.
Print Assumptions C02_window_extdict_disjoint.

(* ================= end to end with a concrete block compressor ================= *)

(* the hypothesis of C02_cstream_roundtrip discharged: with the store-only block compressor (frame header, raw blocks of at
   most the block size, last-block bit, XXH64 checksum - what ZSTD_compressContinue / ZSTD_compressEnd emit for
   incompressible data, Codec/Encode.v) every complete chunk list gives ONE frame that the reference decoder R decodes,
   with nothing left over, to the concatenation of the chunks *)
Theorem C02_store_compressor_meets_hypothesis :
  forall (cs : sst) (fc : fconf) (pl : N) (chunks : list (bytes * bool)),
  complete chunks -> R_whole (outs sst store_chunk (store_begin cs fc pl) chunks) = Some (chunks_in chunks).
Proof. exact store_stream_decodes. Qed.
Print Assumptions C02_store_compressor_meets_hypothesis.

(* no hypothesis about the compressor left: EVERY history of ZSTD_compressStream2 calls (any input slicing, any output
   capacities, any directives, any per-frame window / block size) on the buffering model around the store compressor that
   ends with a completed frame has emitted a concatenation of frames each of which R decodes to the corresponding part of
   the consumed input *)
Theorem C02_store_stream_round_trip :
  forall (P : kparams) (X : bytes) (cs : sst) (calls : list kcall) (k' : kstate sst) (pos' : N) (emitted' : bytes),
  calls_ok calls ->
  krun sst store_begin store_chunk P (k_new cs) X 0 calls [] = Some (k', pos', emitted') ->
  k_stage k' = KInit -> k_frameEnded k' = true -> k_held k' = [] ->
  exists frames : list (bytes * bytes),
    tk pos' X = concat (map fst frames) /\ emitted' = concat (map snd frames) /\
    forall io, In io frames -> R_whole (snd io) = Some (fst io).
Proof. exact store_stream_roundtrip. Qed.
Print Assumptions C02_store_stream_round_trip.

(* a history meeting the premises: 3 bytes offered with room for 2, a flush, 2 more bytes with ZSTD_e_end and room for 7,
   a final ZSTD_e_end; the emitted frame is header + raw block [1;2;3] + last raw block [4;5] + checksum *)
Example C02_store_stream_history :
  let fc := {| fc_windowLog := 17; fc_maxBlock := 131072; fc_pledge := UNKNOWN |} in
  let calls := [ {| kc_n := 3; kc_cap := 2; kc_dir := DirContinue; kc_fc := fc |};
                 {| kc_n := 0; kc_cap := 100; kc_dir := DirFlush; kc_fc := fc |};
                 {| kc_n := 2; kc_cap := 7; kc_dir := DirEnd; kc_fc := fc |};
                 {| kc_n := 0; kc_cap := 100; kc_dir := DirEnd; kc_fc := fc |} ] in
  match krun sst store_begin store_chunk {| kp_stableIn := false; kp_stableOut := false; kp_magicless := false |}
             (k_new store_new) [1; 2; 3; 4; 5] 0 calls [] with
  | Some (k, pos, em) => k_stage k = KInit /\ k_frameEnded k = true /\ k_held k = [] /\ pos = 5 /\
      em = [40; 181; 47; 253; 4; 56; 24; 0; 0; 1; 2; 3; 17; 0; 0; 4; 5; 47; 214; 192; 132] /\ R_whole em = Some [1; 2; 3; 4; 5]
  | None => False
  end.
Proof. vm_compute. repeat split; reflexivity. Qed.

(* ================= both state machines composed ================= *)

(* the statement of the property itself, for the store compressor: EVERY history of ZSTD_compressStream2 calls (any input
   slicing, output capacities, directives, frame parameters) that ends with a completed frame, followed by EVERY
   segmentation of the emitted bytes into ZSTD_decompressStream calls (any slices, any output capacities):
   no decoding call fails (except the caller-induced no-progress reports), what comes out is, in order, a prefix of the
   consumed input, and when the decoder has been given everything and returns 0 it has regenerated exactly the consumed
   input.  Side conditions on the decoder parameters: zstd1 format, no ZSTD_d_maxBlockSize, window limit >= 2^27 (the
   default), not stable-out; on the data: bytes. *)
Theorem C02_store_stream_end_to_end :
  forall (P : kparams) (Pd : dparams) (X : bytes) (cs : sst) (calls : list kcall) (k' : kstate sst) (pos' : N) (emitted' : bytes),
  calls_ok calls ->
  krun sst store_begin store_chunk P (k_new cs) X 0 calls [] = Some (k', pos', emitted') ->
  k_stage k' = KInit -> k_frameEnded k' = true -> k_held k' = [] ->
  bytes_ok X ->
  dp_magicless Pd = false -> dp_maxBlock Pd = 0 -> pow2 27 <= dp_maxWindow Pd -> dp_stableOut Pd = false -> OBMAX Pd < UNKNOWN ->
  forall (dcalls : list dcall) outs z' rest,
  drun RH r_init r_raw r_rle r_cblock r_hash Pd (Rz_new Pd) emitted' dcalls [] = (outs, z', rest) ->
  exists crest' taken,
    tk pos' X = emitted outs ++ crest' /\ emitted' = taken ++ rest /\
    Forall (ok_ret RH) outs /\
    (last_ret RH None outs = Some (MOk 0) -> rest = [] -> emitted outs = tk pos' X).
Proof. exact store_stream_e2e. Qed.
Print Assumptions C02_store_stream_end_to_end.

(* premises met: the default decoder parameters, and the frame of C02_store_stream_history decoded in four calls offering
   7 bytes each with room for 1, 2, 100, 100 bytes: returns 2, 3, 2, 0, everything consumed, content regenerated *)
Example C02_end_to_end_history :
  dp_magicless default_dparams = false /\ dp_maxBlock default_dparams = 0 /\ pow2 27 <= dp_maxWindow default_dparams /\
  dp_stableOut default_dparams = false /\ OBMAX default_dparams < UNKNOWN /\
  let em := [40; 181; 47; 253; 4; 56; 24; 0; 0; 1; 2; 3; 17; 0; 0; 4; 5; 47; 214; 192; 132] in
  let '(outs, z, rest) := drun RH r_init r_raw r_rle r_cblock r_hash default_dparams (Rz_new default_dparams) em
      [ {| dc_in := 7; dc_cap := 1 |}; {| dc_in := 7; dc_cap := 2 |}; {| dc_in := 7; dc_cap := 100 |}; {| dc_in := 7; dc_cap := 100 |} ] [] in
  emitted outs = [1; 2; 3; 4; 5] /\ rest = [] /\ last_ret RH None outs = Some (MOk 0).
Proof. vm_compute. repeat split; try reflexivity; discriminate. Qed.

(* ================= round 2: dictionaries ================= *)

(* streaming decompression WITH a dictionary attached to the context (ZSTD_DCtx_loadDictionary / ZSTD_DCtx_refDDict /
   ZSTD_initDStream_usingDict / _usingDDict: every frame of the stream starts from the dictionary): for EVERY dictionary d (raw
   content, or structured: entropy tables + repeat offsets + content), EVERY stream the one-shot specification started from d
   accepts, EVERY segmentation into ZSTD_decompressStream calls: the statement of C02_dstream_refines_oneshot_R.  The block decoder
   state a frame starts from is R's state after loading d (Codec/Frame.v decode_frame).  Frames that name a dictionary ID are
   outside (the model has no dctx->dictID and refuses them): raw-content dictionaries, prefixes kept as dictionaries, structured
   dictionaries on frames written with ZSTD_c_dictIDFlag = 0. *)
Theorem C02_dstream_refines_oneshot_R_dict :
  forall (d : dict) (P : dparams),
  dp_stableOut P = false -> OBMAX P < UNKNOWN -> MINW <= dp_maxWindow P ->
  forall (src content : bytes) (calls : list dcall) outs z' rest,
  bytes_ok src ->
  Rspec_decode_d d P src = MOk content ->
  drun RH (r_init_dict d) r_raw r_rle r_cblock r_hash P (Rz_new_d d P) src calls [] = (outs, z', rest) ->
  exists crest' taken,
    content = emitted outs ++ crest' /\ src = taken ++ rest /\
    Forall (ok_ret RH) outs /\
    (last_ret RH None outs = Some (MOk 0) -> SValid RH (r_init_dict d) r_raw r_rle r_cblock r_hash P rest crest' /\ z_stage z' = ZInit) /\
    (last_ret RH None outs = Some (MOk 0) -> rest = [] -> emitted outs = content).
Proof. exact Rdict_dstream_refines_spec. Qed.
Print Assumptions C02_dstream_refines_oneshot_R_dict.

(* which dictionary a frame is decoded with.  For EVERY history of API events on one ZSTD_DCtx (load / ref / prefix / session and
   parameter resets / streaming frame starts, Zstandard or skippable / single-call decompressions over n frames) the dictionaries
   the model of dctx->ddict + dctx->dictUses + ZSTD_getDDict hands to the frames are those of the documented meaning: a loaded or
   referenced dictionary stays until replaced, a prefix serves the next Zstandard frame only (or one single-call decompression),
   skippable frames and session resets use nothing, a parameter reset drops everything. *)
Theorem C02_dict_use_refines_spec :
  forall (D : Type) (ops : list (dop D)),
  snd (dd_run D (dd_new D) ops) = snd (spec_run D (Sticky D None) ops).
Proof. exact dict_use_refines_spec. Qed.
Print Assumptions C02_dict_use_refines_spec.

(* the single-use prefix (the place of the round-2 finding repaired by d9e9175): from ANY context state, after ZSTD_DCtx_refPrefix p,
   whatever number of skippable frames and session resets come in between, the next Zstandard frame is decoded with p and the
   one after it with no dictionary *)
Theorem C02_dict_prefix_once :
  forall (D : Type) (s : dd D) (p : option D) (skips1 skips2 : list (dop D)),
  Forall (neutral D) skips1 -> Forall (neutral D) skips2 ->
  snd (dd_run D s (OpRefPrefix D p :: skips1 ++ OpFrame D :: skips2 ++ [OpFrame D])) = [p; None].
Proof. exact prefix_once. Qed.
Print Assumptions C02_dict_prefix_once.

(* a dictionary attached for indefinite use serves every frame of every later stream and single-call decompression *)
Theorem C02_dict_sticky :
  forall (D : Type) (d : D) (ops : list (dop D)),
  Forall (keeps D) ops -> forall s : dd D, dd_uses D s = UseIndef -> dd_dict D s = Some d ->
  Forall (fun o => o = Some d) (snd (dd_run D s ops)).
Proof. exact sticky_dict. Qed.
Print Assumptions C02_dict_sticky.

(* ---- round 3: frames that NAME a dictionary (dctx->dictID, ZSTD_d_refMultipleDDicts, the DDict set) - DictIdModel.v ---- *)

(* for EVERY history of API events (load / ref (adding to the set when the parameter is on) / prefix / parameter switch / resets /
   streamed frames naming any ID / single-call decompressions over frames naming any IDs) from ANY context state: a frame that names
   a dictionary ID and is accepted was decoded from a dictionary of exactly that ID (the tables and content loaded by
   ZSTD_decompressBegin_usingDDict, recorded in dctx->dictID - not merely the DDict selected afterwards: the statement the
   fixes 70fa663 / 9260ac3 restored) *)
Theorem C02_dictid_accept_sound :
  forall (D : Type) (did : D -> N) (ops : list (iop D)) (s : ds D),
  Forall (res_sound D did) (snd (ds_run D did s ops)).
Proof. exact accept_sound. Qed.
Print Assumptions C02_dictid_accept_sound.

(* the DDict set holds one DDict per ID in every reachable context *)
Theorem C02_dictid_set_one_per_id :
  forall (D : Type) (did : D -> N) (ops : list (iop D)) (s : ds D),
  uniq D did (ds_set D s) -> uniq D did (ds_set D (fst (ds_run D did s ops))).
Proof. exact reachable_uniq. Qed.
Print Assumptions C02_dictid_set_one_per_id.

(* ZSTD_d_refMultipleDDicts, streaming: with a current dictionary x that is a REFERENCED DDict (not the context's own copy), a frame
   naming the ID of a referenced DDict f is decoded from f, accepted, and f becomes the current dictionary (for indefinite use) *)
Theorem C02_dictid_multi_selects :
  forall (D : Type) (did : D -> N) (s : ds D) (id : N) (f x : D),
  ds_mdd D s = true -> uniq D did (ds_set D s) -> In f (ds_set D s) -> did f = id -> id <> 0 ->
  ds_dict D s = Some x -> ds_uses D s = UseIndef -> ds_local D s = false ->
  frame_step D did s id = (with_loaded D (with_dict D s (Some f) UseIndef false) id, (Some f, id, true)).
Proof. exact multi_ddict_selects. Qed.
Print Assumptions C02_dictid_multi_selects.

(* ... a frame that names no dictionary, or none of the referenced ones, is decoded from the current dictionary (and accepted iff it
   names none or that one); the selection state is unchanged *)
Theorem C02_dictid_multi_keeps :
  forall (D : Type) (did : D -> N) (s : ds D) (id : N) (x : D),
  set_get D did (ds_set D s) id = None -> ds_dict D s = Some x -> ds_uses D s = UseIndef ->
  frame_step D did s id = (with_loaded D s (did x), (Some x, id, id_ok (did x) id)).
Proof. exact multi_ddict_keeps. Qed.
Print Assumptions C02_dictid_multi_keeps.

(* a dictionary loaded INTO the context (ZSTD_DCtx_loadDictionary and variants) is never replaced by the selection: every streamed frame
   is decoded from it, whatever ID it names and whatever DDicts are referenced (the code after fix d0ddbff) *)
Theorem C02_dictid_loaded_dict_kept :
  forall (D : Type) (did : D -> N) (s : ds D) (id : N) (x : D),
  ds_local D s = true -> ds_dict D s = Some x -> ds_uses D s = UseIndef ->
  frame_step D did s id = (with_loaded D s (did x), (Some x, id, id_ok (did x) id)).
Proof. exact loaded_dict_kept. Qed.
Print Assumptions C02_dictid_loaded_dict_kept.

(* a pending single-use prefix (ZSTD_DCtx_refPrefix): the next streamed frame is decoded from it; when the frame is accepted the prefix is
   used up, when it is refused (it names a dictionary the prefix is not) the prefix STAYS pending and only dctx->dictID has changed
   (the code after fix b15fdb6: the prefix is marked used once the frame start has succeeded) *)
Theorem C02_dictid_prefix_frame :
  forall (D : Type) (did : D -> N) (s : ds D) (id : N),
  ds_uses D s = UseOnce -> ds_local D s = true ->
  frame_step D did s id =
    (if id_ok (id_of D did (ds_dict D s)) id
     then with_dict D (with_loaded D s (id_of D did (ds_dict D s))) (ds_dict D s) DontUse true
     else with_loaded D s (id_of D did (ds_dict D s)),
     (ds_dict D s, id, id_ok (id_of D did (ds_dict D s)) id)).
Proof. exact prefix_frame. Qed.
Print Assumptions C02_dictid_prefix_frame.

(* a pending single-use prefix and ONE ZSTD_decompressDCtx call over any frames: every frame of the call is decoded from the prefix, and
   the prefix is used up iff no frame was refused - a call that fails leaves it pending (the code after fix b87b37f, finding
   C02-oneshot-failed-call-uses-up-prefix) *)
Theorem C02_dictid_prefix_oneshot :
  forall (D : Type) (did : D -> N) (s : ds D) (ids : list N),
  ds_uses D s = UseOnce -> ds_local D s = true ->
  Forall (fun r : fres D => fst (fst r) = ds_dict D s) (snd (ds_step D did s (IOneShot D ids))) /\
  ds_dict D (fst (ds_step D did s (IOneShot D ids))) = ds_dict D s /\
  ds_uses D (fst (ds_step D did s (IOneShot D ids))) = (if all_acc D (snd (ds_step D did s (IOneShot D ids))) then DontUse else UseOnce).
Proof. exact prefix_oneshot. Qed.
Print Assumptions C02_dictid_prefix_oneshot.

(* streaming = single call, at the level of dictionary selection: from EVERY context state without a pending single-use prefix
   (its documented meaning differs: next frame / whole call), for EVERY non-empty list of frames (naming any IDs), feeding them one
   after the other to ZSTD_decompressStream and handing them all to one ZSTD_decompressDCtx call decode every frame from the same
   dictionary, accept / refuse the same frames (both stop at the first dictionary_wrong) and leave the same selection state.
   The model mirrors the guard ZSTD_DCtx_selectionApplies shared by both entry points since 3de6278.
   Before fix a891479 this needed the extra hypothesis "no used-up prefix has left its pointer behind" (finding
   C02-dstream-stale-prefix-pointer-selects-ddict; refutation of the old code: Example stale_selection_differs in DictIdProofs.v) *)
Theorem C02_dictid_stream_eq_oneshot :
  forall (D : Type) (did : D -> N) (s : ds D) (ids : list N),
  ds_uses D s <> UseOnce -> ids <> [] ->
  ds_step D did s (IOneShot D ids) = stream_frames D did s ids.
Proof. exact stream_eq_oneshot. Qed.
Print Assumptions C02_dictid_stream_eq_oneshot.

(* on histories whose frames name no dictionary the model is the round-2 dictionary-selection model (theorems 17-19 carry over) *)
Theorem C02_dictid_extends_dict_use :
  forall (D : Type) (did : D -> N) (ops : list (iop D)), Forall (names_none D) ops -> forall s : ds D,
  proj D (fst (ds_run D did s ops)) = fst (dd_run D (proj D s) (map (erase D) ops)) /\
  dicts D (snd (ds_run D did s ops)) = snd (dd_run D (proj D s) (map (erase D) ops)).
Proof. exact extends_dict_use. Qed.
Print Assumptions C02_dictid_extends_dict_use.
