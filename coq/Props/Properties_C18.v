(* C18 - dictionary training yields a usable dictionary or an error, never a bad one.
   Theorems about the executable models Train/CoverParams.v, Train/ZdictModel.v, Train/BestModel.v, Train/SegmentModel.v
   (proofs in Train/*Proofs.v).  The models are tied to /repo on every run by regenerated constants
   (Gen/Gen_Train.v) and by the correspondence run of zv/props/c18.py.                                    *)
From Coq Require Import NArith ZArith List Bool Permutation.
From ZV.Gen Require Import Gen_Train.
From ZV.Train Require Import CoverParams ZdictModel BestModel CoverProofs ZdictProofs BestProofs.
From ZV.Train Require Import SegmentModel SegmentProofs GroupModel GroupProofs.
From ZV.Train Require Import LimitsModel LimitsProofs MapModel MapProofs MapProofs2.
Import ListNotations.
Local Open Scope N_scope.

(* ---- parameter validation: COVER_checkParameters / FASTCOVER_checkParameters accept exactly ... *)
Theorem cover_params_checked : forall k d maxDict sp,
  cover_check k d maxDict sp = true <-> (0 < d /\ d <= k /\ k <= maxDict /\ sp_valid sp).
Proof. exact cover_check_iff. Qed.
Print Assumptions cover_params_checked.

Theorem fastcover_params_checked : forall k d maxDict f accel sp,
  fastcover_check k d maxDict f accel sp = true <->
  ((d = 6 \/ d = 8) /\ d <= k /\ k <= maxDict /\ 1 <= f <= t_FASTCOVER_MAX_F /\ sp_valid sp /\
   1 <= accel <= t_FASTCOVER_MAX_ACCEL).
Proof. exact fastcover_check_iff. Qed.
Print Assumptions fastcover_params_checked.

Theorem accel_index_in_table : forall accel,
  1 <= accel <= t_FASTCOVER_MAX_ACCEL -> (N.to_nat accel < length t_accel_table)%nat.
Proof. exact CoverProofs.accel_index_in_table. Qed.
Print Assumptions accel_index_in_table.

(* ---- COVER_computeEpochs *)
Theorem epochs_positive : forall maxDict nbDmers k passes,
  1 <= k -> 1 <= w32 (k * 10) -> 1 <= passes -> 1 <= nbDmers ->
  exists num size, compute_epochs maxDict nbDmers k passes = Some (num, size) /\
                   1 <= num /\ 1 <= size /\ num * size <= nbDmers.
Proof. exact CoverProofs.epochs_positive. Qed.
Print Assumptions epochs_positive.

Theorem minepoch_pos : forall k, 1 <= k -> k < 2147483648 -> 1 <= w32 (k * 10).
Proof. exact CoverProofs.minepoch_pos. Qed.
Print Assumptions minepoch_pos.

Theorem epochs_needs_dmers : forall maxDict k passes,
  1 <= k -> 1 <= w32 (k * 10) -> 1 <= passes -> compute_epochs maxDict 0 k passes = None.
Proof. exact CoverProofs.epochs_needs_dmers. Qed.
Print Assumptions epochs_needs_dmers.

(* ---- COVER_ctx_init / FASTCOVER_ctx_init (repaired code) establish nbDmers >= 1 or return an error *)
Theorem ctx_init_guarantees_dmers : forall maxSamples sizes d sp c,
  maxSamples <= U32MOD ->
  ctx_init true maxSamples sizes d sp = Some c ->
  1 <= ci_nbDmers c /\
  ci_nbDmers c + minlen d = ci_trainSize c + 1 /\
  ci_trainSize c <= sumN sizes /\ sumN sizes < maxSamples /\
  5 <= ci_nbTrain c /\ ci_nbTrain c <= lenN sizes /\ 1 <= ci_nbTest c /\ ci_nbTest c <= lenN sizes.
Proof. exact CoverProofs.ctx_init_guarantees_dmers. Qed.
Print Assumptions ctx_init_guarantees_dmers.

Theorem max_samples_fit_u32 :
  t_COVER_MAX_SAMPLES_SIZE <= U32MOD /\ t_FASTCOVER_MAX_SAMPLES_SIZE <= U32MOD.
Proof. exact max_samples_le. Qed.
Print Assumptions max_samples_fit_u32.

(* ---- the arithmetic chain of the two buildDictionary functions stays inside the training samples *)
Theorem build_epochs_safe : forall maxSamples sizes d sp c capacity k passes,
  maxSamples <= U32MOD ->
  ctx_init true maxSamples sizes d sp = Some c ->
  1 <= k -> 1 <= w32 (k * 10) -> 1 <= passes ->
  exists num size,
    build_epochs capacity (ci_nbDmers c) k passes = Some (num, size) /\ 1 <= num /\ 1 <= size /\
    forall e pos, e < num -> e * size <= pos < e * size + size ->
                  pos < ci_nbDmers c /\ pos + minlen d <= ci_trainSize c /\ ci_trainSize c <= sumN sizes.
Proof. exact CoverProofs.build_epochs_safe. Qed.
Print Assumptions build_epochs_safe.

(* ---- the pinned code violated it (findings F7, F8, F9): witnesses kept *)
Theorem ctx_init_pinned_refuted :
  (exists c, fastcover_ctx_init false [1; 1; 1; 1; 1; 2; 100; 100] 8 {| sp_num := 3; sp_sh := 2 |} = Some c /\
             ci_nbDmers c = 0) /\
  (exists c, fastcover_ctx_init false [1; 1; 1; 1; 1; 1; 100; 100] 8 {| sp_num := 3; sp_sh := 2 |} = Some c /\
             ci_nbDmers c = SZMOD - 1) /\
  fastcover_ctx_init true [1; 1; 1; 1; 1; 2; 100; 100] 8 {| sp_num := 3; sp_sh := 2 |} = None /\
  fastcover_ctx_init true [1; 1; 1; 1; 1; 1; 100; 100] 8 {| sp_num := 3; sp_sh := 2 |} = None.
Proof. exact CoverProofs.ctx_init_pinned_refuted. Qed.
Print Assumptions ctx_init_pinned_refuted.

Theorem opt_loop_never_exits_pinned : forall fuel lo x step,
  x < U32MOD -> u32_loop false fuel lo x (U32MOD - 1) step = None.
Proof. exact CoverProofs.opt_loop_never_exits_pinned. Qed.
Print Assumptions opt_loop_never_exits_pinned.

Theorem add_entropy_pinned_refuted :
  N.min 140 (8 + 132 + 100) - (8 + 132) < t_minContentSize /\
  add_entropy_sizes 140 100 (Some 132) = AddErr /\
  add_entropy_sizes 7 4 (Some 0) = AddErr.
Proof. exact ZdictProofs.add_entropy_pinned_refuted. Qed.
Print Assumptions add_entropy_pinned_refuted.

(* ---- the optimisers' (d,k) loops end for every parameter vector (repaired code) *)
Theorem opt_grid_terminates : forall d k steps,
  d < U32MOD -> k < U32MOD -> steps < U32MOD ->
  exists r, opt_grid true 2100 d k steps = Some r /\
            match r with
            | None => (if k =? 0 then 50 else k) < (if d =? 0 then 8 else d)
            | Some g =>
                g_ds g <> [] /\ g_ks g <> [] /\
                (forall x, In x (g_ds g) -> if d =? 0 then 6 <= x <= 8 else x = d) /\
                (forall x, In x (g_ks g) -> if k =? 0 then 50 <= x <= 2000 else x = k)
            end.
Proof. exact CoverProofs.opt_grid_terminates. Qed.
Print Assumptions opt_grid_terminates.

Theorem opt_entry_cover_checked : forall d k steps sp nb capacity,
  d < U32MOD -> k < U32MOD -> steps < U32MOD ->
  opt_entry_cover 2100 d k steps sp nb capacity <> EntryHang /\
  forall steps' sp' f' accel' jobs,
    opt_entry_cover 2100 d k steps sp nb capacity = EntryJobs steps' sp' f' accel' jobs ->
    1 <= nb /\ t_ZDICT_DICTSIZE_MIN <= capacity /\ sp_valid sp' /\
    forall dj kj, In (dj, kj) jobs -> 0 < dj /\ dj <= kj /\ kj <= capacity.
Proof. exact CoverProofs.opt_entry_cover_checked. Qed.
Print Assumptions opt_entry_cover_checked.

Theorem opt_entry_fast_checked : forall d k steps sp f accel nb capacity,
  d < U32MOD -> k < U32MOD -> steps < U32MOD ->
  opt_entry_fast 2100 d k steps sp f accel nb capacity <> EntryHang /\
  forall steps' sp' f' accel' jobs,
    opt_entry_fast 2100 d k steps sp f accel nb capacity = EntryJobs steps' sp' f' accel' jobs ->
    1 <= nb /\ t_ZDICT_DICTSIZE_MIN <= capacity /\ sp_valid sp' /\
    1 <= f' <= t_FASTCOVER_MAX_F /\ 1 <= accel' <= t_FASTCOVER_MAX_ACCEL /\
    forall dj kj, In (dj, kj) jobs -> (dj = 6 \/ dj = 8) /\ dj <= kj /\ kj <= capacity.
Proof. exact CoverProofs.opt_entry_fast_checked. Qed.
Print Assumptions opt_entry_fast_checked.

(* ---- ZDICT_finalizeDictionary *)
Theorem finalize_size_accounting : forall capacity contentSize e hSize padding content,
  capacity < SZMODz -> 8 + e <= t_HBUFFSIZE ->
  finalize_sizes capacity contentSize (Some e) = FinOk hSize padding content ->
  hSize = 8 + e /\
  hSize + padding + content <= capacity /\
  t_minContentSize <= padding + content /\
  content <= contentSize /\
  (padding = 0 \/ padding + content = t_minContentSize) /\
  (content = contentSize \/ hSize + padding + content = capacity \/ content + hSize = capacity) /\
  t_ZDICT_DICTSIZE_MIN <= capacity.
Proof. exact ZdictProofs.finalize_size_accounting. Qed.
Print Assumptions finalize_size_accounting.

Theorem finalize_error_reasons : forall capacity contentSize e,
  capacity < SZMODz -> 8 + e <= t_HBUFFSIZE ->
  finalize_sizes capacity contentSize (Some e) = FinErr ->
  capacity < contentSize \/ capacity < t_ZDICT_DICTSIZE_MIN \/ capacity < 8 + e + t_minContentSize.
Proof. exact ZdictProofs.finalize_error_reasons. Qed.
Print Assumptions finalize_error_reasons.

Theorem finalize_layout : forall capacity content entropy idParam hash bytes,
  capacity < SZMODz -> 8 + lenNz entropy <= t_HBUFFSIZE -> idParam < 4294967296 ->
  finalize_bytes capacity content (Some entropy) idParam hash = Some bytes ->
  exists padding kept,
    bytes = le32 t_ZSTD_MAGIC_DICTIONARY ++ le32 (dict_id idParam hash) ++ entropy ++
            zerosN (N.to_nat padding) ++ firstNz content kept /\
    lenNz bytes = 8 + lenNz entropy + padding + kept /\
    lenNz bytes <= capacity /\
    kept <= lenNz content /\
    t_minContentSize <= padding + kept /\
    get_dict_id bytes = dict_id idParam hash /\
    get_dict_id bytes <> 0.
Proof. exact ZdictProofs.finalize_layout. Qed.
Print Assumptions finalize_layout.

Theorem dictid_compliant : forall param h,
  (param = 0 -> 32768 <= dict_id param h < 2147483648) /\
  (param <> 0 -> dict_id param h = param) /\
  (dict_id param h <> 0).
Proof. exact ZdictProofs.dictid_compliant. Qed.
Print Assumptions dictid_compliant.

(* ---- ZDICT_addEntropyTablesFromBuffer (repaired code) *)
Theorem add_entropy_accounting : forall capacity contentSize e dictSize hSize moved,
  capacity < SZMODz ->
  add_entropy_sizes capacity contentSize (Some e) = AddOk dictSize hSize moved ->
  add_entropy_maxdst capacity = capacity - 8 /\
  contentSize <= capacity /\
  hSize = 8 + e /\
  dictSize <= capacity /\
  t_minContentSize <= dictSize - hSize /\ hSize <= dictSize /\
  dictSize - hSize <= contentSize.
Proof. exact ZdictProofs.add_entropy_accounting. Qed.
Print Assumptions add_entropy_accounting.

(* ---- COVER_best_t: selection under every completion order, determinism of the sequential order *)
Theorem best_is_a_minimum : forall b0 l l',
  Permutation l l' -> is_minimum b0 l (run_finishes l' b0).
Proof. exact BestProofs.best_is_a_minimum. Qed.
Print Assumptions best_is_a_minimum.

Theorem best_csize_order_independent : forall b0 l l',
  Permutation l l' -> b_csize (run_finishes l b0) = b_csize (run_finishes l' b0).
Proof. exact BestProofs.best_csize_order_independent. Qed.
Print Assumptions best_csize_order_independent.

Theorem best_deterministic : forall b0 l, chosen b0 l (run_finishes l b0).
Proof. exact BestProofs.best_deterministic. Qed.
Print Assumptions best_deterministic.

Theorem run_sequential_is_iteration_order : forall cs,
  same_choice (run_sequential cs) (run_finishes (indexed cs) best_init) /\ b_live (run_sequential cs) = 0.
Proof. exact run_sequential_same. Qed.
Print Assumptions run_sequential_is_iteration_order.

Theorem wait_returns_only_when_all_done : forall cs b0 es s,
  N.of_nat (length cs) < SZMODb -> b_live b0 = 0 ->
  run cs (sys_init b0) es = Some s ->
  b_live (s_best s) = N.of_nat (length (s_started s)) - N.of_nat (length (s_finished s)) /\
  (length (s_finished s) <= length (s_started s) <= length cs)%nat /\
  (s_returned s = true ->
     b_live (s_best s) = 0 /\
     Permutation (s_finished s) (seq 0 (length cs)) /\
     exists order, Permutation (indexed cs) order /\
                   same_choice (s_best s) (run_finishes order b0) /\
                   is_minimum b0 (indexed cs) (run_finishes order b0)).
Proof. exact sched_all_done. Qed.
Print Assumptions wait_returns_only_when_all_done.

Theorem live_zero_iff_all_done : forall cs b0 es s,
  N.of_nat (length cs) < SZMODb -> b_live b0 = 0 ->
  run cs (sys_init b0) es = Some s ->
  length (s_started s) = length cs ->
  (b_live (s_best s) = 0 <-> length (s_finished s) = length cs).
Proof. exact BestProofs.live_zero_iff_all_done. Qed.
Print Assumptions live_zero_iff_all_done.

(* ======================================================================================================
   round 2: segment selection and dictionary building (Train/SegmentModel.v), COVER_map_init, legacy hint loop
   ====================================================================================================== *)

(* ---- FASTCOVER_selectSegment: for every key map, frequency table, counter table and epoch [b, e):
        the loops end inside their arrays (result Some), the segment is the untouched {0,0,0} or lies inside the epoch with
        a non-zero score and fewer than dmersInK+1 d-mers, the frequencies of exactly its keys are zeroed, and the U16
        scratch table segmentFreqs is all-zero again on exit when it was on entry - also when a counter wrapped *)
Theorem fast_select_segment : forall key dk1 fr cnt0 b e,
  b <= e ->
  exists r c',
    select U16MOD key dk1 false fr cnt0 b e = Some (r, zero_range key (N.to_nat (se r - sb r)) (sb r) fr, c') /\
    seg_inside dk1 b e r /\
    ((forall i, cnt0 i = 0) -> forall i, c' i = 0).
Proof. exact (fun key dk1 => select_fast U16MOD key dk1 eq_refl). Qed.
Print Assumptions fast_select_segment.

(* ---- COVER_selectSegment (epoch shorter than the 2^32 range of the per-dmer counter, which ctx_init guarantees):
        as above, and the trimmed segment is non-empty with non-zero frequencies at both ends whenever the score is
        non-zero - so the final "for (pos = begin; pos != end; ++pos)" loops never start with begin > end *)
Theorem cover_select_segment : forall key dk1 fr cnt0 b e,
  b <= e -> e - b < U32MOD ->
  exists r c',
    select U32MOD key dk1 true fr cnt0 b e = Some (r, zero_range key (N.to_nat (se r - sb r)) (sb r) fr, c') /\
    seg_inside dk1 b e r /\
    (ss r <> 0 -> sb r < se r /\ fr (key (sb r)) <> 0 /\ fr (key (se r - 1)) <> 0).
Proof. exact (fun key dk1 => select_cover U32MOD key dk1 eq_refl). Qed.
Print Assumptions cover_select_segment.

Theorem select_zeroes_segment : forall key n pos fr,
  (forall j, (j < n)%nat -> zero_range key n pos fr (key (pos + N.of_nat j)) = 0) /\
  (forall i, (forall j, (j < n)%nat -> key (pos + N.of_nat j) <> i) -> zero_range key n pos fr i = fr i).
Proof. exact SegmentProofs.select_zeroes_segment. Qed.
Print Assumptions select_zeroes_segment.

(* ---- index-level memory safety of the reads of selectSegment: the result is a function of the key map restricted to
        the epoch (dmerAt[pos] / hash(samples + pos) are read for b <= pos < e only) *)
Theorem select_reads_inside_epoch : forall cm key1 key2 dk1 fr1 fr2 b e cover cnt1 cnt2,
  1 < cm -> feq fr1 fr2 -> (forall p, b <= p < e -> key1 p = key2 p) -> b <= e -> feq cnt1 cnt2 ->
  sel_eq (select cm key1 dk1 cover fr1 cnt1 b e) (select cm key2 dk1 cover fr2 cnt2 b e).
Proof. exact (fun cm key1 key2 dk1 fr1 fr2 b e cover cnt1 cnt2 H1 H2 H3 => SegmentProofs.select_reads_inside_epoch cm key1 key2 dk1 fr1 fr2 b e H1 H2 H3 cover cnt1 cnt2). Qed.
Print Assumptions select_reads_inside_epoch.

(* ---- FASTCOVER: hash index inside the 2^f tables; computeFrequency depends on the bytes of the training samples only *)
Theorem fc_hash_in_table : forall d f u, f <= 64 -> fc_hash d f u < 2 ^ f.
Proof. exact SegmentProofs.fc_hash_in_table. Qed.
Print Assumptions fc_hash_in_table.

Theorem fc_freqs_reads_inside : forall s1 s2 d f skip trainSizes,
  (forall q, q < sumN trainSizes -> byte_at s1 q = byte_at s2 q) ->
  feq (fc_freqs (fc_key s1 d f) d skip trainSizes) (fc_freqs (fc_key s2 d f) d skip trainSizes).
Proof. exact SegmentProofs.fc_freqs_reads_inside. Qed.
Print Assumptions fc_freqs_reads_inside.

(* ---- COVER_computeEpochs for EVERY U32 k >= 1: the side condition (k*10) mod 2^32 >= 1 of epochs_positive is not needed
        (k = 2^31 is the only exception to it, and then the first branch is taken with one epoch)
   ---- COVER_buildDictionary / FASTCOVER_buildDictionary after a successful (repaired) ctx_init, for every capacity, U32 k, d,
        key map and frequency table: no division by zero, selectSegment never runs off, the loop ENDS (the model's fuel
        (capacity/d + 1) * maxZeroScoreRun is never exhausted), and the memcpy's tile [tail, capacity) downwards, each at
        least d bytes long and reading inside the training part of the samples buffer *)
Theorem epochs_total : forall maxDict nbDmers k passes,
  1 <= k -> k < U32MOD -> maxDict < U32MOD -> 1 <= passes -> 1 <= nbDmers ->
  exists num size, compute_epochs maxDict nbDmers k passes = Some (num, size) /\
                   1 <= num /\ 1 <= size /\ num * size <= nbDmers.
Proof. exact SegmentProofs.epochs_total. Qed.
Print Assumptions epochs_total.

Theorem build_dictionary_safe : forall cover maxSamples sizes d sp c capacity k key fr,
  maxSamples <= U32MOD ->
  ctx_init true maxSamples sizes d sp = Some c ->
  1 <= d -> 1 <= k -> k < U32MOD ->
  exists tail copies,
    build_dictionary cover key fr capacity (ci_nbDmers c) d k = Some (BuildDone tail copies) /\
    tail <= capacity /\ tiles d capacity (ci_trainSize c) copies tail.
Proof. exact SegmentProofs.build_dictionary_total. Qed.
Print Assumptions build_dictionary_safe.

(* the hypotheses are satisfiable: a whole FASTCOVER run of the model (6 samples of 10 bytes, d = 6, f = 4, k = 8, capacity 24)
   and a COVER build from a given dmerAt[] / freqs[] *)
Definition ex_bytes : list N :=
  flat_map (fun i => [97 + i mod 3; 98; 99 + i mod 2; 100; 101; 97; 98 + i mod 4; 99; 100; 101]) [0; 1; 2; 3; 4; 5].
Example fc_train_example :
  exists fr, fc_train ex_bytes [10; 10; 10; 10; 10; 10] 6 4 1 8 24 = TOk 53 fr (BuildDone 0 [(0, 8, 8); (8, 11, 8); (16, 1, 8)]).
Proof. eexists. vm_compute. reflexivity. Qed.
Example cv_build_example :
  cv_build [0; 1; 2; 0; 1; 2; 3; 4; 0; 1] [3; 3; 3; 3; 3; 3; 1; 1; 3; 3] 2 4 12 = Some (BuildDone 5 [(5, 6, 3); (8, 0, 4)]).
Proof. vm_compute. reflexivity. Qed.

(* ---- COVER_map_init (repaired, 62c5591): accepted sizes give a table of 2^sizeLog <= 2^31 slots, at least twice the
        k-d+2 keys selectSegment can hold at once, COVER_map_hash stays inside it; sizes >= 2^30 are refused; the pinned
        code computed sizeLog = 32, the width of the shifted U32 *)
Theorem map_init_ok : forall size sl,
  1 <= size -> map_init true size = Some sl ->
  size < 2 ^ 30 /\ 2 <= sl <= 31 /\ 2 * (size + 1) <= 2 ^ sl /\ 2 ^ sl < U32MOD /\ forall key, map_hash sl key < 2 ^ sl.
Proof. exact SegmentProofs.map_init_ok. Qed.
Print Assumptions map_init_ok.
Theorem map_init_refuses : forall size, 2 ^ 30 <= size -> map_init true size = None.
Proof. exact SegmentProofs.map_init_refuses. Qed.
Print Assumptions map_init_refuses.
Theorem map_init_pinned_refuted : map_init false (2 ^ 30) = Some 32 /\ map_init false (2 ^ 31) = Some 33.
Proof. exact SegmentProofs.map_init_pinned_refuted. Qed.
Print Assumptions map_init_pinned_refuted.

(* ---- selectivity hint of the legacy trainer (repaired, 9804e77): for every selectivity level and nbSamples > MINRATIO the
        loop ends and every shift count is below 32; the pinned code shifted by 32 for selectivity 33 *)
Theorem hint_shift_ok : forall selectivity nbSamples,
  1 <= selectivity -> 4 < nbSamples ->
  exists l, hint_loop 33 nbSamples (hint_start true selectivity) = Some l /\ Forall (fun q => q < 32) l.
Proof. exact SegmentProofs.hint_shift_ok. Qed.
Print Assumptions hint_shift_ok.
Theorem hint_shift_pinned_refuted : exists l, hint_loop 40 64 (hint_start false 33) = Some l /\ In 32 l.
Proof. exact SegmentProofs.hint_shift_pinned_refuted. Qed.
Print Assumptions hint_shift_pinned_refuted.

(* ---- COVER_ctx_init frequency computation (Train/GroupModel.v): COVER_lower_bound returns a pointer in [first, last];
        COVER_group never asks it for a negative range (it cannot run off ctx->offsets), for every group of positions below
        the total size, and the frequency it stores is between 1 and the size of the group *)
Theorem lower_bound_range : forall fuel offs first count v,
  first <= lower_bound fuel offs first count v <= first + count.
Proof. exact GroupProofs.lower_bound_range. Qed.
Print Assumptions lower_bound_range.

Theorem group_freq_ok : forall offs nb total ps,
  off_at offs nb = total -> off_at offs 0 = 0 -> ps <> [] -> (forall p, In p ps -> p < total) ->
  exists f, group_freq offs nb ps = Some f /\ 1 <= f <= N.of_nat (length ps).
Proof. exact (fun offs nb total ps H => GroupProofs.group_freq_ok offs nb total H ps). Qed.
Print Assumptions group_freq_ok.

(* the whole frequency table of COVER_ctx_init (repaired), from the bytes of any sample set *)
Theorem cv_ctx_freqs_ok : forall bytes sizes d keys fvals,
  cv_ctx bytes sizes d = Some (keys, fvals) ->
  length fvals = length keys /\
  forall fv, In fv fvals -> exists f, fv = Some f /\ 1 <= f <= N.of_nat (length keys).
Proof. exact GroupProofs.cv_ctx_freqs_ok. Qed.
Print Assumptions cv_ctx_freqs_ok.

Example cv_ctx_example :
  exists keys, cv_ctx [97; 98; 97; 98; 97; 98; 97; 98; 97; 98; 97; 98] [2; 2; 2; 2; 2; 2] 2 =
               Some (keys, [Some 3; Some 2; Some 3; Some 2; Some 3]).
Proof. eexists. vm_compute. reflexivity. Qed.

(* ==== round 3 (Train/LimitsModel.v): sizes at the top of the integer types, next to the findings of the third wave ==== *)

(* ---- ZDICT_trainFromBuffer_legacy (repaired, f135f24): for EVERY list of sample sizes (sum below 2^64) the trainer keeps a
        prefix of the samples, the longest one whose total fits ZDICT_MAX_SAMPLES_SIZE; the bytes copied, the offset of the
        guard band and the bufferSize the two sentinels of the suffix analysis point at are the SAME number (the sentinels
        "lead into noise"); the second reduction loop inside ZDICT_trainBuffer_legacy is a no-op; the (int) cast given to
        divsufsort and the malloc sizes do not wrap; --nbSamples never steps below sample 0 *)
Theorem legacy_guard_follows_analysed : forall sizes, sum3 sizes < SZ ->
  exists kept dropped, sizes = kept ++ dropped /\
    sum3 kept <= t_ZDICT_MAX_SAMPLES_SIZE /\
    (sum3 sizes <= t_ZDICT_MAX_SAMPLES_SIZE -> dropped = []) /\
    (forall x d, dropped = x :: d -> t_ZDICT_MAX_SAMPLES_SIZE < sum3 kept + x) /\
    (if sum3 kept <? t_ZDICT_MIN_SAMPLES_SIZE then legacy_plan true sizes = LgNoDict
     else legacy_plan true sizes = LgPlan (sum3 kept) (sum3 kept) (lenN3 kept)) /\
    sum3 kept + t_NOISELENGTH < 2 ^ 31 + 32 /\ sum3 kept < 2 ^ 31 /\ (sum3 kept + 2) * t_sizeof_int < SZ.
Proof. exact legacy_plan_fixed. Qed.
Print Assumptions legacy_guard_follows_analysed.

Theorem legacy_reduction_never_underflows : forall sizes, sum3 sizes < SZ -> legacy_plan true sizes <> LgTrap.
Proof. exact legacy_plan_fixed_never_traps. Qed.
Print Assumptions legacy_reduction_never_underflows.

(* the pinned entry point, for every sample set: the guard band is behind the FULL copy, the analysis ends at the reduced
   size; they coincide exactly when nothing is dropped *)
Theorem legacy_pinned_guard_offset : forall sizes, sum3 sizes < SZ ->
  legacy_plan false sizes = LgNoDict \/
  exists an nb, legacy_plan false sizes = LgPlan (sum3 sizes) an nb /\ an <= sum3 sizes /\
    (an = sum3 sizes <-> sum3 sizes <= t_ZDICT_MAX_SAMPLES_SIZE).
Proof. exact legacy_plan_pinned. Qed.
Print Assumptions legacy_pinned_guard_offset.

(* witness of finding c18-legacy-reduced-set-no-guard (two samples of 6400 bytes + one of 2000 MB: analysis ends at 12800,
   guard band 2000 MB further) *)
Theorem legacy_pinned_refuted :
  legacy_plan false [t_ZDICT_MAX_SAMPLES_SIZE; 1] = LgPlan (t_ZDICT_MAX_SAMPLES_SIZE + 1) t_ZDICT_MAX_SAMPLES_SIZE 1 /\
  legacy_plan true [t_ZDICT_MAX_SAMPLES_SIZE; 1] = LgPlan t_ZDICT_MAX_SAMPLES_SIZE t_ZDICT_MAX_SAMPLES_SIZE 1 /\
  legacy_plan false [6400; 6400; t_ZDICT_MAX_SAMPLES_SIZE] = LgPlan (t_ZDICT_MAX_SAMPLES_SIZE + 12800) 12800 2.
Proof. exact legacy_plan_pinned_refuted. Qed.
Print Assumptions legacy_pinned_refuted.

(* ---- ZDICT_analyzeEntropy (repaired, 6b1809d): for every dictionary size below 2^64 ZSTD_highbit32 never gets 0; the
        size is refused exactly when dictSize + 128 KB needs more than OFFCODE_MAX+1 bits; otherwise
        2^offcodeMax <= dictSize + 128 KB < 2^(offcodeMax+1), i.e. every offset the statistics pass can produce (and every
        offset the loaders require to be representable) has an offset code <= offcodeMax <= OFFCODE_MAX <= MaxOff, so the
        count / normalised-count arrays of OFFCODE_MAX+1 entries are indexed inside *)
Theorem offcode_max_checked : forall dictSize, dictSize < SZ ->
  match offcode_max true dictSize with
  | OcTrap => False
  | OcTooLarge => 2 ^ (t_OFFCODE_MAX + 1) <= dictSize + t_entropy_window_slack
  | OcOk m => 17 <= m <= t_OFFCODE_MAX /\ m <= t_MaxOff /\
              2 ^ m <= dictSize + t_entropy_window_slack < 2 ^ (m + 1)
  end.
Proof. exact offcode_max_fixed. Qed.
Print Assumptions offcode_max_checked.

(* the repair changes nothing below 4 GiB - 128 KiB *)
Theorem offcode_max_unchanged_below_4g : forall dictSize, dictSize + t_entropy_window_slack < U32M ->
  offcode_max false dictSize = offcode_max true dictSize.
Proof. exact offcode_max_agree. Qed.
Print Assumptions offcode_max_unchanged_below_4g.

(* witness of finding c18-entropy-offcodemax-u32-wrap *)
Theorem offcode_max_pinned_refuted :
  offcode_max false (2 ^ 32 - 2 ^ 17) = OcTrap /\
  offcode_max false (2 ^ 32) = OcOk 17 /\
  offcode_max false (2 ^ 31 - 2 ^ 17) = OcTooLarge /\
  offcode_max true (2 ^ 32 - 2 ^ 17) = OcTooLarge /\ offcode_max true (2 ^ 32) = OcTooLarge /\
  offcode_max true (2 ^ 31 - 2 ^ 17 - 1) = OcOk 30 /\ offcode_max true 0 = OcOk 17.
Proof. exact LimitsProofs.offcode_max_pinned_refuted. Qed.
Print Assumptions offcode_max_pinned_refuted.

(* ---- COVER_ctx_init / FASTCOVER_ctx_init (repaired, 3e4461e): for every nbSamples of the type the offsets table is as
        large as what the fill loop writes, and the loop ends; the pinned code agrees below 2^32-1 samples *)
Theorem offsets_table_fits : forall nb, nb < U32M ->
  offsets_alloc true nb = offsets_written nb /\ fill_last true nb = Some (nb + 1).
Proof. exact offsets_alloc_fixed. Qed.
Print Assumptions offsets_table_fits.

Theorem offsets_table_pinned_below : forall nb, nb + 1 < U32M ->
  offsets_alloc false nb = offsets_written nb /\ fill_last false nb = Some (nb + 1).
Proof. exact offsets_alloc_pinned. Qed.
Print Assumptions offsets_table_pinned_below.

(* witness of finding c18-ctx-init-nbsamples-plus-one-wrap *)
Theorem offsets_table_pinned_refuted :
  offsets_alloc false (U32M - 1) = 0 /\ offsets_written (U32M - 1) = 34359738368 /\ fill_last false (U32M - 1) = None /\
  offsets_alloc true (U32M - 1) = 34359738368.
Proof. exact offsets_alloc_pinned_refuted. Qed.
Print Assumptions offsets_table_pinned_refuted.

(* ---- both optimisers, notificationLevel >= 2: the divisor kIterations of the progress display
        "(iteration * 100) / kIterations" is at least 1 and does not wrap, for every (d, k, steps) that passes the entry checks *)
Theorem opt_iterations_positive : forall fuel d k steps g,
  opt_grid true fuel d k steps = Some (Some g) -> 1 <= g_iterations g <= 3902.
Proof. exact LimitsProofs.opt_iterations_positive. Qed.
Print Assumptions opt_iterations_positive.

(* ---- the COVER_map implementation (Train/MapModel.v): open addressing, linear probing, backward-shift deletion.
        (a) for EVERY table contents, key and sizeLog <= 32: the slot COVER_map_index / COVER_map_at return lies inside the table,
            COVER_map_at keeps the table's size; the hash is < 2^sizeLog; the bit-operation form used by the model is
            SegmentModel.map_hash;
        (b) BOUNDED (the bound is in the statement): on a table of 8 slots with the keys 8, 16, 21 (home = last slot, probes wrap
            around), 0, 5 (home = slot 0) and on a table of 4 slots with the keys 3, 8, 11 (last slot), 0: for EVERY sequence of
            at most 5 (resp. 6) of the operations COVER_selectSegment performs (add one occurrence of a key / remove one, deleting
            the key when its counter reaches 0), after every operation the value seen, the counter of every key of the universe
            (looked up without inserting) and the number of occupied slots equal those of the abstract "counter per key" contents
            that SegmentModel.v uses, and no probing loop runs longer than the table;
        (c) a full table makes COVER_map_index loop forever (the reason for map_init_ok: table >= 2 x the keys of a window) *)
Theorem cover_map_index_inside : forall m key r, cm_log m <= 32 -> cmap_index m key = Some r -> r < cm_size m.
Proof. exact cmap_index_lt. Qed.
Print Assumptions cover_map_index_inside.

Theorem cover_map_at_inside : forall m key m1 i, cm_log m <= 32 -> cmap_at m key = Some (m1, i) ->
  i < cm_size m /\ cm_log m1 = cm_log m /\ length (cm_slots m1) = length (cm_slots m).
Proof. exact cmap_at_lt. Qed.
Print Assumptions cover_map_at_inside.

Theorem cover_map_hash_bits : forall sizeLog key,
  hashf sizeLog key = map_hash sizeLog key /\ (sizeLog <= 32 -> hashf sizeLog key < 2 ^ sizeLog).
Proof. exact (fun sl k => conj (hashf_map_hash sl k) (hashf_lt sl k)). Qed.
Print Assumptions cover_map_hash_bits.

Theorem cover_map_agrees_bounded_8slots : forall ops,
  (length ops <= 5)%nat -> (forall o, In o ops -> In o (all_ops univ3)) ->
  agree_run univ3 7 (cmap_clear 3, []) ops = true.
Proof. exact cover_map_agrees_3. Qed.
Print Assumptions cover_map_agrees_bounded_8slots.

Theorem cover_map_agrees_bounded_4slots : forall ops,
  (length ops <= 6)%nat -> (forall o, In o ops -> In o (all_ops univ2)) ->
  agree_run univ2 3 (cmap_clear 2, []) ops = true.
Proof. exact cover_map_agrees_2. Qed.
Print Assumptions cover_map_agrees_bounded_4slots.

(* third universe: homes 0, 1, 0, 2, 0 on 8 slots (consecutive homes: a deletion moves entries over different distances) *)
Theorem cover_map_agrees_bounded_consecutive_homes : forall ops,
  (length ops <= 5)%nat -> (forall o, In o ops -> In o (all_ops univ3b)) ->
  agree_run univ3b 7 (cmap_clear 3, []) ops = true.
Proof. exact cover_map_agrees_3b. Qed.
Print Assumptions cover_map_agrees_bounded_consecutive_homes.

Theorem cover_map_full_never_ends :
  cmap_run (cmap_clear 2) [OpAdd 3; OpAdd 8; OpAdd 11; OpAdd 0; OpAdd 4] = None.
Proof. exact full_map_probe_never_ends. Qed.
Print Assumptions cover_map_full_never_ends.

Example cover_map_example :
  map (hashf 3) univ3 = [7; 7; 7; 0; 0] /\
  (exists m, cmap_run (cmap_clear 3) [OpAdd 8; OpAdd 0; OpAdd 16; OpDel 8] = Some (m, [1; 1; 1; 0]) /\
             fst (slot_at m 7) = 16 /\ fst (slot_at m 0) = 0 /\ snd (slot_at m 1) = MAP_EMPTY).
Proof. split; [vm_compute; reflexivity|]. eexists. vm_compute. repeat split; reflexivity. Qed.

Example legacy_plan_example :
  legacy_plan true [6400; 6400; t_ZDICT_MAX_SAMPLES_SIZE] = LgPlan 12800 12800 2 /\
  legacy_plan true [100; 100] = LgNoDict /\ legacy_plan true [t_ZDICT_MAX_SAMPLES_SIZE + 1; 600] = LgNoDict.
Proof. vm_compute. repeat split; reflexivity. Qed.
