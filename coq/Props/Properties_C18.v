(* C18 - dictionary training yields a usable dictionary or an error, never a bad one.
   Theorems about the executable models Train/CoverParams.v, Train/ZdictModel.v, Train/BestModel.v
   (proofs in Train/*Proofs.v).  The models are tied to /repo on every run by regenerated constants
   (Gen/Gen_Train.v) and by the correspondence run of zv/props/c18.py.                                    *)
From Coq Require Import NArith ZArith List Bool Permutation.
From ZV.Gen Require Import Gen_Train.
From ZV.Train Require Import CoverParams ZdictModel BestModel CoverProofs ZdictProofs BestProofs.
Import ListNotations.
Local Open Scope N_scope.

(* ---- parameter validation: COVER_checkParameters / FASTCOVER_checkParameters accept exactly ... *)
Theorem cover_params_checked : forall k d maxDict sp,
  cover_check k d maxDict sp = true <-> (0 < d /\ d <= k /\ k <= maxDict /\ sp_valid sp).
Proof. exact cover_check_iff. Qed.
Print Assumptions cover_params_checked.

Theorem fastcover_params_checked : forall k d maxDict f accel sp,
  fastcover_check k d maxDict f accel sp = true <->
  ((d = 6 \/ d = 8) /\ d <= k /\ k <= maxDict /\ 1 <= f <= t_FASTCOVER_MAX_F /\ sp_valid sp /\
   1 <= accel <= t_FASTCOVER_MAX_ACCEL).
Proof. exact fastcover_check_iff. Qed.
Print Assumptions fastcover_params_checked.

Theorem accel_index_in_table : forall accel,
  1 <= accel <= t_FASTCOVER_MAX_ACCEL -> (N.to_nat accel < length t_accel_table)%nat.
Proof. exact CoverProofs.accel_index_in_table. Qed.
Print Assumptions accel_index_in_table.

(* ---- COVER_computeEpochs *)
Theorem epochs_positive : forall maxDict nbDmers k passes,
  1 <= k -> 1 <= w32 (k * 10) -> 1 <= passes -> 1 <= nbDmers ->
  exists num size, compute_epochs maxDict nbDmers k passes = Some (num, size) /\
                   1 <= num /\ 1 <= size /\ num * size <= nbDmers.
Proof. exact CoverProofs.epochs_positive. Qed.
Print Assumptions epochs_positive.

Theorem minepoch_pos : forall k, 1 <= k -> k < 2147483648 -> 1 <= w32 (k * 10).
Proof. exact CoverProofs.minepoch_pos. Qed.
Print Assumptions minepoch_pos.

Theorem epochs_needs_dmers : forall maxDict k passes,
  1 <= k -> 1 <= w32 (k * 10) -> 1 <= passes -> compute_epochs maxDict 0 k passes = None.
Proof. exact CoverProofs.epochs_needs_dmers. Qed.
Print Assumptions epochs_needs_dmers.

(* ---- COVER_ctx_init / FASTCOVER_ctx_init (repaired code) establish nbDmers >= 1 or return an error *)
Theorem ctx_init_guarantees_dmers : forall maxSamples sizes d sp c,
  maxSamples <= U32MOD ->
  ctx_init true maxSamples sizes d sp = Some c ->
  1 <= ci_nbDmers c /\
  ci_nbDmers c + minlen d = ci_trainSize c + 1 /\
  ci_trainSize c <= sumN sizes /\ sumN sizes < maxSamples /\
  5 <= ci_nbTrain c /\ ci_nbTrain c <= lenN sizes /\ 1 <= ci_nbTest c /\ ci_nbTest c <= lenN sizes.
Proof. exact CoverProofs.ctx_init_guarantees_dmers. Qed.
Print Assumptions ctx_init_guarantees_dmers.

Theorem max_samples_fit_u32 :
  t_COVER_MAX_SAMPLES_SIZE <= U32MOD /\ t_FASTCOVER_MAX_SAMPLES_SIZE <= U32MOD.
Proof. exact max_samples_le. Qed.
Print Assumptions max_samples_fit_u32.

(* ---- the arithmetic chain of the two buildDictionary functions stays inside the training samples *)
Theorem build_epochs_safe : forall maxSamples sizes d sp c capacity k passes,
  maxSamples <= U32MOD ->
  ctx_init true maxSamples sizes d sp = Some c ->
  1 <= k -> 1 <= w32 (k * 10) -> 1 <= passes ->
  exists num size,
    build_epochs capacity (ci_nbDmers c) k passes = Some (num, size) /\ 1 <= num /\ 1 <= size /\
    forall e pos, e < num -> e * size <= pos < e * size + size ->
                  pos < ci_nbDmers c /\ pos + minlen d <= ci_trainSize c /\ ci_trainSize c <= sumN sizes.
Proof. exact CoverProofs.build_epochs_safe. Qed.
Print Assumptions build_epochs_safe.

(* ---- the pinned code violated it (findings F7, F8, F9): witnesses kept *)
Theorem ctx_init_pinned_refuted :
  (exists c, fastcover_ctx_init false [1; 1; 1; 1; 1; 2; 100; 100] 8 {| sp_num := 3; sp_sh := 2 |} = Some c /\
             ci_nbDmers c = 0) /\
  (exists c, fastcover_ctx_init false [1; 1; 1; 1; 1; 1; 100; 100] 8 {| sp_num := 3; sp_sh := 2 |} = Some c /\
             ci_nbDmers c = SZMOD - 1) /\
  fastcover_ctx_init true [1; 1; 1; 1; 1; 2; 100; 100] 8 {| sp_num := 3; sp_sh := 2 |} = None /\
  fastcover_ctx_init true [1; 1; 1; 1; 1; 1; 100; 100] 8 {| sp_num := 3; sp_sh := 2 |} = None.
Proof. exact CoverProofs.ctx_init_pinned_refuted. Qed.
Print Assumptions ctx_init_pinned_refuted.

Theorem opt_loop_never_exits_pinned : forall fuel lo x step,
  x < U32MOD -> u32_loop false fuel lo x (U32MOD - 1) step = None.
Proof. exact CoverProofs.opt_loop_never_exits_pinned. Qed.
Print Assumptions opt_loop_never_exits_pinned.

Theorem add_entropy_pinned_refuted :
  N.min 140 (8 + 132 + 100) - (8 + 132) < t_minContentSize /\
  add_entropy_sizes 140 100 (Some 132) = AddErr /\
  add_entropy_sizes 7 4 (Some 0) = AddErr.
Proof. exact ZdictProofs.add_entropy_pinned_refuted. Qed.
Print Assumptions add_entropy_pinned_refuted.

(* ---- the optimisers' (d,k) loops end for every parameter vector (repaired code) *)
Theorem opt_grid_terminates : forall d k steps,
  d < U32MOD -> k < U32MOD -> steps < U32MOD ->
  exists r, opt_grid true 2100 d k steps = Some r /\
            match r with
            | None => (if k =? 0 then 50 else k) < (if d =? 0 then 8 else d)
            | Some g =>
                g_ds g <> [] /\ g_ks g <> [] /\
                (forall x, In x (g_ds g) -> if d =? 0 then 6 <= x <= 8 else x = d) /\
                (forall x, In x (g_ks g) -> if k =? 0 then 50 <= x <= 2000 else x = k)
            end.
Proof. exact CoverProofs.opt_grid_terminates. Qed.
Print Assumptions opt_grid_terminates.

Theorem opt_entry_cover_checked : forall d k steps sp nb capacity,
  d < U32MOD -> k < U32MOD -> steps < U32MOD ->
  opt_entry_cover 2100 d k steps sp nb capacity <> EntryHang /\
  forall steps' sp' f' accel' jobs,
    opt_entry_cover 2100 d k steps sp nb capacity = EntryJobs steps' sp' f' accel' jobs ->
    1 <= nb /\ t_ZDICT_DICTSIZE_MIN <= capacity /\ sp_valid sp' /\
    forall dj kj, In (dj, kj) jobs -> 0 < dj /\ dj <= kj /\ kj <= capacity.
Proof. exact CoverProofs.opt_entry_cover_checked. Qed.
Print Assumptions opt_entry_cover_checked.

Theorem opt_entry_fast_checked : forall d k steps sp f accel nb capacity,
  d < U32MOD -> k < U32MOD -> steps < U32MOD ->
  opt_entry_fast 2100 d k steps sp f accel nb capacity <> EntryHang /\
  forall steps' sp' f' accel' jobs,
    opt_entry_fast 2100 d k steps sp f accel nb capacity = EntryJobs steps' sp' f' accel' jobs ->
    1 <= nb /\ t_ZDICT_DICTSIZE_MIN <= capacity /\ sp_valid sp' /\
    1 <= f' <= t_FASTCOVER_MAX_F /\ 1 <= accel' <= t_FASTCOVER_MAX_ACCEL /\
    forall dj kj, In (dj, kj) jobs -> (dj = 6 \/ dj = 8) /\ dj <= kj /\ kj <= capacity.
Proof. exact CoverProofs.opt_entry_fast_checked. Qed.
Print Assumptions opt_entry_fast_checked.

(* ---- ZDICT_finalizeDictionary *)
Theorem finalize_size_accounting : forall capacity contentSize e hSize padding content,
  capacity < SZMODz -> 8 + e <= t_HBUFFSIZE ->
  finalize_sizes capacity contentSize (Some e) = FinOk hSize padding content ->
  hSize = 8 + e /\
  hSize + padding + content <= capacity /\
  t_minContentSize <= padding + content /\
  content <= contentSize /\
  (padding = 0 \/ padding + content = t_minContentSize) /\
  (content = contentSize \/ hSize + padding + content = capacity \/ content + hSize = capacity) /\
  t_ZDICT_DICTSIZE_MIN <= capacity.
Proof. exact ZdictProofs.finalize_size_accounting. Qed.
Print Assumptions finalize_size_accounting.

Theorem finalize_error_reasons : forall capacity contentSize e,
  capacity < SZMODz -> 8 + e <= t_HBUFFSIZE ->
  finalize_sizes capacity contentSize (Some e) = FinErr ->
  capacity < contentSize \/ capacity < t_ZDICT_DICTSIZE_MIN \/ capacity < 8 + e + t_minContentSize.
Proof. exact ZdictProofs.finalize_error_reasons. Qed.
Print Assumptions finalize_error_reasons.

Theorem finalize_layout : forall capacity content entropy idParam hash bytes,
  capacity < SZMODz -> 8 + lenNz entropy <= t_HBUFFSIZE -> idParam < 4294967296 ->
  finalize_bytes capacity content (Some entropy) idParam hash = Some bytes ->
  exists padding kept,
    bytes = le32 t_ZSTD_MAGIC_DICTIONARY ++ le32 (dict_id idParam hash) ++ entropy ++
            zerosN (N.to_nat padding) ++ firstNz content kept /\
    lenNz bytes = 8 + lenNz entropy + padding + kept /\
    lenNz bytes <= capacity /\
    kept <= lenNz content /\
    t_minContentSize <= padding + kept /\
    get_dict_id bytes = dict_id idParam hash /\
    get_dict_id bytes <> 0.
Proof. exact ZdictProofs.finalize_layout. Qed.
Print Assumptions finalize_layout.

Theorem dictid_compliant : forall param h,
  (param = 0 -> 32768 <= dict_id param h < 2147483648) /\
  (param <> 0 -> dict_id param h = param) /\
  (dict_id param h <> 0).
Proof. exact ZdictProofs.dictid_compliant. Qed.
Print Assumptions dictid_compliant.

(* ---- ZDICT_addEntropyTablesFromBuffer (repaired code) *)
Theorem add_entropy_accounting : forall capacity contentSize e dictSize hSize moved,
  capacity < SZMODz ->
  add_entropy_sizes capacity contentSize (Some e) = AddOk dictSize hSize moved ->
  add_entropy_maxdst capacity = capacity - 8 /\
  contentSize <= capacity /\
  hSize = 8 + e /\
  dictSize <= capacity /\
  t_minContentSize <= dictSize - hSize /\ hSize <= dictSize /\
  dictSize - hSize <= contentSize.
Proof. exact ZdictProofs.add_entropy_accounting. Qed.
Print Assumptions add_entropy_accounting.

(* ---- COVER_best_t: selection under every completion order, determinism of the sequential order *)
Theorem best_is_a_minimum : forall b0 l l',
  Permutation l l' -> is_minimum b0 l (run_finishes l' b0).
Proof. exact BestProofs.best_is_a_minimum. Qed.
Print Assumptions best_is_a_minimum.

Theorem best_csize_order_independent : forall b0 l l',
  Permutation l l' -> b_csize (run_finishes l b0) = b_csize (run_finishes l' b0).
Proof. exact BestProofs.best_csize_order_independent. Qed.
Print Assumptions best_csize_order_independent.

Theorem best_deterministic : forall b0 l, chosen b0 l (run_finishes l b0).
Proof. exact BestProofs.best_deterministic. Qed.
Print Assumptions best_deterministic.

Theorem run_sequential_is_iteration_order : forall cs,
  same_choice (run_sequential cs) (run_finishes (indexed cs) best_init) /\ b_live (run_sequential cs) = 0.
Proof. exact run_sequential_same. Qed.
Print Assumptions run_sequential_is_iteration_order.

Theorem wait_returns_only_when_all_done : forall cs b0 es s,
  N.of_nat (length cs) < SZMODb -> b_live b0 = 0 ->
  run cs (sys_init b0) es = Some s ->
  b_live (s_best s) = N.of_nat (length (s_started s)) - N.of_nat (length (s_finished s)) /\
  (length (s_finished s) <= length (s_started s) <= length cs)%nat /\
  (s_returned s = true ->
     b_live (s_best s) = 0 /\
     Permutation (s_finished s) (seq 0 (length cs)) /\
     exists order, Permutation (indexed cs) order /\
                   same_choice (s_best s) (run_finishes order b0) /\
                   is_minimum b0 (indexed cs) (run_finishes order b0)).
Proof. exact sched_all_done. Qed.
Print Assumptions wait_returns_only_when_all_done.

Theorem live_zero_iff_all_done : forall cs b0 es s,
  N.of_nat (length cs) < SZMODb -> b_live b0 = 0 ->
  run cs (sys_init b0) es = Some s ->
  length (s_started s) = length cs ->
  (b_live (s_best s) = 0 <-> length (s_finished s) = length cs).
Proof. exact BestProofs.live_zero_iff_all_done. Qed.
Print Assumptions live_zero_iff_all_done.
