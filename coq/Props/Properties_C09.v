(* Property C09 - theorem list: truncation, size lies and checksum damage are rejected by the reference
   decoder R (the per-run correspondence ties R's verdicts to libzstd's on every cut point). *)
From Coq Require Import NArith ZArith List Bool.
From ZV.Codec Require Import Bytes XXH64 Block Frame FrameProofs PrefixProofs.
Import ListNotations.
Local Open Scope N_scope.

(* running R on a prefix of an accepted input gives an error, or the same content with a shorter remainder *)
Theorem C09_prefix_stability : forall cfg d q z out t rest,
  decode_frame cfg d (q ++ z) = Ok (out, t, rest) ->
  match decode_frame cfg d q with
  | Ok (o2, t2, r2) => o2 = out /\ rest = r2 ++ z
  | Err _ _ => True
  end.
Proof. exact decode_frame_prefix. Qed.
Print Assumptions C09_prefix_stability.

(* a non-empty proper prefix (indeed any proper prefix) of a complete frame is never accepted *)
Theorem C09_proper_prefix_rejected : forall cfg d f out t,
  decode_frame cfg d f = Ok (out, t, []) ->
  forall k, (k < length f)%nat -> exists c s, decode_frame cfg d (firstn k f) = Err c s.
Proof. exact proper_prefix_rejected. Qed.
Print Assumptions C09_proper_prefix_rejected.

(* content size and checksum are enforced: acceptance implies they hold of the regenerated data *)
Theorem C09_size_and_checksum_enforced : forall cfg d f out t rest,
  decode_frame cfg d f = Ok (out, t, rest) ->
  (forall v, fh_fcs (ft_header t) = Some v -> v = lenN out) /\
  (fh_checksum (ft_header t) = true -> c_check cfg = true -> ft_checksum t = Some (low32 (xxh64 out 0))).
Proof.
  intros cfg d f out t rest H. pose proof (decode_frame_sound _ _ _ _ _ _ H) as S. tauto.
Qed.
Print Assumptions C09_size_and_checksum_enforced.

(* the content checksum does not depend on how the content is cut into update calls: reset / update* / digest of the
   streaming interface (block by block in the streaming decoder and compressor) computes the one-shot XXH64 of the concatenation *)
From ZV.Codec Require Import XXH64Proofs.
Theorem C09_checksum_is_chunking_independent : forall seed chunks,
  xdigest (fold_left xupdate chunks (xreset seed)) = xxh64 (concat chunks) seed.
Proof. exact xxh64_streaming. Qed.
Print Assumptions C09_checksum_is_chunking_independent.

(* ---------------- round 2: the multi-frame decoder R (ZSTD_decompress semantics) ---------------- *)
From ZV.Codec Require Import MultiFrameProofs C09Multi.

(* if R accepts q ++ z and also accepts the prefix q, the cut falls on a frame boundary: q's content and items (zstd frame with its
   content size / skippable frame with its payload size) are a prefix of those of the whole and the remainder z is an accepted stream *)
Theorem C09_multi_prefix_stability : forall cfg d q z out items,
  R cfg d (q ++ z) = Ok (out, items) ->
  match R cfg d q with
  | Ok (o2, i2) => exists o3 i3, out = o2 ++ o3 /\ map fitem_shape items = map fitem_shape (i2 ++ i3) /\ R cfg d z = Ok (o3, i3)
  | Err _ _ => True
  end.
Proof. exact R_prefix. Qed.
Print Assumptions C09_multi_prefix_stability.

(* trailing bytes that are not a sequence of frames make single-call decoding fail, whatever number of complete frames precede them *)
Theorem C09_trailing_bytes_rejected : forall cfg d s g o i c e,
  R cfg d s = Ok (o, i) -> R cfg d g = Err c e -> exists c' e', R cfg d (s ++ g) = Err c' e'.
Proof. exact R_trailing_rejected. Qed.
Print Assumptions C09_trailing_bytes_rejected.

(* several frames in one call, only the LAST one cut anywhere inside: refused *)
Theorem C09_last_frame_truncated_rejected : forall cfg d s o i f out t,
  R cfg d s = Ok (o, i) -> decode_frame cfg d f = Ok (out, t, []) ->
  forall k, (0 < k < length f)%nat -> exists c e, R cfg d (s ++ firstn k f) = Err c e.
Proof. exact R_last_frame_truncated. Qed.
Print Assumptions C09_last_frame_truncated_rejected.

(* the hypotheses are satisfiable: an empty single-segment frame (magic, descriptor 0x20, content size 0, one empty last raw block)
   is accepted by decode_frame and by R, alone and twice in a row *)
Example C09_multi_hypotheses_satisfiable :
  let f := [40; 181; 47; 253; 32; 0; 1; 0; 0] in
  (exists t, decode_frame default_config None f = Ok ([], t, [])) /\
  (exists i, R default_config None (f ++ f) = Ok ([], i)).
Proof. vm_compute. split; eexists; reflexivity. Qed.

(* ---------------- round 2: the compression side, pledged source size (model of ZSTD_compressStream2's bookkeeping) ---------------- *)
From ZV.Codec Require Import C09Pledge.

(* the tree since 99eca65 (model with fixed = true), for EVERY history of calls h (n bytes offered, directive 0/1/2 each) closed by an
   end call: with a pledge p the frame ends well iff exactly p bytes were supplied - unless no earlier call accepted a byte, i.e. the end
   directive came with the very first call or behind stable-input calls of 0 bytes (zstd.h, ZSTD_CCtx_setPledgedSrcSize note 3: the
   pledge is then overridden by what is supplied) *)
Theorem C09_pledge_enforced : forall stable p h n, no_end h ->
  verdict true stable (Some p) (h ++ [(n, 2)]) =
  Some (if orb (is_nil h) (andb (alldefb stable 0 h) (total h =? 0)) then true else total h + n =? p).
Proof. exact verdict_fixed. Qed.
Print Assumptions C09_pledge_enforced.

(* without ZSTD_c_stableInBuffer nothing is ever deferred: one earlier call of any size puts the pledge in force *)
Corollary C09_pledge_enforced_unstable : forall p c h n, no_end (c :: h) ->
  verdict true false (Some p) ((c :: h) ++ [(n, 2)]) = Some (total (c :: h) + n =? p).
Proof. intros p c h n H. rewrite verdict_fixed by exact H. reflexivity. Qed.
Print Assumptions C09_pledge_enforced_unstable.

(* the tree before 99eca65 (fixed = false): the pledge was ALSO dropped when every earlier call had been deferred by the stable-input
   path (ZSTD_c_stableInBuffer, ZSTD_e_continue, fewer than ZSTD_BLOCKSIZE_MAX bytes in total), whatever they carried - finding
   C09-stablein-deferred-pledge-overridden; on every other history the two models agree *)
Theorem C09_pledge_before_99eca65 : forall stable p h n, no_end h ->
  verdict false stable (Some p) (h ++ [(n, 2)]) =
  Some (match h with [] => true | _ => if alldefb stable 0 h then true else total h + n =? p end).
Proof. exact verdict_as_is. Qed.
Print Assumptions C09_pledge_before_99eca65.

Theorem C09_pledge_models_differ_only_when_deferred : forall stable p h n, no_end h -> alldefb stable 0 h = false ->
  verdict false stable (Some p) (h ++ [(n, 2)]) = verdict true stable (Some p) (h ++ [(n, 2)]).
Proof. exact as_is_differs_only_when_deferred. Qed.
Print Assumptions C09_pledge_models_differ_only_when_deferred.

(* without a pledge every way of feeding and ending a frame succeeds *)
Theorem C09_no_pledge_never_refused : forall fixed stable h n, no_end h -> verdict fixed stable None (h ++ [(n, 2)]) = Some true.
Proof. exact verdict_no_pledge. Qed.
Print Assumptions C09_no_pledge_never_refused.

(* input beyond the pledge may be refused as soon as it is seen: once a call reports `over`, no continuation ends the frame well *)
Theorem C09_early_refusal_is_never_a_false_alarm : forall fixed stable s m d s' h n,
  call fixed stable s m d = (s', Cok true) -> no_end h -> snd (run fixed stable s' (h ++ [(n, 2)]) []) = Some false.
Proof. exact early_refusal_sound. Qed.
Print Assumptions C09_early_refusal_is_never_a_false_alarm.

(* hypotheses satisfiable, and the finding inside the model: pledge 100, stable input, 2500 + 2500 bytes under ZSTD_e_continue, then end *)
Example C09_pledge_example :
  no_end [(2500, 0); (2500, 0)] /\
  verdict false true (Some 100) ([(2500, 0); (2500, 0)] ++ [(0, 2)]) = Some true /\
  verdict true true (Some 100) ([(2500, 0); (2500, 0)] ++ [(0, 2)]) = Some false /\
  verdict true false (Some 100) ([(2500, 0); (2500, 0)] ++ [(0, 2)]) = Some false /\
  verdict true true (Some 100) ([(0, 0)] ++ [(0, 2)]) = Some true /\
  verdict true false (Some 100) ([(0, 0)] ++ [(0, 2)]) = Some false /\
  (exists s', call true false (fresh (Some 100)) 2500 0 = (s', Cok true)).
Proof. split; [repeat constructor; discriminate|]. vm_compute. repeat split; eexists; reflexivity. Qed.
