(* Property C09 - theorem list: truncation, size lies and checksum damage are rejected by the reference
   decoder R (the per-run correspondence ties R's verdicts to libzstd's on every cut point). *)
From Coq Require Import NArith ZArith List Bool.
From ZV.Codec Require Import Bytes XXH64 Block Frame FrameProofs PrefixProofs.
Import ListNotations.
Local Open Scope N_scope.

(* running R on a prefix of an accepted input gives an error, or the same content with a shorter remainder *)
Theorem C09_prefix_stability : forall cfg d q z out t rest,
  decode_frame cfg d (q ++ z) = Ok (out, t, rest) ->
  match decode_frame cfg d q with
  | Ok (o2, t2, r2) => o2 = out /\ rest = r2 ++ z
  | Err _ _ => True
  end.
Proof. exact decode_frame_prefix. Qed.
Print Assumptions C09_prefix_stability.

(* a non-empty proper prefix (indeed any proper prefix) of a complete frame is never accepted *)
Theorem C09_proper_prefix_rejected : forall cfg d f out t,
  decode_frame cfg d f = Ok (out, t, []) ->
  forall k, (k < length f)%nat -> exists c s, decode_frame cfg d (firstn k f) = Err c s.
Proof. exact proper_prefix_rejected. Qed.
Print Assumptions C09_proper_prefix_rejected.

(* content size and checksum are enforced: acceptance implies they hold of the regenerated data *)
Theorem C09_size_and_checksum_enforced : forall cfg d f out t rest,
  decode_frame cfg d f = Ok (out, t, rest) ->
  (forall v, fh_fcs (ft_header t) = Some v -> v = lenN out) /\
  (fh_checksum (ft_header t) = true -> c_check cfg = true -> ft_checksum t = Some (low32 (xxh64 out 0))).
Proof.
  intros cfg d f out t rest H. pose proof (decode_frame_sound _ _ _ _ _ _ H) as S. tauto.
Qed.
Print Assumptions C09_size_and_checksum_enforced.

(* the content checksum does not depend on how the content is cut into update calls: reset / update* / digest of the
   streaming interface (block by block in the streaming decoder and compressor) computes the one-shot XXH64 of the concatenation *)
From ZV.Codec Require Import XXH64Proofs.
Theorem C09_checksum_is_chunking_independent : forall seed chunks,
  xdigest (fold_left xupdate chunks (xreset seed)) = xxh64 (concat chunks) seed.
Proof. exact xxh64_streaming. Qed.
Print Assumptions C09_checksum_is_chunking_independent.
