(* Property C03 - theorem list (statements only; proofs live in coq/Safety/*.v). *)
From Coq Require Import NArith ZArith List Bool String.
From ZV.Codec Require Import Bytes XXH64 Fse Huf Block Frame.
From ZV.Gen Require Import Gen_Tables Gen_C03.
From ZV.Safety Require Import DDictHashSet DDictHashSetProofs RTotal ROutput NoProgress NoProgressProofs Witnesses Consts.
Import ListNotations.
Local Open Scope N_scope.

(* ---- termination: R is a total function and its fuel is never the reason for a result ---- *)
Theorem C03_R_no_fuel_error : forall cfg d src s, R cfg d src <> Err Efuel s.
Proof. exact R_no_fuel_error. Qed.
Print Assumptions C03_R_no_fuel_error.

Theorem C03_decode_frame_no_fuel_error : forall cfg d src s, decode_frame cfg d src <> Err Efuel s.
Proof. exact decode_frame_no_fuel_error. Qed.
Print Assumptions C03_decode_frame_no_fuel_error.

Theorem C03_parse_dict_no_fuel_error : forall b s, parse_dict b <> Err Efuel s.
Proof. exact parse_dict_no_fuel_error. Qed.
Print Assumptions C03_parse_dict_no_fuel_error.

(* the zero-run loop of an FSE table description: 256 rounds already exceed every alphabet *)
Theorem C03_read_repeats_fuel_irrelevant : forall k s charnum maxSV1,
  maxSV1 <= 768 ->
  let r := read_repeats 256 s 0 in
  let r' := read_repeats (256 + k) s 0 in
  (maxSV1 <=? charnum + fst r) = (maxSV1 <=? charnum + fst r') /\ (charnum + fst r < maxSV1 -> r' = r).
Proof. exact read_repeats_fuel_irrelevant. Qed.
Print Assumptions C03_read_repeats_fuel_irrelevant.

(* the spread loop of an FSE decoding table leaves through its own condition for every table log 5..10 *)
Theorem C03_skip_high_fuel_irrelevant : forall log pos high k,
  5 <= log <= 10 -> pos < pow2 log ->
  let size := pow2 log in
  let step := N.shiftr size 1 + N.shiftr size 3 + 3 in
  skip_high 1024 pos step (size - 1) high <= high /\
  skip_high (1024 + k) pos step (size - 1) high = skip_high 1024 pos step (size - 1) high.
Proof. exact skip_high_fuel_irrelevant. Qed.
Print Assumptions C03_skip_high_fuel_irrelevant.

Theorem C03_copy_match_fuel_irrelevant : forall k x off ml,
  1 <= off -> copy_match (S (N.to_nat (ml / off)) + k) x off ml = copy_match (S (N.to_nat (ml / off))) x off ml.
Proof. exact copy_match_fuel_irrelevant. Qed.
Print Assumptions C03_copy_match_fuel_irrelevant.

Theorem C03_fse_weights_fuel_irrelevant : forall k t st1 st2 s ws,
  fse_weights_loop (130 + k) t st1 st2 s [] = Ok ws ->
  fse_weights_loop 130 t st1 st2 s [] = Ok ws \/
  (fse_weights_loop 130 t st1 st2 s [] = Err Eformat 200 /\ (lenN ws <=? 255) = false).
Proof. exact fse_weights_fuel_irrelevant. Qed.
Print Assumptions C03_fse_weights_fuel_irrelevant.

(* ---- sufficiency of the checks: an accepted sequence copies exactly ll + ml bytes out of a history that has them ---- *)
Theorem C03_checked_sequence_stays_in_history : forall base strict window blockMax x lits ll ml off x' lits',
  xwf base x -> exec_seq strict window blockMax x lits ll ml off = Ok (x', lits') ->
  xwf base x' /\ x_pos x' = x_pos x + ll + ml /\ x_blk x' = x_blk x + ll + ml /\ x_blk x' <= blockMax.
Proof. exact exec_seq_props. Qed.
Print Assumptions C03_checked_sequence_stays_in_history.

(* ---- output bound ---- *)
Theorem C03_R_output_bound : forall cfg d src out t rest,
  decode_frame cfg d src = Ok (out, t, rest) ->
  let bm := frame_block_max cfg (ft_header t) in
  bm <= 131072 /\
  Forall (fun b => bt_rsize b <= bm) (ft_blocks t) /\
  lenN out = sum_rsize (ft_blocks t) /\
  (forall v, fh_fcs (ft_header t) = Some v -> lenN out = v) /\
  lenN out <= 131072 * lenN (ft_blocks t).
Proof. exact R_output_bound. Qed.
Print Assumptions C03_R_output_bound.

(* ---- necessity witnesses: every check has a byte string that stops R at that check ---- *)
Theorem C03_witnesses_rejected_at_site :
  forallb rejected_at witness_table = true /\ forallb rejected_at_nostrict witness_table = true.
Proof. exact witnesses_rejected_at_site. Qed.
Print Assumptions C03_witnesses_rejected_at_site.

Theorem C03_witness_rejected : forall name b c s,
  In (name, b, c, s) witness_table -> R default_config None b = Err c s.
Proof. exact witness_rejected. Qed.
Print Assumptions C03_witness_rejected.

(* ---- multi-DDict hash set ---- *)
Theorem C03_ddict_hashset_in_bounds : forall (h : N -> N) (l : list (N * N)),
  exists s, add_all h next_fixed l create = HOk s /\ hs_count s < hs_size s /\
            List.length (hs_tab s) = N.to_nat (hs_size s) /\
            forall id, exists r, get h next_fixed s id = HOk r.
Proof. exact ddict_hashset_in_bounds. Qed.
Print Assumptions C03_ddict_hashset_in_bounds.

Theorem C03_ddict_hashset_finite_map : forall (h : N -> N) (l : list (N * N)) (s : hset) (id : N),
  Forall (fun e => fst e <> 0) l ->
  add_all h next_fixed l create = HOk s -> get h next_fixed s id = HOk (spec_get l id None).
Proof. exact ddict_hashset_finite_map. Qed.
Print Assumptions C03_ddict_hashset_finite_map.

Theorem C03_ddict_hashset_oob_refuted :
  get_index xxh_hash 64 3 = 63 /\ get_index xxh_hash 64 47 = 63 /\
  add_all xxh_hash next_prefix [(3, 0); (47, 1)] create = HOobRead 64.
Proof. exact ddict_hashset_oob_refuted. Qed.
Print Assumptions C03_ddict_hashset_oob_refuted.

(* ---- streaming: no-forward-progress watchdog ---- *)
Theorem C03_noprogress_bound : forall pre zs post k,
  forallb legal (pre ++ zs ++ post) = true -> forallb stalled zs = true ->
  np_run watchdog 0 (pre ++ zs ++ post) = Some k ->
  N.of_nat (List.length zs) < NO_FORWARD_PROGRESS_MAX.
Proof. exact noprogress_bound. Qed.
Print Assumptions C03_noprogress_bound.

Theorem C03_noprogress_error_at_max : forall zs,
  forallb stalled zs = true -> forallb legal zs = true -> N.of_nat (List.length zs) = NO_FORWARD_PROGRESS_MAX ->
  np_run watchdog 0 zs = None.
Proof. exact noprogress_error_at_max. Qed.
Print Assumptions C03_noprogress_error_at_max.

Theorem C03_noprogress_unbounded_without_check : forall n,
  np_run np_step_nocheck 0 (repeat {| ob_progress := false; ob_dest_full := false; ob_in_empty := true |} n) = Some (N.of_nat n).
Proof. exact noprogress_unbounded_without_check. Qed.
Print Assumptions C03_noprogress_unbounded_without_check.

(* ---- the limits of the model are the limits of the current sources ---- *)
Theorem C03_gen_consts_match_model :
  c_ZSTD_BLOCKSIZE_MAX = BLOCK_MAX /\ c_ZSTD_WINDOWLOG_MAX = 31 /\ c_ZSTD_WINDOWLOG_ABSOLUTEMIN = 10 /\
  c_MaxLL = MaxLL /\ c_MaxML = MaxML /\ c_MaxOff = MaxOff /\
  c_LLFSELog = LLFSELog /\ c_MLFSELog = MLFSELog /\ c_OffFSELog = OffFSELog /\
  c_FSE_MIN_TABLELOG = 5 /\ c_HUF_SYMBOLVALUE_MAX = 255 /\ c_LONGNBSEQ = 32512 /\
  c_MIN_LITERALS_FOR_4_STREAMS = 6 /\ c_MIN_CBLOCK_SIZE = 2 /\
  c_ZSTD_MAGICNUMBER = MAGIC /\ c_ZSTD_MAGIC_DICTIONARY = MAGIC_DICT /\ c_ZSTD_MAGIC_SKIPPABLE_START = MAGIC_SKIP /\
  c_ZSTD_SKIPPABLEHEADERSIZE = 8 /\ SKIPPABLEHEADERSIZE = 8 /\ c_ZSTD_blockHeaderSize = 3.
Proof. exact gen_consts_match_model. Qed.
Print Assumptions C03_gen_consts_match_model.
