(* Property C03 - theorem list (statements only; proofs live in coq/Safety/*.v). *)
From Coq Require Import NArith ZArith List Bool String.
From ZV.Codec Require Import Bytes XXH64 Fse Huf Block Frame.
From ZV.Gen Require Import Gen_Tables Gen_C03.
From ZV.Safety Require Import DDictHashSet DDictHashSetProofs RTotal ROutput RBound RCopy REntropy NoProgress NoProgressProofs Witnesses Consts LitBuffer LitBufferProofs RingBuffer RingBufferProofs
  Continuity ContinuityProofs CtxPointers CtxPointersProofs DictOwner DictOwnerProofs LegacyWalk LegacyWalkProofs SkipSize SkipSizeProofs.
Import ListNotations.
Local Open Scope N_scope.

(* ---- termination: R is a total function and its fuel is never the reason for a result ---- *)
Theorem C03_R_no_fuel_error : forall cfg d src s, R cfg d src <> Err Efuel s.
Proof. exact R_no_fuel_error. Qed.
Print Assumptions C03_R_no_fuel_error.

Theorem C03_decode_frame_no_fuel_error : forall cfg d src s, decode_frame cfg d src <> Err Efuel s.
Proof. exact decode_frame_no_fuel_error. Qed.
Print Assumptions C03_decode_frame_no_fuel_error.

Theorem C03_parse_dict_no_fuel_error : forall b s, parse_dict b <> Err Efuel s.
Proof. exact parse_dict_no_fuel_error. Qed.
Print Assumptions C03_parse_dict_no_fuel_error.

(* the zero-run loop of an FSE table description: 256 rounds already exceed every alphabet *)
Theorem C03_read_repeats_fuel_irrelevant : forall k s charnum maxSV1,
  maxSV1 <= 768 ->
  let r := read_repeats 256 s 0 in
  let r' := read_repeats (256 + k) s 0 in
  (maxSV1 <=? charnum + fst r) = (maxSV1 <=? charnum + fst r') /\ (charnum + fst r < maxSV1 -> r' = r).
Proof. exact read_repeats_fuel_irrelevant. Qed.
Print Assumptions C03_read_repeats_fuel_irrelevant.

(* the spread loop of an FSE decoding table leaves through its own condition for every table log 5..10 *)
Theorem C03_skip_high_fuel_irrelevant : forall log pos high k,
  5 <= log <= 10 -> pos < pow2 log ->
  let size := pow2 log in
  let step := N.shiftr size 1 + N.shiftr size 3 + 3 in
  skip_high 1024 pos step (size - 1) high <= high /\
  skip_high (1024 + k) pos step (size - 1) high = skip_high 1024 pos step (size - 1) high.
Proof. exact skip_high_fuel_irrelevant. Qed.
Print Assumptions C03_skip_high_fuel_irrelevant.

Theorem C03_copy_match_fuel_irrelevant : forall k x off ml,
  1 <= off -> copy_match (S (N.to_nat (ml / off)) + k) x off ml = copy_match (S (N.to_nat (ml / off))) x off ml.
Proof. exact copy_match_fuel_irrelevant. Qed.
Print Assumptions C03_copy_match_fuel_irrelevant.

Theorem C03_fse_weights_fuel_irrelevant : forall k t st1 st2 s ws,
  fse_weights_loop (130 + k) t st1 st2 s [] = Ok ws ->
  fse_weights_loop 130 t st1 st2 s [] = Ok ws \/
  (fse_weights_loop 130 t st1 st2 s [] = Err Eformat 200 /\ (lenN ws <=? 255) = false).
Proof. exact fse_weights_fuel_irrelevant. Qed.
Print Assumptions C03_fse_weights_fuel_irrelevant.

(* ---- sufficiency of the checks: an accepted sequence copies exactly ll + ml bytes out of a history that has them ---- *)
Theorem C03_checked_sequence_stays_in_history : forall base strict window blockMax x lits ll ml off x' lits',
  xwf base x -> exec_seq strict window blockMax x lits ll ml off = Ok (x', lits') ->
  xwf base x' /\ x_pos x' = x_pos x + ll + ml /\ x_blk x' = x_blk x + ll + ml /\ x_blk x' <= blockMax.
Proof. exact exec_seq_props. Qed.
Print Assumptions C03_checked_sequence_stays_in_history.

(* ---- every match copy reads inside the history and is the LZ77 copy ---- *)
Theorem C03_match_copy_reads_inside_history : forall f x off ml,
  xexact x -> 1 <= off -> off <= x_avail x -> ml / off < N.of_nat f ->
  xexact (copy_match f x off ml) /\ x_avail (copy_match f x off ml) = x_avail x + ml /\
  lz_copy (N.to_nat off) (x_hist x) (x_hist (copy_match f x off ml)) (N.to_nat ml).
Proof. exact copy_match_lz. Qed.
Print Assumptions C03_match_copy_reads_inside_history.

Theorem C03_accepted_sequence_is_lz_copy : forall strict window blockMax x lits ll ml off x' lits',
  xexact x -> exec_seq strict window blockMax x lits ll ml off = Ok (x', lits') ->
  xexact x' /\ x_avail x' = x_avail x + ll + ml /\
  exists la, lits = la ++ lits' /\ N.of_nat (List.length la) = ll /\
             1 <= off /\ off <= x_avail x + ll /\
             lz_copy (N.to_nat off) (rev la ++ x_hist x) (x_hist x') (N.to_nat ml).
Proof. exact exec_seq_lz. Qed.
Print Assumptions C03_accepted_sequence_is_lz_copy.

(* the hypothesis [xexact] holds of every state R reaches: initial state of a frame, sequences loop, compressed block *)
Theorem C03_decoder_states_exact :
  (forall dcontent : bytes, xexact {| x_hist := rev' dcontent; x_marks := []; x_avail := lenN dcontent; x_pos := 0; x_blk := 0 |}) /\
  (forall n strict window blockMax tll tof tml stll stof stml s rep x lits acc xs lits' rep' sqs,
     xexact x -> seq_loop n strict window blockMax tll tof tml stll stof stml s rep x lits acc = Ok (xs, lits', rep', sqs) -> xexact xs) /\
  (forall strict window blockMax e x src e' x' bt,
     xexact x -> decode_cblock strict window blockMax e x src = Ok (e', x', bt) -> xexact x').
Proof. exact decoder_states_exact. Qed.
Print Assumptions C03_decoder_states_exact.

(* ---- literal buffer placement (ZSTD_decodeLiteralsBlock / ZSTD_allocateLiteralsBuffer) ---- *)
Theorem C03_literal_buffer_placement_safe : forall kind blockSizeMax dstCapacity srcSize lhSize litSize litCSize streaming lb consumed,
  (0 <= litSize -> 0 <= lhSize -> 0 <= dstCapacity -> 0 <= blockSizeMax ->
   place kind blockSizeMax dstCapacity srcSize lhSize litSize litCSize streaming = LOk lb consumed ->
   placement_safe blockSizeMax dstCapacity srcSize litSize lb)%Z.
Proof. exact place_safe. Qed.
Print Assumptions C03_literal_buffer_placement_safe.

Theorem C03_huffman_literals_target_inside : forall blockSizeMax dstCapacity litSize streaming,
  (0 <= litSize -> litSize <= Z.min blockSizeMax dstCapacity ->
   let lb := allocate blockSizeMax dstCapacity litSize streaming (Z.min blockSizeMax dstCapacity) false in
   0 <= lb_start lb /\ lb_end lb = lb_start lb + litSize /\
   match lb_region lb with RDst => lb_end lb <= dstCapacity | RExtra => lb_end lb <= EXTRA | RSrc => False end)%Z.
Proof. exact huf_target_inside. Qed.
Print Assumptions C03_huffman_literals_target_inside.

Theorem C03_split_shift_inside : forall lb litSize,
  (lb_loc lb = Split -> EXTRA < litSize -> lb_end lb = lb_start lb + litSize ->
   let lb' := shift_split lb in
   lb_start lb <= lb_start lb' /\ lb_end lb' = lb_start lb' + (litSize - EXTRA) /\ lb_end lb' <= lb_end lb /\
   lb_start lb <= lb_end lb - EXTRA)%Z.
Proof. exact split_shift_inside. Qed.
Print Assumptions C03_split_shift_inside.

Theorem C03_split_output_behind_literals : forall pre post ews litSize,
  (Forall (fun s => 0 <= fst s /\ 0 <= snd s) (pre ++ post) ->
   EXTRA < litSize -> seq_lit (pre ++ post) <= litSize ->
   seq_out (pre ++ post) + (litSize - seq_lit (pre ++ post)) <= ews ->
   let litStart := ews - litSize + EXTRA - WILDCOPY in
   let op := seq_out pre in
   let litPtr := litStart + seq_lit pre in
   op + WILDCOPY + (EXTRA - 2 * WILDCOPY) <= litPtr /\
   match post with
   | [] => True
   | (ll, ml) :: _ => op + ll + ml + WILDCOPY <= litPtr + ll
   end)%Z.
Proof. exact split_output_behind_literals. Qed.
Print Assumptions C03_split_output_behind_literals.

Theorem C03_literal_ews_check_necessary :
  place_gen false KRle 131072 1000 4 3 131072 0 false =
    LOk {| lb_loc := Split; lb_region := RDst; lb_start := -64568; lb_end := 968 |} 4%Z /\
  place KRle 131072 1000 4 3 131072 0 false = LErr EDstTooSmall.
Proof. exact ews_check_necessary. Qed.
Print Assumptions C03_literal_ews_check_necessary.

Theorem C03_literal_blockmax_check_subsumed : forall blockSizeMax dstCapacity litSize,
  (blockSizeMax < litSize -> Z.min blockSizeMax dstCapacity < litSize)%Z.
Proof. exact lit_blockmax_check_subsumed. Qed.
Print Assumptions C03_literal_blockmax_check_subsumed.

(* ---- output ring buffer of the streaming decoder (ZSTD_decodingBufferSize_internal + restart rule of zdss_flush) ---- *)
Theorem C03_ring_buffer_safe : forall W fcs B rs s r s',
  (params_ok W fcs B -> Forall (fun r => 0 <= r) rs -> 0 <= r ->
   ring_run (buf_size W fcs B) fcs B ring0 rs = Some s ->
   ring_step (buf_size W fcs B) fcs B s r = Some s' ->
   let size := buf_size W fcs B in
   (0 <= r_start s /\ r_start s + r <= size /\ r <= B /\ (size < fcs -> r_start s + B <= size)) /\
   (forall d, 1 <= d -> d <= Z.min W (r_total s) ->
      d <= r_start s \/
      exists e, r_old s = Some e /\ e <= size /\ r_start s + Z.min B (size - r_start s) <= e - (d - r_start s) /\ 0 < d - r_start s))%Z.
Proof. exact ring_safe. Qed.
Print Assumptions C03_ring_buffer_safe.

Theorem C03_ring_buffer_needs_two_blocks :
  (let W := 1024 in let B := 1024 in let small := W + B + 2 * RWILDCOPY in
   exists s, ring_run small (2^64 - 1) B ring0 [1000; 1000] = Some s /\ r_start s = 0 /\
             r_old s = Some 2000 /\ ~ (r_start s + B <= 2000 - (W - r_start s)))%Z.
Proof. exact ring_needs_two_blocks. Qed.
Print Assumptions C03_ring_buffer_needs_two_blocks.

(* ---- output bound ---- *)
Theorem C03_R_output_bound : forall cfg d src out t rest,
  decode_frame cfg d src = Ok (out, t, rest) ->
  let bm := frame_block_max cfg (ft_header t) in
  bm <= 131072 /\
  Forall (fun b => bt_rsize b <= bm) (ft_blocks t) /\
  lenN out = sum_rsize (ft_blocks t) /\
  (forall v, fh_fcs (ft_header t) = Some v -> lenN out = v) /\
  lenN out <= 131072 * lenN (ft_blocks t).
Proof. exact R_output_bound. Qed.
Print Assumptions C03_R_output_bound.

(* ---- the output is bounded by the INPUT length alone (no declared size needed): 3 * |out| <= 128 KiB * |in| ---- *)
Theorem C03_frame_expansion_bound : forall cfg d src out t rest,
  decode_frame cfg d src = Ok (out, t, rest) ->
  (3 * List.length (ft_blocks t) + List.length rest <= List.length src)%nat /\
  3 * lenN out + 131072 * lenN rest <= 131072 * lenN src.
Proof. exact decode_frame_expansion_bound. Qed.
Print Assumptions C03_frame_expansion_bound.

Theorem C03_R_expansion_bound : forall cfg d src out items,
  R cfg d src = Ok (out, items) -> 3 * lenN out <= 131072 * lenN src.
Proof. exact R_expansion_bound. Qed.
Print Assumptions C03_R_expansion_bound.

(* ---- what the entropy-table readers guarantee to the table builders (checked on HUF_readStats / FSE_readNCount per run) ---- *)
Theorem C03_huffman_description_postconditions : forall maxLog src all log used,
  read_huf_weights maxLog src = Ok (all, log, used) ->
  1 <= log /\ log <= maxLog /\ Forall (fun w => w <= maxLog) all /\ weight_sum all = 2 ^ log /\
  N.of_nat (List.length all) <= 256.
Proof. exact read_huf_weights_post. Qed.
Print Assumptions C03_huffman_description_postconditions.

Theorem C03_fse_description_postconditions : forall maxSV maxLog src log counts used,
  read_ncount maxSV maxLog src = Ok (log, counts, used) ->
  5 <= log /\ log <= maxLog /\ count_sum counts = Z.of_N (2 ^ log) /\ lenN counts <= maxSV + 1 /\ used <= lenN src.
Proof. exact read_ncount_post. Qed.
Print Assumptions C03_fse_description_postconditions.

(* ---- necessity witnesses: every check has a byte string that stops R at that check ---- *)
Theorem C03_witnesses_rejected_at_site :
  forallb rejected_at witness_table = true /\ forallb rejected_at_nostrict witness_table = true.
Proof. exact witnesses_rejected_at_site. Qed.
Print Assumptions C03_witnesses_rejected_at_site.

Theorem C03_witness_rejected : forall name b c s,
  In (name, b, c, s) witness_table -> R default_config None b = Err c s.
Proof. exact witness_rejected. Qed.
Print Assumptions C03_witness_rejected.

(* ---- multi-DDict hash set ---- *)
Theorem C03_ddict_hashset_in_bounds : forall (h : N -> N) (l : list (N * N)),
  exists s, add_all h next_fixed l create = HOk s /\ hs_count s < hs_size s /\
            List.length (hs_tab s) = N.to_nat (hs_size s) /\
            forall id, exists r, get h next_fixed s id = HOk r.
Proof. exact ddict_hashset_in_bounds. Qed.
Print Assumptions C03_ddict_hashset_in_bounds.

(* (round 2, after fix d50580e of the lookup loop) no hypothesis on the stored dictIDs any more: raw-content DDicts (dictID 0) are
   regular entries; only the searched dictID must be non-zero, and searching 0 selects nothing *)
Theorem C03_ddict_hashset_finite_map : forall (h : N -> N) (l : list (N * N)) (s : hset) (id : N),
  id <> 0 ->
  add_all h next_fixed l create = HOk s -> get h next_fixed s id = HOk (spec_get l id None).
Proof. exact ddict_hashset_finite_map. Qed.
Print Assumptions C03_ddict_hashset_finite_map.

Theorem C03_ddict_hashset_get_zero : forall (h : N -> N) (s : hset), get h next_fixed s 0 = HOk None.
Proof. exact ddict_hashset_get_zero. Qed.
Print Assumptions C03_ddict_hashset_get_zero.

Theorem C03_ddict_hashset_oob_refuted :
  get_index xxh_hash 64 3 = 63 /\ get_index xxh_hash 64 47 = 63 /\
  add_all xxh_hash next_prefix [(3, 0); (47, 1)] create = HOobRead 64.
Proof. exact ddict_hashset_oob_refuted. Qed.
Print Assumptions C03_ddict_hashset_oob_refuted.

(* ---- streaming: no-forward-progress watchdog ---- *)
Theorem C03_noprogress_bound : forall pre zs post k,
  forallb legal (pre ++ zs ++ post) = true -> forallb stalled zs = true ->
  np_run watchdog 0 (pre ++ zs ++ post) = Some k ->
  N.of_nat (List.length zs) < NO_FORWARD_PROGRESS_MAX.
Proof. exact noprogress_bound. Qed.
Print Assumptions C03_noprogress_bound.

Theorem C03_noprogress_error_at_max : forall zs,
  forallb stalled zs = true -> forallb legal zs = true -> N.of_nat (List.length zs) = NO_FORWARD_PROGRESS_MAX ->
  np_run watchdog 0 zs = None.
Proof. exact noprogress_error_at_max. Qed.
Print Assumptions C03_noprogress_error_at_max.

Theorem C03_noprogress_unbounded_without_check : forall n,
  np_run np_step_nocheck 0 (repeat {| ob_progress := false; ob_dest_full := false; ob_in_empty := true |} n) = Some (N.of_nat n).
Proof. exact noprogress_unbounded_without_check. Qed.
Print Assumptions C03_noprogress_unbounded_without_check.

(* ---- block-level / buffer-less API: history bookkeeping (ZSTD_checkContinuity, ZSTD_insertBlock; round 2) ---- *)
(* for every call history (raw blocks announced with ZSTD_insertBlock, blocks decoded or refused by ZSTD_decompressBlock, a dictionary,
   at any addresses, with any sizes incl. 0): under the repaired bookkeeping, whatever an accepted offset of the next block can reach
   was stored by the caller or regenerated by the decoder earlier in that history *)
Theorem C03_continuity_fixed_sound : forall os a cap x,
  Forall wf_op os -> (0 < cap)%Z ->
  reach (check_cont (run step_fixed c_init os) a cap) x -> covered (written os) x.
Proof. exact continuity_fixed_sound. Qed.
Print Assumptions C03_continuity_fixed_sound.

(* the code as written has the same guarantee on histories without empty operations ... *)
Theorem C03_continuity_aswritten_sound_without_empty_ops : forall os a cap x,
  Forall wf_op os -> Forall nonempty_op os -> (0 < cap)%Z ->
  reach (check_cont (run step c_init os) a cap) x -> covered (written os) x.
Proof. exact continuity_aswritten_sound_without_empty_ops. Qed.
Print Assumptions C03_continuity_aswritten_sound_without_empty_ops.

(* ... and loses it with one empty raw block (or one empty compressed block decoded with capacity 0): finding
   C03-block-api-empty-insertblock-loses-prefix *)
Theorem C03_continuity_empty_op_refuted :
  let s := check_cont (run step c_init [Insert 1000 0]) 1000 100 in
  Forall wf_op [Insert 1000 0] /\ reach s 999 /\ ~ covered (written [Insert 1000 0]) 999 /\
  let os2 := [Insert 1000 5; Insert 5000 0] in
  let s2 := check_cont (run step c_init os2) 5000 100 in
  Forall wf_op os2 /\ reach s2 2000 /\ ~ covered (written os2) 2000 /\
  reach (check_cont (run step c_init [Decode 1000 0 0]) 1000 100) 999.
Proof. exact continuity_empty_op_refuted. Qed.
Print Assumptions C03_continuity_empty_op_refuted.

Example C03_continuity_fixed_example :
  let os := [RefDict 500 100; Insert 1000 0; Decode 1000 300 120; Insert 4000 16] in
  Forall wf_op os /\ run step_fixed c_init os = {| c_prev := 4016; c_prefix := 4000; c_virt := 3880; c_dictEnd := 1120 |}.
Proof. exact continuity_fixed_example. Qed.

(* ---- ZSTD_copyDCtx: the entropy-table pointers of a context never point into another context (round 2) ---- *)
(* for every history of ZSTD_decompressBegin[_usingDict] / _usingDDict, blocks in any table modes and ZSTD_copyDCtx between any contexts: with the
   repaired copy (a pointer into the source's entropy struct is rebased to the destination's), every table pointer of a context points into its own
   struct, a static default table or a DDict *)
Theorem C03_ctx_pointers_private : forall os c p, prun true os c = Some p -> all_private c p.
Proof. exact ctx_pointers_private. Qed.
Print Assumptions C03_ctx_pointers_private.

(* the verbatim copy (finding C03-copydctx-table-pointers-into-source): prepare context 1, copy it to context 2, decode a block in repeat mode *)
Theorem C03_ctx_pointers_copy_refuted :
  prun false [Begin 1; Copy 2 1; Block 2 Repeat Repeat Repeat Repeat] 2 = Some (Own 1, Own 1, Own 1, Own 1) /\
  ~ all_private 2 (Own 1, Own 1, Own 1, Own 1) /\
  prun true [Begin 1; Copy 2 1; Block 2 Repeat Repeat Repeat Repeat] 2 = Some (Own 2, Own 2, Own 2, Own 2).
Proof. exact ctx_pointers_copy_refuted. Qed.
Print Assumptions C03_ctx_pointers_copy_refuted.

(* ---- ZSTD_copyDCtx: a context never uses a dictionary another context owns (round 3) ---- *)
(* the fields ddictLocal (owned) / ddict (non-owning) / dictUses of a decoding context, over EVERY history of ZSTD_createDCtx, ZSTD_DCtx_loadDictionary,
   ZSTD_DCtx_refPrefix, ZSTD_DCtx_refDDict, clearing, the ZSTD_getDDict of a frame, ZSTD_freeDCtx and ZSTD_copyDCtx between any contexts:
   with the copy of fix 555a48a (a current dictionary the SOURCE owns is not inherited) no frame ever dereferences a released DDict *)
Theorem C03_dict_owner_safe : forall os, drun_ok true d_init os = true.
Proof. exact dict_owner_safe. Qed.
Print Assumptions C03_dict_owner_safe.

(* as a property of every reachable state: a current dictionary that is a context-created DDict is the context's OWN ddictLocal, and it is live *)
Theorem C03_dict_owner_current_is_own : forall os c f h,
  d_ctx (fold_left (fun s o => fst (dstep true s o)) os d_init) c = Some f -> d_cur f = DLocal h ->
  d_local f = Some h /\ ~ In h (d_freed (fold_left (fun s o => fst (dstep true s o)) os d_init)).
Proof. exact dict_owner_current_is_own. Qed.
Print Assumptions C03_dict_owner_current_is_own.

(* the verbatim copy (finding C03-copydctx-ddict-pointer-into-source): load / refPrefix on context 1, copy to context 2, free context 1 or let it load
   another dictionary, decode on context 2 : the frame reads the released DDict number 0; the repaired copy decodes without dictionary *)
Theorem C03_dict_owner_copy_refuted :
  drun_ok false d_init [DCreate 1; DCreate 2; DLoad 1; DCopy 2 1; DFree 1; DUse 2] = false /\
  drun_ok false d_init [DCreate 1; DCreate 2; DPrefix 1; DCopy 2 1; DLoad 1; DUse 2] = false /\
  snd (dstep false (fold_left (fun s o => fst (dstep false s o)) [DCreate 1; DCreate 2; DLoad 1; DCopy 2 1; DFree 1] d_init) (DUse 2)) = DLocal 0 /\
  snd (dstep true (fold_left (fun s o => fst (dstep true s o)) [DCreate 1; DCreate 2; DLoad 1; DCopy 2 1; DFree 1] d_init) (DUse 2)) = DNull.
Proof. exact dict_owner_copy_refuted. Qed.
Print Assumptions C03_dict_owner_copy_refuted.

(* not vacuous: a DDict of the caller IS inherited by the copy and used after the source is gone; an own dictionary serves its owner after the copy is gone *)
Example C03_dict_owner_example :
  let os := [DCreate 1; DCreate 2; DRef 1 7; DCopy 2 1; DFree 1; DUse 2] in
  drun_ok false d_init os = true /\ drun_ok true d_init os = true /\
  snd (dstep true (fold_left (fun s o => fst (dstep true s o)) [DCreate 1; DCreate 2; DRef 1 7; DCopy 2 1; DFree 1] d_init) (DUse 2)) = DExt 7 /\
  snd (dstep true (fold_left (fun s o => fst (dstep true s o)) [DCreate 1; DCreate 2; DLoad 1; DCopy 2 1; DFree 2] d_init) (DUse 1)) = DLocal 0.
Proof. exact dict_owner_example. Qed.

(* ---- the legacy frame walkers (ZSTDv05/v06/v07_findFrameSizeInfoLegacy) on any bytes (round 3) ---- *)
(* the walker's loop leaves through its own exits on every byte string (each block consumes its 3-byte header) *)
Theorem C03_legacy_walk_no_fuel_error : forall v src, walk v src <> WErr WFuel.
Proof. exact walk_no_fuel_error. Qed.
Print Assumptions C03_legacy_walk_no_fuel_error.

(* what ZSTD_findFrameCompressedSize reports for a legacy frame lies inside the input (and covers a header and an end mark) *)
Theorem C03_legacy_walk_csize_inside : forall v src cs bd bl, walk v src = WOk cs bd bl -> 8 <= cs <= len src.
Proof. exact walk_csize_inside. Qed.
Print Assumptions C03_legacy_walk_csize_inside.

(* the bound covers every block-by-block assignment of regenerated sizes that the decoders allow: a raw block its size, an RLE block (v0.7) its
   size field, a compressed block at most 128 KiB (the decoder-side limit of 39f3df0 / f1730e0) *)
Theorem C03_legacy_walk_bound_sound : forall v src cs bd bl rs,
  walk v src = WOk cs bd bl -> Forall2 (allowed true v) bl rs -> sumN rs <= bd.
Proof. exact walk_bound_sound. Qed.
Print Assumptions C03_legacy_walk_bound_sound.

(* necessity of that decoder-side limit: the 22-byte v0.7 frame of C06-legacy-compressed-block-exceeds-bound (one compressed block of 10 bytes, bound
   131072) regenerated 131075 bytes in the decoder without the limit *)
Theorem C03_legacy_walk_bound_needs_block_limit :
  walk V7 bigmatch_v07 = WOk 22 131072 [(0, 10, 10)] /\
  Forall2 (allowed false V7) [(0, 10, 10)] [131075] /\ 131072 < sumN [131075] /\
  ~ Forall2 (allowed true V7) [(0, 10, 10)] [131075].
Proof. exact walk_bound_needs_block_limit. Qed.
Print Assumptions C03_legacy_walk_bound_needs_block_limit.

Example C03_legacy_walk_examples :
  walk V5 [37; 181; 47; 253; 0;  64; 0; 3; 97; 98; 99;  192; 0; 0] = WOk 14 131072 [(1, 3, 3)] /\
  walk V6 [38; 181; 47; 253; 64; 3;  64; 0; 3; 97; 98; 99;  192; 0; 0] = WOk 15 131072 [(1, 3, 3)] /\
  walk V7 [39; 181; 47; 253; 0; 0;  64; 0; 0;  64; 0; 3; 97; 98; 99;  192; 0; 0] = WOk 18 262144 [(1, 0, 0); (1, 3, 3)] /\
  walk V6 [38; 181; 47; 253; 0;  64; 0; 0;  64; 0; 3; 97; 98; 99;  192; 0; 0] = WOk 8 0 [] /\
  walk V7 [39; 181; 47; 253; 0; 0;  64; 0; 9; 97] = WErr WSrcSize /\
  walk V7 [40; 181; 47; 253; 0; 0;  192; 0; 0] = WErr WPrefix.
Proof. exact walk_examples. Qed.

(* ---- skippable frames: the size arithmetic for every width of size_t (round 3; the check builds 64-bit libraries only) ---- *)
(* W = bits of size_t (32 and up), u = the 32-bit size field, n = input length: an accepted skippable frame is exactly 8 + u bytes, at least its header, at
   most the input: the frame loops (ZSTD_decompressMultiFrame, ZSTD_findDecompressedSize, ZSTD_decompressBound, ZSTD_decompressionMargin) advance and stay inside *)
Theorem C03_skippable_size_exact : forall W u n s, 32 <= W -> u < 2 ^ 32 ->
  skip_size W true u n = SOk s -> s = SKIPHDR + u /\ SKIPHDR <= s <= n.
Proof. exact skip_size_exact. Qed.
Print Assumptions C03_skippable_size_exact.

(* necessity of the wrap test on a 32-bit size_t: without it the field 0xFFFFFFF8 is a frame of 0 bytes (a loop that never advances), 0xFFFFFFFF one of 7 *)
Theorem C03_skippable_wrap_refuted :
  skip_size 32 false (2 ^ 32 - 8) 100 = SOk 0 /\ skip_size 32 false (2 ^ 32 - 1) 100 = SOk 7 /\
  skip_size 32 true (2 ^ 32 - 8) 100 = SErr /\ skip_size 32 true (2 ^ 32 - 1) 100 = SErr.
Proof. exact skip_size_wrap_refuted. Qed.
Print Assumptions C03_skippable_wrap_refuted.

(* and why dropping it is invisible in a 64-bit build for inputs below 4 GiB (mutation table of round 1) *)
Theorem C03_skippable_check_redundant_64 : forall u n, u < 2 ^ 32 -> n < 2 ^ 32 -> skip_size 64 false u n = skip_size 64 true u n.
Proof. exact skip_size_check_redundant_64. Qed.
Print Assumptions C03_skippable_check_redundant_64.

(* ZSTD_readSkippableFrame copies exactly the u content bytes: inside the input behind the header, inside the destination *)
Theorem C03_read_skippable_inside : forall W u n cap c, 32 <= W -> u < 2 ^ 32 -> n < 2 ^ W ->
  read_skip W true u n cap = SOk c -> c = u /\ c <= cap /\ SKIPHDR + c <= n.
Proof. exact read_skip_inside. Qed.
Print Assumptions C03_read_skippable_inside.

Example C03_skippable_examples :
  skip_size 64 true 5 13 = SOk 13 /\ skip_size 64 true 5 12 = SErr /\ skip_size 64 true 0 8 = SOk 8 /\ read_skip 64 true 5 13 5 = SOk 5 /\
  read_skip 64 true 5 13 4 = SErr /\ skip_size 64 true (2 ^ 32 - 8) 100 = SErr /\ skip_size 64 false (2 ^ 32 - 8) 100 = SErr.
Proof. exact skip_examples. Qed.

(* ---- the limits of the model are the limits of the current sources ---- *)
Theorem C03_gen_consts_match_model :
  c_ZSTD_BLOCKSIZE_MAX = BLOCK_MAX /\ c_ZSTD_WINDOWLOG_MAX = 31 /\ c_ZSTD_WINDOWLOG_ABSOLUTEMIN = 10 /\
  c_MaxLL = MaxLL /\ c_MaxML = MaxML /\ c_MaxOff = MaxOff /\
  c_LLFSELog = LLFSELog /\ c_MLFSELog = MLFSELog /\ c_OffFSELog = OffFSELog /\
  c_FSE_MIN_TABLELOG = 5 /\ c_HUF_SYMBOLVALUE_MAX = 255 /\ c_LONGNBSEQ = 32512 /\
  c_MIN_LITERALS_FOR_4_STREAMS = 6 /\ c_MIN_CBLOCK_SIZE = 2 /\
  c_ZSTD_MAGICNUMBER = MAGIC /\ c_ZSTD_MAGIC_DICTIONARY = MAGIC_DICT /\ c_ZSTD_MAGIC_SKIPPABLE_START = MAGIC_SKIP /\
  c_ZSTD_SKIPPABLEHEADERSIZE = 8 /\ SKIPPABLEHEADERSIZE = 8 /\ c_ZSTD_blockHeaderSize = 3.
Proof. exact gen_consts_match_model. Qed.
Print Assumptions C03_gen_consts_match_model.
