(* Property C17 - theorem list (statements only; proofs live in coq/Seq/SeqProofs.v). *)
From Coq Require Import NArith List Bool.
From ZV.Codec Require Import Bytes Block.
From ZV.Seq Require Import SeqApi SeqSpec SeqProofs.
Import ListNotations.
Local Open Scope N_scope.

(* ZSTD_finalizeOffBase + ZSTD_updateRep produce a code that the decoder's repeat-offset rule (resolve_offset of the
   reference decoder R) maps back to the raw offset, and both sides end in the same history *)
Theorem C17_offbase_finalisation_lockstep_one : forall raw ll rep,
  rep_ok rep -> 1 <= raw -> raw + 3 < M32 ->
  let ob := finalize_offbase raw rep (ll =? 0) in
  resolve_offset ob ll rep = Ok (raw, update_rep rep ob (ll =? 0)) /\ rep_ok (update_rep rep ob (ll =? 0)) /\ 1 <= ob.
Proof. exact finalize_lockstep. Qed.
Print Assumptions C17_offbase_finalisation_lockstep_one.
