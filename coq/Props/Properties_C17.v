(* Property C17 - theorem list (statements only; proofs live in coq/Seq/SeqProofs.v and coq/Seq/SeqTranscribe.v).
   Model: coq/Seq/SeqApi.v (executable, extracted for the per-run correspondence); specification-side definitions:
   coq/Seq/SeqSpec.v.  g_fixed cfg = true is the code as it is now (after the fix: commits c91e7fa, b3054e3, 81b9529);
   g_fixed cfg = false is the pinned snapshot, kept for the refutation witnesses. *)
From Coq Require Import NArith List Bool.
From ZV.Codec Require Import Bytes Block.
From ZV.Seq Require Import SeqApi SeqSpec SeqProofs SeqTranscribe SeqMinLen SeqExec SeqProducer SeqProducerFrame SeqFallback SeqAccept.
Import ListNotations.
Local Open Scope N_scope.

(* ---- transcription: the per-block seqStores are valid parses of their slices w.r.t. the whole history ---- *)
(* delimiter-free mode (ZSTD_copySequencesToSeqStoreNoBlockDelim under the block loop): every history [byte], dictionary
   size D, source size E < 2^32, every valid parse S, every block size >= minMatch >= 1, every repcode history and list of
   commit decisions, both variants: accepted => the blocks tile [0,E), each stored match is a sub-range of an original match
   with the same offset (match_ok), lengths add up. *)
Theorem C17_transcription_preserves_content_nodelim : forall byte D E cfg ers bsMax S rep dec blks,
  E < M32 -> 1 <= g_minMatch cfg -> g_minMatch cfg <= bsMax ->
  valid_from byte D 0 S E ->
  compress_sequences cfg false ers bsMax E S rep dec = Done blks ->
  blocks_valid byte D 0 blks E.
Proof. exact transcription_preserves_content_nodelim. Qed.
Print Assumptions C17_transcription_preserves_content_nodelim.

(* explicit delimiters (ZSTD_copySequencesToSeqStoreExplicitBlockDelim) *)
Theorem C17_transcription_preserves_content_explicit : forall byte D E cfg ers bsMax S rep dec blks,
  E < M32 -> valid_from_ex byte D E 0 S ->
  compress_sequences cfg true ers bsMax E S rep dec = Done blks ->
  blocks_valid byte D 0 blks E.
Proof. exact transcription_preserves_content_explicit. Qed.
Print Assumptions C17_transcription_preserves_content_explicit.

(* the minMatch adjustment: every piece stored in any block is at least minMatch long when the list's matches are, the list
   does not overrun the source and a full block holds two minimal matches ("keeps both halves >= minMatch or moves the edge") *)
Theorem C17_split_halves_at_least_minmatch : forall cfg ers bsMax srcSize S rep dec blks,
  1 <= g_minMatch cfg -> 2 * g_minMatch cfg <= bsMax + 1 -> bsMax < M32 -> srcSize < M32 ->
  seq_min (g_minMatch cfg) S -> total_len S <= srcSize ->
  compress_sequences cfg false ers bsMax srcSize S rep dec = Done blks ->
  Forall (fun b => stored_minlen (g_minMatch cfg) (b_seqs b)) blks.
Proof. exact split_halves_at_least_minmatch. Qed.
Print Assumptions C17_split_halves_at_least_minmatch.

(* LZ semantics: executing a valid parse (naive decoder exec_parse) over the literals of the source gives back the source *)
Theorem C17_lz_exec_valid_parse : forall dict x S,
  valid_parse_global dict x S ->
  let '(out, rest) := exec_parse S dict (literals_of S x 0) in out ++ rest = dict ++ x.
Proof. exact lz_exec_valid_parse. Qed.
Print Assumptions C17_lz_exec_valid_parse.

(* ---- repcodes: ZSTD_finalizeOffBase + ZSTD_updateRep stay in lock-step with the decoder's rule (resolve_offset of R) ---- *)
Theorem C17_offbase_finalisation_lockstep_one : forall raw ll rep,
  rep_ok rep -> 1 <= raw -> raw + 3 < M32 ->
  let ob := finalize_offbase raw rep (ll =? 0) in
  resolve_offset ob ll rep = Ok (raw, update_rep rep ob (ll =? 0)) /\ rep_ok (update_rep rep ob (ll =? 0)) /\ 1 <= ob.
Proof. exact finalize_lockstep. Qed.
Print Assumptions C17_offbase_finalisation_lockstep_one.

(* whole frame, both delimiter modes, both searchForExternalRepcodes modes (history rebuilt from the last three raw offsets
   when the search is skipped), every list of commit decisions of the entropy stage: a decoder that keeps its history
   across raw / RLE blocks resolves every code of every block to the raw offset it was made from *)
Theorem C17_offbase_finalisation_lockstep : forall cfg delims ers bsMax srcSize S rep dec blks,
  compress_sequences cfg delims ers bsMax srcSize S rep dec = Done blks ->
  offsets_fit delims S -> rep_ok rep -> blocks_lockstep rep dec blks.
Proof. exact offbase_finalisation_lockstep. Qed.
Print Assumptions C17_offbase_finalisation_lockstep.

(* ---- validation (code as repaired) ---- *)
(* accepted with validateSequences=1 => every stored piece has 1 <= offset <= min(window, position of the match start) +
   dictionary (dictionary only while position <= window) and matchLength >= (minMatch == 3 or producer ? 3 : 4) *)
Theorem C17_validation_complete : forall cfg delims ers bsMax srcSize S rep dec blks,
  g_fixed cfg = true -> g_validate cfg = true -> bsMax < M32 ->
  compress_sequences cfg delims ers bsMax srcSize S rep dec = Done blks -> blocks_rule cfg 0 blks.
Proof. exact validation_complete. Qed.
Print Assumptions C17_validation_complete.

(* the accepted bound is exactly the format's window rule as the reference decoder R enforces it (offset_ok, strict) *)
Theorem C17_validate_rule_is_format_rule : forall cfg pos off hist marks blk,
  1 <= off ->
  (off <= offset_bound cfg pos <->
   offset_ok true (pow2 (g_wlog cfg))
             {| x_hist := hist; x_marks := marks; x_avail := g_dict cfg + pos; x_pos := pos; x_blk := blk |} off = true).
Proof. exact validate_rule_is_format_rule. Qed.
Print Assumptions C17_validate_rule_is_format_rule.

(* arbitrary sequence arrays (32-bit fields), validation on, source + dictionary below 4 GiB: no outcome of the model is an
   out-of-bounds access (neither copier, both delimiter modes) *)
Theorem C17_validation_memory_safe : forall cfg delims ers bsMax srcSize S rep dec,
  g_fixed cfg = true -> g_validate cfg = true -> g_wlog cfg <= 31 -> bsMax < M32 ->
  srcSize + g_dict cfg + 3 < M32 -> fields32 S ->
  forall site, compress_sequences cfg delims ers bsMax srcSize S rep dec <> Oob site.
Proof. exact validation_memory_safe. Qed.
Print Assumptions C17_validation_memory_safe.

(* explicit delimiters: missing delimiter, ill-formed delimiter, block longer than the block size or than the rest of the source *)
Theorem C17_delimiter_errors : forall cfg ers bsMax srcSize S rep dec,
  srcSize <> 0 ->
  (Forall (fun s => q_off s <> 0) S -> compress_sequences cfg true ers bsMax srcSize S rep dec = Invalid 10) /\
  (forall pre d rest, S = pre ++ d :: rest -> Forall (fun s => q_off s <> 0) pre -> q_off d = 0 ->
     (q_ml d <> 0 -> compress_sequences cfg true ers bsMax srcSize S rep dec = Invalid 11) /\
     (q_ml d = 0 -> bsMax < sum32 pre + add32 (q_ll d) 0 -> compress_sequences cfg true ers bsMax srcSize S rep dec = Invalid 12) /\
     (q_ml d = 0 -> sum32 pre + add32 (q_ll d) 0 <= bsMax -> srcSize < sum32 pre + add32 (q_ll d) 0 ->
        compress_sequences cfg true ers bsMax srcSize S rep dec = Invalid 13)).
Proof. exact delimiter_errors. Qed.
Print Assumptions C17_delimiter_errors.

(* "ip == iend": a block the explicit copier accepts has lengths equal to the block size *)
Theorem C17_explicit_block_lengths_agree : forall cfg ers bsz S rep pos rest br,
  copy_explicit cfg ers bsz S rep pos = Done (rest, br) -> stored_sum32 (r_seqs br) + r_lastLL br = bsz.
Proof. exact explicit_block_lengths_agree. Qed.
Print Assumptions C17_explicit_block_lengths_agree.

(* ---- ZSTD_mergeBlockDelimiters / ZSTD_copyBlockSequences ---- *)
Theorem C17_merge_preserves_placements : forall S,
  total_len S < M32 -> placements 0 (merge_delims S 0) = placements 0 S.
Proof. exact merge_preserves_placements. Qed.
Print Assumptions C17_merge_preserves_placements.

Theorem C17_generate_resolves_like_decoder : forall stored rep offs rep',
  rep_ok rep -> Forall (fun t => 1 <= t_ob t /\ t_ob t < M32) stored ->
  decode_offsets rep stored = Ok (offs, rep') ->
  map (fun g => q_off (o_seq g)) (copy_block_sequences true stored rep) = offs /\
  map (fun g => (q_ll (o_seq g), q_ml (o_seq g))) (copy_block_sequences true stored rep) = map (fun t => (t_ll t, t_ml t)) stored.
Proof. exact generate_resolves_like_decoder. Qed.
Print Assumptions C17_generate_resolves_like_decoder.

(* ---- external producer: fallback decision ---- *)
Theorem C17_producer_fallback : forall cfg ers fallback buf nb capacity srcSize rep,
  (post_process buf nb capacity srcSize = PPfail ->
     producer_block cfg ers fallback buf nb capacity srcSize rep = if fallback then PRfallback else PRfail_producer) /\
  (forall seqs, post_process buf nb capacity srcSize = PPok seqs ->
     producer_block cfg ers fallback buf nb capacity srcSize rep <> PRfallback /\
     producer_block cfg ers fallback buf nb capacity srcSize rep <> PRfail_producer) /\
  (capacity < nb -> post_process buf nb capacity srcSize = PPfail) /\
  (nb = 0 -> 0 < srcSize -> post_process buf nb capacity srcSize = PPfail) /\
  (nb <= capacity -> 0 < nb -> 0 < srcSize -> is_delim (nth (N.to_nat (nb - 1)) buf (delim 0)) = false -> nb = capacity ->
     post_process buf nb capacity srcSize = PPfail).
Proof. exact producer_fallback. Qed.
Print Assumptions C17_producer_fallback.

(* an accepted producer answer: codes decode to the raw offsets, lengths fill the block, rule holds under validation *)
Theorem C17_producer_store_sound : forall cfg ers fallback buf nb capacity srcSize rep br,
  producer_block cfg ers fallback buf nb capacity srcSize rep = PRstore br ->
  (forall seqs, post_process buf nb capacity srcSize = PPok seqs -> Forall off_ok seqs) -> rep_ok rep ->
  decode_offsets rep (r_seqs br) = Ok (map t_raw (r_seqs br), r_rep br) /\
  stored_sum32 (r_seqs br) + r_lastLL br = srcSize /\
  (g_fixed cfg = true -> g_validate cfg = true -> srcSize < M32 -> stored_rule cfg 0 (r_seqs br)).
Proof. exact producer_store_sound. Qed.
Print Assumptions C17_producer_store_sound.

(* whatever the producer returned (count within the buffer, or an error count): no out-of-bounds access in the copier *)
Theorem C17_producer_block_memory_safe : forall cfg ers fallback buf nb capacity srcSize rep,
  g_fixed cfg = true -> g_validate cfg = true -> g_wlog cfg <= 31 -> srcSize + g_dict cfg + 3 < M32 ->
  (N.to_nat nb <= length buf)%nat \/ capacity < nb ->
  forall site, producer_block cfg ers fallback buf nb capacity srcSize rep <> PRoob site.
Proof. exact producer_block_memory_safe. Qed.
Print Assumptions C17_producer_block_memory_safe.

(* ---- refutation witnesses on the snapshot variant (each replayed on the real code by the check) ---- *)
Theorem C17_validation_offset_refuted :
  let cfg := cfg_found 12 4 0 1000 true in
  let S := [z 50 0 100; z 100 0 3900; delim 0] in
  is_done (compress_sequences cfg true false 4000 4000 S rep_start []) = true /\
  ~ rule_holds cfg 0 S /\
  is_done (compress_sequences (cfg_fixed 12 4 0 1000 true) true false 4000 4000 S rep_start []) = false.
Proof. exact validation_offset_refuted. Qed.
Print Assumptions C17_validation_offset_refuted.

Theorem C17_validation_repcode_refuted :
  let cfg := cfg_found 10 3 0 33 true in
  let S := [z 8 0 3] in
  is_done (compress_sequences cfg false true 100 100 S rep_start []) = true /\
  ~ rule_holds cfg 0 S /\
  is_done (compress_sequences (cfg_fixed 10 3 0 33 true) false true 100 100 S rep_start []) = false.
Proof. exact validation_repcode_refuted. Qed.
Print Assumptions C17_validation_repcode_refuted.

Theorem C17_validation_lengths_refuted :
  let S := [z 1 4294967295 5; delim 3996] in
  is_oob (compress_sequences (cfg_found 12 4 0 1000 true) true false 4000 4000 S rep_start []) = true /\
  compress_sequences (cfg_fixed 12 4 0 1000 true) true false 4000 4000 S rep_start [] = Invalid 14.
Proof. exact validation_lengths_refuted. Qed.
Print Assumptions C17_validation_lengths_refuted.

Theorem C17_overrun_refuted :
  let S := [z 1 1 1026] in
  is_oob (compress_sequences (cfg_found 10 4 0 256 true) false true 1024 1026 S rep_start []) = true /\
  compress_sequences (cfg_fixed 10 4 0 256 true) false true 1024 1026 S rep_start [] = Invalid 15.
Proof. exact overrun_refuted. Qed.
Print Assumptions C17_overrun_refuted.

Theorem C17_generate_ll65536_refuted :
  let st := [{| t_ll := 65536; t_ml := 4; t_ob := 2; t_raw := 4 |}; {| t_ll := 1; t_ml := 4; t_ob := 1; t_raw := 4 |}] in
  map (fun g => q_off (o_seq g)) (copy_block_sequences false st rep_start) = [4; 8] /\
  map (fun g => q_off (o_seq g)) (copy_block_sequences true st rep_start) = [4; 4] /\
  decode_offsets rep_start st = Ok ([4; 4], (4, 1, 8)).
Proof. exact generate_ll65536_refuted. Qed.
Print Assumptions C17_generate_ll65536_refuted.

(* ---- valid parses round-trip, with the entropy stage modelled (raw literals, predefined FSE tables: coq/Codec/EncodeSeq.v) instead
        of quantified over: a source cut into blocks whose parses are valid on the bytes (every match repeats the bytes at its
        offset, offsets resolve through the repeat-offset rule the transcription theorems above keep in lock-step), passing the
        number-level checks of the format, decodes - through the reference decoder - to the source ---- *)
From ZV.Codec Require Import Frame Encode EncodeProofs EncodeSeq EncodeLzFrame EncodeLzFrameProofs LzParse LzParseProofs.

Theorem C17_valid_parse_frames_round_trip : forall cfg d p dictID x sbs ebs z rest,
  let full := dict_content d ++ x in
  let win := frame_window p (lenN x) in
  let blockMax := N.min (N.min win BLOCK_MAX) (c_block_max cfg) in
  sbs <> [] ->
  sblocks_ok full (lenN (dict_content d)) (e_rep (dict_entropy d)) sbs ->
  pblocks_run (c_strict_window cfg) win blockMax (z_init d) (to_pblocks full (lenN (dict_content d)) sbs) = Some (ebs, z) ->
  params_ok p (lenN x) dictID -> c_magicless cfg = fp_magicless p -> win <= c_window_max cfg -> dict_ok d p dictID ->
  exists t, decode_frame cfg d (enc_frame p dictID ebs ++ rest) = Ok (x, t, rest).
Proof. exact valid_parses_round_trip. Qed.
Print Assumptions C17_valid_parse_frames_round_trip.

(* ---- composition with the codec model: the blocks computed by the model of ZSTD_compressSequences (delimiter-free mode) from a
        valid parse of x, handed to the modelled entropy stage (to_sblocks: tiny blocks and blocks the stage declines are stored raw;
        the others get raw literals + predefined FSE tables), assemble into a frame the reference decoder decodes to x.  The remaining
        hypothesis pblocks_run = Some ... is the format's number-level checks (window rule, ranges, block sizes) ---- *)
From ZV.Seq Require Import SeqRoundTrip.
Theorem C17_compress_sequences_round_trip : forall cfg0 dcfg d p dictID x S rep dec blks ers bsMax ebs z rest,
  let dict := dict_content d in
  let full := dict ++ x in
  let win := frame_window p (lenN x) in
  let blockMax := N.min (N.min win BLOCK_MAX) (c_block_max dcfg) in
  (* a valid parse of x, accepted and cut into blocks by the model of ZSTD_compressSequences (no explicit delimiters) *)
  lenN x < M32 -> 1 <= g_minMatch cfg0 -> g_minMatch cfg0 <= bsMax ->
  valid_parse_global dict x S ->
  compress_sequences cfg0 false ers bsMax (lenN x) S rep dec = Done blks ->
  offsets_fit false S -> rep_ok rep -> rep = e_rep (dict_entropy d) -> blks <> [] ->
  (* the number-level checks of the format pass for the blocks handed to the entropy stage *)
  pblocks_run (c_strict_window dcfg) win blockMax (z_init d) (to_pblocks full (lenN dict) (to_sblocks dec blks)) = Some (ebs, z) ->
  params_ok p (lenN x) dictID -> c_magicless dcfg = fp_magicless p -> win <= c_window_max dcfg -> dict_ok d p dictID ->
  exists t, decode_frame dcfg d (enc_frame p dictID ebs ++ rest) = Ok (x, t, rest).
Proof. exact compress_sequences_round_trip. Qed.
Print Assumptions C17_compress_sequences_round_trip.

(* ================= round 2 ================= *)
(* ---- a whole frame compressed through a registered producer (coq/Seq/SeqProducerFrame.v) ----
   producer_frame atpos: one producer call per block, each handed to ZSTD_copySequencesToSeqStoreExplicitBlockDelim;
   atpos = false: the code before fix: e3dc2db (ZSTD_buildSeqStore restarted ZSTD_sequencePosition at {0,0,0} in every block),
   atpos = true: the copier is given the position of the block in the frame (the code since fix: e3dc2db). *)

(* one block at position pos: the codes decode to the raw offsets, the lengths fill the block, and with validation on every
   stored sequence obeys the documented rule AT THE FRAME POSITION pos (C17_producer_store_sound is the instance pos = 0) *)
Theorem C17_producer_block_at_store_sound : forall cfg ers fallback buf nb capacity srcSize rep pos br,
  producer_block_at cfg ers fallback buf nb capacity srcSize rep pos = PRstore br ->
  (forall seqs, post_process buf nb capacity srcSize = PPok seqs -> Forall off_ok seqs) -> rep_ok rep ->
  decode_offsets rep (r_seqs br) = Ok (map t_raw (r_seqs br), r_rep br) /\ rep_ok (r_rep br) /\
  stored_sum32 (r_seqs br) + r_lastLL br = srcSize /\
  (g_fixed cfg = true -> g_validate cfg = true -> srcSize < M32 -> stored_rule cfg pos (r_seqs br)).
Proof. exact producer_block_at_store_sound. Qed.
Print Assumptions C17_producer_block_at_store_sound.

Theorem C17_producer_block_at_memory_safe : forall cfg ers fallback buf nb capacity srcSize rep pos,
  g_fixed cfg = true -> g_validate cfg = true -> g_wlog cfg <= 31 -> pos + srcSize + g_dict cfg + 3 < M32 ->
  (N.to_nat nb <= length buf)%nat \/ capacity < nb ->
  forall site, producer_block_at cfg ers fallback buf nb capacity srcSize rep pos <> PRoob site.
Proof. exact producer_block_at_memory_safe. Qed.
Print Assumptions C17_producer_block_at_memory_safe.

(* position-correct variant, validation on: an accepted frame obeys the documented rule block after block, for every list of
   producer answers, every repcode history and every list of commit decisions (same conclusion as C17_validation_complete,
   hence R's strict window rule by C17_validate_rule_is_format_rule) *)
Theorem C17_producer_frame_rule : forall cfg ers fb calls rep pos dec blks,
  g_fixed cfg = true -> g_validate cfg = true -> calls_small calls ->
  producer_frame true cfg ers fb calls rep pos dec = Done blks -> blocks_rule cfg pos blks.
Proof. exact producer_frame_rule. Qed.
Print Assumptions C17_producer_frame_rule.

(* both variants, validation on or off: the codes of every block stay in lock-step with the decoder's repeat-offset rule
   across the frame for every list of commit decisions; the stored lengths fill every block; one block per call *)
Theorem C17_producer_frame_lockstep : forall atpos cfg ers fb calls rep pos dec blks,
  calls_off_ok calls -> rep_ok rep ->
  producer_frame atpos cfg ers fb calls rep pos dec = Done blks ->
  blocks_lockstep rep dec blks /\ Forall (fun b => stored_sum32 (b_seqs b) + b_lastLL b = b_size b) blks /\
  map b_size blks = map pc_size calls.
Proof. exact producer_frame_lockstep. Qed.
Print Assumptions C17_producer_frame_lockstep.

(* whatever the producer writes or returns in any call: no out-of-bounds access, with the frame position ... *)
Theorem C17_producer_frame_memory_safe : forall cfg ers fb calls rep pos dec,
  g_fixed cfg = true -> g_validate cfg = true -> g_wlog cfg <= 31 -> pos + calls_total calls + g_dict cfg + 3 < M32 ->
  Forall (fun c => (N.to_nat (pc_nb c) <= length (pc_buf c))%nat \/ pc_cap c < pc_nb c) calls ->
  not_oob (producer_frame true cfg ers fb calls rep pos dec).
Proof. exact producer_frame_memory_safe. Qed.
Print Assumptions C17_producer_frame_memory_safe.
(* ... and for the code before fix: e3dc2db (the finding below is about the rule, not about memory safety) *)
Theorem C17_producer_frame_memory_safe_as_is : forall cfg ers fb calls rep pos dec,
  g_fixed cfg = true -> g_validate cfg = true -> g_wlog cfg <= 31 ->
  Forall (fun c => pc_size c + g_dict cfg + 3 < M32) calls ->
  Forall (fun c => (N.to_nat (pc_nb c) <= length (pc_buf c))%nat \/ pc_cap c < pc_nb c) calls ->
  not_oob (producer_frame false cfg ers fb calls rep pos dec).
Proof. exact producer_frame_memory_safe_as_is. Qed.
Print Assumptions C17_producer_frame_memory_safe_as_is.

(* the hypotheses are satisfiable: the two-block frame of the witness below is accepted at the frame position *)
Example C17_producer_frame_example :
  exists blks, producer_frame true (wcfg 17 0) true false w1_calls (1, 4, 8) 0 [] = Done blks /\ calls_small w1_calls /\ length blks = 2%nat.
Proof. eexists. split; [vm_compute; reflexivity|]. split; [repeat constructor|reflexivity]. Qed.

(* finding C17-producer-validation-position-restarts-per-block, machine-checked on the model (closed terms):
   (1) the code before fix: e3dc2db refuses {off 1024, ll 0, ml 1024} as second block of a frame (a valid parse whenever block 1 repeats
       block 0; the bound at frame position 1024 is 1024) - the position-correct variant accepts it and the rule holds;
   (2) with a dictionary it stores {off 2500, ll 1000, ml 24} in the sixth block of a frame with a 1 KiB window (bound at
       position 6120: 1024) and the stored frame violates blocks_rule - the position-correct variant refuses it *)
Theorem C17_producer_position_false_rejection :
  producer_frame false (wcfg 17 0) true false w1_calls (1, 4, 8) 0 [] = Invalid 1 /\
  (exists blks, producer_frame true (wcfg 17 0) true false w1_calls (1, 4, 8) 0 [] = Done blks /\ blocks_rule (wcfg 17 0) 0 blks) /\
  offset_bound (wcfg 17 0) 1024 = 1024.
Proof. exact producer_position_false_rejection. Qed.
Print Assumptions C17_producer_position_false_rejection.
Theorem C17_producer_position_false_acceptance :
  (exists blks, producer_frame false (wcfg 10 2000) true false w2_calls (1, 4, 8) 0 [] = Done blks /\ ~ blocks_rule (wcfg 10 2000) 0 blks) /\
  producer_frame true (wcfg 10 2000) true false w2_calls (1, 4, 8) 0 [] = Invalid 1 /\
  offset_bound (wcfg 10 2000) 6120 = 1024.
Proof. exact producer_position_false_acceptance. Qed.
Print Assumptions C17_producer_position_false_acceptance.

(* finding C17-validation-counts-dictionary-header: the copiers hand ZSTD_validateSequence the size of the whole dictionary
   buffer.  For every configuration, content size, header size >= 1 and position inside the first window, the offset
   position + content + header (one that reaches `header` bytes before the first byte of history) is accepted with the
   buffer size and refused with the content size. *)
Theorem C17_dict_header_accepts_beyond_content : forall cfg content header pos ml,
  pos <= pow2 (g_wlog cfg) -> 1 <= header -> match_len_lower cfg <= ml ->
  validate_fixed (with_dict cfg (content + header)) (pos + content + header) ml pos = true /\
  validate_fixed (with_dict cfg content) (pos + content + header) ml pos = false.
Proof. exact dict_header_accepts_beyond_content. Qed.
Print Assumptions C17_dict_header_accepts_beyond_content.

(* finding C17-producer-fallback-stale-third-repcode (closed witness on the model's ZSTD_finalizeOffBase and R's resolve_offset):
   a copier whose history differs from the decoder's in the THIRD entry only - what the internal parsers below btopt leave
   behind after a fallback block - codes raw offset 5 as repeat code 3, which the decoder resolves to 37 *)
Theorem C17_stale_third_repcode_breaks_lockstep :
  let enc := (150, 64, 5) in let dec := (150, 64, 37) in
  let ob := finalize_offbase 5 enc false in
  ob = 3 /\ resolve_offset ob 1 dec = Ok (37, (37, 150, 64)) /\ resolve_offset ob 1 enc = Ok (5, (5, 150, 64)).
Proof. exact stale_third_repcode_breaks_lockstep. Qed.
Print Assumptions C17_stale_third_repcode_breaks_lockstep.

(* ---- round 3: blocks that fall back to the internal parser inside a producer frame (coq/Seq/SeqFallback.v) ----
   producer_frame_fb fbfix atpos: the block loop of round 2 extended with the fallback branch of ZSTD_buildSeqStore.  What the
   internal parser stores is an input (a function of the history the block starts from); the history kept after such a block is
   modelled: fbfix = true rebuilds it from the seqStore with ZSTD_updateRep (the code since fix: a9c9307), fbfix = false keeps the
   parser's two repeat offsets and the stale third entry (the code before it, strategies below btopt). *)
(* the rebuilt history is the history of a decoder that decoded the block *)
Theorem C17_fallback_history_is_decoder_history : forall seqs rep offs rd,
  rep_ok rep -> codes_ok seqs ->
  decode_offsets rep seqs = Ok (offs, rd) -> fallback_history rep seqs = rd /\ rep_ok rd.
Proof. exact fallback_history_is_decoder. Qed.
Print Assumptions C17_fallback_history_is_decoder_history.
(* the whole frame stays in lock-step with the decoder, fallback blocks included: every list of producer answers, every
   internal-parser output with decodable codes (parser_ok), every start history, every list of commit decisions, validation on
   or off, both positions *)
Theorem C17_producer_frame_fallback_lockstep : forall atpos cfg ers fb calls rep pos dec blks,
  calls_off_ok (xcalls calls) -> Forall (fun cx => parser_ok (px_parser cx)) calls -> rep_ok rep ->
  producer_frame_fb true atpos cfg ers fb calls rep pos dec = Done blks ->
  blocks_lockstep rep dec blks /\ map b_size blks = map pc_size (xcalls calls).
Proof. exact producer_frame_fb_lockstep. Qed.
Print Assumptions C17_producer_frame_fallback_lockstep.
(* hypotheses satisfiable, conclusion not vacuous: a three-block frame producer / fallback / producer is accepted *)
Theorem C17_producer_frame_fallback_example :
  calls_off_ok (xcalls w3_calls) /\ Forall (fun cx => parser_ok (px_parser cx)) w3_calls /\ rep_ok (1, 4, 8) /\
  exists blks, producer_frame_fb true true fcfg true true w3_calls (1, 4, 8) 0 [] = Done blks /\ length blks = 3%nat.
Proof. exact producer_frame_fb_example. Qed.
Print Assumptions C17_producer_frame_fallback_example.
(* with the fallback switched off the extended loop is the loop of round 2 (theorems 20-23 carry over) *)
Theorem C17_producer_frame_fb_without_fallback : forall fbfix atpos cfg ers calls rep pos dec,
  producer_frame_fb fbfix atpos cfg ers false calls rep pos dec = producer_frame atpos cfg ers false (xcalls calls) rep pos dec.
Proof. exact producer_frame_fb_no_fallback. Qed.
Print Assumptions C17_producer_frame_fb_without_fallback.
(* no out-of-bounds outcome whatever the producer writes or returns and whatever the internal parser stores *)
Theorem C17_producer_frame_fallback_memory_safe : forall fbfix cfg ers fb calls rep pos dec,
  g_fixed cfg = true -> g_validate cfg = true -> g_wlog cfg <= 31 -> pos + calls_total (xcalls calls) + g_dict cfg + 3 < M32 ->
  Forall (fun c => (N.to_nat (pc_nb c) <= length (pc_buf c))%nat \/ pc_cap c < pc_nb c) (xcalls calls) ->
  not_oob (producer_frame_fb fbfix true cfg ers fb calls rep pos dec).
Proof. exact producer_frame_fb_memory_safe. Qed.
Print Assumptions C17_producer_frame_fallback_memory_safe.
(* finding C17-producer-fallback-stale-third-repcode at frame level (closed terms): producer block leaving (64, 37, 5), block
   falling back to the fast parser ({ll 150, ml 874, offset 150}), producer block {off 5, ll 4, ml 40}: the code before a9c9307
   stores repeat code 3 and the frame is NOT in lock-step (the decoder resolves 37); the code since stores the explicit offset
   and the frame is in lock-step *)
Theorem C17_fallback_stale_history_frame_refuted :
  (exists blks, producer_frame_fb false true fcfg true true w3_calls (1, 4, 8) 0 [] = Done blks /\
                map (fun b => map t_ob (b_seqs b)) blks = [[8; 40; 67]; [153]; [3]] /\ ~ blocks_lockstep (1, 4, 8) [] blks) /\
  (exists blks, producer_frame_fb true true fcfg true true w3_calls (1, 4, 8) 0 [] = Done blks /\
                map (fun b => map t_ob (b_seqs b)) blks = [[8; 40; 67]; [153]; [8]] /\ blocks_lockstep (1, 4, 8) [] blks).
Proof. exact fallback_stale_history_frame_refuted. Qed.
Print Assumptions C17_fallback_stale_history_frame_refuted.

(* ---- round 3: completeness for explicit delimiters (coq/Seq/SeqAccept.v): rule-abiding lists are never refused ----
   rule_list cfg pos pre = the documented rule on the caller's sequences (1 <= offset <= bound at the position where the match
   starts, matchLength >= lower bound).  The code as repaired (g_fixed), validation on or off, repcode search on or off, every
   history. *)
(* one block: sequences that obey the rule (required under validation only), fill the block exactly together with the
   delimiter's literals, number at most maxNbSeq, offsets below 2^32-3: ZSTD_copySequencesToSeqStoreExplicitBlockDelim succeeds,
   consumes the block and leaves the position at the end of the block *)
Theorem C17_explicit_block_accepted : forall cfg ers bsz pre d rest rep pos,
  g_fixed cfg = true -> bsz < M32 ->
  nondelims pre -> SeqApi.is_delim d = true -> offs_small pre ->
  (g_validate cfg = true -> rule_list cfg pos pre) ->
  N.of_nat (length pre) <= g_maxNbSeq cfg ->
  length_sum pre + SeqApi.q_ll d = bsz ->
  exists br, copy_explicit cfg ers bsz (pre ++ d :: rest) rep pos = Done (rest, br) /\ r_adj br = 0 /\
    (g_validate cfg = true -> r_pos br = pos + bsz).
Proof. exact copy_explicit_accepts. Qed.
Print Assumptions C17_explicit_block_accepted.
(* ZSTD_compressSequences with explicit delimiters: a list made of such blocks, each at most the block size, covering the source,
   is accepted (whatever follows in the array is ignored); with theorems 2 and 4 the blocks it returns are valid parses of their
   slices and in lock-step with the decoder *)
Theorem C17_explicit_lists_accepted : forall cfg ers bsMax bs trailing rep dec,
  g_fixed cfg = true -> bsMax < M32 -> xbs_ok cfg bsMax 0 bs ->
  exists blks, compress_sequences cfg true ers bsMax (xbs_total bs) (flat bs ++ trailing) rep dec = Done blks.
Proof. exact compress_sequences_accepts_explicit. Qed.
Print Assumptions C17_explicit_lists_accepted.
Theorem C17_explicit_lists_accepted_example :
  xbs_ok (wcfg 17 0) 1024 0 xw_blocks /\ xbs_total xw_blocks = 40 /\
  exists blks, compress_sequences (wcfg 17 0) true true 1024 40 (flat xw_blocks) (1, 4, 8) [] = Done blks /\ length blks = 2%nat.
Proof. exact compress_sequences_accepts_explicit_example. Qed.
Print Assumptions C17_explicit_lists_accepted_example.
(* a producer call whose (post-processed) answer is such a block at the block's position in the frame is stored, and a frame of
   such calls is never refused (code since fix: e3dc2db; for the code before it see C17_producer_position_false_rejection) *)
Theorem C17_producer_answer_accepted : forall cfg ers fb c rep pos,
  g_fixed cfg = true -> call_abides cfg pos c ->
  exists br, producer_block_at cfg ers fb (pc_buf c) (pc_nb c) (pc_cap c) (pc_size c) rep pos = PRstore br.
Proof. exact producer_block_at_accepts. Qed.
Print Assumptions C17_producer_answer_accepted.
Theorem C17_producer_frame_never_refuses_valid_answers : forall cfg ers fb calls rep pos dec,
  g_fixed cfg = true -> calls_abide cfg pos calls ->
  exists blks, producer_frame true cfg ers fb calls rep pos dec = Done blks.
Proof. exact producer_frame_accepts. Qed.
Print Assumptions C17_producer_frame_never_refuses_valid_answers.
(* satisfiable, and position matters: the frame of the false-rejection witness abides at the frame positions, while its second
   answer does not obey the rule at position 0 *)
Theorem C17_producer_frame_accepts_example :
  calls_abide (wcfg 17 0) 0 w1_calls /\ ~ rule_list (wcfg 17 0) 0 [{| q_off := 1024; SeqApi.q_ll := 0; SeqApi.q_ml := 1024 |}].
Proof. exact producer_frame_accepts_example. Qed.
Print Assumptions C17_producer_frame_accepts_example.

(* producer frames with validation on, sound AND complete (composition of the theorem above with C17_producer_frame_rule and
   C17_producer_frame_lockstep): a frame of rule-abiding answers is accepted, every stored sequence obeys the documented rule
   (= R's strict window rule), the codes are in lock-step with the decoder for every list of commit decisions, the lengths fill
   every block, one block per call *)
Theorem C17_producer_frame_sound_and_complete : forall cfg ers fb calls rep dec,
  g_fixed cfg = true -> g_validate cfg = true -> rep_ok rep -> calls_abide cfg 0 calls ->
  exists blks, producer_frame true cfg ers fb calls rep 0 dec = Done blks /\
    blocks_rule cfg 0 blks /\ blocks_lockstep rep dec blks /\
    Forall (fun b => stored_sum32 (b_seqs b) + b_lastLL b = b_size b) blks /\ map b_size blks = map pc_size calls.
Proof. exact producer_frame_sound_and_complete. Qed.
Print Assumptions C17_producer_frame_sound_and_complete.
