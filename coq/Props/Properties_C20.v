(* C20 - seekable format: theorem list (statements only; proofs are in ZV.Seek.*Proofs). *)
From Coq Require Import NArith List Bool.
From ZV.Gen Require Import Gen_Seek.
From ZV.Seek Require Import SeekTable SeekBase SeekTableProofs SeekLoadProofs SeekLoadSafe SeekWriteProofs SeekWriter.
From ZV.Seek Require Import SeekReader SeekReaderProofs SeekEndToEnd SeekCompressProofs SeekIntegrity.
From ZV.Seek Require Import SeekReaderOld SeekBeyond SeekExact.
From ZV.Seek Require Import SeekLoadConverse SeekFailed SeekInput SeekInputProofs SeekReaderOld3.
Import ListNotations.
Local Open Scope N_scope.

Theorem le32_roundtrip : forall v, v < 4294967296 -> rd32 (le32 v) = v.
Proof. exact rd32_le32. Qed.
Print Assumptions le32_roundtrip.

(* ZSTD_seekTable_offsetToFrameIndex on EVERY well-formed table and EVERY position: past the end -> numFrames,
   otherwise a frame i with dOffset[i] <= pos < dOffset[i+1]; the loop neither runs out of its log2 fuel nor
   leaves the table *)
Theorem offset_to_frame_correct : forall t pos, wf_table t ->
  (e_d (ent t (t_len t)) <= pos -> offset_to_frame t pos = Ok (t_len t)) /\
  (pos < e_d (ent t (t_len t)) ->
   exists i, offset_to_frame t pos = Ok i /\ i < t_len t /\
             e_d (ent t i) <= pos /\ pos < e_d (ent t (i + 1))).
Proof. exact offset_to_frame_spec. Qed.
Print Assumptions offset_to_frame_correct.

Theorem offset_to_frame_never_traps : forall t pos, wf_table t ->
  exists i, offset_to_frame t pos = Ok i /\ i <= t_len t.
Proof. exact offset_to_frame_total. Qed.
Print Assumptions offset_to_frame_never_traps.

Theorem frame_containing_offset_unique : forall t pos i j, wf_table t ->
  i < t_len t -> j < t_len t ->
  e_d (ent t i) <= pos < e_d (ent t (i + 1)) ->
  e_d (ent t j) <= pos < e_d (ent t (j + 1)) -> i = j.
Proof. exact frame_containing_unique. Qed.
Print Assumptions frame_containing_offset_unique.

Theorem accessors_consistent : forall t i, wf_table t -> i < t_len t ->
  get_frame_c_offset t i = Ok (e_c (ent t i)) /\
  get_frame_d_offset t i = Ok (e_d (ent t i)) /\
  get_frame_c_size t i = Ok (sub64 (e_c (ent t (i + 1))) (e_c (ent t i))) /\
  get_frame_d_size t i = Ok (sub64 (e_d (ent t (i + 1))) (e_d (ent t i))).
Proof. exact accessors_in_table. Qed.
Print Assumptions accessors_consistent.

Theorem accessors_index_too_large : forall t i, t_len t <= i ->
  get_frame_c_offset t i = Ok TOOLARGE /\
  get_frame_d_offset t i = Ok TOOLARGE /\
  get_frame_c_size t i = Ok ERR_TOOLARGE /\
  get_frame_d_size t i = Ok ERR_TOOLARGE.
Proof. exact accessors_beyond. Qed.
Print Assumptions accessors_index_too_large.

(* refutation witness kept for the code before fix fcd1515 *)
Theorem accessor_before_fix_reads_out_of_table : get_frame_d_size_old old_witness 1 = Trap 43.
Proof. exact old_d_size_out_of_range. Qed.
Print Assumptions accessor_before_fix_reads_out_of_table.

Theorem table_of_log_wf : forall fl (log : list logent),
  lenN log < 4294967295 -> Forall dsize_ok log -> wf_table (table_of fl log).
Proof. exact table_of_wf. Qed.
Print Assumptions table_of_log_wf.

(* load (anything || the seek table the writer's format prescribes for a frame log) = the table of that log:
   for EVERY frame log up to ZSTD_SEEKABLE_MAXFRAMES entries, both checksum settings, every preceding archive
   content [pre] and every previous content of the reader's buffer (chunked loader, refills included) *)
Theorem seektable_roundtrip : forall fl log pre buf0,
  lenN buf0 = sk_BUFF -> lenN log <= MAXFRAMES -> Forall logent_ok log ->
  load_seek_table sk_BUFF (pre ++ seek_table_bytes (cf_of fl) log) buf0 = Ok (table_of fl log).
Proof. exact seektable_roundtrip_BUFF. Qed.
Print Assumptions seektable_roundtrip.

(* ARBITRARY file bytes: the loader never uses an out-of-range index (no Trap), and whatever it accepts is a
   well-formed table - so by the theorems above every later binary search / accessor stays inside it *)
Theorem malformed_table_safe : forall file buf0,
  bytes_ok file -> lenN buf0 = sk_BUFF -> bytes_ok buf0 ->
  match load_seek_table sk_BUFF file buf0 with
  | Ok t => wf_table t
  | Err _ => True
  | Trap _ => False
  end.
Proof. exact load_safe_BUFF. Qed.
Print Assumptions malformed_table_safe.

(* ---------------------------------------------------------------- the reader ----------------------------------
   Hypotheses: the table is well formed (malformed_table_safe: every table the loader accepts is), frame i
   regenerates x[dOffset i, dOffset (i+1)) (frames_match: the decoder's correctness, C01/C02), and with checksums
   on the table's checksums are those of the frames.  H (the hash), BUFF, NOPROG and both variants of the short-frame
   check are arbitrary.  The decoder's pacing (bytes per call, when it reports completion) is an arbitrary oracle. *)

(* EVERY read history from the state after init - ranges with offset+len <= |x| and decompressFrame calls with any
   index / dstSize, in any order, each with any previous dst content and any decoder pacing: a call that succeeds
   returns exactly x[offset, offset+len) and leaves dst beyond len untouched; decompressFrame refuses exactly
   index >= numFrames / dstSize < frame size; the only other outcomes are "oracle exhausted" and the no-progress
   error; never an out-of-range index, never corruption_detected, never a spin without decoder calls; the cache
   (curFrame, decompressedOffset, decoder position, running hash) satisfies the invariant after every call, failed or
   not, which is what makes any order work *)
Theorem range_read_correct : forall H content BUFF NOPROG t sfc x,
  wf_table t -> frames_match content t x -> checksums_match H content t ->
  forall h, Forall (fun c => op_in_range t (fst (fst c))) h ->
  history_ok H content BUFF NOPROG t sfc x rinit h.
Proof. exact range_read_history. Qed.
Print Assumptions range_read_correct.

(* when the decoder makes progress on every call and reports completion with a frame's last byte, a call from ANY
   reachable cache state returns (ROk) the slice within offset+len decoder calls *)
Theorem range_read_terminates : forall H content BUFF NOPROG t sfc x st dst0 len offset orc,
  wf_table t -> frames_match content t x -> checksums_match H content t ->
  Inv content t st -> offset + len <= e_d (ent t (t_len t)) ->
  live_call BUFF offset len orc ->
  exists st', seekable_decompress H content BUFF NOPROG t sfc st dst0 len offset orc
              = ROk len (sliceN x offset len ++ skipN dst0 len) st' /\ Inv content t st'.
Proof. exact range_read_live. Qed.
Print Assumptions range_read_terminates.

(* the hypotheses are satisfiable (three frames, one of them empty, checksums on) *)
Theorem reader_hypotheses_satisfiable :
  wf_table ex_t /\ frames_match ex_content ex_t ex_x /\ checksums_match ex_H ex_content ex_t.
Proof. exact (conj ex_wf (conj ex_frames ex_sums)). Qed.
Print Assumptions reader_hypotheses_satisfiable.

(* refutation witness kept for the code before fix e8679b7 (short_frame_check = false): a frame regenerating 16 bytes
   under a table entry claiming 32 - however many decoder calls are granted, the loop wants another one *)
Theorem reader_before_fix_never_returns : forall n dst0,
  exists d s, seekable_decompress ex_H sf_content 131072 16 sf_t false rinit dst0 32 0 (repeat (16, true) n) = RFuel d s.
Proof. exact livelock_before_fix. Qed.
Print Assumptions reader_before_fix_never_returns.

Theorem reader_after_fix_reports_corruption :
  exists d s, seekable_decompress ex_H sf_content 131072 16 sf_t true rinit (repeat 0 32) 32 0 (repeat (16, true) 40)
              = RErr sk_E_corruption_detected d s.
Proof. exact no_livelock_after_fix. Qed.
Print Assumptions reader_after_fix_reports_corruption.

(* ---------------------------------------------------------------- the resumable table writer ------------------
   ZSTD_seekable_writeSeekTable called again and again with ANY output room per call (0, 1, 3 bytes, ...), for
   every frame log up to MAXFRAMES and every checksumFlag: no call fails or reads tmp[4] out of range; the calls emit
   consecutive slices of seek_table_bytes (so their concatenation is a prefix of it, the whole of it once a call
   returns 0); each call returns exactly the number of bytes still missing; a call with room > 0 on an unfinished
   table writes at least one byte (so the table completes after at most |table| such calls).  Together with
   seektable_roundtrip: whatever the segmentation, the loader reads back the table of the frame log. *)
Theorem seek_table_writer_any_segmentation : forall cf log,
  lenN log <= MAXFRAMES -> forall avails,
  hist_spec cf log 0 avails (write_history cf log 0 0 avails).
Proof. exact write_history_from_start. Qed.
Print Assumptions seek_table_writer_any_segmentation.

(* ---------------------------------------------------------------- composition ---------------------------------
   For EVERY list of frames (compressed size, content; sizes < 2^32; at most MAXFRAMES), both checksum settings, any
   archive bytes before the table: the seek table the format prescribes for the frame log loads (chunked loader)
   into a table for which every read history returns slices of x = concatenation of the frame contents, given only
   that frame i decodes to its content (the oracle's pacing is arbitrary). *)
Theorem archive_reads_back : forall H fl frames pre buf0 NOPROG sfc,
  Forall frame_ok frames -> lenN frames <= MAXFRAMES -> lenN buf0 = sk_BUFF ->
  exists t, load_seek_table sk_BUFF (pre ++ seek_table_bytes (cf_of fl) (log_of H fl frames)) buf0 = Ok t /\
    forall h, Forall (fun c => op_in_range t (fst (fst c))) h ->
      history_ok H (content_of frames) sk_BUFF NOPROG t sfc (whole frames) rinit h.
Proof. exact archive_reads_back_lemma. Qed.
Print Assumptions archive_reads_back.

(* ---------------------------------------------------------------- the compressor's bookkeeping ----------------
   EVERY history of ZSTD_seekable_compressStream / endFrame / endStream calls from initCStream (any maxFrameSize the
   init accepts, any checksumFlag), EVERY behaviour of the inner ZSTD_CStream (oracle: bytes consumed / produced /
   return value per inner call).  Contract (ops_ok): no compressStream / endFrame after the seek-table phase started;
   ZSTD_endStream results are error codes or < 2^63.  Then: the frame log is exactly log_of the frames the consumed
   input was cut into (compressed size mod 2^32, content length, low 32 bits of H(content) when checksums are on);
   every frame holds at most maxFrameSize bytes; at most MAXFRAMES entries; frames ++ the pending bytes = the bytes the
   calls consumed, in order; and whatever was written in the table phase is a prefix of the table of that log. *)
Theorem compressor_frame_log_correct : forall H cf m s0 ops s' rets,
  c_init cf m = Ok s0 -> ops_ok H s0 ops -> c_run H s0 ops = Some (s', rets) ->
  let frames := norm_frames s' in
  c_log s' = log_of H (flag_set cf) frames /\
  Forall (fun f => lenN (snd f) <= c_mfs s') frames /\ 1 <= c_mfs s' <= 1073741824 /\
  lenN (c_log s') <= MAXFRAMES /\
  whole frames ++ revT (g_cur s') = fed_of ops rets /\
  (c_wst s' = true -> g_cur s' = [] /\ exists n, g_table s' = firstN (seek_table_bytes cf (c_log s')) n).
Proof. exact compressor_log_correct. Qed.
Print Assumptions compressor_frame_log_correct.

(* when the last call is an endStream that returns 0, the complete seek table of the frame log has been written
   (in however many pieces, with whatever room per call) and no input is pending *)
Theorem compressor_endStream_zero_means_complete : forall H cf m s0 ops avail orc s' rets k,
  c_init cf m = Ok s0 -> ops_ok H s0 (ops ++ [OpEndStream avail orc]) ->
  c_run H s0 (ops ++ [OpEndStream avail orc]) = Some (s', rets ++ [(0, k)]) -> lenN rets = lenN ops ->
  g_table s' = seek_table_bytes cf (c_log s') /\ g_cur s' = [].
Proof. exact compressor_table_complete. Qed.
Print Assumptions compressor_endStream_zero_means_complete.

(* the model of compressStream depends on the first maxFrameSize bytes of the offered input only (used by the
   correspondence driver to avoid handing the whole remaining input to the model at every call) *)
Theorem compressStream_reads_at_most_maxFrameSize : forall H s inp orc,
  c_fd s <= c_mfs s -> c_mfs s < 4294967296 ->
  c_compress H s inp orc = c_compress H s (firstN inp (c_mfs s)) orc.
Proof. exact c_compress_input_prefix. Qed.
Print Assumptions compressStream_reads_at_most_maxFrameSize.

(* ---------------------------------------------------------------- integrity with checksums on (after fix 943db3b)
   NO assumption on what the frames regenerate (any bytes, any length - shorter, equal or LONGER than the table
   entry), any hash, any decoder pacing.  If the bytes frame b regenerates do not hash to the checksum the table holds
   for it (b non-empty per the table), then a read on a freshly opened archive that starts before the end of frame b
   and goes past it never succeeds: the outcome is an error (corruption_detected / seekableIO) or "oracle exhausted",
   never ROk, never an out-of-range index, never a spin.  (Before 943db3b an overlong frame escaped: its surplus was
   returned as the next frame's data when the read ended inside the surplus.)  Not covered: reads ending exactly at or
   before the end of the damaged frame - the checksum has not been reached, inherent to the format. *)
Theorem damaged_frame_never_read_through : forall H content BUFF NOPROG t,
  wf_table t -> t_flag t = true -> forall b, b < t_len t -> e_d (ent t b) < e_d (ent t (b + 1)) ->
  H (content b) mod 4294967296 <> e_k (ent t b) ->
  forall dst0 len offset orc,
  offset < e_d (ent t (b + 1)) -> e_d (ent t (b + 1)) < offset + len -> offset + len <= e_d (ent t (t_len t)) ->
  not_ok (seekable_decompress H content BUFF NOPROG t true rinit dst0 len offset orc).
Proof. exact damaged_frame_not_read_through. Qed.
Print Assumptions damaged_frame_never_read_through.

(* ---------------------------------------------------------------- a failed seek callback (fix c859e4f) -------------
   restart_seek_failed models the restart branch returning seekableIO because src.seek failed.  Current code
   (cache_first = false: curFrame = (U32)-1 before the seek, position recorded after it succeeded): the state after
   the failed call satisfies the cache invariant for EVERY table, state and target - so range_read_correct /
   range_read_terminates apply to whatever is read next.  Witness for the code before the fix (cache assigned before the
   seek): after reading byte 3, a failed seek towards offset 0 and a retry, the model returns success with x[4] where
   x[0] belongs. *)
Theorem failed_seek_leaves_consistent_cache : forall content t st target, wf_table t ->
  Inv content t (restart_seek_failed t false st target).
Proof. exact failed_seek_keeps_invariant. Qed.
Print Assumptions failed_seek_leaves_consistent_cache.

Theorem failed_seek_before_fix_returns_wrong_data :
  exists st', seekable_decompress ex_H ex_content 4 16 ex_t0 true
                (restart_seek_failed ex_t0 true after_first_read 0) [0] 1 0 (repeat (1, false) 8) = ROk 1 [50] st'
              /\ sliceN ex_x 0 1 = [10].
Proof. exact stale_cache_wrong_data. Qed.
Print Assumptions failed_seek_before_fix_returns_wrong_data.

(* ================================================================ round 2 =========================================
   Findings of round 2, all repaired in /repo; the model mirrors the repaired code; the theorems below state what the
   repairs achieve for EVERY input, the *_before_fix ones are refutation witnesses about the old step functions
   (SeekReaderOld.v, c_compress_body). *)

(* ---- fix 7f35186: a read that stops EXACTLY at the end of a damaged frame (every ZSTD_seekable_decompressFrame call is
   such a read) never succeeds either - the loop drives the decoder to the end of the frame and compares the checksum;
   generalises damaged_frame_never_read_through (D (b+1) <= offset + len instead of <).  No assumption on the contents. *)
Theorem damaged_frame_never_read_to_its_end : forall H content BUFF NOPROG t,
  wf_table t -> t_flag t = true -> forall b, b < t_len t -> e_d (ent t b) < e_d (ent t (b + 1)) ->
  H (content b) mod 4294967296 <> e_k (ent t b) ->
  forall dst0 len offset orc,
  offset < e_d (ent t (b + 1)) -> e_d (ent t (b + 1)) <= offset + len -> offset + len <= e_d (ent t (t_len t)) ->
  not_ok (seekable_decompress H content BUFF NOPROG t true rinit dst0 len offset orc).
Proof. exact damaged_frame_not_read_to_its_end. Qed.
Print Assumptions damaged_frame_never_read_to_its_end.
(* the model computes: a frame of the right length with one wrong byte, pacing "all bytes, then two stalled calls, then
   frame complete" (what libzstd shows for a frame with its own content checksum): corruption_detected *)
Theorem exact_frame_read_of_damaged_frame_example :
  lenN (bad_content2 0) = e_d (ent ex_t 1) - e_d (ent ex_t 0) /\
  match seekable_decompress_frame ex_H bad_content2 4 16 ex_t true rinit [0; 0; 0] 3 0 [(3, false); (0, false); (0, true)] with
  | RErr c _ _ => c = sk_E_corruption_detected
  | _ => False
  end.
Proof. exact exact_frame_run. Qed.
Print Assumptions exact_frame_read_of_damaged_frame_example.
(* before the fix: for EVERY well-formed table, EVERY frame b and ANY regenerated bytes of the right length, the exact read
   and decompressFrame(b) with the pacing [(n, false)] returned SUCCESS with those bytes - no checksum was consulted *)
Theorem exact_frame_read_unchecked_before_fix : forall H content BUFF NOPROG t sfc, wf_table t ->
  forall b, b < t_len t -> e_d (ent t b) < e_d (ent t (b + 1)) ->
  lenN (content b) = e_d (ent t (b + 1)) - e_d (ent t b) -> forall dst0,
  exists st1, seekable_decompress_old H content BUFF NOPROG t sfc rinit dst0
                (e_d (ent t (b + 1)) - e_d (ent t b)) (e_d (ent t b)) [(e_d (ent t (b + 1)) - e_d (ent t b), false)]
              = ROk (e_d (ent t (b + 1)) - e_d (ent t b)) (buf_store dst0 0 (content b)) st1.
Proof. exact SeekExact.exact_frame_read_unchecked_before_fix. Qed.
Print Assumptions exact_frame_read_unchecked_before_fix.
Theorem exact_frame_decompressFrame_unchecked_before_fix : forall H content BUFF NOPROG t sfc, wf_table t ->
  forall b, b < t_len t -> e_d (ent t b) < e_d (ent t (b + 1)) ->
  lenN (content b) = e_d (ent t (b + 1)) - e_d (ent t b) -> forall dst0 dstSize,
  e_d (ent t (b + 1)) - e_d (ent t b) <= dstSize ->
  exists st1, seekable_decompress_frame_old H content BUFF NOPROG t sfc rinit dst0 dstSize b
                [(e_d (ent t (b + 1)) - e_d (ent t b), false)]
              = ROk (e_d (ent t (b + 1)) - e_d (ent t b)) (buf_store dst0 0 (content b)) st1.
Proof. exact SeekExact.exact_frame_decompressFrame_unchecked_before_fix. Qed.
Print Assumptions exact_frame_decompressFrame_unchecked_before_fix.

(* ---- fix bb8f456: offsets at / beyond the end, lengths reaching beyond the end.  For every table, state, decoder:
   offset >= |x| returns 0 and touches nothing; a length reaching beyond the end (any value, offset + len may exceed 2^64)
   is the same call as the one with length |x| - offset - so with range_read_correct EVERY (offset, len) is covered *)
Theorem beyond_end_returns_zero : forall H content BUFF NOPROG t sfc, wf_table t ->
  forall st dst0 len0 offset orc, e_d (ent t (t_len t)) <= offset ->
  seekable_decompress H content BUFF NOPROG t sfc st dst0 len0 offset orc = ROk 0 dst0 st.
Proof. exact SeekBeyond.beyond_end_returns_zero. Qed.
Print Assumptions beyond_end_returns_zero.
Theorem overlong_read_is_clamped : forall H content BUFF NOPROG t sfc, wf_table t ->
  forall st dst0 len0 offset orc, offset < e_d (ent t (t_len t)) -> e_d (ent t (t_len t)) - offset <= len0 ->
  seekable_decompress H content BUFF NOPROG t sfc st dst0 len0 offset orc =
  seekable_decompress H content BUFF NOPROG t sfc st dst0 (e_d (ent t (t_len t)) - offset) offset orc.
Proof. exact SeekBeyond.overlong_read_is_clamped. Qed.
Print Assumptions overlong_read_is_clamped.
(* before the fix, for every table and every state the read theorems reach (at_end_ok follows from Inv): offset > |x| was a
   "success" of 2^64 + |x| - offset bytes with dst untouched; offset + len wrapping below |x| never returned *)
Theorem beyond_end_wrapped_length_before_fix : forall H content BUFF NOPROG t sfc, wf_table t ->
  forall st dst0 len0 offset orc,
  at_end_ok t st -> e_d (ent t (t_len t)) < offset -> 0 < len0 -> offset + len0 < 18446744073709551616 ->
  exists st1, seekable_decompress_old H content BUFF NOPROG t sfc st dst0 len0 offset orc
              = ROk (18446744073709551616 + e_d (ent t (t_len t)) - offset) dst0 st1
              /\ 18446744073709551616 + e_d (ent t (t_len t)) - offset > e_d (ent t (t_len t)).
Proof. exact SeekBeyond.beyond_end_wrapped_length_before_fix. Qed.
Print Assumptions beyond_end_wrapped_length_before_fix.
Theorem wrapping_offset_never_returned_before_fix : forall H content BUFF NOPROG t sfc, wf_table t ->
  forall st dst0 len0 offset orc,
  at_end_ok t st -> e_d (ent t (t_len t)) <= offset -> offset < 18446744073709551616 -> len0 < 18446744073709551616 ->
  18446744073709551616 <= offset + len0 -> offset + len0 - 18446744073709551616 < e_d (ent t (t_len t)) ->
  exists st1, seekable_decompress_old H content BUFF NOPROG t sfc st dst0 len0 offset orc = RSpin st1.
Proof. exact SeekBeyond.wrapping_offset_never_returned_before_fix. Qed.
Print Assumptions wrapping_offset_never_returned_before_fix.
Theorem reachable_states_are_at_end_ok : forall content t st, Inv content t st -> at_end_ok t st.
Proof. exact Inv_at_end_ok. Qed.
Print Assumptions reachable_states_are_at_end_ok.

(* ---- fix b978b70: the state after a decoder error (curFrame = (U32)-1) satisfies the cache invariant, for every table
   and state: the next call seeks and resets, and the read theorems apply to it *)
Theorem failed_decoder_leaves_consistent_cache : forall content t st, wf_table t -> Inv content t (decoder_failed st).
Proof. exact decoder_failed_keeps_invariant. Qed.
Print Assumptions failed_decoder_leaves_consistent_cache.

(* ---- fix 9f11afe: one seek-table entry = one zstd frame.  EVERY history of compressStream / endFrame / endStream calls
   from initCStream - NO contract on the caller - and EVERY inner behaviour: in the sequence of inner libzstd calls the
   seekable layer makes, no ZSTD_compressStream is issued while a ZSTD_endStream is incomplete (returned > 0, none
   returned 0 since), which is the only way the inner stream could end a frame behind the layer's back. *)
Theorem one_seek_table_entry_per_zstd_frame : forall H cf m s0 ops s' rets,
  c_init cf m = Ok s0 -> c_run H s0 ops = Some (s', rets) -> inner_seq_ok false (flat_map orc_of ops).
Proof. exact one_entry_one_frame. Qed.
Print Assumptions one_seek_table_entry_per_zstd_frame.
Theorem compressStream_before_fix_compresses_into_pending_end :
  exists s0 r1 r2, c_init 0 0 = Ok s0 /\
    c_end_frame exc_H s0 [IEnd 2 17] = Some r1 /\ c_pend (cr_st r1) = true /\
    c_compress_body exc_H (cr_st r1) [5; 6] [ICompress 2 19 7] = Some r2 /\ cr_consumed r2 = 2 /\
    ~ inner_seq_ok false [IEnd 2 17; ICompress 2 19 7].
Proof. exact before_fix_compresses_into_pending_end. Qed.
Print Assumptions compressStream_before_fix_compresses_into_pending_end.

(* ---- fix 0531868: EVERY checksumFlag value: the loader reads back the table written under any flag (2, 4, 256 ...) *)
Theorem seektable_roundtrip_any_flag : forall cf log pre buf0,
  lenN buf0 = sk_BUFF -> lenN log <= MAXFRAMES -> Forall logent_ok log ->
  load_seek_table sk_BUFF (pre ++ seek_table_bytes cf log) buf0 = Ok (table_of (flag_set cf) log).
Proof. exact SeekEndToEnd.seektable_roundtrip_any_flag. Qed.
Print Assumptions seektable_roundtrip_any_flag.

(* ================================================================ round 3 ================================================ *)

(* ---- fix 56d8861 (the loader refuses numFrames > ZSTD_SEEKABLE_MAXFRAMES): the converse of seektable_roundtrip.
   For ARBITRARY file bytes and any previous buffer content, the loader accepts a file and returns table t IF AND ONLY IF
   the file is [any bytes ++ skippable magic ++ size ++ the entries of a log of <= MAXFRAMES frames ++ count ++ descriptor ++
   magic] (table_frame: the serialiser's format, with any descriptor byte whose reserved bits 2..6 are clear - bits 0..1 are
   unused) and t is table_of that log under the descriptor's flag.  So "malformed seek tables lead to errors": nothing but a
   well-formed table frame is accepted, and what is reported is what the file holds. *)
Theorem loader_accepts_exactly_serialised_tables : forall file buf0 t,
  bytes_ok file -> lenN buf0 = sk_BUFF ->
  (load_seek_table sk_BUFF file buf0 = Ok t <->
   exists pre fl sfd log,
     file = pre ++ table_frame fl sfd log /\ lenN log <= MAXFRAMES /\ Forall logent_ok log /\
     (sfd / 4) mod 32 = 0 /\ negb (sfd / 128 =? 0) = fl /\ t = table_of fl log).
Proof. exact load_accepts_exactly_table_frames_BUFF. Qed.
Print Assumptions loader_accepts_exactly_serialised_tables.
(* the serialiser's output is the instance with the descriptor byte it writes *)
Theorem seek_table_bytes_is_a_table_frame : forall fl log, lenN log <= MAXFRAMES ->
  seek_table_bytes (cf_of fl) log = table_frame fl (sfd_of (cf_of fl)) log.
Proof. exact seek_table_bytes_frame. Qed.
Print Assumptions seek_table_bytes_is_a_table_frame.
(* witness for the code before the fix (ld_header_old = the size arithmetic without the limit): the 78-byte archive of
   "0123456789" (3 entries) with the footer count replaced by 2^29 + 3 passes the footer and the header checks (the U32
   tableSize wraps onto 24); the current model refuses it with corruption_detected.  (The old loop would then run 2^29 + 3
   times over a stale buffer: not computed here; shown on the real code, docs/C20.md section 10.) *)
Theorem loader_before_fix_passes_wrapped_count :
  exists buf, ld_footer 64 wrap_file (repeat 0 64) = Ok (buf, false, 536870915) /\
              (exists s0, ld_header_old 64 wrap_file buf false 536870915 = Ok s0) /\
              ld_header 64 wrap_file buf false 536870915 = Err sk_E_corruption_detected /\
              lenN wrap_file = 78.
Proof. exact wrapped_count_passes_old_header_checks. Qed.
Print Assumptions loader_before_fix_passes_wrapped_count.

(* ---- fix 9b1486b: the state after a failed src.read inside the decoding loop (curFrame = (U32)-1) satisfies the cache
   invariant, for every table and state *)
Theorem failed_read_leaves_consistent_cache : forall content t st, wf_table t -> Inv content t (read_failed st).
Proof. exact read_failed_keeps_invariant. Qed.
Print Assumptions failed_read_leaves_consistent_cache.

(* ---- the three error returns that leave curFrame = (U32)-1 (failed seek c859e4f, failed decoder b978b70, failed read
   9b1486b) really forget the position: the next ZSTD_seekable_decompress inside the content is THE SAME call whatever the
   failed call left in decompressedOffset, the decoder position, the frame it was in and the hash state (every table, hash,
   content, pacing, previous dst), and it starts by seeking to the start of the frame that contains the offset *)
Theorem failed_call_position_is_forgotten : forall H content BUFF NOPROG t sfc,
  wf_table t -> forall doff f p fin acc doff' f' p' fin' acc' tr dst len offset orc,
  offset < e_d (ent t (t_len t)) ->
  seekable_decompress H content BUFF NOPROG t sfc (nowhere doff f p fin acc tr) dst len offset orc =
  seekable_decompress H content BUFF NOPROG t sfc (nowhere doff' f' p' fin' acc' tr) dst len offset orc.
Proof. exact nowhere_is_forgotten. Qed.
Print Assumptions failed_call_position_is_forgotten.
Theorem call_after_failed_call_restarts : forall H content BUFF NOPROG t sfc,
  wf_table t -> forall doff f p fin acc tr dst len offset orc,
  offset < e_d (ent t (t_len t)) ->
  exists i, offset_to_frame t offset = Ok i /\ i < t_len t /\
    seekable_decompress H content BUFF NOPROG t sfc (nowhere doff f p fin acc tr) dst len offset orc =
    rloop H content BUFF NOPROG t sfc offset
          (if sub64 (e_d (ent t (t_len t))) offset <? len then sub64 (e_d (ent t (t_len t))) offset else len)
          orc (mkR i (e_d (ent t i)) i 0 false [] (EvRestart i :: tr)) i 0 dst.
Proof. exact nowhere_restarts. Qed.
Print Assumptions call_after_failed_call_restarts.
Theorem failed_states_are_nowhere : forall t st target,
  read_failed st = nowhere (r_doff st) (d_frame st) (d_prod st) (d_fin st) (r_acc st) (r_trace st) /\
  decoder_failed st = nowhere (r_doff st) (d_frame st) (d_prod st) (d_fin st) (r_acc st) (r_trace st) /\
  restart_seek_failed t false st target = nowhere (r_doff st) (d_frame st) (d_prod st) (d_fin st) (r_acc st) (r_trace st).
Proof. intros. repeat split. Qed.
Print Assumptions failed_states_are_nowhere.
(* a RE-INITIALISED object (ZSTD_seekable_init* again, on another archive: curFrame = (U32)-1, decompressedOffset = (U64)-1,
   decoder / zs->in / hash state left over from the previous archive [prev]): the state satisfies the invariant of the new
   table, and the first read inside the new content is exactly the read a fresh object makes - so range_read_correct, stated
   from rinit, covers re-initialised objects (gap listed by round 2) *)
Theorem reinitialised_reader_reads_like_fresh : forall H content BUFF NOPROG t sfc prev dst len offset orc,
  wf_table t -> offset < e_d (ent t (t_len t)) ->
  seekable_decompress H content BUFF NOPROG t sfc (reinit_state prev) dst len offset orc =
  seekable_decompress H content BUFF NOPROG t sfc rinit dst len offset orc.
Proof. exact reinit_reads_like_fresh. Qed.
Print Assumptions reinitialised_reader_reads_like_fresh.
Theorem reinitialised_reader_state_consistent : forall content t prev, wf_table t -> Inv content t (reinit_state prev).
Proof. exact reinit_keeps_invariant. Qed.
Print Assumptions reinitialised_reader_state_consistent.
(* the hypotheses are satisfiable: the example table of round 1 (3 frames) and offset 0 *)
Example failed_call_hypotheses_satisfiable : wf_table ex_t0 /\ 0 < e_d (ent ex_t0 (t_len ex_t0)).
Proof. split; [exact ex_t0_wf|vm_compute; reflexivity]. Qed.

(* ---- the INPUT side of ZSTD_seekable_decompress (SeekInput.v: the source's read head, zs->in, the restart branch's seek, the
   refill with MIN(hint, SEEKABLE_BUFF_SIZE), failed seeks and reads).  EVERY history of calls on one object, every file, every
   decoder behaviour (input bytes consumed per call, size hints), every cache decision (restart wanted or not), every pattern
   of failing seeks and of reads that fail after moving the read head by any amount: between two decoder resets the decoder
   receives exactly the file's bytes from the compressed offset the restart seeked to, in order, without gap or repetition -
   whatever stream it was in before ([cur] arbitrary).  Fix 9b1486b is what makes it true. *)
Theorem input_stream_is_the_file : forall BUFF file calls cur,
  stream_ok file cur (snd (in_history BUFF file false calls iinit)).
Proof. exact SeekInputProofs.input_stream_is_the_file. Qed.
Print Assumptions input_stream_is_the_file.
(* witness for the code before 9b1486b (keep_claim = true): 20-byte file, the second refill fails after moving the read head
   by 2, the next call for the same frame continues: the decoder, having consumed file[0..5), is handed 7 8 9 10 where
   5 6 7 8 follow *)
Theorem failed_read_before_fix_skips_bytes :
  In (Feed 0 5 [7; 8; 9; 10]) (snd (in_history 16 in_ex_file true in_ex_calls iinit)) /\
  sliceN in_ex_file 5 4 = [5; 6; 7; 8] /\
  ~ stream_ok in_ex_file None (snd (in_history 16 in_ex_file true in_ex_calls iinit)).
Proof. exact SeekInputProofs.failed_read_before_fix_skips_bytes. Qed.
Print Assumptions failed_read_before_fix_skips_bytes.
(* the same history on the current code (computed): the second call seeks to the frame start again *)
Theorem failed_read_after_fix_restarts :
  snd (in_history 16 in_ex_file false in_ex_calls iinit) =
  [IoSeek 0 true; Feed 0 0 []; IoRead 0 5 true; Feed 0 0 [0;1;2;3;4]; IoRead 5 4 false;
   IoSeek 0 true; Feed 0 0 []; IoRead 0 4 true; Feed 0 0 [0;1;2;3]; IoRead 4 3 true].
Proof. exact SeekInputProofs.failed_read_after_fix_restarts. Qed.
Print Assumptions failed_read_after_fix_restarts.

(* ---- fix a2a0322: ZSTD_seekable_decompress returning corruption_detected (checksum mismatch / frame shorter than its entry)
   leaves curFrame = (U32)-1 - EVERY table (well formed or not), content, hash, pacing, previous state and arguments; with
   failed_call_position_is_forgotten the next call starts over at the frame start instead of continuing into the next frame *)
Theorem corruption_return_forgets_position : forall H content BUFF NOPROG t sfc st dst len offset orc d st',
  seekable_decompress H content BUFF NOPROG t sfc st dst len offset orc = RErr sk_E_corruption_detected d st' ->
  r_cur st' = 4294967295.
Proof. exact corruption_return_forgets. Qed.
Print Assumptions corruption_return_forgets_position.
(* witness for the code before a2a0322 (rloop_keep): two frames of 16 bytes, no checksums, entry 0 announcing 24: after
   decompress(dst,24,0) = corruption_detected (position frame 0 / offset 16 kept) decompress(dst,4,16) returns the first four
   bytes of FRAME 1 as success; a fresh reader, and the current model after the same first call, answer corruption_detected *)
Theorem corruption_return_before_fix_reads_next_frame :
  (exists d st, seekable_decompress_keep st_H st_content 64 16 st_t true rinit (repeat 165 24) 24 0 [(16, true)]
                = RErr sk_E_corruption_detected d st /\ r_cur st = 0 /\ r_doff st = 16) /\
  (exists st', seekable_decompress_keep st_H st_content 64 16 st_t true st_after_first_keep [165;165;165;165] 4 16 [(4, false)]
               = ROk 4 [100; 101; 102; 103] st') /\
  (exists d st', seekable_decompress_keep st_H st_content 64 16 st_t true rinit [165;165;165;165] 4 16 [(16, true)]
               = RErr sk_E_corruption_detected d st') /\
  (exists d st', seekable_decompress st_H st_content 64 16 st_t true st_after_first_now [165;165;165;165] 4 16 [(16, true)]
               = RErr sk_E_corruption_detected d st').
Proof. exact SeekFailed.corruption_return_before_fix_reads_next_frame. Qed.
Print Assumptions corruption_return_before_fix_reads_next_frame.

(* ---- fix b63eccc (a frame that completes before the end its seek-table entry gives is refused whether or not the read wants
   more).  NO assumption on the contents (frames shorter or longer than their entries, wrong checksums, anything): call a state
   Sound when the reader is positioned nowhere, or its decoder has not finished the frame it claims to be in, or it has and
   decompressedOffset is at / beyond the end the table gives for that frame.  The state after init and after every failed call
   is Sound; every ZSTD_seekable_decompress that returns a position (success, or "oracle exhausted") from a Sound state returns a
   Sound state - any well-formed table, hash, pacing, arguments; and from a Sound state the continue path (no seek, no reset) is
   only ever taken with a decoder that is still inside the claimed frame: it never decodes the NEXT frame of the file as the rest
   of this one (what findings a2a0322 and b63eccc were). *)
Theorem reader_position_stays_sound : forall H content BUFF NOPROG t, wf_table t ->
  forall st dst len offset orc, Sound t st ->
  result_sound t (seekable_decompress H content BUFF NOPROG t true st dst len offset orc).
Proof. exact call_keeps_sound. Qed.
Print Assumptions reader_position_stays_sound.
Theorem continue_path_never_runs_a_finished_decoder : forall (H : list N -> N) (content : N -> list N) t, wf_table t -> forall st offset target,
  Sound t st -> offset < e_d (ent t (t_len t)) -> offset_to_frame t offset = Ok target ->
  prelude t offset st (w32 target) = Ok st -> d_fin st = false.
Proof. exact continue_path_has_live_decoder. Qed.
Print Assumptions continue_path_never_runs_a_finished_decoder.
Theorem initial_and_failed_states_are_sound : forall t doff f p fin acc tr,
  Sound t rinit /\ Sound t (nowhere doff f p fin acc tr).
Proof. intros. split; [apply Sound_rinit|apply Sound_nowhere]. Qed.
Print Assumptions initial_and_failed_states_are_sound.
(* witness on the old loop (no error return is involved, so the code at a2a0322 behaves the same): entry 0 announces 24 bytes, the
   frame holds 16: decompress(dst,16,0) succeeds and keeps (frame 0, offset 16) with the decoder finished - not Sound -, then
   decompress(dst,4,16) returns the first four bytes of FRAME 1; the current model refuses the first call and forgets the position *)
Theorem short_frame_unnoticed_before_fix :
  (exists st, seekable_decompress_keep st_H st_content 64 16 st_t true rinit (repeat 165 16) 16 0 [(16, true)]
              = ROk 16 [0;1;2;3;4;5;6;7;8;9;10;11;12;13;14;15] st /\ r_cur st = 0 /\ r_doff st = 16 /\ d_fin st = true) /\
  (exists st', seekable_decompress_keep st_H st_content 64 16 st_t true st_after_ok_keep [165;165;165;165] 4 16 [(4, false)]
               = ROk 4 [100; 101; 102; 103] st') /\
  (exists d st', seekable_decompress st_H st_content 64 16 st_t true rinit (repeat 165 16) 16 0 [(16, true)]
               = RErr sk_E_corruption_detected d st' /\ r_cur st' = 4294967295).
Proof. exact SeekFailed.short_frame_unnoticed_before_fix. Qed.
Print Assumptions short_frame_unnoticed_before_fix.
