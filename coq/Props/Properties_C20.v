(* C20 - seekable format: theorem list (statements only; proofs are in ZV.Seek.*Proofs). *)
From Coq Require Import NArith List Bool.
From ZV.Seek Require Import SeekTable SeekBase.
Import ListNotations.
Local Open Scope N_scope.

Theorem le32_roundtrip : forall v, v < 4294967296 -> rd32 (le32 v) = v.
Proof. exact rd32_le32. Qed.
Print Assumptions le32_roundtrip.
