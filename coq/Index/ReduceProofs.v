(* C15 proofs about ZSTD_reduceTable_internal / ZSTD_ldm_reduceTable / ZSTD_reduceIndex. *)
From Coq Require Import ZArith Lia Bool List.
From ZV.Index Require Import Window Reduce Overflow OverflowProofs.
Import ListNotations.
Local Open Scope Z_scope.
Ltac Zify.zify_post_hook ::= Z.div_mod_to_equations.

Lemma skipn_add {A} (a b : nat) : forall t : list A, skipn (a + b) t = skipn b (skipn a t).
Proof.
  induction a as [|a IH]; intro t; [reflexivity|].
  destruct t as [|x t]; [rewrite !skipn_nil; reflexivity|]. cbn [Nat.add skipn]. apply IH.
Qed.

Lemma firstn_add {A} (a b : nat) : forall t : list A, firstn (a + b) t = firstn a t ++ firstn b (skipn a t).
Proof.
  induction a as [|a IH]; intro t; [reflexivity|].
  destruct t as [|x t]; [rewrite !firstn_nil; reflexivity|]. cbn [Nat.add firstn skipn app]. f_equal. apply IH.
Qed.

Lemma nth_skipn_add {A} (n k : nat) (d : A) : forall t, nth k (skipn n t) d = nth (n + k) t d.
Proof.
  induction n as [|n IH]; intro t; [reflexivity|].
  destruct t as [|x t]; [destruct k; reflexivity|]. cbn [skipn Nat.add nth]. apply IH.
Qed.

(* the row batching is just a map over the first nbRows*ROWSIZE cells *)
Lemma reduce_rows_spec n r pm : forall t,
  reduce_rows n r pm t =
    map (reduce_cell r pm) (firstn (n * Z.to_nat ROWSIZE) t) ++ skipn (n * Z.to_nat ROWSIZE) t.
Proof.
  induction n as [|n IH]; intro t.
  - reflexivity.
  - cbn [reduce_rows]. rewrite IH. unfold reduce_row.
    set (k := Z.to_nat ROWSIZE).
    replace (S n * k)%nat with (k + n * k)%nat by lia.
    rewrite firstn_add, skipn_add, map_app, <- app_assoc. reflexivity.
Qed.

Lemma reduceTable_length t size r pm : length (reduceTable_internal t size r pm) = length t.
Proof.
  unfold reduceTable_internal. rewrite reduce_rows_spec.
  rewrite app_length, map_length, <- app_length, firstn_skipn. reflexivity.
Qed.

(* what one cell becomes, with no wrap-around left *)
Lemma reduce_cell_spec r pm e :
  0 <= e < two32 -> 0 <= r -> r + START < two32 ->
  reduce_cell r pm e =
    if pm && (e =? DUBT_UNSORTED_MARK) then DUBT_UNSORTED_MARK
    else if e <? r + START then 0 else e - r.
Proof.
  intros He Hr Hrs. unfold reduce_cell.
  rewrite (u32_small (r + START)) by (consts; lia).
  destruct (pm && (e =? DUBT_UNSORTED_MARK)); [reflexivity|].
  destruct (Z.ltb_spec e (r + START)); [reflexivity|].
  apply u32_small. consts. lia.
Qed.

(* reduce_table_sound: the cell at position k *)
Lemma reduce_table_sound_lemma :
  forall (t : list Z) (size r : Z) (pm : bool) (k : nat),
    0 <= r -> r + START < two32 -> 0 <= size ->
    (forall e, In e t -> 0 <= e < two32) ->
    (k < length t)%nat ->
    let e := nth k t 0 in
    let e' := nth k (reduceTable_internal t size r pm) 0 in
    length (reduceTable_internal t size r pm) = length t /\
    (Z.of_nat k < ROWSIZE * (size / ROWSIZE) ->
       (* inside the rows that are processed *)
       (pm = true -> e = DUBT_UNSORTED_MARK -> e' = DUBT_UNSORTED_MARK) /\
       ((pm = false \/ e <> DUBT_UNSORTED_MARK) -> e < r + START -> e' = 0) /\
       ((pm = false \/ e <> DUBT_UNSORTED_MARK) -> r + START <= e -> e' = e - r /\ START <= e' < two32)) /\
    (ROWSIZE * (size / ROWSIZE) <= Z.of_nat k -> e' = e).
Proof.
  intros t size r pm k Hr Hrs Hsize Hrange Hk. cbv zeta.
  split; [apply reduceTable_length|].
  unfold reduceTable_internal. rewrite reduce_rows_spec.
  set (n := (Z.to_nat (size / ROWSIZE) * Z.to_nat ROWSIZE)%nat).
  assert (Hn : Z.of_nat n = ROWSIZE * (size / ROWSIZE)).
  { unfold n. rewrite Nat2Z.inj_mul, !Z2Nat.id; consts; lia. }
  split.
  - intro Hin. assert (Hkn : (k < n)%nat) by lia.
    rewrite app_nth1 by (rewrite map_length, firstn_length; lia).
    rewrite (nth_indep (map (reduce_cell r pm) (firstn n t)) 0 (reduce_cell r pm 0)) by (rewrite map_length, firstn_length; lia).
    rewrite map_nth.
    assert (Hnth : nth k (firstn n t) 0 = nth k t 0).
    { rewrite <- (firstn_skipn n t) at 2. rewrite app_nth1; [reflexivity|]. rewrite firstn_length. lia. }
    rewrite Hnth.
    assert (He : 0 <= nth k t 0 < two32) by (apply Hrange, nth_In; lia).
    rewrite reduce_cell_spec by assumption.
    set (e := nth k t 0) in *.
    repeat split; intros.
    + subst pm. rewrite H0, Z.eqb_refl. reflexivity.
    + replace (pm && (e =? DUBT_UNSORTED_MARK)) with false
        by (destruct H as [-> | H]; [reflexivity | symmetry; apply andb_false_iff; right; apply Z.eqb_neq; exact H]).
      destruct (Z.ltb_spec e (r + START)); lia.
    + replace (pm && (e =? DUBT_UNSORTED_MARK)) with false
        by (destruct H as [-> | H]; [reflexivity | symmetry; apply andb_false_iff; right; apply Z.eqb_neq; exact H]).
      destruct (Z.ltb_spec e (r + START)); lia.
    + replace (pm && (e =? DUBT_UNSORTED_MARK)) with false
        by (destruct H as [-> | H]; [reflexivity | symmetry; apply andb_false_iff; right; apply Z.eqb_neq; exact H]).
      destruct (Z.ltb_spec e (r + START)); consts; lia.
    + replace (pm && (e =? DUBT_UNSORTED_MARK)) with false
        by (destruct H as [-> | H]; [reflexivity | symmetry; apply andb_false_iff; right; apply Z.eqb_neq; exact H]).
      destruct (Z.ltb_spec e (r + START)); consts; lia.
  - intro Hout. assert (Hkn : (n <= k)%nat) by lia.
    rewrite app_nth2 by (rewrite map_length, firstn_length; lia).
    rewrite map_length, firstn_length. replace (Nat.min n (length t)) with n by lia.
    rewrite nth_skipn_add. f_equal. lia.
Qed.

(* the unsorted mark can never be confused with a surviving index: it is below START *)
Lemma mark_below_start : DUBT_UNSORTED_MARK < START.
Proof. consts. lia. Qed.

(* ZSTD_ldm_reduceTable *)
Lemma ldm_reduce_sound_lemma :
  forall (t : list Z) (r : Z) (k : nat),
    0 <= r < two32 -> (forall e, In e t -> 0 <= e < two32) -> (k < length t)%nat ->
    let e := nth k t 0 in
    let e' := nth k (ldm_reduceTable t r) 0 in
    length (ldm_reduceTable t r) = length t /\
    (e < r -> e' = 0) /\ (r <= e -> e' = e - r).
Proof.
  intros t r k Hr Hrange Hk. cbv zeta. unfold ldm_reduceTable.
  split; [apply map_length|].
  rewrite (nth_indep (map (ldm_reduce_cell r) t) 0 (ldm_reduce_cell r 0)) by (rewrite map_length; lia).
  rewrite map_nth.
  assert (He : 0 <= nth k t 0 < two32) by (apply Hrange, nth_In; lia).
  unfold ldm_reduce_cell. set (e := nth k t 0) in *.
  destruct (Z.ltb_spec e r); split; intros; try lia.
  apply u32_small. lia.
Qed.
