(* C15 proofs about the per-frame counters of ZSTDMT (model: MtJobs.v). *)
From Coq Require Import ZArith Lia Bool List.
From ZV.Index Require Import Window Reduce Overflow OverflowProofs WindowProofs.
From ZV.Index Require Import MtJobs.
Import ListNotations.
Local Open Scope Z_scope.
Ltac Zify.zify_post_hook ::= Z.div_mod_to_equations.

Lemma u32_wrap x : two32 <= x < 2 * two32 -> u32 x = x - two32.
Proof. unfold u32. consts. intros. lia. Qed.

Lemma u32_range x : 0 <= u32 x < two32.
Proof. unfold u32. consts. lia. Qed.

(* ---------------- job counters ---------------- *)

(* As long as fewer than 2^32 - mask jobs have been created in the frame, the 32-bit tests say what the
   unbounded counters say. *)
Lemma mt_counters_exact_below_wrap_lemma :
  forall N D mask,
    0 <= D <= N -> 1 <= mask -> N + mask < two32 ->
    let m := mkMtc (u32 N) (u32 D) mask in
    mt_table_full m = ideal_table_full N D mask /\
    mt_firstJob m = ideal_firstJob N /\
    mt_jobs_pending m = ideal_jobs_pending N D /\
    nextJobID (mt_post m) = N + 1 /\ doneJobID (mt_done m) = u32 (D + 1).
Proof.
  intros N D mask HD Hm HN m. subst m.
  unfold mt_table_full, mt_firstJob, mt_jobs_pending, ideal_table_full, ideal_firstJob, ideal_jobs_pending, mt_post, mt_done.
  cbn [nextJobID doneJobID jobIDMask].
  rewrite (u32_small N) by lia. rewrite (u32_small D) by lia.
  rewrite (u32_small (D + mask)) by lia. rewrite (u32_small (N + 1)) by lia.
  repeat split; reflexivity.
Qed.

(* synchronous flush calls from the start of a frame: the k-th call (k <= 2^32 - mask) succeeds and leaves
   both counters at k *)
Lemma mt_flush_calls_below_wrap :
  forall mask k,
    1 <= mask < two32 -> Z.of_nat k <= two32 - mask ->
    mt_flush_calls k (mt_frame_start mask) = Some (mkMtc (Z.of_nat k) (Z.of_nat k) mask).
Proof.
  intros mask k Hm. induction k as [|k IH]; intro Hk.
  - reflexivity.
  - cbn [mt_flush_calls]. rewrite IH by lia.
    unfold mt_flush_call, mt_table_full, mt_done, mt_post. cbn [nextJobID doneJobID jobIDMask].
    rewrite (u32_small (Z.of_nat k + mask)) by lia.
    destruct (Z.gtb_spec (Z.of_nat k) (Z.of_nat k + mask)); [lia|].
    rewrite (u32_small (Z.of_nat k + 1)) by lia.
    f_equal. f_equal; lia.
Qed.

(* an EMPTY jobs table (doneJobID = nextJobID) is declared full once the counters are within mask of 2^32 *)
Lemma mt_empty_table_declared_full :
  forall mask D, 1 <= mask < two32 -> two32 - mask <= D < two32 ->
    mt_table_full (mkMtc D D mask) = true /\ ideal_table_full D D mask = false /\
    mt_flush_call (mkMtc D D mask) = None.
Proof.
  intros mask D Hm HD. unfold mt_flush_call, mt_table_full, ideal_table_full. cbn [nextJobID doneJobID jobIDMask].
  rewrite (u32_wrap (D + mask)) by lia.
  destruct (Z.gtb_spec D (D + mask - two32)); [|lia].
  destruct (Z.gtb_spec D (D + mask)); [lia|]. repeat split; reflexivity.
Qed.

(* the frame is stuck at its (2^32 - mask + 1)-th flush call, and stays stuck *)
Lemma mt_frame_gets_stuck_lemma :
  forall mask, 1 <= mask < two32 ->
    let k := Z.to_nat (two32 - mask) in
    mt_flush_calls k (mt_frame_start mask) = Some (mkMtc (two32 - mask) (two32 - mask) mask) /\
    forall j, mt_flush_calls (k + S j) (mt_frame_start mask) = None.
Proof.
  intros mask Hm k. subst k.
  assert (Hk : mt_flush_calls (Z.to_nat (two32 - mask)) (mt_frame_start mask)
               = Some (mkMtc (two32 - mask) (two32 - mask) mask)).
  { rewrite mt_flush_calls_below_wrap by lia. rewrite Z2Nat.id by lia. reflexivity. }
  split; [exact Hk|].
  induction j as [|j IH].
  - rewrite Nat.add_1_r. cbn [mt_flush_calls]. rewrite Hk.
    apply (mt_empty_table_declared_full mask (two32 - mask)); lia.
  - replace (Z.to_nat (two32 - mask) + S (S j))%nat with (S (Z.to_nat (two32 - mask) + S j))%nat by lia.
    cbn [mt_flush_calls]. rewrite IH. reflexivity.
Qed.

(* with a full table in flight the wrap can be passed, and the 2^32-th job of the frame is taken for the first *)
Lemma mt_first_job_confused :
  forall mask, 1 <= mask < two32 ->
    let m := mkMtc (two32 - 1) (two32 - 1 - mask) mask in
    mt_table_full m = false /\ ideal_table_full (two32 - 1) (two32 - 1 - mask) mask = false /\
    mt_firstJob (mt_post m) = true /\ ideal_firstJob (two32 - 1 + 1) = false /\
    mt_jobs_pending (mt_post m) = false /\ ideal_jobs_pending (two32 - 1 + 1) (two32 - 1 - mask) = true.
Proof.
  intros mask Hm m. subst m.
  unfold mt_table_full, ideal_table_full, mt_firstJob, ideal_firstJob, mt_post, mt_jobs_pending, ideal_jobs_pending.
  cbn [nextJobID doneJobID jobIDMask].
  replace (two32 - 1 - mask + mask) with (two32 - 1) by lia.
  rewrite (u32_small (two32 - 1)) by (consts; lia).
  replace (two32 - 1 + 1) with two32 by lia.
  assert (H0 : u32 two32 = 0) by (unfold u32; apply Z.mod_same; consts; lia).
  rewrite H0.
  destruct (Z.gtb_spec (two32 - 1) (two32 - 1)); [lia|].
  destruct (Z.ltb_spec (two32 - 1 - mask) 0); [lia|].
  destruct (Z.ltb_spec (two32 - 1 - mask) two32); [|lia].
  destruct (Z.eqb_spec two32 0); [revert e; consts; lia|].
  repeat split; reflexivity.
Qed.

(* the executable observer of the tie agrees with the iteration *)
Lemma mt_flush_until_stuck_ok :
  forall fuel m n, let '(n', m') := mt_flush_until_stuck fuel m n in
    n <= n' <= n + Z.of_nat fuel /\
    mt_flush_calls (Z.to_nat (n' - n)) m = Some m' /\
    (n' < n + Z.of_nat fuel -> mt_flush_call m' = None).
Proof.
  induction fuel as [|f IH]; intros m n.
  - cbn. replace (n - n) with 0 by lia. cbn. repeat split; try lia.
  - cbn [mt_flush_until_stuck]. destruct (mt_flush_call m) as [m1|] eqn:E.
    + specialize (IH m1 (n + 1)). destruct (mt_flush_until_stuck f m1 (n + 1)) as [n' m'].
      destruct IH as (Hr & Hc & Hs). repeat split; try lia.
      * replace (Z.to_nat (n' - n)) with (Z.to_nat (n' - (n + 1)) + 1)%nat by lia.
        clear Hs Hr. revert Hc. generalize (Z.to_nat (n' - (n + 1))). intros k.
        revert m' . induction k as [|k IHk]; intros m' Hc.
        -- cbn in Hc. inversion Hc; subst. cbn. exact E.
        -- cbn [mt_flush_calls] in Hc. cbn [Nat.add mt_flush_calls].
           destruct (mt_flush_calls k m1) as [mk|] eqn:Ek; [|discriminate].
           rewrite (IHk mk eq_refl). exact Hc.
      * intro. apply Hs. lia.
    + replace (n - n) with 0 by lia. cbn. repeat split; try lia. intros _. exact E.
Qed.

(* ---------------- serial LDM window ---------------- *)

(* loading a dictionary of n bytes into a new window: the current index is n + START, exact iff below 2^32.
   The dictionary does not overlap the 2-byte string literal a new window points at. *)
Definition away_from_literal (lit dict n : Z) : Prop := dict + n <= lit \/ lit + START < dict.

Lemma mt_serial_ldm_load_index :
  forall lit dict n fw, 0 < n -> away_from_literal lit dict n ->
    let '(w, lde) := mt_serial_ldm_load None lit dict n fw in
    nextSrc w = dict + n /\ base w = dict - START /\ dictLimit w = START /\ lowLimit w = START /\
    (window_exact w = true <-> n + START < two32) /\
    (fw = false -> lde = u32 (n + START)) /\ nbOvf w = 0 /\ (fw = true -> lde = 0).
Proof.
  intros lit dict n fw Hn Hd. unfold mt_serial_ldm_load.
  destruct (Z.eqb_spec n 0); [lia|].
  unfold window_update, window_init. cbn [nextSrc base dictBase dictLimit lowLimit nbOvf].
  destruct (Z.eqb_spec n 0); [lia|].
  destruct (Z.eqb_spec dict (lit + START)); [destruct Hd as [Hd|Hd]; revert Hd; consts; lia|]. cbn [negb orb].
  replace (lit + START - lit) with START by lia.
  assert (Hs : u64 START = START) by (apply u64_small; consts; lia). rewrite Hs.
  assert (Hs2 : u32 START = START) by (apply u32_small; consts; lia). rewrite Hs2.
  replace (START - START) with 0 by lia.
  assert (H0 : u32 0 = 0) by (apply u32_small; consts; lia). rewrite H0.
  destruct (Z.ltb_spec 0 HASH_READ_SIZE) as [_|Hh]; [|revert Hh; consts; lia].
  unfold set_nextSrc, set_low. cbn [nextSrc base dictBase dictLimit lowLimit nbOvf fst].
  assert (Hov : (dict + n >? lit + START) && (dict <? lit + START) = false).
  { destruct Hd as [Hd|Hd].
    - destruct (Z.gtb_spec (dict + n) (lit + START)); [revert Hd; consts; lia | reflexivity].
    - destruct (Z.ltb_spec dict (lit + START)); [lia | apply andb_false_r]. }
  rewrite Hov. cbn [nextSrc base dictBase dictLimit lowLimit nbOvf fst].
  assert (Hex : window_exact (mkWindow (dict + n) (dict - START) lit START START 0) = true <-> n + START < two32).
  { unfold window_exact. cbn [nextSrc base]. rewrite andb_true_iff, Z.leb_le, Z.ltb_lt. revert Hn. consts. lia. }
  repeat split; try reflexivity; try (apply Hex).
  - intro Hf. subst fw. unfold idx. cbn [base]. f_equal. lia.
  - intro Hf. subst fw. reflexivity.
Qed.

Lemma mt_serial_ldm_load_limit_eq :
  forall L lit dict n fw,
    mt_serial_ldm_load (Some L) lit dict n fw =
    if n >? L then mt_serial_ldm_load None lit (dict + (n - L)) L fw else mt_serial_ldm_load None lit dict n fw.
Proof. intros. unfold mt_serial_ldm_load. destruct (n >? L); reflexivity. Qed.

(* the loader of zstdmt_compress.c: whatever the size of the prefix, the serial LDM window starts the frame with
   an exact index at most ZSTD_CURRENT_MAX, and the end of the prefix is the end of the loaded segment *)
Lemma mt_serial_ldm_load_exact_lemma :
  forall lit dict n fw, 0 < n -> away_from_literal lit dict n ->
    let '(w, lde) := mt_serial_ldm_load MT_SERIAL_DICT_LIMIT lit dict n fw in
    window_exact w = true /\ nextSrc w = dict + n /\
    nextSrc w - base w = Z.min n (CURRENT_MAX - START) + START /\ nextSrc w - base w <= CURRENT_MAX /\
    dictLimit w = START /\ lowLimit w = START /\
    (fw = false -> lde = nextSrc w - base w) /\ nbOvf w = 0 /\ (fw = true -> lde = 0).
Proof.
  intros lit dict n fw Hn Hd. unfold MT_SERIAL_DICT_LIMIT. rewrite mt_serial_ldm_load_limit_eq.
  destruct (Z.gtb_spec n (CURRENT_MAX - START)) as [Hgt|Hle].
  - pose proof (mt_serial_ldm_load_index lit (dict + (n - (CURRENT_MAX - START))) (CURRENT_MAX - START) fw) as H.
    destruct (mt_serial_ldm_load None lit (dict + (n - (CURRENT_MAX - START))) (CURRENT_MAX - START) fw) as [w lde].
    destruct H as (Hi & Hb & Hdl & Hll & Hx & Hlde & Hnb & Hfw); [consts; lia | unfold away_from_literal in *; lia |].
    assert (Hns : nextSrc w = dict + n) by lia.
    assert (Hidx : nextSrc w - base w = CURRENT_MAX) by lia.
    split; [apply Hx; consts; lia|].
    split; [exact Hns|].
    split; [rewrite Z.min_r by lia; lia|].
    split; [lia|].
    split; [exact Hdl|].
    split; [exact Hll|].
    split; [|split; [exact Hnb|exact Hfw]].
    intro Hf. rewrite (Hlde Hf). rewrite u32_small by (consts; lia). lia.
  - pose proof (mt_serial_ldm_load_index lit dict n fw Hn Hd) as H.
    destruct (mt_serial_ldm_load None lit dict n fw) as [w lde].
    destruct H as (Hi & Hb & Hdl & Hll & Hx & Hlde & Hnb & Hfw).
    assert (Hidx : nextSrc w - base w = n + START) by lia.
    split; [apply Hx; revert Hle; consts; lia|].
    split; [exact Hi|].
    split; [rewrite Z.min_l by lia; lia|].
    split; [lia|].
    split; [exact Hdl|].
    split; [exact Hll|].
    split; [|split; [exact Hnb|exact Hfw]].
    intro Hf. rewrite (Hlde Hf). rewrite u32_small by (revert Hle Hn; consts; lia). lia.
Qed.

(* why the limit is needed: without it a prefix of 2^32 - START bytes or more wraps the index *)
Lemma mt_serial_ldm_load_needs_limit_lemma :
  forall lit dict n fw, two32 - START <= n -> away_from_literal lit dict n ->
    window_exact (fst (mt_serial_ldm_load None lit dict n fw)) = false.
Proof.
  intros lit dict n fw Hn Hd.
  pose proof (mt_serial_ldm_load_index lit dict n fw) as H.
  destruct (mt_serial_ldm_load None lit dict n fw) as [w lde]. cbn [fst].
  destruct H as (Hi & Hb & Hdl & Hll & Hx & Hlde & _); [revert Hn; consts; lia | exact Hd |].
  destruct (window_exact w) eqn:E; [|reflexivity].
  destruct Hx as [Hx _]. specialize (Hx eq_refl). lia.
Qed.
