(* C15 proofs about ZSTD_window_correctOverflow / needOverflowCorrection / overflowCorrectIfNeeded. *)
From Coq Require Import ZArith Lia Bool List.
From ZV.Index Require Import Window Reduce Overflow.
Import ListNotations.
Local Open Scope Z_scope.
Ltac Zify.zify_post_hook ::= Z.div_mod_to_equations.

(* ---- regenerated constants, as numerals (re-checked against coq/Gen on every run) ---- *)
Lemma START_val : START = 2. Proof. reflexivity. Qed.
Lemma CURRENT_MAX_val : CURRENT_MAX = 3670016000. Proof. reflexivity. Qed.
Lemma CHUNKSIZE_MAX_val : CHUNKSIZE_MAX = 624951295. Proof. reflexivity. Qed.
Lemma BLOCKSIZE_MAX_val : BLOCKSIZE_MAX = 131072. Proof. reflexivity. Qed.
Lemma MARGIN_val : INDEXOVERFLOW_MARGIN = 16777216. Proof. reflexivity. Qed.
Lemma CHAINLOG_MAX_val : CHAINLOG_MAX = 30. Proof. reflexivity. Qed.
Lemma WINDOWLOG_MAX_val : WINDOWLOG_MAX = 31. Proof. reflexivity. Qed.
Lemma HASH_READ_SIZE_val : HASH_READ_SIZE = 8. Proof. reflexivity. Qed.
Lemma DUBT_val : DUBT_UNSORTED_MARK = 1. Proof. reflexivity. Qed.
Lemma ROWSIZE_val : ROWSIZE = 16. Proof. reflexivity. Qed.
Lemma two32_val : two32 = 4294967296. Proof. reflexivity. Qed.
(* ZSTD_CHUNKSIZE_MAX is defined as (U32)-1 - ZSTD_CURRENT_MAX *)
Lemma chunk_plus_current : CURRENT_MAX + CHUNKSIZE_MAX = two32 - 1. Proof. reflexivity. Qed.

Global Opaque START CURRENT_MAX CHUNKSIZE_MAX BLOCKSIZE_MAX INDEXOVERFLOW_MARGIN CHAINLOG_MAX
       WINDOWLOG_MAX HASH_READ_SIZE DUBT_UNSORTED_MARK ROWSIZE two32 two64.

Ltac consts :=
  repeat (rewrite ?START_val, ?CURRENT_MAX_val, ?CHUNKSIZE_MAX_val, ?BLOCKSIZE_MAX_val, ?MARGIN_val,
          ?CHAINLOG_MAX_val, ?WINDOWLOG_MAX_val, ?HASH_READ_SIZE_val, ?DUBT_val, ?ROWSIZE_val, ?two32_val in * ).

(* ---- u32 / powers of two ---- *)
Lemma u32_small x : 0 <= x < two32 -> u32 x = x.
Proof. intros. unfold u32. apply Z.mod_small; assumption. Qed.

Lemma u32_range x : 0 <= u32 x < two32.
Proof. unfold u32. apply Z.mod_pos_bound. consts. lia. Qed.

Lemma u32_sub_wrap x y : 0 <= x < two32 -> 0 <= y < two32 -> x < y -> u32 (x - y) = x - y + two32.
Proof.
  intros. unfold u32. consts.
  symmetry. apply Z.mod_unique with (q := -1); lia.
Qed.

Lemma shiftl1 n : 0 <= n -> Z.shiftl 1 n = 2 ^ n.
Proof. intros. rewrite Z.shiftl_1_l. reflexivity. Qed.

Lemma pow2_mono a b : 0 <= a <= b -> 1 <= 2 ^ a <= 2 ^ b.
Proof.
  intros [Ha Hab]. split.
  - change 1 with (2 ^ 0). apply Z.pow_le_mono_r; lia.
  - apply Z.pow_le_mono_r; lia.
Qed.

Lemma pow2_30 : 2 ^ 30 = 1073741824. Proof. reflexivity. Qed.
Lemma pow2_31 : 2 ^ 31 = 2147483648. Proof. reflexivity. Qed.

(* MAX(maxDist, cycleSize) is a multiple of cycleSize (both are powers of two) *)
Lemma max_pow2_multiple wl cl :
  0 <= wl -> 0 <= cl -> exists m, 1 <= m /\ Z.max (2 ^ wl) (2 ^ cl) = m * 2 ^ cl.
Proof.
  intros Hwl Hcl. destruct (Z_le_gt_dec cl wl) as [H|H].
  - exists (2 ^ (wl - cl)). split.
    + apply (pow2_mono 0 (wl - cl)); lia.
    + rewrite Z.max_l by (apply Z.pow_le_mono_r; lia).
      rewrite <- Z.pow_add_r by lia. f_equal. lia.
  - exists 1. split; [lia|]. rewrite Z.max_r by (apply Z.pow_le_mono_r; lia). lia.
Qed.

Lemma land_mask_mod curr cl : 0 <= cl -> Z.land curr (2 ^ cl - 1) = curr mod 2 ^ cl.
Proof.
  intros. replace (2 ^ cl - 1) with (Z.ones cl) by (rewrite Z.ones_equiv; lia).
  apply Z.land_ones; assumption.
Qed.

(* ---- parameters as the library bounds them (ZSTD_CHAINLOG_MAX, ZSTD_WINDOWLOG_MAX from Gen_Bounds) ---- *)
Definition params_ok (cycleLog windowLog : Z) : Prop :=
  0 <= cycleLog <= CHAINLOG_MAX /\ 0 <= windowLog <= WINDOWLOG_MAX.

Lemma params_pow cycleLog windowLog :
  params_ok cycleLog windowLog ->
  1 <= 2 ^ cycleLog <= 1073741824 /\ 1 <= 2 ^ windowLog <= 2147483648.
Proof.
  unfold params_ok. consts. intros [H1 H2]. rewrite <- pow2_30, <- pow2_31.
  split; apply pow2_mono; lia.
Qed.

Lemma cycleSize_of_pow cl : 0 <= cl <= CHAINLOG_MAX -> cycleSize_of cl = 2 ^ cl.
Proof.
  consts. intros. unfold cycleSize_of. rewrite shiftl1 by lia. apply u32_small. consts.
  pose proof (pow2_mono cl 30 ltac:(lia)). rewrite pow2_30 in *. lia.
Qed.

(* the index below which ZSTD_window_canOverflowCorrect refuses to correct *)
Definition minIndexToOverflowCorrect (cycleLog windowLog : Z) : Z :=
  2 ^ cycleLog + Z.max (2 ^ windowLog) (2 ^ cycleLog) + START.

(* ---- pure arithmetic core ---- *)
Lemma newcur_arith cs m cc q curr :
  1 <= cs -> 1 <= m -> 0 <= cc < cs -> curr = q * cs + cc ->
  cs + m * cs + 2 <= curr ->
  cc + (if cc <? 2 then Z.max cs 2 else 0) + m * cs < curr.
Proof.
  intros Hcs Hm Hcc Hcurr Hmin.
  destruct (cc <? 2) eqn:E.
  - apply Z.ltb_lt in E.
    assert (q >= m + 2 \/ q <= m + 1) as [H|H] by lia.
    + nia.
    + exfalso. nia.
  - apply Z.ltb_ge in E.
    assert (q >= m + 1 \/ q <= m) as [H|H] by lia.
    + nia.
    + exfalso. nia.
Qed.

(* newCurrent without any wrap-around *)
Lemma newCurrent_spec cl wl curr :
  params_ok cl wl -> 0 <= curr < two32 ->
  newCurrent_of cl (2 ^ wl) curr =
    curr mod 2 ^ cl + (if curr mod 2 ^ cl <? START then Z.max (2 ^ cl) START else 0)
    + Z.max (2 ^ wl) (2 ^ cl).
Proof.
  intros Hp Hc. pose proof (params_pow _ _ Hp) as [Hcs Hmd]. destruct Hp as [Hcl Hwl].
  unfold newCurrent_of. rewrite (cycleSize_of_pow cl Hcl).
  rewrite (u32_small (2 ^ cl - 1)) by (consts; lia).
  rewrite land_mask_mod by lia.
  pose proof (Z.mod_pos_bound curr (2 ^ cl) ltac:(lia)) as Hcc.
  set (cc := curr mod 2 ^ cl) in *.
  assert (Hccc : 0 <= (if cc <? START then Z.max (2 ^ cl) START else 0) <= 1073741824).
  { consts. destruct (cc <? 2); lia. }
  rewrite (u32_small (cc + _)) by (consts; lia).
  rewrite u32_small by (consts; lia). reflexivity.
Qed.

Lemma newCurrent_bounds cl wl curr :
  params_ok cl wl -> 0 <= curr < two32 ->
  2 ^ wl + START <= newCurrent_of cl (2 ^ wl) curr <= 2 ^ cl + Z.max (2 ^ wl) (2 ^ cl) + 1.
Proof.
  intros Hp Hc. rewrite newCurrent_spec by assumption.
  pose proof (params_pow _ _ Hp) as [Hcs Hmd].
  pose proof (Z.mod_pos_bound curr (2 ^ cl) ltac:(lia)) as Hcc.
  set (cc := curr mod 2 ^ cl) in *. consts.
  destruct (cc <? 2) eqn:E; [apply Z.ltb_lt in E | apply Z.ltb_ge in E]; lia.
Qed.

(* chain / binary-tree position bits are unchanged *)
Lemma newCurrent_cycle cl wl curr :
  params_ok cl wl -> 0 <= curr < two32 ->
  newCurrent_of cl (2 ^ wl) curr mod 2 ^ cl = curr mod 2 ^ cl.
Proof.
  intros Hp Hc. rewrite newCurrent_spec by assumption.
  pose proof (params_pow _ _ Hp) as [Hcs Hmd]. destruct Hp as [Hcl Hwl].
  destruct (max_pow2_multiple wl cl ltac:(lia) ltac:(lia)) as [m [Hm HM]]. rewrite HM.
  set (cs := 2 ^ cl) in *. set (cc := curr mod cs).
  consts. destruct (cc <? 2).
  - destruct (Z.max_spec cs 2) as [[Hlt ->]|[Hge ->]].
    + (* cs = 1 *) assert (Hcs1 : cs = 1) by lia.
      assert (Hcc0 : cc = 0) by (unfold cc; rewrite Hcs1; apply Z.mod_1_r).
      rewrite Hcc0, Hcs1. apply Z.mod_1_r.
    + replace (cc + cs + m * cs) with (cc + (1 + m) * cs) by lia.
      rewrite Z.mod_add by lia. unfold cc. apply Z.mod_mod. lia.
  - rewrite Z.add_0_r. rewrite Z.mod_add by lia. unfold cc. apply Z.mod_mod. lia.
Qed.

Lemma newCurrent_cycle_land cl wl curr :
  params_ok cl wl -> 0 <= curr < two32 ->
  Z.land (newCurrent_of cl (2 ^ wl) curr) (2 ^ cl - 1) = Z.land curr (2 ^ cl - 1).
Proof.
  intros Hp Hc. destruct Hp as [Hcl Hwl] eqn:E. rewrite !land_mask_mod by lia.
  apply newCurrent_cycle; assumption.
Qed.

(* a correction is a genuine reduction as soon as the index is at least minIndexToOverflowCorrect *)
Lemma newCurrent_lt cl wl curr :
  params_ok cl wl -> 0 <= curr < two32 -> minIndexToOverflowCorrect cl wl <= curr ->
  newCurrent_of cl (2 ^ wl) curr < curr.
Proof.
  intros Hp Hc Hmin. rewrite newCurrent_spec by assumption.
  pose proof (params_pow _ _ Hp) as [Hcs Hmd]. destruct Hp as [Hcl Hwl].
  destruct (max_pow2_multiple wl cl ltac:(lia) ltac:(lia)) as [m [Hm HM]].
  unfold minIndexToOverflowCorrect in Hmin. rewrite HM in *. consts.
  apply newcur_arith with (q := curr / 2 ^ cl); lia.
Qed.

Lemma correction_spec cl wl curr :
  params_ok cl wl -> 0 <= curr < two32 -> minIndexToOverflowCorrect cl wl <= curr ->
  correction_of cl (2 ^ wl) curr = curr - newCurrent_of cl (2 ^ wl) curr /\
  0 < correction_of cl (2 ^ wl) curr < two32.
Proof.
  intros Hp Hc Hmin. pose proof (newCurrent_lt _ _ _ Hp Hc Hmin).
  pose proof (newCurrent_bounds _ _ _ Hp Hc) as [Hlo _].
  pose proof (params_pow _ _ Hp) as [_ Hmd].
  unfold correction_of. rewrite u32_small by (consts; lia). consts. lia.
Qed.

(* monotone clamp of lowLimit / dictLimit *)
Lemma rebase_limit_spec limit corr :
  0 <= limit < two32 -> 0 <= corr -> corr + START < two32 ->
  rebase_limit limit corr = (if limit <? corr + START then START else limit - corr).
Proof.
  intros. unfold rebase_limit. rewrite (u32_small (corr + START)) by (consts; lia).
  destruct (limit <? corr + START) eqn:E; [reflexivity|].
  apply Z.ltb_ge in E. apply u32_small. consts. lia.
Qed.

(* ------------------------------------------------------------------------------------------
   correction_preserves_window
   ------------------------------------------------------------------------------------------ *)
Definition window_bounded (w : window) : Prop :=
  0 <= lowLimit w < two32 /\ 0 <= dictLimit w < two32 /\ 0 <= nbOvf w < two32.

Lemma correction_spec_gen cl wl curr :
  params_ok cl wl -> 0 <= curr < two32 -> newCurrent_of cl (2 ^ wl) curr <= curr ->
  correction_of cl (2 ^ wl) curr = curr - newCurrent_of cl (2 ^ wl) curr /\
  0 <= correction_of cl (2 ^ wl) curr < two32.
Proof.
  intros Hp Hc Hle.
  pose proof (newCurrent_bounds _ _ _ Hp Hc) as [Hlo _].
  pose proof (params_pow _ _ Hp) as [_ Hmd].
  unfold correction_of. rewrite u32_small by (consts; lia). consts. lia.
Qed.

Lemma correction_preserves_window_gen :
  forall (w : window) (cl wl src : Z),
    params_ok cl wl -> window_bounded w ->
    0 <= src - base w < two32 ->
    newCurrent_of cl (2 ^ wl) (src - base w) <= src - base w ->
    let curr := src - base w in
    let '(w', corr) := window_correctOverflow w cl (2 ^ wl) src in
    let newCurrent := src - base w' in
    (* the correction is a genuine reduction, computed without wrap-around *)
    0 <= corr < two32 /\ newCurrent = curr - corr /\ idx w' src = newCurrent /\
    (* the full window stays addressable above the reserved indices *)
    2 ^ wl + START <= newCurrent /\
    newCurrent <= 2 ^ cl + Z.max (2 ^ wl) (2 ^ cl) + 1 /\
    (* chain / binary tree position bits *)
    Z.land newCurrent (2 ^ cl - 1) = Z.land curr (2 ^ cl - 1) /\
    (* limits: clamped at START, order and upper bound kept *)
    START <= lowLimit w' /\ START <= dictLimit w' /\
    (lowLimit w <= dictLimit w -> lowLimit w' <= dictLimit w') /\
    (dictLimit w <= curr -> dictLimit w' <= newCurrent) /\
    (lowLimit w <= curr -> lowLimit w' <= newCurrent) /\
    nextSrc w' = nextSrc w /\ dictBase w' - base w' = dictBase w - base w /\
    nbOvf w' = u32 (nbOvf w + 1) /\
    (* every index that is still reachable keeps its byte, its distance and stays valid *)
    (forall i, corr + START <= i <= curr ->
       base w' + (i - corr) = base w + i /\ dictBase w' + (i - corr) = dictBase w + i /\
       newCurrent - (i - corr) = curr - i /\
       (lowLimit w <= i -> lowLimit w' <= i - corr) /\
       (dictLimit w <= i -> dictLimit w' <= i - corr) /\
       (i < dictLimit w -> i - corr < dictLimit w')) /\
    (* and every index within maxDist of the current position is such an index *)
    (forall i, i <= curr -> curr - i <= 2 ^ wl -> corr + START <= i).
Proof.
  intros w cl wl src Hp Hb Hc Hmin. cbv zeta.
  unfold window_correctOverflow, idx.
  rewrite (u32_small (src - base w)) by assumption.
  set (curr := src - base w) in *.
  destruct (correction_spec_gen cl wl curr Hp Hc Hmin) as [Hcorr Hcr].
  pose proof (newCurrent_bounds cl wl curr Hp Hc) as [Hnlo Hnhi].
  pose proof (newCurrent_cycle_land cl wl curr Hp Hc) as Hcyc.
  pose proof (params_pow _ _ Hp) as [Hcs Hmd].
  set (corr := correction_of cl (2 ^ wl) curr) in *.
  set (nc := newCurrent_of cl (2 ^ wl) curr) in *.
  destruct Hb as [Hlow [Hdl Hnb]].
  cbn [base dictBase lowLimit dictLimit nbOvf nextSrc].
  assert (Hcs2 : corr + START < two32) by (consts; lia).
  rewrite !rebase_limit_spec by (try assumption; lia).
  replace (src - (base w + corr)) with nc by lia.
  rewrite (u32_small nc) by (consts; lia).
  consts.
  repeat split; intros;
    repeat match goal with |- context [?a <? ?b] => destruct (Z.ltb_spec a b) end; try lia.
Qed.

Lemma correction_preserves_window_lemma :
  forall (w : window) (cl wl src : Z),
    params_ok cl wl -> window_bounded w ->
    0 <= src - base w < two32 ->
    minIndexToOverflowCorrect cl wl <= src - base w ->
    let curr := src - base w in
    let '(w', corr) := window_correctOverflow w cl (2 ^ wl) src in
    let newCurrent := src - base w' in
    (* the correction is a genuine reduction, computed without wrap-around *)
    0 < corr < two32 /\ newCurrent = curr - corr /\ idx w' src = newCurrent /\
    (* the full window stays addressable above the reserved indices *)
    2 ^ wl + START <= newCurrent /\
    newCurrent <= 2 ^ cl + Z.max (2 ^ wl) (2 ^ cl) + 1 /\
    (* chain / binary tree position bits *)
    Z.land newCurrent (2 ^ cl - 1) = Z.land curr (2 ^ cl - 1) /\
    (* limits: clamped at START, order and upper bound kept *)
    START <= lowLimit w' /\ START <= dictLimit w' /\
    (lowLimit w <= dictLimit w -> lowLimit w' <= dictLimit w') /\
    (dictLimit w <= curr -> dictLimit w' <= newCurrent) /\
    (lowLimit w <= curr -> lowLimit w' <= newCurrent) /\
    nextSrc w' = nextSrc w /\ dictBase w' - base w' = dictBase w - base w /\
    nbOvf w' = u32 (nbOvf w + 1) /\
    (* every index that is still reachable keeps its byte, its distance and stays valid *)
    (forall i, corr + START <= i <= curr ->
       base w' + (i - corr) = base w + i /\ dictBase w' + (i - corr) = dictBase w + i /\
       newCurrent - (i - corr) = curr - i /\
       (lowLimit w <= i -> lowLimit w' <= i - corr) /\
       (dictLimit w <= i -> dictLimit w' <= i - corr) /\
       (i < dictLimit w -> i - corr < dictLimit w')) /\
    (* and every index within maxDist of the current position is such an index *)
    (forall i, i <= curr -> curr - i <= 2 ^ wl -> corr + START <= i).
Proof.
  intros w cl wl src Hp Hb Hc Hmin.
  pose proof (newCurrent_lt cl wl (src - base w) Hp Hc Hmin) as Hlt.
  pose proof (correction_preserves_window_gen w cl wl src Hp Hb Hc ltac:(lia)) as H.
  cbv zeta in H |- *.
  destruct (window_correctOverflow w cl (2 ^ wl) src) as [w' corr] eqn:Ew.
  destruct H as (H1 & H2 & H3 & Hrest).
  assert (Hcorr : corr = correction_of cl (2 ^ wl) (idx w src)) by (unfold window_correctOverflow in Ew; inversion Ew; reflexivity).
  unfold idx in Hcorr. rewrite (u32_small (src - base w)) in Hcorr by assumption.
  destruct (correction_spec cl wl (src - base w) Hp Hc Hmin) as [_ Hpos]. rewrite <- Hcorr in Hpos.
  split; [exact Hpos|]. split; [exact H2|]. split; [exact H3|]. exact Hrest.
Qed.
